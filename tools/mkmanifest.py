#!/usr/bin/env python3
"""Regenerates /verif/MANIFEST.json from the table below (kept in one place so
that the manifest stays valid and current).  Run: python3 tools/mkmanifest.py"""
import json, os, subprocess, sys

ROOT = os.path.dirname(os.path.dirname(os.path.abspath(__file__)))

# claims live in tools/claims/<id>.json: {"technique","text","note","design_ref"};
# tools/claims/<id>.na contains the one-line reason of a property that is not claimed.
def load_claims():
    out = {}
    d = os.path.join(ROOT, "tools", "claims")
    for fn in sorted(os.listdir(d)):
        pid, ext = os.path.splitext(fn)
        if ext == ".json":
            j = json.load(open(os.path.join(d, fn)))
            out[pid] = (True, j["technique"], j["text"], j["note"], j["design_ref"])
        elif ext == ".na":
            out[pid] = (False, open(os.path.join(d, fn)).read().strip())
    return out


NOT_YET = "check not built yet (work in progress, see DESIGN.md section 4 for the planned structural clause)"


def main():
    CLAIMS = load_claims()
    props = [json.loads(l) for l in open(os.path.join(ROOT, "properties.jsonl"))]
    checks, na = [], []
    for p in props:
        pid = p["id"]
        c = CLAIMS.get(pid)
        if c and c[0]:
            _, technique, text, note, ref = c
            # the rule ids actually evaluated by the last run (evidence), so that the claim names every
            # clause added after the seeded rounds and gap reviews; statements are in RULES.md / DESIGN.md section 4
            ev = os.path.join(ROOT, "evidence", pid + ".json")
            if os.path.exists(ev):
                try:
                    cov = json.load(open(ev))["coverage"]
                    rules = sorted(k.split(".", 1)[1] for k in cov.get("instances_by_rule", {}) if not k.endswith(".selftest"))
                    text = text + " Rules evaluated (%d instances on the current tree; each is a structural necessary condition, stated in RULES.md): %s." % (
                        len(cov.get("instances", [])), ", ".join(rules))
                except Exception:
                    pass
            checks.append({
                "property_id": pid,
                "quick_cmd": "./check.sh %s quick" % pid,
                "thorough_cmd": "./check.sh %s thorough" % pid,
                "evidence_file": "/verif/evidence/%s.json" % pid,
                "replay_cmd_template": "./check.sh %s quick  # re-evaluates the rule instances listed in {path} on the current tree" % pid,
                "engine": "aergocheck",
                "level_claimed": {"category": "other", "text": text, "design_ref": ref},
                "level_note": note,
                "technique": "static analysis: " + technique,
            })
        else:
            na.append({"property_id": pid, "reason": c[1] if c else NOT_YET})
    m = {
        "version": 1,
        "setup_cmd": "cd /verif/checker && env -u GOWORK GOFLAGS=-mod=mod GOPROXY=off GOSUMDB=off GOTOOLCHAIN=local go build -o /verif/bin/aergocheck ./cmd/aergocheck",
        "hooks": {
            "guard": "verif",
            "enable": "none: the checker reads the source of /repo (go/packages, default build configuration); no instrumentation is compiled in",
            "baseline_off_cmd": "cd /repo && go test -mod=mod -vet=off -count=1 -timeout 25m ./...",
            "source_commits": [],
            "add_only": True,
        },
        "engines": [{
            "name": "aergocheck",
            "path": "/verif/checker",
            "serves_properties": [c["property_id"] for c in checks],
            "kind_free_text": "repository-specific static analyser: go/packages + go/types + go/cfg, AST-level call graph (static, CHA for interfaces, function-valued fields), dominance / guard-implication / site-enumeration / field-coverage engines; clang JSON AST for the C host modules",
        }],
        "checks": checks,
        "not_applicable": na,
        "notes": "All checks are static: nothing of /repo is executed. Exit 0 = all rule instances hold (KNOWN-FINDING lines for entries of known_findings.txt); exit 1 + VIOLATION line = an instance fails; exit 2 = the checker could not decide (load error, lost anchor, instance floor).",
    }
    json.dump(m, open(os.path.join(ROOT, "MANIFEST.json"), "w"), indent=1)
    print("MANIFEST.json: %d checks, %d not_applicable" % (len(checks), len(na)))


if __name__ == "__main__":
    main()
