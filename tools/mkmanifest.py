#!/usr/bin/env python3
"""Regenerates /verif/MANIFEST.json from the table below (kept in one place so
that the manifest stays valid and current).  Run: python3 tools/mkmanifest.py"""
import json, os, subprocess, sys

ROOT = os.path.dirname(os.path.dirname(os.path.abspath(__file__)))

# property id -> (claimed?, technique, level text, level note, design ref)   or (False, reason)
CLAIMS = {
    "C20": (True,
            "guard dominance over go/cfg + boolean implication of branch outcomes, same-package call summaries, who-may-write enumeration over go/types",
            "Decides, on every control-flow path of every exported host callback of package contract (51 entry points) and of the helpers they call, that each state-mutating call (storage, balance, nonce, code, events, governance, writable SQL handle) is dominated by the read-only guard; plus closed writer sets for the read-only markers and the constructor used by the read-only entry points. The property is itself a statement about all paths of all host entry points, which is exactly what the rule enumerates; the tests cannot link package contract here at all.",
            "Trusted: go/types, go/cfg (x/tools v0.29.0), the frozen mutator table (cross-checked against role discovery of state writers on every run). Not decided: LuaJIT and SQLite behaviour, value-level equality of roots. Calls through C back into Go are separate entry points.",
            "DESIGN.md section 4, C20"),
    "C04": (True,
            "gate dominance over go/cfg (success edges of validation calls), ordering abstraction of comparison operators (trichotomy), value provenance of verifier operands",
            "Decides that in the transaction executor every execution or state-writing call is dominated by the success edges of the verified-account comparison, tx.Validate(chain id hash of the block) and tx.ValidateWithSenderState; that the nonce guard rejects both strict orderings of (state nonce+1, tx nonce) and accepts equality, and the stored nonce is the compared field; that Validate compares chain-id hash and recomputed tx hash before its type switch; that every accepting return of the pool-side and block-side signature verifiers is dominated by a successful ECDSA verification over the sign-less digest with the sender's key (or the documented mempool-hit shortcut, whose pool-entry gate is checked), and that a received block is rewarded/committed only after the signature wait succeeded. These are all-paths facts about the real functions, including packages that cannot be linked or tested in this environment.",
            "Trusted: go/types, go/cfg. Not decided: ECDSA itself, nonce sequences along reorganisation histories, pool/chain interplay over time.",
            "DESIGN.md section 4, C04"),
}

NOT_YET = "check not built yet (work in progress, see DESIGN.md section 4 for the planned structural clause)"


def main():
    props = [json.loads(l) for l in open(os.path.join(ROOT, "properties.jsonl"))]
    checks, na = [], []
    for p in props:
        pid = p["id"]
        c = CLAIMS.get(pid)
        if c and c[0]:
            _, technique, text, note, ref = c
            checks.append({
                "property_id": pid,
                "quick_cmd": "./check.sh %s quick" % pid,
                "thorough_cmd": "./check.sh %s thorough" % pid,
                "evidence_file": "/verif/evidence/%s.json" % pid,
                "replay_cmd_template": "./check.sh %s quick  # re-evaluates the rule instances listed in {path} on the current tree" % pid,
                "engine": "aergocheck",
                "level_claimed": {"category": "other", "text": text, "design_ref": ref},
                "level_note": note,
                "technique": "static analysis: " + technique,
            })
        else:
            na.append({"property_id": pid, "reason": c[1] if c else NOT_YET})
    m = {
        "version": 1,
        "setup_cmd": "cd /verif/checker && env -u GOWORK GOFLAGS=-mod=mod GOPROXY=off GOSUMDB=off GOTOOLCHAIN=local go build -o /verif/bin/aergocheck ./cmd/aergocheck",
        "hooks": {
            "guard": "verif",
            "enable": "none: the checker reads the source of /repo (go/packages, default build configuration); no instrumentation is compiled in",
            "baseline_off_cmd": "cd /repo && go test -mod=mod -vet=off -count=1 -timeout 25m ./...",
            "source_commits": [],
            "add_only": True,
        },
        "engines": [{
            "name": "aergocheck",
            "path": "/verif/checker",
            "serves_properties": [c["property_id"] for c in checks],
            "kind_free_text": "repository-specific static analyser: go/packages + go/types + go/cfg, AST-level call graph (static, CHA for interfaces, function-valued fields), dominance / guard-implication / site-enumeration / field-coverage engines; clang JSON AST for the C host modules",
        }],
        "checks": checks,
        "not_applicable": na,
        "notes": "All checks are static: nothing of /repo is executed. Exit 0 = all rule instances hold (KNOWN-FINDING lines for entries of known_findings.txt); exit 1 + VIOLATION line = an instance fails; exit 2 = the checker could not decide (load error, lost anchor, instance floor).",
    }
    json.dump(m, open(os.path.join(ROOT, "MANIFEST.json"), "w"), indent=1)
    print("MANIFEST.json: %d checks, %d not_applicable" % (len(checks), len(na)))


if __name__ == "__main__":
    main()
