#!/bin/sh
# usage: seedcheck.sh <patch.diff> [prop-list|all]
# Applies a seeded change to a scratch worktree of /repo (outside /repo and /verif), runs the static
# checks against it and prints, per property, whether a violation was reported.  The scratch
# worktree is removed afterwards.  Nothing is written to /verif/evidence (uses a temp out dir).
set -u
PATCH=$(readlink -f "$1"); PROPS=${2:-all}
WT=$(mktemp -d /tmp/seedwt.XXXXXX); OUT=$(mktemp -d /tmp/seedout.XXXXXX)
rmdir "$WT"
git -C /repo worktree add --detach "$WT" HEAD >/dev/null 2>&1 || { echo "cannot create worktree"; exit 2; }
trap 'git -C /repo worktree remove --force "$WT" >/dev/null 2>&1; rm -rf "$OUT"' EXIT
if ! git -C "$WT" apply "$PATCH"; then echo "PATCH-DOES-NOT-APPLY"; exit 2; fi
cp /verif/known_findings.txt "$OUT/"
cd /verif && [ -x bin/aergocheck ] || ./check.sh C20 >/dev/null 2>&1
VERIF_REPO="$WT" /verif/bin/aergocheck -prop "$PROPS" -verif "$OUT" 2>&1 | grep -E "tier=|  violation |VIOLATION|UNDECIDED|CHECKER-ERROR" | cut -c1-400
