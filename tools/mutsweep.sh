#!/bin/sh
# usage: mutsweep.sh CNN [props]   -- runs every recorded mutation of a property (seeded/_mut/CNN/*.diff, written by
# the gap reviewers) against the checks (default: the property's own check) in scratch worktrees, 6 at a time, and
# compares with index.json: a mutation with breaks_property=true must be reported unless its note says out of reach
# (reported_by empty), a benign one (breaks_property=false) must stay silent.
cd /verif || exit 2
P=$1; PROPS=${2:-$1}; D=seeded/_mut/$P
[ -d $D ] || { echo "no $D"; exit 2; }
tmp=$(mktemp -d /tmp/mutsweep.XXXXXX)
ls $D/*.diff | xargs -P 6 -I{} sh -c 'tools/seedcheck.sh {} '"$PROPS"' > '$tmp'/$(basename {} .diff).out 2>&1'
python3 - $D $tmp <<'PY'
import json,sys,os,re
d,tmp=sys.argv[1],sys.argv[2]
idx={e['name'].replace('.diff',''):e for e in json.load(open(d+'/index.json'))}
bad=0
for f in sorted(os.listdir(tmp)):
    name=f[:-4]; out=open(os.path.join(tmp,f)).read()
    rep=bool(re.search(r'^VIOLATION',out,re.M)); und=bool(re.search(r'UNDECIDED|CHECKER-ERROR',out))
    if 'PATCH-DOES-NOT-APPLY' in out or 'patch does not apply' in out:
        print('%-45s %-20s (the tree moved away from the diff: /repo was repaired there)'%(name,'stale')); continue
    e=idx.get(name,{})
    breaks=e.get('breaks_property'); expect=bool(e.get('reported_by'))
    if name.startswith('benign'): breaks=False; expect=False
    status='ok'
    if breaks is False and (rep or und): status='FALSE-ALARM'; bad+=1
    elif breaks and expect and not rep: status='MISSED(regression)'; bad+=1
    elif breaks and not expect and not rep: status='out-of-reach'
    elif breaks is None: status='not-in-index rep=%s'%rep
    keys=' '.join(sorted(set(re.findall(r'^  violation (\S+)',out,re.M)))[:2])
    print('%-45s %-20s reported=%s undecided=%s %s'%(name,status,rep,und,keys[:120]))
print('problems:',bad)
PY
rm -rf $tmp
