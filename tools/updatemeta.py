#!/usr/bin/env python3
"""Writes the outcome of tools/seedsweep.sh (seeded/RESULTS.md) into seeded/*/meta.json:
detected_by_checks (space separated property ids) and reported_rule_instances."""
import json, re, os
# reported (by any property's check) by the checks as they stood when the seed arrived
first_r3 = {"C01c", "C05c", "C06c", "C07c", "C08c", "C09c", "C12c", "C13c", "C15c", "C16c", "C17c", "C19c"}
first_r4 = {"C01d", "C02d", "C03d", "C04d", "C05d", "C06d", "C07d", "C09d", "C10d", "C11d", "C12d", "C13d", "C16d", "C17d", "C18d", "C20d"}
first_r2 = {"C02b", "C06b", "C07b", "C11b", "C13b", "C16b", "C17b", "C18b"}  # caught before any rule was added for round 2
for line in open("/verif/seeded/RESULTS.md"):
    m = re.match(r"\| (C\d\d\w) \| (C\d\d) \| (.*?) \| (.*?) \|$", line.strip())
    if not m:
        continue
    seed, prop, props, keys = m.groups()
    props = re.sub(r"\[.*?\]", "", props).replace("(none)", "").split()
    p = "/verif/seeded/%s/meta.json" % seed
    meta = json.load(open(p))
    meta["detected_by_checks"] = " ".join(props)
    meta["reported_rule_instances"] = keys.strip()
    if meta.get("round") == 2:
        meta["detected_by_first_version_of_checks"] = seed in first_r2
    if meta.get("round") == 3:
        meta["detected_by_first_version_of_checks"] = seed in first_r3
    if meta.get("round") == 4:
        meta["detected_by_first_version_of_checks"] = seed in first_r4
    json.dump(meta, open(p, "w"), indent=1)
    print(seed, prop, props)
