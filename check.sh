#!/bin/sh
# usage: check.sh <property id> [quick|thorough]
# Runs the static checker for one property on /repo's current working tree.
cd "$(dirname "$0")" || exit 2
export GOFLAGS=-mod=mod GOPROXY=off GOSUMDB=off GOTOOLCHAIN=local
unset GOWORK
if [ ! -x bin/aergocheck ] || [ -n "$(find checker -name '*.go' -newer bin/aergocheck 2>/dev/null | head -1)" ]; then
  (cd checker && go build -o ../bin/aergocheck ./cmd/aergocheck) || { echo "CHECKER-ERROR: build failed"; exit 2; }
fi
exec ./bin/aergocheck -prop "$1" -tier "${2:-${VERIF_TIER:-quick}}" -verif "$(pwd)"
