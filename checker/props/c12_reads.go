package props

import (
	"go/ast"
	"go/token"
	"go/types"
	"sort"
	"strings"

	"verif/checker/internal/an"
)

// C12, third part: what a read sees.
//
//   read-through    a reader that consults the buffer and then the trie reads the
//                   trie only when the buffer has no entry for the key (a buffered
//                   delete must not fall through to the committed value)
//   key-agreement   writers and readers of one buffer derive the log key the same way
//   undo-on-error   a function that takes a local snapshot() of a buffer rolls back
//                   to it on every error exit
//   delete-visible  (conditional) has() treats a buffered delete like get() does,
//                   as soon as HasKey is used by non-test code

const (
	c12FnStorageGet = "state/statedb.(*bufferedStorage).get"
	c12FnStorageHas = "state/statedb.(*bufferedStorage).has"
	c12FnStoragePut = "state/statedb.(*bufferedStorage).put"
	c12FnBufHas     = "state/statedb.(*stateBuffer).has"
	c12FnTrieGet    = "pkg/trie.(*Trie).Get"
)

// ---------------------------------------------------------------------------
// rule read-through

// trieReaders: functions of the package that (transitively, inside the
// package) call Trie.Get.
func (e *c12Env) trieReaders() map[string]bool {
	out := map[string]bool{c12FnTrieGet: true}
	for changed := true; changed; {
		changed = false
		for _, f := range e.p.Funcs() {
			if f.Pkg != e.pk || f.Body == nil || out[f.Name()] {
				continue
			}
			for _, call := range an.CallsIn(f.Body) {
				if out[an.CalleeName(f.Info(), call)] {
					out[f.Name()] = true
					changed = true
					break
				}
			}
		}
	}
	return out
}

func (e *c12Env) ruleReadThrough() {
	c := e.c
	readers := e.trieReaders()
	n := 0
	for _, f := range e.p.Funcs() {
		if f.Pkg != e.pk || f.Body == nil {
			continue
		}
		g := f.Graph()
		info := f.Info()
		gets := g.CallsTo(c12FnGet, c12FnStorageGet)
		if len(gets) == 0 {
			continue
		}
		var trie []an.Site
		for _, s := range g.Calls(nil) {
			if s.Fn != nil && readers[an.FuncName(s.Fn)] {
				trie = append(trie, s)
			}
		}
		if len(trie) == 0 {
			continue // forwarder / buffer-only reader
		}
		if len(gets) != 1 {
			c.Undecide("read-through", f.Name(), "more than one buffer lookup in a function that also reads the trie")
			continue
		}
		entry := g.ResultVarAt(gets[0], 0)
		if entry == nil {
			c.Undecide("read-through", f.Name(), "the buffer lookup result is not stored in a variable")
			continue
		}
		if c12DefOf(g, entry).count != 1 {
			c.Undecide("read-through", f.Name(), "the looked-up entry variable is reassigned")
			continue
		}
		// the objects the buffer key is made of
		keyObjs := map[types.Object]bool{}
		var collect func(x ast.Expr, depth int)
		collect = func(x ast.Expr, depth int) {
			ast.Inspect(x, func(m ast.Node) bool {
				if id, ok := m.(*ast.Ident); ok {
					if o, isVar := an.ObjOf(info, id).(*types.Var); isVar && !o.IsField() {
						keyObjs[o] = true
						if d := c12DefOf(g, o); depth < 2 && d.count == 1 && d.rhs != nil {
							collect(d.rhs, depth+1)
						}
					}
				}
				return true
			})
		}
		for _, a := range gets[0].Call.Args {
			collect(a, 0)
		}
		for _, t := range trie {
			n++
			guarded, how := g.GuardedAt(t.Node, an.NilAtom(info, entry), map[string]bool{"nil": true})
			after := g.Dominated(t.Node, an.SetOf(gets[0].Node))
			c.Check("read-through", f.Name()+"|"+an.FuncName(t.Fn), t.Call.Pos(), guarded && after,
				f.Name()+" reads the trie ("+an.FuncName(t.Fn)+") only when the buffer has no entry for the key: a buffered write or delete always wins ("+how+")")
			same := false
			for _, a := range t.Call.Args {
				ast.Inspect(a, func(m ast.Node) bool {
					if id, ok := m.(*ast.Ident); ok && keyObjs[an.ObjOf(info, id)] {
						same = true
					}
					return true
				})
			}
			c.Check("read-through", f.Name()+"|same-key", t.Call.Pos(), same, "the trie is read under the key the buffer was consulted with")
		}
	}
	_ = n
	c.Floor("read-through", 3)
}

// ---------------------------------------------------------------------------
// rule key-agreement

// keyDerivation describes how a log key expression is made from plain
// variables: "conv:T(<type>)", "call:F(<type>)", "var:pkg.V", "param" (a bare
// parameter: the function only forwards the key), or "" (unrecognised).
// Variables at the leaves are abstracted to their type, locals defined once
// are expanded, trivial one-line wrappers are inlined.
func (e *c12Env) keyDerivation(g *an.Graph, x ast.Expr, depth int) string {
	info := g.Fn.Info()
	qual := func(p *types.Package) string { return an.Rel(p.Path()) }
	x = ast.Unparen(x)
	if depth > 4 {
		return ""
	}
	switch v := x.(type) {
	case *ast.Ident:
		o := an.ObjOf(info, v)
		vo, isVar := o.(*types.Var)
		if !isVar {
			return ""
		}
		if vo.Parent() != nil && vo.Pkg() != nil && vo.Parent() == vo.Pkg().Scope() {
			return "var:" + an.Rel(vo.Pkg().Path()) + "." + vo.Name()
		}
		if c12IsParam(g.Fn, o) {
			if depth == 0 {
				return "param"
			}
			return "<" + types.TypeString(vo.Type(), qual) + ">"
		}
		d := c12DefOf(g, o)
		if d.count == 1 && d.rhs != nil && d.idx == 0 {
			return e.keyDerivation(g, d.rhs, depth+1)
		}
		if depth == 0 {
			return ""
		}
		return "<" + types.TypeString(vo.Type(), qual) + ">"
	case *ast.SliceExpr:
		if v.Low == nil && v.High == nil {
			return e.keyDerivation(g, v.X, depth+1) + "[:]"
		}
		return ""
	case *ast.CallExpr:
		var args []string
		for _, a := range v.Args {
			d := e.keyDerivation(g, a, depth+1)
			if d == "" {
				if tv, ok := info.Types[a]; ok && tv.Type != nil {
					d = "<" + types.TypeString(tv.Type, qual) + ">"
				}
			}
			args = append(args, d)
		}
		if tv, ok := info.Types[v.Fun]; ok && tv.IsType() {
			return "conv:" + types.TypeString(tv.Type, qual) + "(" + strings.Join(args, ",") + ")"
		}
		fn := an.Callee(info, v)
		if fn == nil {
			return ""
		}
		// inline trivial wrappers:  func k(b []byte) HashID { return F(b) }
		if wf := e.p.FuncOf(fn); wf != nil && wf.Body != nil && len(wf.Body.List) == 1 && wf.Pkg == e.pk {
			if rs, ok := wf.Body.List[0].(*ast.ReturnStmt); ok && len(rs.Results) == 1 {
				if _, isCall := ast.Unparen(rs.Results[0]).(*ast.CallExpr); isCall {
					if d := e.keyDerivation(wf.Graph(), rs.Results[0], depth+1); d != "" {
						return d
					}
				}
			}
		}
		return "call:" + an.FuncName(fn) + "(" + strings.Join(args, ",") + ")"
	}
	return ""
}

func (e *c12Env) ruleKeyAgreement() {
	c := e.c
	// key sites: (callee, index of the key argument)
	keyArg := map[string]int{
		"state/statedb.newValueEntry":       0,
		"state/statedb.newValueEntryDelete": 0,
		c12FnNewMeta:                        0,
		c12FnGet:                            0,
		c12FnBufHas:                         0,
		c12FnStorageGet:                     0,
		c12FnStorageHas:                     0,
	}
	for k := range keyArg {
		pkgRel, recv, name := splitName(k)
		if !lookupMethodExists(e.p, pkgRel, recv, name) {
			c.Undecide("key-agreement", k, "key site anchor not found")
		}
	}
	type site struct {
		fn   string
		kind string // "write" | "read"
		der  string
		pos  token.Pos
	}
	groups := map[string][]site{}
	for _, f := range e.p.Funcs() {
		if f.Pkg != e.pk || f.Body == nil || f.Obj == nil {
			continue
		}
		sig := f.Obj.Type().(*types.Signature)
		grp := "<functions>"
		if sig.Recv() != nil {
			t := sig.Recv().Type()
			if p, ok := t.(*types.Pointer); ok {
				t = p.Elem()
			}
			if nt, ok := t.(*types.Named); ok {
				grp = nt.Obj().Name()
			}
		}
		g := f.Graph()
		for _, call := range an.CallsIn(f.Body) {
			name := an.CalleeName(f.Info(), call)
			idx, ok := keyArg[name]
			if !ok || idx >= len(call.Args) {
				continue
			}
			kind := "read"
			if strings.Contains(name, ".new") {
				kind = "write"
			}
			groups[grp] = append(groups[grp], site{f.Name(), kind, e.keyDerivation(g, call.Args[idx], 0), call.Pos()})
		}
	}
	var gnames []string
	for k := range groups {
		gnames = append(gnames, k)
	}
	sort.Strings(gnames)
	nGroups := 0
	for _, gn := range gnames {
		ders := map[string][]string{}
		kinds := map[string]bool{}
		for _, s := range groups[gn] {
			if s.der == "param" {
				continue // forwarder: decided at its callers
			}
			if s.der == "" {
				c.Undecide("key-agreement", gn+"|"+s.fn, "cannot tell how the log key is derived at "+e.p.Pos(s.pos))
				continue
			}
			ders[s.der] = append(ders[s.der], s.fn)
			kinds[s.kind] = true
		}
		if len(ders) == 0 {
			continue
		}
		// meta keys (package variables) are their own family
		var fam []string
		for d := range ders {
			if !strings.HasPrefix(d, "var:") {
				fam = append(fam, d)
			}
		}
		sort.Strings(fam)
		if len(fam) == 0 {
			continue
		}
		nGroups++
		msg := "all value-entry writers and buffer readers of " + gn + " derive the log key the same way (" + strings.Join(fam, " / ") + ")"
		if len(fam) > 1 {
			var parts []string
			for _, d := range fam {
				parts = append(parts, d+" in "+strings.Join(ders[d], ", "))
			}
			msg += " -- FAILS: " + strings.Join(parts, "; ") + ": a write under one derivation is invisible to a read (or a delete) under the other"
		}
		c.Check("key-agreement", gn, token.NoPos, len(fam) == 1, msg)
		c.CheckTrivial("key-agreement", gn+"|both-sides", token.NoPos, kinds["write"] && kinds["read"], gn+" has both key-deriving writers and readers (the agreement is not vacuous)")
	}
	c.Floor("key-agreement", 3)
}

// ---------------------------------------------------------------------------
// rule undo-on-error

func (e *c12Env) ruleUndoOnError() {
	c := e.c
	errT := types.Universe.Lookup("error").Type()
	n := 0
	for _, f := range e.p.Funcs() {
		if f.Pkg != e.pk || f.Body == nil || f.Obj == nil {
			continue
		}
		sig := f.Obj.Type().(*types.Signature)
		if sig.Results().Len() == 0 || !types.Identical(sig.Results().At(sig.Results().Len()-1).Type(), errT) {
			continue
		}
		g := f.Graph()
		info := f.Info()
		for _, s := range g.CallsTo(c12FnSnapshot) {
			v := g.ResultVarAt(s, 0)
			bp, is := c12RecvPath(info, s.Call)
			if v == nil || !is {
				continue // returned directly (public Snapshot) or not an access path
			}
			if _, isLocal := v.(*types.Var); !isLocal {
				continue
			}
			// the buffer is written after the snapshot in this function?
			writes := false
			for _, w := range g.Calls(nil) {
				if w.Fn != nil && an.FuncName(w.Fn) == c12FnPut && g.Reachable(s.Node, w.Node) {
					if wp, ok := c12RecvPath(info, w.Call); ok && wp.eq(bp) {
						writes = true
					}
				}
			}
			if !writes {
				continue
			}
			undo := an.Set{}
			for _, r := range g.CallsTo(c12FnRollback) {
				rp, ok := c12RecvPath(info, r.Call)
				if ok && rp.eq(bp) && an.ObjOf(info, c12Unconv(info, r.Call.Args[0])) == v {
					undo[r.Node] = true
				}
			}
			reach := g.Reach(s.Node.Succs, undo)
			for _, r := range g.Returns() {
				rs := r.Ast.(*ast.ReturnStmt)
				if len(rs.Results) == 0 {
					continue
				}
				last := ast.Unparen(rs.Results[len(rs.Results)-1])
				if tv, has := info.Types[last]; has && tv.IsNil() {
					continue
				}
				if !g.Reachable(s.Node, r) {
					continue
				}
				n++
				c.Check("undo-on-error", f.Name()+"|return "+an.ExprString(last), rs.Pos(), !reach[r],
					f.Name()+" writes to "+bp.String()+" after taking "+v.Name()+" := snapshot(): every error return after it rolls the buffer back to "+v.Name()+" first (no partial update survives a failed call)")
			}
		}
	}
	_ = n
	c.Floor("undo-on-error", 1)
}

// ---------------------------------------------------------------------------
// rule delete-visible (conditional on liveness, like meta-skip)

func (e *c12Env) ruleDeleteVisible() {
	c := e.c
	fh := e.p.Func(c12FnBufHas)
	if fh == nil {
		c.Note("delete-visible: stateBuffer.has no longer exists; nothing to decide")
		return
	}
	// transitive callers of stateBuffer.has
	closure := map[string]bool{c12FnBufHas: true}
	outside := []string{}
	for changed := true; changed; {
		changed = false
		for _, s := range e.p.CallSitesOf(closure) {
			fn := c12TopName(s.Fn)
			if s.Fn != nil && s.Fn.Pkg != e.pk {
				outside = append(outside, fn)
				continue
			}
			if !closure[fn] {
				closure[fn] = true
				changed = true
			}
		}
	}
	// does any function of the closure look at the entry's value?
	valueAware := false
	for k := range closure {
		if f := e.p.Func(k); f != nil && f.Body != nil {
			for _, call := range an.CallsIn(f.Body) {
				if fn := an.Callee(f.Info(), call); fn != nil && fn.Name() == "Value" && strings.HasPrefix(an.FuncName(fn), c12Pkg+".") {
					valueAware = true
				}
			}
		}
	}
	names := c12SortedKeys(closure)
	if len(outside) == 0 {
		if !valueAware {
			c.Note("delete-visible (latent, no caller outside the package): %s report a key as present when its latest buffered entry is a delete (value nil), while GetData reports it as absent", strings.Join(names, ", "))
		}
		c.CheckTrivial("delete-visible", c12FnBufHas, fh.Pos(), true, "no non-test code outside the package asks has()/HasKey(); value-aware: "+c12Bool(valueAware))
		return
	}
	sort.Strings(outside)
	c.Check("delete-visible", c12FnBufHas, fh.Pos(), valueAware, "has()/HasKey() is used by "+strings.Join(outside, ", ")+" but decides presence by membership in indexes only: a key whose latest buffered entry is a delete is reported as present although GetData returns nothing for it")
}
