package props

import (
	"bytes"
	"encoding/json"
	"go/token"
	"os"
	"os/exec"
	"path/filepath"
	"sort"

	"verif/checker/internal/an"
	"verif/checker/internal/rep"
)

// ---------------------------------------------------------------------------
// E9 cfront: call-order rules over the clang JSON AST of the C host modules.
// The AST is produced by `clang -fsyntax-only -Xclang -ast-dump=json` (error
// recovery: the forked LuaJIT headers are absent, unknown functions become
// implicit declarations, which is all a call-order rule needs).

type cnode struct {
	Kind   string   `json:"kind"`
	Name   string   `json:"name"`
	Opcode string   `json:"opcode"`
	Value  any      `json:"value"`
	Inner  []*cnode `json:"inner"`
	Ref    *struct {
		Name string `json:"name"`
	} `json:"referencedDecl"`
	Type *struct {
		QualType string `json:"qualType"`
	} `json:"type"`
}

func (n *cnode) walk(f func(*cnode) bool) {
	if n == nil || !f(n) {
		return
	}
	for _, c := range n.Inner {
		c.walk(f)
	}
}

// calleeName of a CallExpr node.
func (n *cnode) calleeName() string {
	if n.Kind != "CallExpr" || len(n.Inner) == 0 {
		return ""
	}
	name := ""
	n.Inner[0].walk(func(m *cnode) bool {
		if m.Kind == "DeclRefExpr" && m.Ref != nil && name == "" {
			name = m.Ref.Name
		}
		return name == ""
	})
	return name
}

func (n *cnode) callsAny(names map[string]bool) bool {
	found := false
	n.walk(func(m *cnode) bool {
		if m.Kind == "CallExpr" && names[m.calleeName()] {
			found = true
		}
		return !found
	})
	return found
}

func clangAST(c *rep.Ctx, file string) *cnode {
	clang, err := exec.LookPath("clang")
	if err != nil {
		if clang, err = exec.LookPath("clang-14"); err != nil {
			c.Undecide("cfront", file, "clang not found on PATH: the C call-order rules cannot be evaluated")
			return nil
		}
	}
	dir := filepath.Join(an.RepoDir(), "contract")
	shim, err := os.MkdirTemp("", "cfront-shim")
	if err != nil {
		c.Undecide("cfront", file, err.Error())
		return nil
	}
	defer os.RemoveAll(shim)
	for _, h := range []string{"luajit.h", "_cgo_export.h", "lj_obj.h", "lj_gc.h"} {
		os.WriteFile(filepath.Join(shim, h), nil, 0o644)
	}
	cmd := exec.Command(clang, "-fsyntax-only", "-w", "-Xclang", "-ast-dump=json", "-I/usr/include/lua5.1", "-I"+dir, "-I"+shim, file)
	cmd.Dir = dir
	var out, errb bytes.Buffer
	cmd.Stdout, cmd.Stderr = &out, &errb
	_ = cmd.Run() // non-zero exit on recoverable errors is expected
	if out.Len() == 0 {
		c.Undecide("cfront", file, "clang produced no AST: "+firstLine(errb.String()))
		return nil
	}
	var root cnode
	dec := json.NewDecoder(&out)
	if err := dec.Decode(&root); err != nil {
		c.Undecide("cfront", file, "cannot decode clang AST: "+err.Error())
		return nil
	}
	return &root
}

func firstLine(s string) string {
	for i, r := range s {
		if r == '\n' {
			return s[:i]
		}
	}
	return s
}

// functions of a translation unit that have a body
func cFunctions(root *cnode) map[string]*cnode {
	out := map[string]*cnode{}
	for _, d := range root.Inner {
		if d.Kind != "FunctionDecl" {
			continue
		}
		for _, in := range d.Inner {
			if in.Kind == "CompoundStmt" {
				out[d.Name] = in
			}
		}
	}
	return out
}

// functions registered in luaL_Reg tables of the translation unit
func cRegistered(root *cnode) map[string]string {
	out := map[string]string{}
	for _, d := range root.Inner {
		if d.Kind != "VarDecl" || d.Type == nil || !bytes.Contains([]byte(d.Type.QualType), []byte("luaL_Reg")) {
			continue
		}
		d.walk(func(m *cnode) bool {
			if m.Kind == "DeclRefExpr" && m.Ref != nil {
				out[m.Ref.Name] = d.Name
			}
			return true
		})
	}
	return out
}

// c20 SQL guard functions: name -> how the guard must test it
var c20SqlGuards = map[string]string{
	"luaCheckView":             "positive", // if (luaCheckView(ctx) > 0) error
	"sqlite3_stmt_readonly":    "negated",  // if (!sqlite3_stmt_readonly(s)) error
	"sqlcheck_is_readonly_sql": "negated",
}

var c20SqlExec = map[string]bool{"sqlite3_step": true, "sqlite3_exec": true}

// cMakesCursor: the statement stores a prepared statement into a result-set
// object (rs->s = ...): the cursor that db_rs_next will step.
func cMakesCursor(n *cnode) bool {
	found := false
	n.walk(func(m *cnode) bool {
		if m.Kind == "BinaryOperator" && m.Opcode == "=" && len(m.Inner) == 2 {
			lhs := m.Inner[0]
			if lhs.Kind == "MemberExpr" && lhs.Name == "s" && len(lhs.Inner) == 1 {
				base := lhs.Inner[0]
				for base.Kind == "ImplicitCastExpr" && len(base.Inner) == 1 {
					base = base.Inner[0]
				}
				if base.Type != nil && bytes.Contains([]byte(base.Type.QualType), []byte("db_rs_t")) {
					found = true
				}
			}
		}
		return !found
	})
	return found
}

// c20CGuardPolarity classifies the condition of an `if` that tests guard function g:
// +1 when the condition is true in every case in which SQL must be refused (the then branch sees all
// of them), -1 when it is false in every such case (the else branch sees all of them), 0 otherwise.
//
//	luaCheckView ("positive": the view depth, refuse when >= 1): every comparison with a literal that
//	    splits at 0 | >= 1, operands in either order (> 0, != 0, >= 1, 0 <, ... / == 0, <= 0, < 1, ...),
//	    the bare call and its negation.  Same classification as c20GapViewThreshold (c-view-threshold).
//	sqlite3_stmt_readonly, sqlcheck_is_readonly_sql ("negated": refuse when 0): !f(), f() == 0 / the
//	    bare call, f() != 0.
//
// A disjunction refuses when one of its operands refuses (`if (A || B) error`); the mirrored form for
// the permitted case is a conjunction.  Nothing else is accepted.
func c20CGuardPolarity(cond *cnode, g string) int {
	cond = c20GapCStrip(cond)
	if cond == nil {
		return 0
	}
	isCall := func(n *cnode) bool {
		n = c20GapCStrip(n)
		return n != nil && n.Kind == "CallExpr" && n.calleeName() == g
	}
	sign := 1 // value of the call "truthy" means refuse
	if c20SqlGuards[g] == "negated" {
		sign = -1
	}
	switch {
	case isCall(cond):
		return sign
	case cond.Kind == "UnaryOperator" && cond.Opcode == "!" && len(cond.Inner) == 1:
		return -c20CGuardPolarity(cond.Inner[0], g)
	case cond.Kind == "BinaryOperator" && (cond.Opcode == "||" || cond.Opcode == "&&") && len(cond.Inner) == 2:
		l, r := c20CGuardPolarity(cond.Inner[0], g), c20CGuardPolarity(cond.Inner[1], g)
		want := 1 // `refuse || x`: the then branch covers every refused case
		if cond.Opcode == "&&" {
			want = -1 // `permitted && x`: the else branch covers every refused case
		}
		if l == want || r == want {
			return want
		}
		return 0
	}
	lv, op, k, isCmp := c20GapCCmp(cond)
	if !isCmp || !isCall(lv) {
		return 0
	}
	// truthy: call >= 1 (depth / flag values are never negative); falsy: call == 0
	truthy := (k == 0 && (op == ">" || op == "!=")) || (k == 1 && op == ">=")
	falsy := (k == 0 && (op == "==" || op == "<=")) || (k == 1 && op == "<")
	if c20SqlGuards[g] == "negated" {
		// a 0/1 answer of SQLite / sqlcheck: only the comparisons with zero are taken as its truth value
		truthy = k == 0 && op == "!="
		falsy = k == 0 && op == "=="
	}
	switch {
	case truthy:
		return sign
	case falsy:
		return -sign
	}
	return 0
}

var c20CExempt = map[string]string{
	"db_rs_next": "steps the cursor of a result set; result sets are created only by db_query / db_pstmt_query, which are behind the read-only statement test",
}

func cfrontC20(c *rep.Ctx) {
	root := clangAST(c, "db_module.c")
	if root == nil {
		return
	}
	fns := cFunctions(root)
	reg := cRegistered(root)
	if len(reg) < 12 || len(fns) < 30 {
		c.Undecide("c-sql-guard", "db_module.c", "fewer Lua-registered SQL bindings / function bodies than on the reference tree (clang AST incomplete?)")
		return
	}
	c.Note("cfront: db_module.c: %d function bodies, %d functions registered in luaL_Reg tables", len(fns), len(reg))
	var names []string
	for n := range reg {
		names = append(names, n)
	}
	sort.Strings(names)
	errCalls := map[string]bool{"luaL_error": true, "lua_error": true, "luaL_argerror": true, "luaL_typerror": true}
	guardNames := map[string]bool{}
	for g := range c20SqlGuards {
		guardNames[g] = true
	}
	nExec := 0
	for _, name := range names {
		body := fns[name]
		if body == nil || !(body.callsAny(c20SqlExec) || cMakesCursor(body)) {
			continue
		}
		nExec++
		if why, ok := c20CExempt[name]; ok {
			c.CheckTrivial("c-sql-guard", "db_module.c|"+name, token.NoPos, true, "exempt: "+why)
			// result sets are only built in the two guarded query functions
			continue
		}
		// index of the first top-level statement that executes SQL
		execIdx := -1
		for i, st := range body.Inner {
			if st.callsAny(c20SqlExec) || cMakesCursor(st) {
				execIdx = i
				break
			}
		}
		ok := false
		how := "no guard precedes the statement execution"
		for i := 0; i < execIdx && !ok; i++ {
			st := body.Inner[i]
			if st.Kind != "IfStmt" || len(st.Inner) < 2 {
				continue
			}
			cond, then := st.Inner[0], st.Inner[1]
			var els *cnode
			if len(st.Inner) >= 3 {
				els = st.Inner[2]
			}
			var g string
			cond.walk(func(m *cnode) bool {
				if m.Kind == "CallExpr" && guardNames[m.calleeName()] && g == "" {
					g = m.calleeName()
				}
				return g == ""
			})
			if g == "" {
				continue
			}
			// polarity of the test: +1 the condition holds whenever SQL must be refused (the then
			// branch has to leave), -1 it fails whenever SQL must be refused (the else branch has to
			// leave), 0 neither.  Decided on the value of the comparison, not on its spelling.
			pol := c20CGuardPolarity(cond, g)
			leaves := func(b *cnode) bool {
				if b == nil {
					return false
				}
				exits := b.callsAny(errCalls)
				b.walk(func(m *cnode) bool {
					if m.Kind == "ReturnStmt" {
						exits = true
					}
					return true
				})
				return exits
			}
			exits := (pol > 0 && leaves(then)) || (pol < 0 && leaves(els))
			if pol != 0 && exits {
				ok, how = true, "top-level guard on "+g+" with an error exit precedes the execution"
			} else if pol == 0 {
				how = "the test of " + g + " has the wrong polarity"
			} else {
				how = "the guard on " + g + " does not leave the function"
			}
		}
		c.Check("c-sql-guard", "db_module.c|"+name, token.NoPos, ok, "a Lua SQL binding that executes a statement is behind the view-mode check or a read-only statement check: "+how)
	}
	if nExec < 5 {
		c.Undecide("c-sql-guard", "db_module.c", "fewer statement-executing bindings than on the reference tree")
	}
	// view wrappers of the VM are installed as a pair and call the Go callbacks
	vm := clangAST(c, "vm.c")
	if vm == nil {
		return
	}
	vfns := cFunctions(vm)
	start, end := vfns["vm_internal_view_start"], vfns["vm_internal_view_end"]
	okPair := start != nil && end != nil && start.callsAny(map[string]bool{"luaViewStart": true}) && !start.callsAny(map[string]bool{"luaViewEnd": true}) &&
		end.callsAny(map[string]bool{"luaViewEnd": true}) && !end.callsAny(map[string]bool{"luaViewStart": true})
	c.Check("c-view-wrappers", "vm.c|vm_internal_view_start/end", token.NoPos, okPair, "the VM's view hooks call luaViewStart on entry and luaViewEnd on exit")
	// both hooks are installed together
	installed := map[string]bool{}
	vm.walk(func(m *cnode) bool {
		if m.Kind == "BinaryOperator" && m.Opcode == "=" && len(m.Inner) == 2 {
			lhs, rhs := "", ""
			m.Inner[0].walk(func(x *cnode) bool {
				if x.Kind == "DeclRefExpr" && x.Ref != nil {
					lhs = x.Ref.Name
				}
				return true
			})
			m.Inner[1].walk(func(x *cnode) bool {
				if x.Kind == "DeclRefExpr" && x.Ref != nil {
					rhs = x.Ref.Name
				}
				return true
			})
			if lhs == "lj_internal_view_start" && rhs == "vm_internal_view_start" {
				installed["start"] = true
			}
			if lhs == "lj_internal_view_end" && rhs == "vm_internal_view_end" {
				installed["end"] = true
			}
		}
		return true
	})
	c.Check("c-view-wrappers", "vm.c|hooks-installed", token.NoPos, installed["start"] && installed["end"], "both view hooks are installed into the LuaJIT fork")
}
