package props

import "verif/checker/internal/rep"

func cfrontC20(c *rep.Ctx) {}
