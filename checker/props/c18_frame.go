package props

import (
	"go/ast"
	"go/token"
	"go/types"

	"verif/checker/internal/an"
	"verif/checker/internal/rep"
)

// ---------------------------------------------------------------------------
// frame reader / writer of protocol v0.3 (also used by v2.0.0)

type c18LimitGuard struct {
	edge   *an.Node // edge on which  x <= L  (inclusive) or  x < L  (exclusive) is known
	x      ast.Expr
	strict bool // true: the bounded edge means x < L (a value equal to the limit is rejected)
}

// c18GuardsAgainst lists the branch edges of fn on which `x op limit` is known
// to bound x from above, for the given limit object.
func c18GuardsAgainst(fn *an.Func, limit types.Object) []c18LimitGuard {
	g := fn.Graph()
	info := fn.Info()
	isLimit := func(e ast.Expr) bool {
		e = c18StripConv(info, e)
		switch x := e.(type) {
		case *ast.Ident:
			return an.ObjOf(info, x) == limit
		case *ast.SelectorExpr:
			return info.Uses[x.Sel] == limit
		}
		return false
	}
	var out []c18LimitGuard
	for _, n := range g.Nodes {
		if n.Kind != an.KTrue && n.Kind != an.KFalse {
			continue
		}
		cond, ok := n.Ast.(ast.Expr)
		if !ok || cond == nil {
			continue
		}
		if tv, ok := info.Types[cond]; !ok || tv.Type == nil {
			continue
		} else if b, ok := tv.Type.Underlying().(*types.Basic); !ok || b.Info()&types.IsBoolean == 0 {
			continue
		}
		var cmps []*ast.BinaryExpr
		an.InspectShallow(cond, func(m ast.Node) bool {
			if be, ok := m.(*ast.BinaryExpr); ok {
				switch be.Op {
				case token.LSS, token.LEQ, token.GTR, token.GEQ:
					cmps = append(cmps, be)
				}
			}
			return true
		})
		for _, be := range cmps {
			op := be.Op
			x := be.X
			switch {
			case isLimit(be.Y) && !isLimit(be.X):
			case isLimit(be.X) && !isLimit(be.Y):
				x = be.Y
				switch op {
				case token.LSS:
					op = token.GTR
				case token.GTR:
					op = token.LSS
				case token.LEQ:
					op = token.GEQ
				case token.GEQ:
					op = token.LEQ
				}
			default:
				continue
			}
			// atom B := "x is bounded";  x > L / x >= L are its negation
			neg := op == token.GTR || op == token.GEQ
			// bounded outcome of  x > L  is x <= L (inclusive);  of x >= L is x < L (strict)
			strict := op == token.GEQ || op == token.LSS
			target := be
			at := func(e ast.Expr) (string, bool, bool) {
				if ast.Unparen(e) == ast.Expr(target) {
					return "B", neg, true
				}
				return "", false, false
			}
			if an.CondImplies(info, cond, n.Kind == an.KTrue, at, map[string]bool{"B": true}) {
				out = append(out, c18LimitGuard{n, x, strict})
			}
		}
	}
	return out
}

func c18Frame(c *rep.Ctx) {
	p := c.Prog
	limit := p.LookupObj("p2p/p2pcommon", "MaxPayloadLength")
	if limit == nil {
		c.Undecide("frame-limit", "p2p/p2pcommon.MaxPayloadLength", "the configured maximum payload length was not found")
		return
	}
	rd := c.Fn("p2p/v030.(*V030ReadWriter).ReadMsg")
	wr := c.Fn("p2p/v030.(*V030ReadWriter).WriteMsg")
	rtl := c.Fn("p2p/v030.(*V030ReadWriter).readToLen")
	ph := c.Fn("p2p/v030.parseHeader")
	if rd == nil || wr == nil || rtl == nil || ph == nil {
		return
	}

	// ---- the limit variable is written nowhere but in its declaration
	nW := 0
	for _, pk := range p.ModulePkgs() {
		info := pk.TypesInfo
		if info == nil {
			continue
		}
		isL := func(e ast.Expr) bool {
			switch x := ast.Unparen(e).(type) {
			case *ast.Ident:
				return info.Uses[x] == limit
			case *ast.SelectorExpr:
				return info.Uses[x.Sel] == limit
			}
			return false
		}
		for _, file := range pk.Syntax {
			ast.Inspect(file, func(n ast.Node) bool {
				switch s := n.(type) {
				case *ast.AssignStmt:
					for _, l := range s.Lhs {
						if isL(l) {
							nW++
							f := p.EnclosingFunc(pk, l.Pos())
							name := "<package level>"
							if f != nil {
								name = f.Name()
							}
							c.Check("limit-writers", "p2p/p2pcommon.MaxPayloadLength|"+name, l.Pos(), false, "the maximum payload length is assigned outside its declaration")
						}
					}
				case *ast.IncDecStmt:
					if isL(s.X) {
						nW++
						c.Check("limit-writers", "p2p/p2pcommon.MaxPayloadLength|incdec", s.Pos(), false, "the maximum payload length is modified")
					}
				case *ast.UnaryExpr:
					if s.Op == token.AND && isL(s.X) {
						nW++
						c.Check("limit-writers", "p2p/p2pcommon.MaxPayloadLength|addr", s.Pos(), false, "the address of the maximum payload length escapes")
					}
				}
				return true
			})
		}
	}
	if nW == 0 {
		c.Check("limit-writers", "p2p/p2pcommon.MaxPayloadLength", limit.Pos(), true, "the maximum payload length is written only by its declaration (no assignment, ++/--, or address-of in the module)")
	}

	// ---- reader: the payload allocation is dominated by the inclusive bound against MaxPayloadLength
	strictOf := func(fn *an.Func, target *an.Node) (found bool, inclusive, strict bool) {
		g := fn.Graph()
		incl, str := an.Set{}, an.Set{}
		for _, lg := range c18GuardsAgainst(fn, limit) {
			if lg.strict {
				str[lg.edge] = true
			} else {
				incl[lg.edge] = true
			}
		}
		if len(incl)+len(str) == 0 || !g.Dominated(target, incl.Union(str)) {
			return false, false, false
		}
		// which kind is needed for dominance
		if len(incl) > 0 && g.Dominated(target, incl) {
			return true, true, false
		}
		if len(str) > 0 && g.Dominated(target, str) {
			return true, false, true
		}
		return true, true, true
	}
	rg := rd.Graph()
	var mk *an.Node
	for _, s := range rg.Calls(func(_ *types.Func, call *ast.CallExpr) bool { return an.IsBuiltin(rd.Info(), call, "make") }) {
		mk = s.Node
	}
	var rFound, rIncl, rStrict bool
	if mk == nil {
		// the allocation was moved into a helper (covered by alloc-bound at the call site):
		// the bound must then dominate the payload read
		if cs := rg.CallsTo(rtl.Name()); len(cs) == 2 {
			mk = cs[0].Node
			if cs[1].Call.Pos() > cs[0].Call.Pos() {
				mk = cs[1].Node
			}
		}
	}
	if mk == nil {
		c.Undecide("frame-limit", rd.Name(), "no payload allocation found in the frame reader")
	} else {
		rFound, rIncl, rStrict = strictOf(rd, mk)
		c.Check("frame-limit", rd.Name(), mk.Ast.Pos(), rFound && rIncl && !rStrict, "the payload buffer is allocated only after `length > MaxPayloadLength -> error` (a frame of exactly the maximum is accepted, anything larger is rejected before allocation)")
	}
	// ---- writer: the first write to the stream is dominated by the same bound
	wg := wr.Graph()
	var firstWrite *an.Node
	for _, s := range wg.Calls(func(fn *types.Func, _ *ast.CallExpr) bool {
		return fn != nil && fn.Name() == "Write" && fn.Pkg() != nil && fn.Pkg().Path() == "bufio"
	}) {
		if firstWrite == nil || s.Call.Pos() < firstWrite.Ast.Pos() {
			firstWrite = s.Node
		}
	}
	if firstWrite == nil {
		c.Undecide("frame-limit", wr.Name(), "no stream write found in the frame writer")
	} else {
		wFound, wIncl, wStrict := strictOf(wr, firstWrite)
		c.Check("frame-limit", wr.Name(), firstWrite.Ast.Pos(), wFound, "nothing is written before `Length() > MaxPayloadLength -> error`")
		if rFound && wFound {
			c.Check("frame-limit", "reader-writer-agreement", firstWrite.Ast.Pos(), rIncl == wIncl && rStrict == wStrict, "reader and writer compare against MaxPayloadLength with the same strictness (every frame the writer emits is accepted by the reader and vice versa)")
		}
	}

	// ---- read loop pairing: readToLen(buf, max) is called with len(buf) == max
	info := rd.Info()
	nPair := 0
	for _, cs := range p.CallSitesOf(map[string]bool{rtl.Name(): true}) {
		if cs.Fn == nil || len(cs.Call.Args) != 2 {
			continue
		}
		nPair++
		ci := cs.Fn.Info()
		ok, how := c18PairedLen(cs.Fn, ci, cs.Call.Args[0], cs.Call.Args[1])
		c.Check("read-len-pairing", cs.Fn.Name()+"|"+how, cs.Call.Pos(), ok, "readToLen loops until `max` bytes are read into buf[offset:]: the buffer must have exactly that length (a longer `max` never terminates on an exhausted buffer, a shorter one leaves stale bytes)")
	}
	if nPair < 2 {
		c.Undecide("read-len-pairing", rtl.Name(), "expected the header and the payload call of readToLen")
	}
	_ = info

	// ---- the header is parsed only after it was read completely; the message is delivered only after the payload was
	rtlCalls := rg.CallsTo(rtl.Name())
	sort2 := func(a, b an.Site) bool { return a.Call.Pos() < b.Call.Pos() }
	if len(rtlCalls) == 2 && !sort2(rtlCalls[0], rtlCalls[1]) {
		rtlCalls[0], rtlCalls[1] = rtlCalls[1], rtlCalls[0]
	}
	phCalls := rg.CallsTo(ph.Name())
	if len(rtlCalls) != 2 || len(phCalls) != 1 {
		c.Undecide("read-gate", rd.Name(), "expected two readToLen calls and one parseHeader call")
	} else {
		c.Check("read-gate", rd.Name()+"|header", phCalls[0].Call.Pos(), rg.Dominated(phCalls[0].Node, rg.ErrNilEdges(rtlCalls[0])), "the header is parsed only when reading it returned no error")
		// success returns: return statements whose error result is the nil literal
		okAll, n := true, 0
		for _, r := range rg.Returns() {
			rs := r.Ast.(*ast.ReturnStmt)
			if len(rs.Results) != 2 {
				continue
			}
			if tv, has := rd.Info().Types[rs.Results[1]]; has && tv.IsNil() {
				n++
				if !rg.Dominated(r, rg.ErrNilEdges(rtlCalls[1])) || !rg.Dominated(r, rg.ErrNilEdges(rtlCalls[0])) {
					okAll = false
				}
			}
		}
		c.Check("read-gate", rd.Name()+"|payload", rd.Pos(), okAll && n > 0, "a message is returned only when both the header and the payload were read without error")
	}

	c.Floor("frame-limit", 2)
	c.Floor("read-len-pairing", 2)
	c.Floor("read-gate", 2)
	// ---- parseHeader works on a fixed-size array with constant bounds (checked by the compiler)
	pinfo := ph.Info()
	var arr types.Object
	if ph.Type.Params != nil && len(ph.Type.Params.List) > 0 && len(ph.Type.Params.List[0].Names) > 0 {
		o := pinfo.Defs[ph.Type.Params.List[0].Names[0]]
		if o != nil {
			if _, isArr := o.Type().Underlying().(*types.Array); isArr {
				arr = o
			}
		}
	}
	okConst := arr != nil
	nIdx := 0
	if arr != nil {
		isConst := func(e ast.Expr) bool {
			if e == nil {
				return true
			}
			tv, ok := pinfo.Types[e]
			return ok && tv.Value != nil
		}
		an.InspectShallow(ph.Body, func(n ast.Node) bool {
			switch x := n.(type) {
			case *ast.SliceExpr:
				if an.ObjOf(pinfo, x.X) == arr {
					nIdx++
					if !isConst(x.Low) || !isConst(x.High) || !isConst(x.Max) {
						okConst = false
					}
				}
			case *ast.IndexExpr:
				if an.ObjOf(pinfo, x.X) == arr {
					nIdx++
					if !isConst(x.Index) {
						okConst = false
					}
				}
			}
			return true
		})
	}
	c.CheckTrivial("header-parse", ph.Name(), ph.Pos(), okConst && nIdx >= 4, "the frame header is a fixed-size array indexed with constants only ("+itoa(nIdx)+" accesses): out-of-range access is excluded at compile time")
}

// c18PairedLen decides that len(buf) == max at a call readToLen(buf, max).
func c18PairedLen(fn *an.Func, info *types.Info, buf, max ast.Expr) (bool, string) {
	buf = ast.Unparen(buf)
	// buf = arr[:] with a constant-length array and max the same constant
	if se, ok := buf.(*ast.SliceExpr); ok && se.Low == nil && se.High == nil && se.Max == nil {
		t := info.TypeOf(se.X)
		if t != nil {
			if at, ok := t.Underlying().(*types.Array); ok {
				tv, has := info.Types[max]
				if has && tv.Value != nil && tv.Value.ExactString() == itoa(int(at.Len())) {
					return true, "fixed-array"
				}
				return false, "fixed-array"
			}
		}
		return false, "slice"
	}
	// buf = v, v := make([]byte, n) defined once, max == n (modulo conversions)
	v := an.ObjOf(info, buf)
	if v == nil {
		return false, "expr"
	}
	var size ast.Expr
	defs := 0
	top := fn.TopDecl()
	an.InspectShallow(top.Body, func(n ast.Node) bool {
		switch s := n.(type) {
		case *ast.AssignStmt:
			for i, l := range s.Lhs {
				if an.ObjOf(info, l) == v {
					defs++
					if len(s.Lhs) == len(s.Rhs) {
						if call, ok := ast.Unparen(s.Rhs[i]).(*ast.CallExpr); ok {
							if an.IsBuiltin(info, call, "make") && len(call.Args) == 2 {
								size = call.Args[1]
							} else if idx := c18AllocHelperParam(fn.Prog.FuncOf(an.Callee(info, call))); idx >= 0 && idx < len(call.Args) {
								size = call.Args[idx]
							}
						}
					}
				}
			}
		case *ast.UnaryExpr:
			if s.Op == token.AND && an.ObjOf(info, s.X) == v {
				defs += 2
			}
		}
		return true
	})
	if defs != 1 || size == nil {
		return false, "allocated"
	}
	so := an.ObjOf(info, c18StripConv(info, size))
	mo := an.ObjOf(info, c18StripConv(info, max))
	if so == nil || so != mo {
		return false, "allocated"
	}
	// the size variable is assigned exactly once in the function
	n := 0
	g := top.Graph()
	for _, nd := range g.Nodes {
		if nd.Kind == an.KStmt && an.Assigns(info, nd.Ast, so) {
			n++
		}
	}
	return n == 1, "allocated"
}

// c18AllocHelperParam: f is  func(.., n T, ..) []byte { return make([]byte, n) }  -> index of n, else -1.
func c18AllocHelperParam(f *an.Func) int {
	if f == nil || f.Body == nil || len(f.Body.List) != 1 || f.Type.Params == nil {
		return -1
	}
	rs, ok := f.Body.List[0].(*ast.ReturnStmt)
	if !ok || len(rs.Results) != 1 {
		return -1
	}
	info := f.Info()
	call, ok := ast.Unparen(rs.Results[0]).(*ast.CallExpr)
	if !ok || !an.IsBuiltin(info, call, "make") || len(call.Args) != 2 {
		return -1
	}
	so := an.ObjOf(info, c18StripConv(info, call.Args[1]))
	i := 0
	for _, fl := range f.Type.Params.List {
		for _, nm := range fl.Names {
			if info.Defs[nm] == so && so != nil {
				return i
			}
			i++
		}
		if len(fl.Names) == 0 {
			i++
		}
	}
	return -1
}

var _ = rep.New
