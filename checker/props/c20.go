package props

import (
	"go/ast"
	"go/constant"
	"go/token"
	"go/types"
	"sort"
	"strings"

	"verif/checker/internal/an"
	"verif/checker/internal/rep"
)

// C20 — contract queries and view functions cannot change state.
//
// Decided clause: every Go function the VM's C code can call (//export in
// package contract), and every same-package helper it calls, performs a state
// mutation only on paths on which the read-only guard (ctx.isQuery false and
// ctx.nestedView zero) is known to have passed.  Plus: the read-only flag is
// written only by the constructors and the view wrappers, the read-only Go
// entry points use the query constructor, and (cfront) the C SQL bindings.

func init() { register("C20", runC20) }

// mutator classes: what must be known at the call site
const (
	c20Full  = "not-query-and-not-view" // ctx.isQuery == false && ctx.nestedView == 0
	c20Query = "not-query"              // ctx.isQuery == false (view mode is enforced by the C layer for SQL)
)

// c20Mutators: callee (FuncName) -> class.  Discovered by role (see
// c20DiscoverWriters) and frozen here after reading each one.
var c20Mutators = map[string]string{
	"state/statedb.(*ContractState).SetData":     c20Full,
	"state/statedb.(*ContractState).DeleteData":  c20Full,
	"state/statedb.(*ContractState).SetCode":     c20Full,
	"state/statedb.(*ContractState).SetRawKV":    c20Full,
	"state/statedb.StageContractState":           c20Full,
	"state/statedb.(*StateDB).PutState":          c20Full,
	"state.SendBalance":                          c20Full,
	"state.(*AccountState).AddBalance":           c20Full,
	"state.(*AccountState).SubBalance":           c20Full,
	"state.(*AccountState).SetNonce":             c20Full,
	"state.(*AccountState).PutState":             c20Full,
	"state.(*AccountState).SetCodeHash":          c20Full,
	"state.(*AccountState).SetRP":                c20Full,
	"state.(*AccountState).SetStorageRoot":       c20Full,
	"state.CreateAccountState":                   c20Full,
	"contract/system.ExecuteSystemTx":            c20Full,
	"contract/name.ExecuteNameTx":                c20Full,
	"contract/enterprise.ExecuteEnterpriseTx":    c20Full,
	"contract.beginTx":                           c20Query,
	"contract.(sqlTx).savepoint":                 c20Query,
	"contract.(sqlTx).subSavepoint":              c20Query,
	"contract.(*vmContext).events (field write)": c20Full,
}

// c20Exempt: same-package functions whose mutator calls are not obligations,
// one line of reason each.
var c20Exempt = map[string]string{
	"contract.(*recoveryPoint).revertState": "undo only: restores balances/nonce/storage to the snapshot taken by createRecoveryPoint; in a read-only context nothing was changed since that snapshot",
	"contract.createRecoveryPoint":          "records an undo entry; subSavepoint only runs on an SQL handle that already exists (opened by luaGetDbHandle, which is itself checked)",
}

// c20NotMutation: writes of state-package APIs reachable from host callbacks
// that were read and classified as not mutating chain state.
var c20NotMutation = map[string]string{
	"state/statedb.(*ContractState).SetMultiCallCode": "sets the in-memory code of the multicall pseudo-contract, nothing persisted",
	"state/statedb.(*ContractState).Rollback":         "undo of the storage buffer to an earlier revision",
	"state.(*AccountState).Reset":                     "undo to the pre-transaction account state",
	"state.(*BlockState).RemoveCache":                 "drops an in-memory code/ABI cache entry",
	"state.(*BlockState).AddCode":                     "in-memory code cache",
	"state.(*BlockState).AddABI":                      "in-memory ABI cache",
	"state.InitAccountState":                          "builds an in-memory AccountState value, nothing is put",
	"state.GetAccountState":                           "reads the account; only fills a fresh in-memory value",
	"state/statedb.OpenContractState":                 "opens a storage view over the given state, no write",
	"state/statedb.OpenContractStateAccount":          "opens a storage view, no write",
	"state/statedb.GetMultiCallState":                 "in-memory value",
	"state/statedb.GetSystemAccountState":             "opens the system contract's storage view, no write",
	"state/statedb.GetNameAccountState":               "opens the name contract's storage view, no write",
	"state/statedb.GetEnterpriseAccountState":         "opens the enterprise contract's storage view, no write",
}

func c20Atomizer(info *types.Info, isQuery, nestedView *types.Var) an.Atomizer {
	isZero := func(e ast.Expr) (int64, bool) {
		tv, ok := info.Types[e]
		if !ok || tv.Value == nil {
			return 0, false
		}
		s := tv.Value.ExactString()
		switch s {
		case "0":
			return 0, true
		case "1":
			return 1, true
		}
		return 0, false
	}
	return func(e ast.Expr) (string, bool, bool) {
		e = ast.Unparen(e)
		if f := an.FieldOf(info, e); f != nil && f == isQuery {
			return "Q", false, true
		}
		be, ok := e.(*ast.BinaryExpr)
		if !ok {
			return "", false, false
		}
		x, y, op := be.X, be.Y, be.Op
		if an.FieldOf(info, y) == nestedView && nestedView != nil {
			// flip  c op v  into  v op' c
			x, y = y, x
			switch op {
			case token.LSS:
				op = token.GTR
			case token.GTR:
				op = token.LSS
			case token.LEQ:
				op = token.GEQ
			case token.GEQ:
				op = token.LEQ
			}
		}
		if an.FieldOf(info, x) != nestedView || nestedView == nil {
			return "", false, false
		}
		c, ok := isZero(y)
		if !ok {
			return "", false, false
		}
		// atom V: nestedView > 0   (nestedView is never negative: paired ++/--)
		switch {
		case c == 0 && (op == token.GTR || op == token.NEQ):
			return "V", false, true
		case c == 0 && (op == token.EQL || op == token.LEQ):
			return "V", true, true
		case c == 1 && op == token.GEQ:
			return "V", false, true
		case c == 1 && op == token.LSS:
			return "V", true, true
		}
		return "", false, false
	}
}

// ---------------------------------------------------------------------------
// Guard decision by case split over the read-only states.
//
// The guard `!isQuery && nestedView == 0` is the exclusion of the three states
// (query, no view), (no query, view), (query, view).  For one fixed state every
// leaf over the two marker fields has a known truth value -- and so has every
// once-defined local and every same-package bool predicate (extracted helper,
// e.g. `func isReadOnlyCtx(ctx *vmContext) bool { return ctx.isQuery ||
// ctx.nestedView > 0 }`) whose body is a formula over them.  The site is guarded
// iff each state is excluded at the site; "state s is excluded" is decided by the
// generic engine (g.GuardedAt: guard-edge dominance, or conjunction of the
// dominating branch outcomes) with an atomizer that maps every expression that
// is decided by s to the atom RO (true under s) or its negation (false under s),
// and asks for RO == false.  This decides the same clause as the single
// {Q:false, V:false} query did, independent of how the test is spelled or where
// it was extracted to.

type c20State struct{ q, v bool }

func (s c20State) String() string {
	switch {
	case s.q && s.v:
		return "a view function inside a query"
	case s.q:
		return "a query"
	case s.v:
		return "a view function"
	}
	return "a writable context"
}

// c20StatesOf: the read-only states the class demands to be excluded.
func c20StatesOf(class string) []c20State {
	if class == c20Query {
		return []c20State{{true, false}, {true, true}}
	}
	return []c20State{{true, false}, {false, true}, {true, true}}
}

type c20Eval struct {
	p          *an.Prog
	isQuery    *types.Var
	nestedView *types.Var
	memo       map[c20PredKey]c20PredVal
}

type c20PredKey struct {
	fn *an.Func
	s  c20State
}
type c20PredVal struct{ val, ok bool }

func newC20Eval(p *an.Prog, isQuery, nestedView *types.Var) *c20Eval {
	return &c20Eval{p: p, isQuery: isQuery, nestedView: nestedView, memo: map[c20PredKey]c20PredVal{}}
}

// expr evaluates a boolean expression of f under state s; ok=false when the
// value is not determined by s alone.  params != nil (inside an inlined
// predicate): marker fields count only when read through one of these objects.
func (ev *c20Eval) expr(f *an.Func, e ast.Expr, s c20State, params map[types.Object]bool, depth int) (val, ok bool) {
	if depth > 6 {
		return false, false
	}
	info := f.Info()
	e = ast.Unparen(e)
	if tv, has := info.Types[e]; has && tv.Value != nil && tv.Value.Kind() == constant.Bool {
		return constant.BoolVal(tv.Value), true
	}
	if name, neg, isLeaf := c20Atomizer(info, ev.isQuery, ev.nestedView)(e); isLeaf {
		if params != nil && !c20MarkerThrough(info, e, ev.isQuery, ev.nestedView, params) {
			return false, false
		}
		v := s.v
		if name == "Q" {
			v = s.q
		}
		return v != neg, true
	}
	switch x := e.(type) {
	case *ast.UnaryExpr:
		if x.Op == token.NOT {
			v, ok := ev.expr(f, x.X, s, params, depth+1)
			return !v, ok
		}
	case *ast.BinaryExpr:
		switch x.Op {
		case token.LAND, token.LOR:
			l, lok := ev.expr(f, x.X, s, params, depth+1)
			r, rok := ev.expr(f, x.Y, s, params, depth+1)
			absorbing := x.Op == token.LOR // true absorbs ||, false absorbs &&
			switch {
			case lok && rok:
				if x.Op == token.LAND {
					return l && r, true
				}
				return l || r, true
			case lok && l == absorbing:
				return l, true
			case rok && r == absorbing:
				return r, true
			}
		case token.EQL, token.NEQ:
			if tv, has := info.Types[x.X]; !has || tv.Type == nil || !c20IsBool(tv.Type) {
				return false, false
			}
			l, lok := ev.expr(f, x.X, s, params, depth+1)
			r, rok := ev.expr(f, x.Y, s, params, depth+1)
			if lok && rok {
				return (l == r) == (x.Op == token.EQL), true
			}
		}
	case *ast.Ident:
		// once-defined local (`ro := ctx.isQuery || ctx.nestedView > 0`)
		// (declared inside this very body: a captured variable may be written by the enclosing function)
		if o := info.Uses[x]; o != nil && f.Body != nil && o.Pos() >= f.Body.Pos() && o.Pos() < f.Body.End() {
			if r := c20GapOnce(f, x); r != ast.Expr(x) {
				return ev.expr(f, r, s, params, depth+1)
			}
		}
	case *ast.CallExpr:
		return ev.pred(info, x, s, depth+1)
	}
	return false, false
}

func c20IsBool(t types.Type) bool {
	b, ok := t.Underlying().(*types.Basic)
	return ok && b.Info()&types.IsBoolean != 0
}

// c20MarkerThrough: every read of a marker field inside e goes through one of objs (x.isQuery with x in objs).
func c20MarkerThrough(info *types.Info, e ast.Expr, isQuery, nestedView *types.Var, objs map[types.Object]bool) bool {
	ok := true
	ast.Inspect(e, func(n ast.Node) bool {
		sel, isSel := n.(*ast.SelectorExpr)
		if !isSel {
			return true
		}
		if fld := an.FieldOf(info, sel); fld != nil && (fld == isQuery || fld == nestedView) {
			if o := an.ObjOf(info, sel.X); o == nil || !objs[o] {
				ok = false
			}
		}
		return true
	})
	return ok
}

// pred evaluates a call of a same-package predicate: a function of package
// contract with a single bool result whose body is a decision over the marker
// fields of its parameters (a return expression, or if/return chains), without
// any other statement.  The argument expressions are not inspected, exactly as
// c20Atomizer does not inspect the base of `x.isQuery`.
func (ev *c20Eval) pred(info *types.Info, call *ast.CallExpr, s c20State, depth int) (bool, bool) {
	callee := an.Callee(info, call)
	if callee == nil {
		return false, false
	}
	fn := ev.p.FuncOf(callee)
	cp := ev.p.Pkg("contract")
	if fn == nil || fn.Body == nil || fn.Decl == nil || cp == nil || fn.Pkg != cp {
		return false, false
	}
	sig, _ := callee.Type().(*types.Signature)
	if sig == nil || sig.Results().Len() != 1 || !c20IsBool(sig.Results().At(0).Type()) || sig.Variadic() {
		return false, false
	}
	key := c20PredKey{fn, s}
	if r, done := ev.memo[key]; done {
		return r.val, r.ok
	}
	ev.memo[key] = c20PredVal{} // recursion: undetermined
	params := map[types.Object]bool{}
	for _, fl := range []*ast.FieldList{fn.Decl.Recv, fn.Decl.Type.Params} {
		if fl == nil {
			continue
		}
		for _, fld := range fl.List {
			for _, nm := range fld.Names {
				if o := fn.Info().Defs[nm]; o != nil {
					params[o] = true
				}
			}
		}
	}
	val, returned, ok := ev.block(fn, fn.Body.List, s, params, depth)
	r := c20PredVal{val, ok && returned}
	ev.memo[key] = r
	return r.val, r.ok
}

// block evaluates a statement list of a predicate under state s.
func (ev *c20Eval) block(fn *an.Func, stmts []ast.Stmt, s c20State, params map[types.Object]bool, depth int) (val, returned, ok bool) {
	for _, st := range stmts {
		switch x := st.(type) {
		case *ast.ReturnStmt:
			if len(x.Results) != 1 {
				return false, false, false
			}
			v, ok := ev.expr(fn, x.Results[0], s, params, depth)
			return v, true, ok
		case *ast.IfStmt:
			if x.Init != nil {
				return false, false, false
			}
			cv, ok := ev.expr(fn, x.Cond, s, params, depth)
			if !ok {
				return false, false, false
			}
			var branch []ast.Stmt
			switch {
			case cv:
				branch = x.Body.List
			case x.Else != nil:
				if b, isBlock := x.Else.(*ast.BlockStmt); isBlock {
					branch = b.List
				} else {
					branch = []ast.Stmt{x.Else}
				}
			}
			v, ret, ok := ev.block(fn, branch, s, params, depth)
			if !ok {
				return false, false, false
			}
			if ret {
				return v, true, true
			}
		case *ast.AssignStmt:
			// definition of locals from call-free expressions (resolved where they are used)
			if x.Tok != token.DEFINE || len(x.Lhs) != len(x.Rhs) {
				return false, false, false
			}
			for _, r := range x.Rhs {
				if len(an.CallsIn(r)) > 0 {
					return false, false, false
				}
			}
		default:
			return false, false, false
		}
	}
	return false, false, true
}

// atomizer for one state: expressions decided by the state become RO / !RO.
func (ev *c20Eval) atomizer(f *an.Func, s c20State) an.Atomizer {
	return func(e ast.Expr) (string, bool, bool) {
		if v, ok := ev.expr(f, e, s, nil, 0); ok {
			return "RO", !v, true
		}
		return "", false, false
	}
}

var c20WantNotRO = map[string]bool{"RO": false}

// guarded: every read-only state of the class is excluded at vertex n of f.
func (ev *c20Eval) guarded(f *an.Func, n *an.Node, class string) (bool, string) {
	g := f.Graph()
	how := ""
	for _, s := range c20StatesOf(class) {
		ok, h := g.GuardedAt(n, ev.atomizer(f, s), c20WantNotRO)
		if !ok {
			return false, s.String() + " is not excluded here: " + h
		}
		if how == "" || h != how {
			if how != "" {
				how += "; "
			}
			how += h
		}
	}
	return true, how
}

// guardedAssuming: like guarded, with extra clauses (see GuardedAtAssuming).
func (ev *c20Eval) guardedAssuming(f *an.Func, n *an.Node, class string, clauses func(atoms []string) [][]string) bool {
	g := f.Graph()
	for _, s := range c20StatesOf(class) {
		if !g.GuardedAtAssuming(n, ev.atomizer(f, s), c20WantNotRO, clauses) {
			return false
		}
	}
	return true
}

func c20Exports(c *rep.Ctx) []*an.Func {
	var out []*an.Func
	pk := c.Prog.Pkg("contract")
	if pk == nil {
		c.Undecide("entry", "contract", "package contract not loaded")
		return nil
	}
	for _, f := range c.Prog.Funcs() {
		if f.Pkg != pk || f.Decl == nil || f.Decl.Doc == nil {
			continue
		}
		for _, cm := range f.Decl.Doc.List {
			if strings.HasPrefix(cm.Text, "//export ") {
				out = append(out, f)
				break
			}
		}
	}
	return out
}

func runC20(c *rep.Ctx) {
	c.Explain = "Structural decision of the read-only rule: for every function of package contract that the VM's C code can call (//export), and every same-package helper reachable from it, each call that mutates chain state (storage, balances, nonce, code, events, governance, writable SQL handle) lies only on control-flow paths on which the guard `ctx.isQuery == false && ctx.nestedView == 0` is known (guard edge dominance or conjunction of dominating branch outcomes). Additionally: who may write the read-only markers, which constructor the read-only Go entry points use, that a query's block state is never committed, and call-order rules over the clang AST of the C SQL module. Decides the shape of the code, not what LuaJIT or SQLite do at run time."
	c.NotDecided = []string{"behaviour of LuaJIT itself", "SQLite's enforcement of read-only handles", "equality of state roots before/after a query (value-level)"}
	c.Assume = []string{"package contract is analysed on AST + go/types + go/cfg (cgo: `C.x` expressions are untyped)", "calls through C back into Go are not edges: each exported callback is an entry point of its own", "ctx.nestedView is never negative (paired ++/-- verified by rule view-pairing)"}
	p := c.Prog
	isQuery := p.LookupField("contract", "vmContext", "isQuery")
	nestedView := p.LookupField("contract", "vmContext", "nestedView")
	events := p.LookupField("contract", "vmContext", "events")
	if isQuery == nil || nestedView == nil || events == nil {
		c.Undecide("anchor", "contract.vmContext.{isQuery,nestedView,events}", "read-only marker fields not found")
		return
	}
	entries := c20Exports(c)
	c.CheckTrivial("entry-count", "contract//export", token.NoPos, len(entries) >= 45, itoa(len(entries))+" exported host callbacks found (reference tree: 51)")
	if len(entries) < 45 {
		c.Undecide("entry-count", "contract", "fewer exported callbacks than on the reference tree: the //export discovery lost its anchors")
	}
	for k := range c20Mutators {
		if strings.Contains(k, "(field write)") {
			continue
		}
		if f := p.Func(k); f == nil {
			// interface methods (sqlTx) have no body; check the object exists
			pkgRel, recv, name := splitName(k)
			if !lookupMethodExists(p, pkgRel, recv, name) {
				c.Undecide("anchor", k, "mutator in the frozen table no longer exists")
			}
		}
	}
	cg := p.BuildCallGraph()
	contractPkg := p.Pkg("contract")

	// ---- role-based discovery of writers in the state packages (cross-check of the frozen table)
	writers := c20DiscoverWriters(c, cg)

	// ---- functions of package contract reachable from the entry points (same package edges)
	inPkg := func(e an.Edge) bool { return e.Callee != nil && e.Callee.Pkg == contractPkg }
	reach := cg.ReachableFrom(entries, inPkg)
	var reachList []*an.Func
	for f := range reach {
		if f.Body != nil {
			reachList = append(reachList, f)
		}
	}
	sort.Slice(reachList, func(i, j int) bool { return reachList[i].Pos() < reachList[j].Pos() })
	c.Note("%d functions/literals of package contract are reachable from the %d exported callbacks", len(reachList), len(entries))

	type msite struct {
		fn    *an.Func
		node  *an.Node
		pos   token.Pos
		name  string
		class string
	}
	type csite struct { // call to a same-package function
		fn     *an.Func
		node   *an.Node
		callee *an.Func
	}
	var msites []msite
	var csites []csite
	unclassified := map[string]token.Pos{}
	for _, f := range reachList {
		if _, ex := c20Exempt[f.TopDecl().Name()]; ex {
			continue
		}
		g := f.Graph()
		info := f.Info()
		at := func(pos token.Pos) *an.Node { return g.NodeContaining(pos) }
		for _, s := range g.Calls(nil) {
			if s.Fn == nil {
				// function value: resolved by the call graph below
				continue
			}
			name := an.FuncName(s.Fn)
			if cls, ok := c20Mutators[name]; ok {
				msites = append(msites, msite{f, s.Node, s.Call.Pos(), name, cls})
				continue
			}
			if cf := p.FuncOf(s.Fn); cf != nil && cf.Pkg == contractPkg {
				csites = append(csites, csite{f, s.Node, cf})
				continue
			}
			if cf := p.FuncOf(s.Fn); cf != nil && writers[cf] {
				if _, ok := c20NotMutation[name]; !ok {
					unclassified[name] = s.Call.Pos()
				}
			}
		}
		// function literals defined here run in this function's context
		for _, l := range f.Lits {
			var n *an.Node
			n = at(l.Lit.Pos())
			if n != nil {
				csites = append(csites, csite{f, n, l})
			}
		}
		// writes of ctx.events (append of a new event)
		_ = info
	}
	for _, w := range p.FieldWrites(map[*types.Var]bool{events: true}) {
		if w.Fn == nil || !reach[w.Fn] || w.How == "literal" {
			continue
		}
		if _, ex := c20Exempt[w.Fn.TopDecl().Name()]; ex {
			continue
		}
		g := w.Fn.Graph()
		n := g.NodeContaining(w.Pos)
		if n == nil {
			c.Undecide("guard", w.Fn.Name()+"|events", "cannot locate the write in the control-flow graph")
			continue
		}
		// shrinking the slice (events = events[:k]) is undo, growing is a mutation
		if as, ok := n.Ast.(*ast.AssignStmt); ok && len(as.Rhs) == 1 {
			if _, isSlice := ast.Unparen(as.Rhs[0]).(*ast.SliceExpr); isSlice {
				c.CheckTrivial("event-write", w.Fn.Name()+"|truncate", w.Pos, true, "events is only truncated here (undo of dropped events), not a mutation")
				continue
			}
		}
		msites = append(msites, msite{w.Fn, n, w.Pos, "contract.(*vmContext).events (field write)", c20Full})
	}
	for name, pos := range unclassified {
		c.Check("classify", name, pos, false, "a state-writing function of the state packages is reachable from a host callback but is neither in the mutator table nor in the not-a-mutation table: classify it")
	}

	// ---- guard decision.  A helper that performs a mutation on a path not
	// guarded inside the helper becomes a derived mutator: each of its call
	// sites is then an obligation of the caller, up to the exported callbacks,
	// where an unguarded site is a violation.
	ev := newC20Eval(p, isQuery, nestedView)
	guarded := ev.guarded
	isEntry := map[*an.Func]bool{}
	for _, e := range entries {
		isEntry[e] = true
	}
	// owner: literals are evaluated as part of the function that defines them
	derived := map[*an.Func]string{} // helper -> class it needs from its callers
	derivedWhy := map[*an.Func]string{}
	stronger := func(a, b string) string {
		if a == c20Full || b == c20Full {
			return c20Full
		}
		if a == "" {
			return b
		}
		return a
	}
	sort.Slice(msites, func(i, j int) bool { return msites[i].pos < msites[j].pos })
	for changed := true; changed; {
		changed = false
		mark := func(f *an.Func, class, why string) {
			if isEntry[f] {
				return
			}
			if n := stronger(derived[f], class); n != derived[f] {
				derived[f] = n
				derivedWhy[f] = why
				changed = true
			}
		}
		for _, m := range msites {
			if ok, _ := guarded(m.fn, m.node, m.class); !ok {
				mark(m.fn, m.class, m.name)
			}
		}
		for _, cs := range csites {
			cls, isD := derived[cs.callee]
			if !isD {
				continue
			}
			if _, ex := c20Exempt[cs.callee.TopDecl().Name()]; ex {
				continue
			}
			if ok, _ := guarded(cs.fn, cs.node, cls); !ok {
				mark(cs.fn, cls, derivedWhy[cs.callee]+" via "+cs.callee.Name())
			}
		}
	}
	for _, m := range msites {
		ok, how := guarded(m.fn, m.node, m.class)
		construct := m.fn.Name() + "|" + m.name
		switch {
		case ok:
			c.Check("guard", construct, m.pos, true, "mutator requires "+m.class+": "+how)
		case !isEntry[m.fn]:
			c.Check("guard", construct, m.pos, true, "not guarded inside this helper: the helper is treated as a mutator and every call site of it is checked instead")
		default:
			c.Check("guard", construct, m.pos, false, "state mutation reachable in a read-only context: "+m.name+" is not dominated by the guard ("+m.class+"): "+how)
		}
	}
	sort.Slice(csites, func(i, j int) bool { return csites[i].node.Ast.Pos() < csites[j].node.Ast.Pos() })
	for _, cs := range csites {
		cls, isD := derived[cs.callee]
		if !isD {
			continue
		}
		ok, how := guarded(cs.fn, cs.node, cls)
		construct := cs.fn.Name() + "|" + cs.callee.Name()
		pos := cs.node.Ast.Pos()
		switch {
		case ok:
			c.Check("guard", construct, pos, true, "call of a helper that mutates state ("+derivedWhy[cs.callee]+") requires "+cls+": "+how)
		case !isEntry[cs.fn]:
			c.Check("guard", construct, pos, true, "not guarded inside this helper either: propagated to its callers")
		default:
			// Is the site guarded under the assumption that amounts are never negative
			// (x.Cmp(zero) > 0 or x.Cmp(zero) == 0)?  Then it is the historical negative-amount
			// defect (known finding F6), a different instance from a missing guard.
			if ev.guardedAssuming(cs.fn, cs.node, cls, c20NonNegClauses) {
				construct += "|only-if-amount-nonnegative"
				how = "the guard is conditional on the amount being positive and this path only excludes a zero amount: a negative amount reaches the mutation"
			}
			c.Check("guard", construct, pos, false, "state mutation reachable in a read-only context: helper "+cs.callee.Name()+" ("+derivedWhy[cs.callee]+") is called on a path not dominated by the guard ("+cls+"): "+how)
		}
	}
	c.Floor("guard", 14)

	c20Markers(c, cg, isQuery, nestedView)
	c20ReadOnlyEntries(c, cg, writers)
	c20CFront(c)
}

// c20NonNegClauses: for every pair of atoms "X.Cmp(Y) > 0" / "X.Cmp(Y) == 0" assume one of them holds.
func c20NonNegClauses(atoms []string) [][]string {
	var out [][]string
	for _, a := range atoms {
		if strings.HasSuffix(a, " > 0") && strings.Contains(a, ".Cmp(") {
			z := strings.TrimSuffix(a, " > 0") + " == 0"
			for _, b := range atoms {
				if b == z {
					out = append(out, []string{a, b})
				}
			}
		}
	}
	return out
}

func splitName(k string) (pkg, recv, name string) {
	if i := strings.Index(k, ".("); i >= 0 {
		pkg = k[:i]
		rest := k[i+2:]
		j := strings.Index(rest, ").")
		return pkg, rest[:j], rest[j+2:]
	}
	i := strings.LastIndex(k, ".")
	return k[:i], "", k[i+1:]
}

func lookupMethodExists(p *an.Prog, pkgRel, recv, name string) bool {
	pk := p.Pkg(pkgRel)
	if pk == nil || pk.Types == nil {
		return false
	}
	if recv == "" {
		return pk.Types.Scope().Lookup(name) != nil
	}
	tn, ok := pk.Types.Scope().Lookup(strings.TrimPrefix(recv, "*")).(*types.TypeName)
	if !ok {
		return false
	}
	obj, _, _ := types.LookupFieldOrMethod(types.NewPointer(tn.Type()), true, pk.Types, name)
	if obj == nil {
		obj, _, _ = types.LookupFieldOrMethod(tn.Type(), true, pk.Types, name)
	}
	return obj != nil
}

// c20DiscoverWriters computes, by role, the functions of the state packages
// that may write account/contract state: transitive writers of any field of
// types.State, of the state buffer, or of the raw key-value store.
func c20DiscoverWriters(c *rep.Ctx, cg *an.CallGraph) map[*an.Func]bool {
	p := c.Prog
	fields := map[*types.Var]bool{}
	if st := p.LookupStruct("types", "State"); st != nil {
		for i := 0; i < st.NumFields(); i++ {
			if st.Field(i).Exported() {
				fields[st.Field(i)] = true
			}
		}
	}
	if len(fields) < 5 {
		c.Undecide("anchor", "types.State", "account state struct not found")
	}
	spec := an.EffectSpec{Fields: fields, Calls: map[string]bool{
		"state/statedb.(*stateBuffer).put":  true,
		"state/statedb.saveData":            true,
		"state/statedb.(*storageCache).put": true,
	}}
	direct := cg.DirectEffects(spec)
	seeds := map[*an.Func]bool{}
	statePkgs := map[string]bool{"state": true, "state/statedb": true, "contract/system": true, "contract/name": true, "contract/enterprise": true}
	for f := range direct {
		if statePkgs[an.Rel(f.Pkg.PkgPath)] {
			seeds[f] = true
		}
	}
	w := cg.MayReach(seeds, func(e an.Edge) bool {
		return statePkgs[an.Rel(e.Caller.Pkg.PkgPath)]
	})
	c.Note("role discovery: %d functions of state, state/statedb and the governance packages may write account or contract state", len(w))
	// every frozen mutator of those packages must be discovered as a writer (table is not stale)
	for k := range c20Mutators {
		f := p.Func(k)
		if f == nil || !statePkgs[an.Rel(f.Pkg.PkgPath)] {
			continue
		}
		c.CheckTrivial("mutator-role", k, f.Pos(), w[f], "frozen mutator is a transitive writer of account/contract state by role discovery")
	}
	return w
}

// c20Markers: who may write the read-only markers.
func c20Markers(c *rep.Ctx, cg *an.CallGraph, isQuery, nestedView *types.Var) {
	p := c.Prog
	allowedQ := map[string]bool{"contract.NewVmContext": true, "contract.NewVmContextQuery": true}
	nQ := 0
	for _, w := range p.FieldWrites(map[*types.Var]bool{isQuery: true}) {
		fn := "<package level>"
		if w.Fn != nil {
			fn = w.Fn.TopDecl().Name()
		}
		nQ++
		c.Check("marker-writers", "isQuery|"+fn, w.Pos, allowedQ[fn], "vmContext.isQuery may be set only by the two context constructors ("+w.How+" in "+fn+")")
	}
	if nQ < 2 {
		c.Undecide("marker-writers", "isQuery", "expected the two constructor writes")
	}
	// NewVmContextQuery sets isQuery to the constant true
	if f := c.Fn("contract.NewVmContextQuery"); f != nil {
		ok := false
		ast.Inspect(f.Body, func(n ast.Node) bool {
			kv, isKV := n.(*ast.KeyValueExpr)
			if !isKV {
				return true
			}
			if id, isID := kv.Key.(*ast.Ident); isID && f.Info().Uses[id] == isQuery {
				if tv, has := f.Info().Types[kv.Value]; has && tv.Value != nil && tv.Value.ExactString() == "true" {
					ok = true
				}
			}
			return true
		})
		c.Check("query-ctor", "contract.NewVmContextQuery|isQuery", f.Pos(), ok, "the query constructor sets isQuery to the constant true")
	}
	// nestedView writers: luaViewStart (++), luaViewEnd (--), executor.call (++ with deferred --)
	allowedV := map[string]string{"contract.luaViewStart": "++", "contract.luaViewEnd": "--", "contract.(*executor).call": "pair"}
	incs := map[string]int{}
	decs := map[string]int{}
	for _, w := range p.FieldWrites(map[*types.Var]bool{nestedView: true}) {
		fn := "<package level>"
		if w.Fn != nil {
			fn = w.Fn.TopDecl().Name()
		}
		_, ok := allowedV[fn]
		c.Check("marker-writers", "nestedView|"+fn, w.Pos, ok && w.How == "incdec", "vmContext.nestedView may only be incremented/decremented by the view wrappers and executor.call ("+w.How+" in "+fn+")")
		if w.Fn != nil && w.How == "incdec" {
			g := w.Fn.Graph()
			if n := g.NodeContaining(w.Pos); n != nil {
				if s, ok := n.Ast.(*ast.IncDecStmt); ok {
					if s.Tok == token.INC {
						incs[fn]++
					} else {
						decs[fn]++
					}
				}
			}
		}
	}
	c.Check("view-pairing", "contract.luaViewStart", token.NoPos, incs["contract.luaViewStart"] == 1 && decs["contract.luaViewStart"] == 0, "luaViewStart increments the view depth exactly once")
	c.Check("view-pairing", "contract.luaViewEnd", token.NoPos, decs["contract.luaViewEnd"] == 1 && incs["contract.luaViewEnd"] == 0, "luaViewEnd decrements the view depth exactly once")
	// executor.call: the ++ is followed, under the same branch, by a defer whose literal does the --
	if f := c.Fn("contract.(*executor).call"); f != nil {
		g := f.Graph()
		ok := false
		var pos token.Pos
		for _, n := range g.StmtNodes(func(n *an.Node) bool {
			s, ok := n.Ast.(*ast.IncDecStmt)
			return ok && s.Tok == token.INC && an.FieldOf(f.Info(), s.X) == nestedView
		}) {
			pos = n.Ast.Pos()
			// a defer statement in the same block, after the increment, whose literal decrements
			for _, m := range g.StmtNodes(func(m *an.Node) bool { _, ok := m.Ast.(*ast.DeferStmt); return ok }) {
				ds := m.Ast.(*ast.DeferStmt)
				lit, isLit := ds.Call.Fun.(*ast.FuncLit)
				if !isLit || m.Block != n.Block {
					continue
				}
				dec := false
				ast.Inspect(lit.Body, func(x ast.Node) bool {
					if s, ok := x.(*ast.IncDecStmt); ok && s.Tok == token.DEC && an.FieldOf(f.Info(), s.X) == nestedView {
						dec = true
					}
					return true
				})
				if dec && g.DominatedFrom(n, m, nil) == false && g.Reachable(n, m) {
					ok = true
				}
			}
			// the increment is conditional on ce.isView: the field itself (resolved through the type
			// checker, once-defined locals followed) is known true at the increment.  The converse --
			// every run of a view function is covered by the increment -- is rule call-view-covers-run.
			isView := p.LookupField("contract", "executor", "isView")
			if isView == nil {
				c.Undecide("view-pairing", "contract.(*executor).call", "field executor.isView not found")
				return
			}
			atView := func(e ast.Expr) (string, bool, bool) {
				if an.FieldOf(f.Info(), c20GapOnce(f, ast.Unparen(e))) == isView {
					return "W", false, true
				}
				return "", false, false
			}
			viewCond, _ := g.GuardedAt(n, atView, map[string]bool{"W": true})
			ok = ok && viewCond
		}
		c.Check("view-pairing", "contract.(*executor).call", pos, ok, "executor.call increments nestedView only for view functions and defers the matching decrement in the same branch")
	}
}

// c20ReadOnlyEntries: Query and CheckFeeDelegation build their context with the
// query constructor, and the chain service's query handler never commits the
// block state it builds.
func c20ReadOnlyEntries(c *rep.Ctx, cg *an.CallGraph, writers map[*an.Func]bool) {
	for _, name := range []string{"contract.Query", "contract.CheckFeeDelegation"} {
		f := c.Fn(name)
		if f == nil {
			continue
		}
		g := f.Graph()
		ctor := g.CallsTo("contract.NewVmContextQuery")
		other := g.CallsTo("contract.NewVmContext")
		execs := g.CallsTo("contract.newExecutor")
		ok := len(ctor) == 1 && len(other) == 0 && len(execs) >= 1
		if ok {
			// the executor is created from the context returned by the query constructor
			ctxObj := g.ResultVarAt(ctor[0], 0)
			for _, e := range execs {
				if len(e.Call.Args) < 3 || an.ObjOf(f.Info(), e.Call.Args[2]) != ctxObj || ctxObj == nil {
					ok = false
				}
				if !g.Dominated(e.Node, an.SetOf(ctor[0].Node)) {
					ok = false
				}
			}
		}
		c.Check("readonly-entry", name, f.Pos(), ok, "read-only Go entry point runs the VM on a context built by NewVmContextQuery (isQuery=true), never by NewVmContext")
		// no direct state mutator calls in the entry point itself
		for _, s := range g.Calls(nil) {
			if s.Fn == nil {
				continue
			}
			if _, isMut := c20Mutators[an.FuncName(s.Fn)]; isMut {
				c.Check("readonly-entry", name+"|"+an.FuncName(s.Fn), s.Call.Pos(), false, "read-only entry point calls a state mutator directly")
			}
		}
	}
	// chain service query handler
	p := c.Prog
	var recv *an.Func
	for _, f := range p.Funcs() {
		if f.Name() == "chain.(*ChainWorker).Receive" {
			recv = f
		}
	}
	if recv == nil {
		c.Undecide("query-state", "chain.(*ChainWorker).Receive", "query handler not found")
		return
	}
	g := recv.Graph()
	qs := g.CallsTo("contract.Query")
	if len(qs) == 0 {
		c.Undecide("query-state", "chain.(*ChainWorker).Receive", "no call of contract.Query in the query handler")
		return
	}
	bad := g.CallsTo("state.(*BlockState).Commit", "state.(*BlockState).Update", "state/statedb.(*StateDB).Commit", "state/statedb.(*StateDB).Update", "state.(*ChainStateDB).UpdateRoot", "state.(*ChainStateDB).Apply")
	c.Check("query-state", "chain.(*ChainWorker).Receive", qs[0].Call.Pos(), len(bad) == 0, "the query handler never updates or commits the block state it builds for a query")
	for _, q := range qs {
		// the block state passed to Query comes from OpenNewStateDB (a fresh view), on every path
		opens := g.CallsTo("state.(*ChainStateDB).OpenNewStateDB")
		gates := an.Set{}
		for _, o := range opens {
			gates[o.Node] = true
		}
		c.Check("query-state", "chain.(*ChainWorker).Receive|fresh-view", q.Call.Pos(), len(opens) > 0 && g.Dominated(q.Node, gates), "contract.Query runs on a state view opened with OpenNewStateDB on every path")
	}
}

func itoa(i int) string {
	if i == 0 {
		return "0"
	}
	neg := i < 0
	if neg {
		i = -i
	}
	s := ""
	for i > 0 {
		s = string(rune('0'+i%10)) + s
		i /= 10
	}
	if neg {
		s = "-" + s
	}
	return s
}
