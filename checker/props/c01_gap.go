package props

import (
	"go/ast"
	"go/token"
	"go/types"
	"sort"
	"strings"

	"verif/checker/internal/an"
	"verif/checker/internal/rep"
)

// Rules added by the gap review of C01 (ledger conservation).  Each rule is a
// structural necessary condition that the earlier rules left undecided; the
// mutations that motivated them are in seeded/_mut/C01.

func init() {
	extend("C01", c01GapRewardLast)
	extend("C01", c01GapTxRollback)
	extend("C01", c01GapRewardGuard)
	extend("C01", c01GapGenesisOnce)
	extend("C01", c01GapPrimitiveShape)
	extend("C01", c01GapOverdrawGuard)
	extend("C01", c01GapResetFirst)
	extend("C01", c01GapFeeCover)
	extend("C01", c01GapCallbackStored)
	extend("C01", c01GapUndoPaired)
	extend("C01", c01GapPartyStored)
	extend("C01", c01GapExecAccountAlias)
	extend("C01", c01GapAdmissionCover)
}

const (
	c01GapPut     = "state.(*AccountState).PutState"
	c01GapGetAcc  = "state.GetAccountState"
	c01GapNewAcc  = "state.CreateAccountState"
	c01GapBalance = "state.(*AccountState).Balance"
)

// ---------------------------------------------------------------------------
// reward-last: BlockState.BpReward is not part of BlockState.Snapshot/Rollback.
// The tx executor rolls a failed transaction back through the snapshot, so a
// fee credited before an error exit of executeTx stays in BpReward although the
// payer's debit is undone: the coinbase is paid a fee nobody paid.  Necessary
// condition: after the credit no error exit of executeTx is reachable, except
// the result of recording the receipt (which pairs with the credit).

func c01GapRewardLast(c *rep.Ctx) {
	c.Explain += " Added by the gap review: the fee credit to BpReward (outside the block snapshot) is the last fallible step of executeTx; a failed transaction is rolled back to a snapshot taken before it and the snapshot/rollback pair covers the account buffer; the block reward is paid under the same commitOnly guard as the transaction loop; genesis balances are minted only when no genesis is stored; the balance primitives, the getter, Reset and PutState all work on the receiver's working state with the right sign (linear form over big.Int operations); every debit that is not a transfer is covered by a sufficiency test of the same account and amount (resetAccount, contract.Execute for the party executeTx debits, admission validation for the no-VM path), because the balance field stores an absolute value; accounts loaded by the VM are marked, registered under their own id and stored by the commit loop; the undo of a contract transfer is two-sided; an account object that is loaded and changed outside the VM is stored, handed on or returned on every successful path; account objects loaded inside a governance call are compared by id with the executor's sender and receiver."
	c.NotDecided = append(c.NotDecided, "that the staking ledger and the aergo.system balance agree (sum of balances is conserved either way)", "the Lua/C side of contract transfers (only the Go callbacks)", "whether a tx-op that runs after the executor in a composite can fail (state divergence, not a change of the sum)")
	f := c.Fn("chain.executeTx")
	if f == nil {
		return
	}
	g := f.Graph()
	info := f.Info()
	bpF := c.Prog.LookupField("state", "BlockState", "BpReward")
	if bpF == nil {
		c.Undecide("reward-last", "state.BlockState.BpReward", "field not found")
		return
	}
	// the premise: Snapshot does not capture BpReward
	for _, name := range []string{"state.(*BlockState).Snapshot", "state.(*BlockState).Rollback"} {
		sf := c.Fn(name)
		if sf == nil {
			return
		}
		if readsField(sf.Info(), sf.Body, bpF) {
			c.Undecide("reward-last", name, "the block snapshot now touches BpReward: the premise of this rule changed, re-read the executor")
			return
		}
	}
	bp := c01BpRewardAdd(f)
	if len(bp) == 0 {
		c.Undecide("reward-last", "chain.executeTx", "no direct credit of BlockState.BpReward found")
		return
	}
	const addReceipt = "state.(*BlockState).AddReceipt"
	for _, b := range bp {
		reach := g.Reach(b.Node.Succs, nil)
		for _, r := range g.Returns() {
			if !reach[r] {
				continue
			}
			rs := r.Ast.(*ast.ReturnStmt)
			if len(rs.Results) == 0 {
				c.Undecide("reward-last", "chain.executeTx", "bare return after the reward credit")
				continue
			}
			last := ast.Unparen(rs.Results[len(rs.Results)-1])
			ok := false
			what := an.ExprString(last)
			if tv, has := info.Types[last]; has && tv.IsNil() {
				ok = true
			} else if call, isCall := last.(*ast.CallExpr); isCall && an.CalleeName(info, call) == addReceipt {
				ok = true
			} else if obj := an.ObjOf(info, last); obj != nil {
				// a variable: every definition that can reach this return after the credit is the receipt result
				ok = true
				n := 0
				for m := range g.Between(b.Node, r) {
					if m.Kind != an.KStmt || !an.Assigns(info, m.Ast, obj) {
						continue
					}
					n++
					if !containsCallTo(info, m.Ast, addReceipt) {
						ok = false
					}
				}
				if n == 0 {
					// defined before the credit: known nil on this path?
					ok = c01GapKnownNil(g, info, obj, r)
				}
			}
			c.Check("reward-last", "chain.executeTx|return "+what, rs.Pos(), ok,
				"after the fee was added to BlockState.BpReward (which BlockState.Snapshot/Rollback do not cover) executeTx must not fail any more, except with the result of recording the receipt: the executor rolls the payer's debit back, the credit stays and the coinbase is paid a fee nobody paid")
		}
	}
	c.Floor("reward-last", 1)
}

// c01GapKnownNil: the error variable obj is known nil at node n (a dominating
// branch outcome says obj == nil and obj is not assigned afterwards).
func c01GapKnownNil(g *an.Graph, info *types.Info, obj types.Object, n *an.Node) bool {
	return c01GapKnown(g, info, obj, n, true)
}

func c01GapKnown(g *an.Graph, info *types.Info, obj types.Object, n *an.Node, isNil bool) bool {
	edges := g.EdgesImplying(an.NilAtom(info, obj), map[string]bool{"nil": isNil})
	for e := range edges {
		if !g.Dominated(n, an.SetOf(e)) {
			continue
		}
		clean := true
		for m := range g.Between(e, n) {
			if m.Kind == an.KStmt && an.Assigns(info, m.Ast, obj) {
				clean = false
			}
		}
		if clean {
			return true
		}
	}
	return false
}

// ---------------------------------------------------------------------------
// tx-rollback: a transaction that fails in executeTx leaves no trace in the
// block state (the block producer skips it and goes on with the same state).

func c01GapTxRollback(c *rep.Ctx) {
	f := c.Fn("chain.NewTxExecutor$1")
	if f == nil {
		return
	}
	g := f.Graph()
	info := f.Info()
	execs := sitesOf(f, "chain.executeTx")
	snaps := sitesOf(f, "state.(*BlockState).Snapshot")
	rolls := sitesOf(f, "state.(*BlockState).Rollback")
	if len(execs) != 1 || len(snaps) == 0 {
		c.Undecide("tx-rollback", f.Name(), "expected one executeTx call and a BlockState.Snapshot call")
		return
	}
	ex := execs[0]
	var snapVar types.Object
	var snapSite an.Site
	for _, s := range snaps {
		if v := g.ResultVarAt(s, 0); v != nil && g.Dominated(ex.Node, an.SetOf(s.Node)) {
			snapVar, snapSite = v, s
		}
	}
	okSnap := snapVar != nil && g.SingleDefOrParam(snapVar)
	if okSnap {
		// same block state object: receiver of Snapshot == argument of executeTx (by object)
		okSnap = recvObj(info, snapSite.Call) != nil && len(ex.Call.Args) > 3 && an.ObjOf(info, ex.Call.Args[3]) == recvObj(info, snapSite.Call)
	}
	c.Check("tx-rollback", f.Name()+"|snapshot-before-executeTx", ex.Call.Pos(), okSnap, "the snapshot of the block state handed to executeTx is taken before the call, into a variable that is not reassigned")
	if len(rolls) == 0 {
		for _, l := range f.Lits {
			if containsCallTo(info, l.Body, "state.(*BlockState).Rollback") {
				c.Undecide("tx-rollback", f.Name(), "the rollback is made inside a nested function (deferred?): idiom not recognised")
				return
			}
		}
	}
	good := an.Set{}
	for _, r := range rolls {
		if argIs(info, r.Call, 0, snapVar) && recvObj(info, r.Call) == recvObj(info, snapSite.Call) {
			good[r.Node] = true
		}
	}
	okEdges := g.ErrNilEdges(ex)
	n := 0
	for _, r := range g.Returns() {
		if !g.Reachable(ex.Node, r) {
			continue
		}
		rs := r.Ast.(*ast.ReturnStmt)
		if len(rs.Results) != 1 {
			continue
		}
		isNil := false
		if tv, has := info.Types[rs.Results[0]]; has && tv.IsNil() {
			isNil = true
		}
		n++
		if isNil {
			c.Check("tx-rollback", f.Name()+"|success-only-after-success", rs.Pos(), len(okEdges) > 0 && g.Dominated(r, okEdges), "the executor reports success only when executeTx succeeded")
			continue
		}
		ok := len(good) > 0 && g.DominatedFrom(ex.Node, r, good.Union(okEdges))
		c.Check("tx-rollback", f.Name()+"|return "+an.ExprString(rs.Results[0]), rs.Pos(), ok, "every failure exit after executeTx passes BlockState.Rollback(snapshot): the producer skips a failed transaction and keeps using the block state, so a partial debit/credit would stay in the block")
	}
	if n < 2 {
		c.Undecide("tx-rollback", f.Name(), "expected a success and a failure exit after executeTx")
	}
	// the snapshot records the revision of the account buffer and the rollback returns to it
	stF := c.Prog.LookupField("state", "BlockSnapshot", "state")
	sf, rf := c.Fn("state.(*BlockState).Snapshot"), c.Fn("state.(*BlockState).Rollback")
	if stF == nil || sf == nil || rf == nil {
		return
	}
	okS := false
	ast.Inspect(sf.Body, func(nd ast.Node) bool {
		switch x := nd.(type) {
		case *ast.KeyValueExpr:
			if id, ok := x.Key.(*ast.Ident); ok && sf.Info().Uses[id] == stF && containsCallTo(sf.Info(), x.Value, "state/statedb.(*StateDB).Snapshot") {
				okS = true
			}
		case *ast.AssignStmt:
			for i, l := range x.Lhs {
				if an.FieldOf(sf.Info(), l) == stF && i < len(x.Rhs) && containsCallTo(sf.Info(), x.Rhs[i], "state/statedb.(*StateDB).Snapshot") {
					okS = true
				}
			}
		}
		return true
	})
	c.Check("tx-rollback", sf.Name()+"|account-buffer-revision", sf.Pos(), okS, "the block snapshot records the revision of the account-state buffer (StateDB.Snapshot)")
	rg := rf.Graph()
	back := an.Set{}
	for _, s := range sitesOf(rf, "state/statedb.(*StateDB).Rollback") {
		if len(s.Call.Args) == 1 && an.FieldOf(rf.Info(), s.Call.Args[0]) == stF {
			back[s.Node] = true
		}
	}
	acc := &c01GapAcc{p: c.Prog}
	okR := len(back) > 0 && !rg.Reach([]*an.Node{rg.Entry}, back.Union(acc.failureReturns(rf)))[rg.Exit]
	c.Check("tx-rollback", rf.Name()+"|account-buffer-rollback", rf.Pos(), okR, "BlockState.Rollback returns the account-state buffer to the recorded revision on every path that does not fail")
}

// ---------------------------------------------------------------------------
// reward-guard: blockExecutor.execute pays the block reward exactly when it
// executes the transactions itself; a commit-only executor receives a block
// state in which the block factory has already paid (GatherTXs).

func c01GapRewardGuard(c *rep.Ctx) {
	p := c.Prog
	f := c.Fn("chain.(*blockExecutor).execute")
	if f == nil {
		return
	}
	g := f.Graph()
	info := f.Info()
	reward := p.LookupObjVar("chain", "SendBlockReward")
	execTx := p.LookupField("chain", "blockExecutor", "execTx")
	commitOnly := p.LookupField("chain", "blockExecutor", "commitOnly")
	if reward == nil || execTx == nil || commitOnly == nil {
		c.Undecide("reward-guard", f.Name(), "SendBlockReward / blockExecutor.execTx / blockExecutor.commitOnly not found")
		return
	}
	rw := funcValueCalls(f, reward)
	tx := funcValueCalls(f, execTx)
	if len(rw) == 0 || len(tx) == 0 {
		c.Undecide("reward-guard", f.Name(), "reward call or transaction execution call not found")
		return
	}
	at := an.FieldAtom(info, commitOnly, "commitOnly")
	txGuarded := true
	for _, s := range tx {
		if ok, _ := g.GuardedAt(s.Node, at, map[string]bool{"commitOnly": false}); !ok {
			txGuarded = false
		}
	}
	for _, s := range rw {
		ok, how := g.GuardedAt(s.Node, at, map[string]bool{"commitOnly": false})
		c.Check("reward-guard", f.Name()+"|SendBlockReward", s.Call.Pos(), ok == txGuarded, "the block reward is paid under the same commitOnly guard as the transaction loop: a commit-only executor gets the block factory's state, in which GatherTXs already credited the coinbase and the vote winner ("+how+")")
	}
	// and the factory side pays unconditionally of the candidate count but once (payout|reward-once), nothing to add
}

// ---------------------------------------------------------------------------
// genesis-once: the genesis balances are minted only when the chain database
// holds no genesis yet.

func c01GapGenesisOnce(c *rep.Ctx) {
	f := c.Fn("chain.(*Core).initGenesis")
	if f == nil {
		return
	}
	g := f.Graph()
	info := f.Info()
	sets := sitesOf(f, "state.(*ChainStateDB).SetGenesis")
	gets := sitesOf(f, "chain.(*ChainDB).GetGenesisInfo")
	if len(sets) == 0 || len(gets) != 1 {
		c.Undecide("genesis-once", f.Name(), "SetGenesis / GetGenesisInfo call not found")
		return
	}
	gen := g.ResultVarAt(gets[0], 0)
	if gen == nil {
		c.Undecide("genesis-once", f.Name(), "the stored genesis is not received in a variable")
		return
	}
	edges := an.Set{}
	for e := range g.EdgesImplying(an.NilAtom(info, gen), map[string]bool{"nil": true}) {
		// the tested value is the one read from the database: no other assignment reaches the test
		clean := g.Dominated(e, an.SetOf(gets[0].Node))
		for _, m := range g.StmtNodes(func(n *an.Node) bool { return an.Assigns(info, n.Ast, gen) }) {
			if m != gets[0].Node && (g.Reachable(m, e.Cond) || m == e.Cond) {
				clean = false
			}
		}
		if clean {
			edges[e] = true
		}
	}
	for _, s := range sets {
		ok := len(edges) > 0 && g.Dominated(s.Node, edges)
		c.Check("genesis-once", f.Name()+"|SetGenesis", s.Call.Pos(), ok, "the genesis balances are credited only on the branch where the chain database has no genesis yet (a second run would mint them again)")
	}
}

// ---------------------------------------------------------------------------
// primitive-shape: the two balance primitives and the getter read and write
// the working state's Balance of their receiver; the credit adds its operand
// and the debit subtracts it.  Decided on a linear form over big.Int
// expressions, so in-place arithmetic, locals and the getter are equivalent.

type c01GapLin map[string]int64

func (a c01GapLin) add(b c01GapLin, k int64) c01GapLin {
	out := c01GapLin{}
	for t, v := range a {
		out[t] = v
	}
	for t, v := range b {
		out[t] += k * v
		if out[t] == 0 {
			delete(out, t)
		}
	}
	return out
}

func (a c01GapLin) String() string {
	var ks []string
	for k := range a {
		ks = append(ks, k)
	}
	sort.Strings(ks)
	var sb strings.Builder
	for _, k := range ks {
		sb.WriteString(" ")
		if a[k] >= 0 {
			sb.WriteString("+")
		}
		sb.WriteString(itoa64(a[k]))
		sb.WriteString("*")
		sb.WriteString(k)
	}
	if sb.Len() == 0 {
		return "0"
	}
	return sb.String()[1:]
}

func (a c01GapLin) eq(b c01GapLin) bool {
	if len(a) != len(b) {
		return false
	}
	for k, v := range a {
		if b[k] != v {
			return false
		}
	}
	return true
}

// c01GapPath: the field path of e rooted at the function's receiver, e.g. "recv.newState.Balance".
func c01GapPath(f *an.Func, e ast.Expr) string {
	info := f.Info()
	var parts []string
	for {
		e = ast.Unparen(e)
		switch x := e.(type) {
		case *ast.SelectorExpr:
			if s := info.Selections[x]; s == nil || s.Kind() != types.FieldVal {
				return ""
			}
			parts = append([]string{x.Sel.Name}, parts...)
			e = x.X
			continue
		case *ast.Ident:
			if c01GapRecvObj(f) != nil && info.Uses[x] == c01GapRecvObj(f) {
				return "recv." + strings.Join(parts, ".")
			}
			return ""
		}
		return ""
	}
}

func c01GapRecvObj(f *an.Func) types.Object {
	if f.Decl == nil || f.Decl.Recv == nil || len(f.Decl.Recv.List) == 0 || len(f.Decl.Recv.List[0].Names) == 0 {
		return nil
	}
	return f.Info().Defs[f.Decl.Recv.List[0].Names[0]]
}

// c01GapBigLin evaluates a *big.Int expression inside method f to a linear
// form over "param:<i>", "bytes:<field path>" and "1" (constants).  The
// receiver of Add/Sub/Set/SetBytes/SetUint64 is overwritten, so its old value
// does not matter.  Locals are followed when defined once.
func c01GapBigLin(p *an.Prog, f *an.Func, e ast.Expr, depth int, within ...*ast.CallExpr) (c01GapLin, bool) {
	if depth > 8 {
		return nil, false
	}
	info := f.Info()
	g := f.Graph()
	e = ast.Unparen(e)
	switch x := e.(type) {
	case *ast.Ident:
		obj := an.ObjOf(info, x)
		if obj == nil {
			return nil, false
		}
		for i := 0; i < 8; i++ {
			if f.ParamObj(i) == obj {
				if !g.SingleDefOrParam(obj) {
					return nil, false
				}
				return c01GapLin{"param:" + itoa64(int64(i)): 1}, true
			}
		}
		rhs, _ := g.SingleDef(obj)
		if rhs == nil {
			return nil, false
		}
		// a local that is later mutated in place (x.Add(x, y) as a statement) is not followed
		for _, s := range g.Calls(nil) {
			if sel, ok := ast.Unparen(s.Call.Fun).(*ast.SelectorExpr); ok && an.ObjOf(info, sel.X) == obj && c01GapBigMutator(an.CalleeName(info, s.Call)) {
				inStack := s.Call == rhs
				for _, w := range within {
					if w == s.Call {
						inStack = true // the use is an operand of this very call: read before the overwrite
					}
				}
				if !inStack {
					return nil, false
				}
			}
		}
		return c01GapBigLin(p, f, rhs, depth+1, within...)
	case *ast.CallExpr:
		name := an.CalleeName(info, x)
		switch name {
		case "math/big.(*Int).Add", "math/big.(*Int).Sub":
			if len(x.Args) != 2 {
				return nil, false
			}
			a, ok1 := c01GapBigLin(p, f, x.Args[0], depth+1, append(within, x)...)
			b, ok2 := c01GapBigLin(p, f, x.Args[1], depth+1, append(within, x)...)
			if !ok1 || !ok2 {
				return nil, false
			}
			k := int64(1)
			if strings.HasSuffix(name, "Sub") {
				k = -1
			}
			return a.add(b, k), true
		case "math/big.(*Int).Set":
			if len(x.Args) != 1 {
				return nil, false
			}
			return c01GapBigLin(p, f, x.Args[0], depth+1, append(within, x)...)
		case "math/big.(*Int).SetBytes":
			if len(x.Args) != 1 {
				return nil, false
			}
			if path := c01GapPath(f, x.Args[0]); path != "" {
				return c01GapLin{"bytes:" + path: 1}, true
			}
			return nil, false
		case "math/big.NewInt", "math/big.(*Int).SetUint64", "math/big.(*Int).SetInt64":
			if len(x.Args) == 1 {
				if tv, has := info.Types[x.Args[0]]; has && tv.Value != nil {
					if tv.Value.ExactString() == "0" {
						return c01GapLin{}, true
					}
					return c01GapLin{"const:" + tv.Value.ExactString(): 1}, true
				}
			}
			return nil, false
		case c01GapBalance:
			// the getter on the same receiver: inline its return expression
			sel, _ := ast.Unparen(x.Fun).(*ast.SelectorExpr)
			if sel == nil || an.ObjOf(info, sel.X) != c01GapRecvObj(f) || c01GapRecvObj(f) == nil {
				return nil, false
			}
			bf := p.Func(c01GapBalance)
			if bf == nil {
				return nil, false
			}
			rets := bf.Graph().Returns()
			if len(rets) != 1 {
				return nil, false
			}
			rs := rets[0].Ast.(*ast.ReturnStmt)
			if len(rs.Results) != 1 {
				return nil, false
			}
			return c01GapBigLin(p, bf, rs.Results[0], depth+1)
		}
	}
	return nil, false
}

func c01GapBigMutator(name string) bool {
	if !strings.HasPrefix(name, "math/big.(*Int).") {
		return false
	}
	switch strings.TrimPrefix(name, "math/big.(*Int).") {
	case "Cmp", "CmpAbs", "Sign", "Bytes", "String", "Text", "Uint64", "Int64", "IsUint64", "IsInt64", "BitLen", "FillBytes", "Format", "Append", "MarshalJSON", "MarshalText", "Bit", "TrailingZeroBits", "ProbablyPrime":
		return false
	}
	return true
}

func c01GapPrimitiveShape(c *rep.Ctx) {
	p := c.Prog
	bal := p.LookupField("types", "State", "Balance")
	if bal == nil {
		return
	}
	const work = "recv.newState.Balance"
	for _, row := range []struct {
		name string
		sign int64
	}{{c01Add, +1}, {c01Sub, -1}} {
		f := c.Fn(row.name)
		if f == nil {
			continue
		}
		info := f.Info()
		g := f.Graph()
		var writes []*ast.AssignStmt
		for _, n := range g.Nodes {
			as, ok := n.Ast.(*ast.AssignStmt)
			if n.Kind != an.KStmt || !ok {
				continue
			}
			for _, l := range as.Lhs {
				if an.FieldOf(info, l) == bal {
					writes = append(writes, as)
				}
			}
		}
		if len(writes) != 1 || len(writes[0].Lhs) != 1 || len(writes[0].Rhs) != 1 {
			c.Check("primitive-shape", row.name+"|one-write", f.Pos(), false, "the primitive writes the balance exactly once")
			continue
		}
		w := writes[0]
		c.Check("primitive-shape", row.name+"|writes-working-state", w.Pos(), c01GapPath(f, w.Lhs[0]) == work, "the primitive writes the Balance of its receiver's working state (newState), which PutState stores: found "+an.ExprString(w.Lhs[0]))
		// rhs = X.Bytes()
		want := c01GapLin{"bytes:" + work: 1, "param:0": row.sign}
		ok := false
		found := "not a big.Int value converted with Bytes()"
		if call, isCall := ast.Unparen(w.Rhs[0]).(*ast.CallExpr); isCall && an.CalleeName(info, call) == "math/big.(*Int).Bytes" {
			if sel, isSel := ast.Unparen(call.Fun).(*ast.SelectorExpr); isSel {
				if lin, okL := c01GapBigLin(p, f, sel.X, 0); okL {
					ok, found = lin.eq(want), lin.String()
				} else {
					c.Undecide("primitive-shape", row.name, "the arithmetic of the primitive is not in the recognised linear family (Add/Sub/Set/SetBytes over locals): "+an.ExprString(sel.X))
					continue
				}
			}
		}
		c.Check("primitive-shape", row.name+"|arithmetic", w.Pos(), ok, "new balance = current working balance of the same account "+map[int64]string{1: "+", -1: "-"}[row.sign]+" the operand (wanted "+want.String()+", found "+found+")")
		c.Check("primitive-shape", row.name+"|straight-line", w.Pos(), g.PostDominated(g.Entry, an.SetOf(g.NodeOf(w))), "the primitive has no path that skips the write")
	}
	// the store writes the working state under the account's own id
	if f := c.Fn(c01GapPut); f != nil {
		sites := sitesOf(f, "state/statedb.(*StateDB).PutState")
		ok := len(sites) == 1 && len(sites[0].Call.Args) == 2 &&
			c01GapPath(f, sites[0].Call.Args[0]) == "recv.aid" && c01GapPath(f, sites[0].Call.Args[1]) == "recv.newState" &&
			f.Graph().PostDominated(f.Graph().Entry, nodesOf(sites))
		c.Check("primitive-shape", c01GapPut+"|stores-working-state", f.Pos(), ok, "PutState hands the working state (the one the primitives write) to the state database under the account's id, on every path")
	}
	if f := c.Fn("state.(*AccountState).Reset"); f != nil {
		info := f.Info()
		g := f.Graph()
		ok := false
		n := 0
		for _, nd := range g.Nodes {
			as, isAs := nd.Ast.(*ast.AssignStmt)
			if nd.Kind != an.KStmt || !isAs || len(as.Lhs) != 1 || len(as.Rhs) != 1 {
				continue
			}
			if c01GapPath(f, as.Lhs[0]) != "recv.newState" {
				continue
			}
			n++
			if call, isC := ast.Unparen(as.Rhs[0]).(*ast.CallExpr); isC && an.CalleeName(info, call) == "types.(*State).Clone" {
				if sel, isSel := ast.Unparen(call.Fun).(*ast.SelectorExpr); isSel && c01GapPath(f, sel.X) == "recv.oldState" {
					ok = g.PostDominated(g.Entry, an.SetOf(nd))
				}
			}
		}
		c.Check("primitive-shape", "state.(*AccountState).Reset|restores-old-state", f.Pos(), ok && n == 1, "Reset replaces the working state by a copy of the state the account had when it was loaded, on every path")
	}
	if f := c.Fn("state.(*AccountState).State"); f != nil {
		rets := f.Graph().Returns()
		ok := false
		for _, r := range rets {
			rs := r.Ast.(*ast.ReturnStmt)
			if len(rs.Results) == 1 {
				ok = c01GapPath(f, rs.Results[0]) == "recv.newState"
			}
		}
		c.Check("primitive-shape", "state.(*AccountState).State|working-state", f.Pos(), ok && len(rets) == 1, "State() (what the sender validation before the execution reads) is the working state")
	}
	if f := c.Fn(c01GapBalance); f != nil {
		rets := f.Graph().Returns()
		ok := false
		found := "?"
		if len(rets) == 1 {
			rs := rets[0].Ast.(*ast.ReturnStmt)
			if len(rs.Results) == 1 {
				if lin, okL := c01GapBigLin(p, f, rs.Results[0], 0); okL {
					ok, found = lin.eq(c01GapLin{"bytes:" + work: 1}), lin.String()
				}
			}
		}
		c.Check("primitive-shape", c01GapBalance+"|reads-working-state", f.Pos(), ok, "the balance getter used by every sufficiency check reads the same field the primitives write (found "+found+")")
	}
}

// ---------------------------------------------------------------------------
// overdraw-guard / fee-cover: State.Balance stores the absolute value
// (big.Int.Bytes drops the sign), so a debit larger than the balance turns into
// a positive balance: every debit must be covered by a sufficiency test of the
// same account and amount.  (SendBalance: transfer|balance-guard.)

// c01GapLowAtom recognises  acct.Balance().Cmp(amt) <|>= 0  and the mirrored
// amt.Cmp(acct.Balance()) >|<= 0 as atom `name` = "balance < amount".
func c01GapLowAtom(info *types.Info, acct, amt types.Object, name string) an.Atomizer {
	isBal := func(e ast.Expr) bool {
		call, ok := ast.Unparen(e).(*ast.CallExpr)
		return ok && an.CalleeName(info, call) == c01GapBalance && recvObj(info, call) == acct && acct != nil
	}
	isAmt := func(e ast.Expr) bool { return an.ObjOf(info, ast.Unparen(e)) == amt && amt != nil }
	return func(e ast.Expr) (string, bool, bool) {
		be, ok := ast.Unparen(e).(*ast.BinaryExpr)
		if !ok {
			return "", false, false
		}
		x, y, op := be.X, be.Y, be.Op
		// constant on the left: flip
		if tv, has := info.Types[x]; has && tv.Value != nil {
			x, y = y, x
			switch op {
			case token.LSS:
				op = token.GTR
			case token.GTR:
				op = token.LSS
			case token.LEQ:
				op = token.GEQ
			case token.GEQ:
				op = token.LEQ
			}
		}
		tv, has := info.Types[y]
		if !has || tv.Value == nil || tv.Value.ExactString() != "0" {
			return "", false, false
		}
		call, isC := ast.Unparen(x).(*ast.CallExpr)
		if !isC || an.CalleeName(info, call) != "math/big.(*Int).Cmp" || len(call.Args) != 1 {
			return "", false, false
		}
		sel, _ := ast.Unparen(call.Fun).(*ast.SelectorExpr)
		if sel == nil {
			return "", false, false
		}
		switch {
		case isBal(sel.X) && isAmt(call.Args[0]): // sign(balance - amount) op 0
			switch op {
			case token.LSS:
				return name, false, true
			case token.GEQ:
				return name, true, true
			}
		case isAmt(sel.X) && isBal(call.Args[0]): // sign(amount - balance) op 0
			switch op {
			case token.GTR:
				return name, false, true
			case token.LEQ:
				return name, true, true
			}
		}
		return "", false, false
	}
}

func c01GapOverdrawGuard(c *rep.Ctx) {
	f := c.Fn("chain.resetAccount")
	if f == nil {
		return
	}
	g := f.Graph()
	info := f.Info()
	acct, feeP := f.ParamObj(0), f.ParamObj(1)
	subs := sitesOf(f, c01Sub)
	if len(subs) == 0 {
		c.Undecide("overdraw-guard", f.Name(), "no debit found")
		return
	}
	for _, s := range subs {
		ok := recvObj(info, s.Call) == acct && argIs(info, s.Call, 0, feeP) && g.SingleDefOrParam(feeP) && g.SingleDefOrParam(acct)
		how := "debit is not of the fee parameter on the account parameter"
		if ok {
			ok, how = g.GuardedAt(s.Node, c01GapLowAtom(info, acct, feeP, "low"), map[string]bool{"low": false})
			// nothing between the test and the debit changes the balance: only Reset() precedes the test
			for _, o := range sitesOf(f, c01Add, c01Sub, c01Send, "state.(*AccountState).Reset") {
				if o.Node != s.Node && ok {
					for e := range g.EdgesImplying(c01GapLowAtom(info, acct, feeP, "low"), map[string]bool{"low": false}) {
						if g.Between(e, s.Node)[o.Node] {
							ok, how = false, "the balance changes between the test and the debit"
						}
					}
				}
			}
		}
		c.Check("overdraw-guard", f.Name()+"|SubBalance", s.Call.Pos(), ok, "the fee re-applied after a failed execution is debited only behind account.Balance() >= fee (the balance field stores an absolute value: an overdraw becomes a positive balance, i.e. minted coin): "+how)
	}
}

// reset-first: resetAccount discards what the failed execution did to the
// account (the amount already moved to a receiver that is not stored) before it
// re-applies the fee and stores the account.
func c01GapResetFirst(c *rep.Ctx) {
	f := c.Fn("chain.resetAccount")
	if f == nil {
		return
	}
	g := f.Graph()
	info := f.Info()
	acct := f.ParamObj(0)
	resets := an.Set{}
	for _, s := range sitesOf(f, "state.(*AccountState).Reset") {
		if recvObj(info, s.Call) == acct {
			resets[s.Node] = true
		}
	}
	targets := sitesOf(f, c01Sub, c01GapPut)
	if len(targets) == 0 {
		c.Undecide("reset-first", f.Name(), "no debit / store found")
		return
	}
	for _, t := range targets {
		ok := len(resets) > 0 && recvObj(info, t.Call) == acct && g.Dominated(t.Node, resets) && g.SingleDefOrParam(acct)
		c.Check("reset-first", f.Name()+"|Reset < "+shortName(an.FuncName(t.Fn)), t.Call.Pos(), ok, "after a failed execution the account is reset to its state before the transaction before the fee is debited and the account stored: the receiver of the failed transfer is not stored, so keeping the sender's debit would burn the amount")
	}
}

// fee-cover: contract.Execute reports success after running the VM only when
// the party that executeTx debits (the receiver under fee delegation, else the
// sender) can pay the fee it returns.
func c01GapFeeCover(c *rep.Ctx) {
	f := c.Fn("contract.Execute")
	if f == nil {
		return
	}
	g := f.Graph()
	info := f.Info()
	sender, receiver, deleg := f.ParamObj(4), f.ParamObj(5), f.ParamObj(8)
	var usedFee types.Object
	if f.Type.Results != nil {
		k := 0
		for _, fl := range f.Type.Results.List {
			for _, nm := range fl.Names {
				if k == 3 {
					usedFee = info.Defs[nm]
				}
				k++
			}
		}
	}
	vm := sitesOf(f, "contract.Call", "contract.Create")
	if sender == nil || receiver == nil || deleg == nil || usedFee == nil || len(vm) == 0 {
		c.Undecide("fee-cover", f.Name(), "parameters (sender, receiver, isFeeDelegation), the named fee result or the VM calls not found")
		return
	}
	if b, ok := deleg.Type().Underlying().(*types.Basic); !ok || b.Kind() != types.Bool {
		c.Undecide("fee-cover", f.Name(), "parameter 8 is not the fee-delegation flag")
		return
	}
	sLow := c01GapLowAtom(info, sender, usedFee, "sLow")
	rLow := c01GapLowAtom(info, receiver, usedFee, "rLow")
	// a local that selects the payer:  payer := sender; if isFeeDelegation { payer = receiver }
	delegOnly := func(e ast.Expr) (string, bool, bool) {
		if id, ok := ast.Unparen(e).(*ast.Ident); ok && info.Uses[id] == deleg {
			return "deleg", false, true
		}
		return "", false, false
	}
	var payerSel []types.Object
	accLocals := map[types.Object][]*an.Node{}
	for _, n := range g.Nodes {
		if n.Kind != an.KStmt {
			continue
		}
		as, ok := n.Ast.(*ast.AssignStmt)
		if !ok || len(as.Lhs) != 1 || len(as.Rhs) != 1 {
			continue
		}
		o := an.ObjOf(info, as.Lhs[0])
		if o == nil || o == sender || o == receiver || !types.Identical(o.Type(), sender.Type()) {
			continue
		}
		accLocals[o] = append(accLocals[o], n)
	}
	for o, defs := range accLocals {
		if len(defs) != 2 {
			continue
		}
		okSel := true
		seenS, seenR := false, false
		for _, d := range defs {
			src := an.ObjOf(info, d.Ast.(*ast.AssignStmt).Rhs[0])
			gd, _ := g.GuardedAt(d, delegOnly, map[string]bool{"deleg": true})
			gn, _ := g.GuardedAt(d, delegOnly, map[string]bool{"deleg": false})
			switch {
			case src == receiver && gd && !seenR:
				seenR = true
			case src == sender && (gn || !gd) && !seenS:
				seenS = true
			default:
				okSel = false
			}
		}
		// the unconditional definition comes first (the conditional one overrides it)
		if okSel && seenS && seenR {
			payerSel = append(payerSel, o)
		}
	}
	var pLow []an.Atomizer
	for _, o := range payerSel {
		pLow = append(pLow, c01GapLowAtom(info, o, usedFee, "pLow"))
	}
	at := func(e ast.Expr) (string, bool, bool) {
		if id, ok := ast.Unparen(e).(*ast.Ident); ok && info.Uses[id] == deleg {
			return "deleg", false, true
		}
		if a, n, ok := sLow(e); ok {
			return a, n, ok
		}
		for _, pl := range pLow {
			if a, n, ok := pl(e); ok {
				return a, n, ok
			}
		}
		return rLow(e)
	}
	cover := an.Set{}
	for e := range g.EdgesImplying(at, map[string]bool{"pLow": false}) {
		// the selecting local is final at the test: both definitions dominate or precede it and none follows
		final := true
		for _, o := range payerSel {
			for _, d := range accLocals[o] {
				if g.Reachable(e.Cond, d) {
					final = false
				}
			}
		}
		if final {
			cover[e] = true
		}
	}
	for _, w := range []struct {
		low string
		d   bool
	}{{"rLow", true}, {"sLow", false}} {
		for e := range g.EdgesImplying(at, map[string]bool{w.low: false}) {
			if an.CondImplies(info, e.Ast.(ast.Expr), e.Kind == an.KTrue, at, map[string]bool{"deleg": w.d}) {
				cover[e] = true
				continue
			}
			if ok, _ := g.GuardedAt(e.Cond, at, map[string]bool{"deleg": w.d}); ok {
				cover[e] = true
			}
		}
	}
	vmReach := g.Reach(func() []*an.Node {
		var out []*an.Node
		for _, s := range vm {
			out = append(out, s.Node)
		}
		return out
	}(), nil)
	n := 0
	for _, r := range g.Returns() {
		if !vmReach[r] {
			continue
		}
		rs := r.Ast.(*ast.ReturnStmt)
		if len(rs.Results) != 5 {
			// bare return of the named results: only before the VM ran
			c.Undecide("fee-cover", f.Name(), "bare return after the VM call")
			continue
		}
		if tv, has := info.Types[rs.Results[4]]; !has || !tv.IsNil() {
			continue // error exits: executeTx resets the payer (overdraw-guard in resetAccount)
		}
		n++
		ok := len(cover) > 0 && g.Dominated(r, cover)
		if !ok && c01GapOtherFeeTest(f, usedFee, sender, receiver, payerSel) {
			c.Undecide("fee-cover", f.Name(), "a balance test against the fee exists on an account expression that is neither sender, receiver nor a recognised payer selection")
			continue
		}
		if ok {
			// the fee is not changed between the test and the return
			for e := range cover {
				for m := range g.Between(e, r) {
					if m.Kind != an.KStmt {
						continue
					}
					if an.Assigns(info, m.Ast, usedFee) {
						ok = false
					}
					for _, call := range an.CallsIn(m.Ast) {
						if sel, isSel := ast.Unparen(call.Fun).(*ast.SelectorExpr); isSel && an.ObjOf(info, sel.X) == usedFee && c01GapBigMutator(an.CalleeName(info, call)) {
							ok = false
						}
					}
				}
			}
		}
		c.Check("fee-cover", f.Name()+"|success-after-VM", rs.Pos(), ok, "after the VM ran, Execute reports success only behind payer.Balance() >= usedFee, the payer being the receiver exactly when isFeeDelegation is set and the sender otherwise (executeTx debits that party unguarded; an overdraw is stored as a positive balance)")
	}
	if n == 0 {
		c.Undecide("fee-cover", f.Name(), "no success return after the VM call found")
	}
}

// ---------------------------------------------------------------------------
// callback-stored: accounts that the VM loads on demand (targets of
// contract.send / contract.call / deploy) are stored when the call commits.

// c01GapNonNilErrFunc: every return of the callee is a freshly built error value.
func c01GapNonNilErrFunc(p *an.Prog, info *types.Info, e ast.Expr) bool {
	if an.NonNilErrorExpr(info, e) {
		return true
	}
	call, ok := ast.Unparen(e).(*ast.CallExpr)
	if !ok {
		return false
	}
	fn := an.Callee(info, call)
	if fn == nil {
		return false
	}
	cf := p.FuncOf(fn)
	if cf == nil || cf.Body == nil {
		return false
	}
	rets := cf.Graph().Returns()
	if len(rets) == 0 {
		return false
	}
	for _, r := range rets {
		rs := r.Ast.(*ast.ReturnStmt)
		if len(rs.Results) != 1 || !an.NonNilErrorExpr(cf.Info(), rs.Results[0]) {
			return false
		}
	}
	return true
}

// c01GapKeyOfAccount: key is the AccountID of the loaded account object acc:
// acc.AccountID(), or types.ToAccountID(x) (possibly through a once-defined
// local) with x the id argument of the loading call.
func c01GapKeyOfAccount(f *an.Func, key ast.Expr, acc types.Object, load *ast.CallExpr) bool {
	info := f.Info()
	g := f.Graph()
	key = ast.Unparen(key)
	if o := an.ObjOf(info, key); o != nil {
		rhs, _ := g.SingleDef(o)
		if rhs == nil {
			return false
		}
		key = ast.Unparen(rhs)
	}
	call, ok := key.(*ast.CallExpr)
	if !ok {
		return false
	}
	switch an.CalleeName(info, call) {
	case "state.(*AccountState).AccountID":
		return recvObj(info, call) == acc
	case "types.ToAccountID":
		if load == nil || len(load.Args) == 0 || len(call.Args) != 1 {
			return false
		}
		a, b := an.ObjOf(info, ast.Unparen(call.Args[0])), an.ObjOf(info, ast.Unparen(load.Args[0]))
		return a != nil && a == b && g.SingleDefOrParam(a)
	}
	return false
}

func c01GapCallbackStored(c *rep.Ctx) {
	p := c.Prog
	csT, _ := p.LookupObj("contract", "callState").(*types.TypeName)
	accF := p.LookupField("contract", "callState", "accState")
	cbF := p.LookupField("contract", "callState", "isCallback")
	ctrF := p.LookupField("contract", "callState", "ctrState")
	mapF := p.LookupField("contract", "vmContext", "callState")
	pk := p.Pkg("contract")
	if csT == nil || accF == nil || cbF == nil || ctrF == nil || mapF == nil || pk == nil {
		c.Undecide("callback-stored", "contract.callState", "type or fields (accState, isCallback, ctrState, vmContext.callState) not found")
		return
	}
	info := pk.TypesInfo
	// (a) literals holding an account loaded here are marked for storing
	nLit := 0
	for _, file := range pk.Syntax {
		ast.Inspect(file, func(nd ast.Node) bool {
			cl, ok := nd.(*ast.CompositeLit)
			if !ok {
				return true
			}
			tv, has := info.Types[cl]
			if !has || tv.Type == nil || !types.Identical(tv.Type, csT.Type()) {
				return true
			}
			var acc, cb ast.Expr
			for _, el := range cl.Elts {
				kv, isKV := el.(*ast.KeyValueExpr)
				if !isKV {
					c.Undecide("callback-stored", "contract.callState literal", "positional callState literal")
					return true
				}
				if id, isID := kv.Key.(*ast.Ident); isID {
					switch info.Uses[id] {
					case accF:
						acc = kv.Value
					case cbF:
						cb = kv.Value
					}
				}
			}
			fn := p.EnclosingFunc(pk, cl.Pos())
			if acc == nil || fn == nil || fn.Body == nil {
				return true
			}
			obj := an.ObjOf(info, acc)
			if obj == nil {
				return true
			}
			top := fn
			rhs, _ := top.Graph().SingleDef(obj)
			if rhs == nil || !containsCallTo(info, rhs, c01GapGetAcc, c01GapNewAcc) {
				return true // executor-owned account (parameter) or a query view
			}
			nLit++
			okCb := false
			if cb != nil {
				if t, h := info.Types[cb]; h && t.Value != nil && t.Value.ExactString() == "true" {
					okCb = true
				}
			}
			c.Check("callback-stored", fn.TopDecl().Name()+"|callState{loaded account}", cl.Pos(), okCb, "a call state that holds an account loaded by the VM itself is marked isCallback, the only mark under which commitCalledContract stores the account (a credited account that is not stored is burnt coin)")
			// ... and is registered in the context's map under the id of that very account, on every path
			fg := top.Graph()
			litNode := fg.NodeContaining(cl.Pos())
			var holder types.Object
			if litNode != nil {
				if as, isAs := litNode.Ast.(*ast.AssignStmt); isAs && len(as.Lhs) == 1 {
					holder = an.ObjOf(info, as.Lhs[0])
				}
			}
			loadCall, _ := ast.Unparen(rhs).(*ast.CallExpr)
			reg := an.Set{}
			okKey := true
			for _, nd := range fg.Nodes {
				as, isAs := nd.Ast.(*ast.AssignStmt)
				if nd.Kind != an.KStmt || !isAs || len(as.Lhs) != 1 || len(as.Rhs) != 1 {
					continue
				}
				ix, isIx := ast.Unparen(as.Lhs[0]).(*ast.IndexExpr)
				if !isIx || an.FieldOf(info, ix.X) != mapF || holder == nil || an.ObjOf(info, as.Rhs[0]) != holder {
					continue
				}
				reg[nd] = true
				if !c01GapKeyOfAccount(top, ix.Index, obj, loadCall) {
					okKey = false
				}
			}
			okReg := litNode != nil && len(reg) > 0 && fg.PostDominated(litNode, reg)
			c.Check("callback-stored", fn.TopDecl().Name()+"|registered-under-own-id", cl.Pos(), okReg && okKey, "the call state of an account loaded by the VM is entered into vmContext.callState under the id of that account on every path: an entry that is missing is never committed, an entry under another id lets a second object of the same account be created (one of the two stores then overwrites the other)")
			return true
		})
	}
	if nLit < 2 {
		c.Undecide("callback-stored", "contract.callState literal", "expected the two VM-side loaders (getCallState, luaDeployContract)")
	}
	// (b) the commit loop reaches the store for every marked entry
	f := c.Fn("contract.(*executor).commitCalledContract")
	if f == nil {
		return
	}
	g := f.Graph()
	var loop *ast.RangeStmt
	ast.Inspect(f.Body, func(nd ast.Node) bool {
		if rs, ok := nd.(*ast.RangeStmt); ok && an.FieldOf(info, rs.X) == mapF && loop == nil {
			loop = rs
		}
		return true
	})
	if loop == nil || g.NodeOf(loop.X) == nil {
		c.Undecide("callback-stored", f.Name(), "loop over vmContext.callState not found")
		return
	}
	val := an.ObjOf(info, loop.Value)
	// go/cfg: range operand, key, value, then the loop header block with the continue/done edges
	head := g.NodeOf(loop.X)
	var iter *an.Node
	for i := 0; i < 8 && head != nil && iter == nil; i++ {
		for _, s := range head.Succs {
			if s.Kind == an.KTrue {
				iter = s
			}
		}
		if iter == nil {
			if len(head.Succs) != 1 {
				break
			}
			head = head.Succs[0]
		}
	}
	rootedAtVal := func(e ast.Expr, field *types.Var) bool {
		sel, ok := ast.Unparen(e).(*ast.SelectorExpr)
		return ok && an.FieldOf(info, sel) == field && an.ObjOf(info, sel.X) == val && val != nil
	}
	var puts []an.Site
	for _, s := range sitesOf(f, c01GapPut) {
		if sel, ok := ast.Unparen(s.Call.Fun).(*ast.SelectorExpr); ok && rootedAtVal(sel.X, accF) {
			puts = append(puts, s)
		}
	}
	if iter == nil || len(puts) == 0 {
		c.Check("callback-stored", f.Name()+"|put", loop.Pos(), false, "the commit loop stores v.accState")
		return
	}
	inBody := func(n ast.Node) bool { return n.Pos() >= loop.Body.Pos() && n.End() <= loop.Body.End() }
	avoid := nodesOf(puts)
	okLoop := true
	why := ""
	for _, n := range g.Nodes {
		if n.Kind != an.KStmt || n.Ast == nil || !inBody(n.Ast) {
			continue
		}
		switch s := n.Ast.(type) {
		case *ast.ReturnStmt:
			if len(s.Results) == 1 && c01GapNonNilErrFunc(p, info, s.Results[0]) {
				avoid[n] = true // failure exit: the whole transaction is rolled back
			} else {
				okLoop, why = false, "the loop returns from inside the body with a possibly-nil error: the remaining entries are not stored"
			}
		case *ast.BranchStmt:
			if s.Tok == token.BREAK || s.Tok == token.GOTO {
				okLoop, why = false, "the loop can be left before every entry was processed"
			}
		}
	}
	cbAtom := func(e ast.Expr) (string, bool, bool) {
		if rootedAtVal(e, cbF) {
			return "cb", false, true
		}
		return "", false, false
	}
	for e := range g.EdgesImplying(cbAtom, map[string]bool{"cb": false}) {
		avoid[e] = true
	}
	// the root contract's account is the executor's receiver (stored by executeTx): skipped by comparing contract states
	for _, n := range g.Nodes {
		if (n.Kind != an.KTrue && n.Kind != an.KFalse) || n.Ast == nil {
			continue
		}
		be, ok := n.Ast.(*ast.BinaryExpr)
		if !ok || (be.Op != token.EQL && be.Op != token.NEQ) {
			continue
		}
		for _, pr := range [][2]ast.Expr{{be.X, be.Y}, {be.Y, be.X}} {
			if !rootedAtVal(pr[0], ctrF) {
				continue
			}
			o := an.ObjOf(info, pr[1])
			if o == nil {
				continue
			}
			rhs, _ := g.SingleDef(o)
			if rhs == nil || an.FieldOf(info, rhs) != ctrF {
				continue
			}
			if (be.Op == token.EQL) == (n.Kind == an.KTrue) {
				avoid[n] = true
			}
		}
	}
	if okLoop {
		reach := g.Reach([]*an.Node{iter}, avoid)
		if reach[head] || reach[g.Exit] {
			okLoop, why = false, "an entry marked isCallback can pass through the loop body without v.accState.PutState() (other than the root-contract skip and failure exits)"
		}
	}
	c.Check("callback-stored", f.Name()+"|every-marked-entry-stored", loop.Pos(), okLoop, "every call state marked isCallback is stored by the commit loop: "+why)
}

// ---------------------------------------------------------------------------
// undo-paired: the undo of a contract-initiated transfer credits the sender
// and debits the callee under the same conditions (up to the nil test of the
// respective party), and a one-sided recovery point carries no amount.

func c01GapUndoPaired(c *rep.Ctx) {
	p := c.Prog
	f := c.Fn("contract.(*recoveryPoint).revertState")
	if f == nil {
		return
	}
	g := f.Graph()
	info := f.Info()
	adds, subs := sitesOf(f, c01Add), sitesOf(f, c01Sub)
	if len(adds) != 1 || len(subs) != 1 {
		return // reported by undo|same-amount
	}
	pureNil := func(e ast.Expr) bool {
		be, ok := ast.Unparen(e).(*ast.BinaryExpr)
		if !ok || (be.Op != token.EQL && be.Op != token.NEQ) {
			return false
		}
		tx, hx := info.Types[be.X]
		ty, hy := info.Types[be.Y]
		return (hx && tx.IsNil()) || (hy && ty.IsNil())
	}
	facts := func(n *an.Node) map[*an.Node]bool {
		out := map[*an.Node]bool{}
		for _, ft := range g.FactsAt(n) {
			if !pureNil(ft.Cond) {
				out[ft.Edge] = true
			}
		}
		return out
	}
	fa, fs := facts(adds[0].Node), facts(subs[0].Node)
	same := len(fa) == len(fs)
	for e := range fa {
		if !fs[e] {
			same = false
		}
	}
	c.Check("undo-paired", f.Name()+"|same-conditions", adds[0].Call.Pos(), same, "the credit to the sender and the debit of the callee in an undo happen under exactly the same branch outcomes (apart from the nil test of the respective party): one without the other mints or burns the amount")
	// one-sided recovery points (no sender or no callee) carry the zero amount
	zero := p.LookupObjVar("contract", "zeroBig")
	n := 0
	for _, s := range p.CallSitesOf(map[string]bool{"contract.createRecoveryPoint": true}) {
		if s.Fn == nil || c01OffNodePkg(s.Fn) || len(s.Call.Args) < 5 {
			continue
		}
		n++
		si := s.Fn.Info()
		oneSided := false
		for _, i := range []int{2, 3} {
			if tv, has := si.Types[s.Call.Args[i]]; has && tv.IsNil() {
				oneSided = true
			}
		}
		if !oneSided {
			continue
		}
		ok := (zero != nil && an.ObjOf(si, s.Call.Args[4]) == zero) || c01IsZeroBig(si, s.Call.Args[4])
		c.Check("undo-paired", s.Fn.TopDecl().Name()+"|one-sided-recovery-point", s.Call.Pos(), ok, "a recovery point without a sender (or without a callee) records the zero amount: revertState would otherwise move coin on one side only")
	}
	if n < 5 {
		c.Undecide("undo-paired", "contract.createRecoveryPoint", "expected the recovery point call sites of the VM callbacks")
	}
	if zero != nil {
		// zeroBig is assigned once, to a zero value
		cnt, okZ := 0, true
		if pk := p.Pkg("contract"); pk != nil {
			for _, file := range pk.Syntax {
				ast.Inspect(file, func(nd ast.Node) bool {
					as, ok := nd.(*ast.AssignStmt)
					if !ok {
						return true
					}
					for i, l := range as.Lhs {
						if an.ObjOf(pk.TypesInfo, l) == zero {
							cnt++
							if len(as.Rhs) != len(as.Lhs) || !c01IsZeroBig(pk.TypesInfo, as.Rhs[i]) {
								okZ = false
							}
						}
					}
					return true
				})
			}
		}
		c.Check("undo-paired", "contract.zeroBig|zero", zero.Pos(), cnt == 1 && okZ, "the shared zero amount is assigned once, to zero")
	}
}

// ---------------------------------------------------------------------------
// party-stored: an account object that a function loads itself and then
// changes (party of a transfer, raw credit/debit, or handed to a callee that
// does so) is stored with PutState on every path to a successful return, or is
// returned to a caller that stores it.  A changed object that is dropped is
// coin credited to nobody (burn) or debited from nobody (mint).

var c01GapDirtyParamTable = map[string][]int{
	// flows through struct fields (SystemContext.Sender / Receiver), which the parameter trace does not follow
	"contract/system.ExecuteSystemTx":         {2, 3},
	"chain.executeGovernanceTx":               {3, 4},
	"contract/enterprise.ExecuteEnterpriseTx": {4, 5},
}

type c01GapAcc struct {
	p        *an.Prog
	accT     types.Type
	dirtyPar map[*an.Func]map[int]bool
	storePar map[*an.Func]map[int]bool
	dirtyRet map[*an.Func]bool
}

var c01GapAccCache = map[*an.Prog]*c01GapAcc{}

func c01GapAccOf(p *an.Prog, accT types.Type) *c01GapAcc {
	if a := c01GapAccCache[p]; a != nil {
		return a
	}
	a := &c01GapAcc{p: p, accT: accT}
	a.compute()
	c01GapAccCache[p] = a
	return a
}

func (a *c01GapAcc) isAcc(t types.Type) bool {
	pt, ok := t.(*types.Pointer)
	return ok && types.Identical(pt.Elem(), a.accT)
}

func (a *c01GapAcc) paramIndex(f *an.Func, obj types.Object) int {
	if obj == nil {
		return -1
	}
	for i := 0; i < 16; i++ {
		if f.ParamObj(i) == obj {
			return i
		}
	}
	return -1
}

// dirtySites: the call sites in f that may change the balance of the account object obj.
func (a *c01GapAcc) dirtySites(f *an.Func, obj types.Object) []an.Site {
	g := f.Graph()
	info := f.Info()
	return g.Calls(func(fn *types.Func, call *ast.CallExpr) bool {
		if fn == nil {
			return false
		}
		name := an.FuncName(fn)
		switch name {
		case c01Add, c01Sub:
			return recvObj(info, call) == obj
		case c01Send:
			return argIs(info, call, 0, obj) || argIs(info, call, 1, obj)
		}
		cf := a.p.FuncOf(fn)
		if cf == nil {
			return false
		}
		for i, arg := range call.Args {
			if an.ObjOf(info, ast.Unparen(arg)) == obj && a.dirtyPar[cf][i] {
				return true
			}
		}
		return false
	})
}

func (a *c01GapAcc) compute() {
	p := a.p
	a.dirtyPar = map[*an.Func]map[int]bool{}
	a.storePar = map[*an.Func]map[int]bool{}
	a.dirtyRet = map[*an.Func]bool{}
	var cands []*an.Func
	for _, f := range p.Funcs() {
		if f.Body == nil || f.Decl == nil || f.Type == nil || f.Type.Params == nil || c01OffNodePkg(f) {
			continue
		}
		has := false
		for i := 0; i < 16; i++ {
			if o := f.ParamObj(i); o != nil && a.isAcc(o.Type()) {
				has = true
			}
		}
		if has {
			cands = append(cands, f)
			a.dirtyPar[f] = map[int]bool{}
			a.storePar[f] = map[int]bool{}
			for _, i := range c01GapDirtyParamTable[f.Name()] {
				a.dirtyPar[f][i] = true
			}
		}
	}
	for changed := true; changed; {
		changed = false
		for _, f := range cands {
			for i := 0; i < 16; i++ {
				o := f.ParamObj(i)
				if o == nil || !a.isAcc(o.Type()) || a.dirtyPar[f][i] {
					continue
				}
				if len(a.dirtySites(f, o)) > 0 {
					a.dirtyPar[f][i] = true
					changed = true
				}
			}
		}
	}
	// storePar: the parameter is stored on every path to a possibly-successful return
	// (directly, through a storing callee, or skipped only for an object of the same account that was stored)
	for changed := true; changed; {
		changed = false
		for _, f := range cands {
			for i := 0; i < 16; i++ {
				o := f.ParamObj(i)
				if o == nil || !a.isAcc(o.Type()) || a.storePar[f][i] {
					continue
				}
				g := f.Graph()
				done, stores := a.doneSet(f, o, false)
				if stores && !g.Reach([]*an.Node{g.Entry}, done)[g.Exit] {
					a.storePar[f][i] = true
					changed = true
				}
			}
		}
	}
}

// doneSet: the vertices at which the obligation to store the account object
// obj is met or void: obj.PutState(), a call of a callee that stores that
// parameter, a failure exit, (for locals) a return that hands obj to the
// caller, and the branch edges on which obj is known to have the same account
// id as another object whose PutState dominates that edge.  stores reports
// whether any storing site exists at all.
func (a *c01GapAcc) doneSet(f *an.Func, obj types.Object, returnedCounts bool) (done an.Set, stores bool) {
	g := f.Graph()
	info := f.Info()
	done = a.failureReturns(f)
	if returnedCounts {
		for _, r := range g.Returns() {
			for _, e := range r.Ast.(*ast.ReturnStmt).Results {
				if an.ObjOf(info, ast.Unparen(e)) == obj {
					done[r] = true
				}
			}
		}
	}
	putsOf := func(o types.Object) an.Set {
		out := an.Set{}
		for _, s := range g.Calls(nil) {
			if s.Fn == nil {
				continue
			}
			if an.FuncName(s.Fn) == c01GapPut && recvObj(info, s.Call) == o {
				out[s.Node] = true
				continue
			}
			if cf := a.p.FuncOf(s.Fn); cf != nil {
				for i, arg := range s.Call.Args {
					if an.ObjOf(info, ast.Unparen(arg)) == o && a.storePar[cf][i] {
						out[s.Node] = true
					}
				}
			}
		}
		return out
	}
	// the object is put into a structure (field, map, slice, literal): whoever owns that structure stores it
	for _, n := range g.Nodes {
		if n.Kind != an.KStmt || n.Ast == nil {
			continue
		}
		esc := false
		ast.Inspect(c01GapStmtShallow(n.Ast), func(nd ast.Node) bool {
			switch x := nd.(type) {
			case *ast.FuncLit:
				return false
			case *ast.AssignStmt:
				for i, r := range x.Rhs {
					if an.ObjOf(info, ast.Unparen(r)) != obj || i >= len(x.Lhs) {
						continue
					}
					switch ast.Unparen(x.Lhs[i]).(type) {
					case *ast.SelectorExpr, *ast.IndexExpr, *ast.StarExpr:
						esc = true
					}
				}
			case *ast.CompositeLit:
				for _, el := range x.Elts {
					v := el
					if kv, ok := el.(*ast.KeyValueExpr); ok {
						v = kv.Value
					}
					if an.ObjOf(info, ast.Unparen(v)) == obj {
						esc = true
					}
				}
			}
			return true
		})
		if esc {
			done[n] = true
		}
	}
	own := putsOf(obj)
	stores = len(own) > 0
	for n := range own {
		done[n] = true
	}
	for _, o := range c01GapAccLocals(f, a) {
		if o == obj {
			continue
		}
		oPuts := putsOf(o)
		if len(oPuts) == 0 {
			continue
		}
		for e := range g.EdgesImplying(c01GapSameIDAtom(info, obj, o), map[string]bool{"same": true}) {
			if g.Dominated(e, oPuts) {
				done[e] = true
			}
		}
	}
	return done, stores
}

func c01GapStmtShallow(a ast.Node) ast.Node {
	if rs, ok := a.(*ast.RangeStmt); ok {
		return rs.X
	}
	return a
}

// failureReturns: return vertices whose (last) error result is certainly non-nil.
func (a *c01GapAcc) failureReturns(f *an.Func) an.Set {
	g := f.Graph()
	info := f.Info()
	out := an.Set{}
	nilRet := an.Set{}
	for _, r := range g.NilReturns() {
		nilRet[r] = true
	}
	var sig *types.Signature
	if f.Decl != nil {
		if o := f.Info().Defs[f.Decl.Name]; o != nil {
			sig, _ = o.Type().(*types.Signature)
		}
	} else if f.Lit != nil {
		sig, _ = f.Info().TypeOf(f.Lit).(*types.Signature)
	}
	if sig == nil || sig.Results().Len() == 0 || !c01GapIsErrorType(sig.Results().At(sig.Results().Len()-1).Type()) {
		return out
	}
	for _, r := range g.Returns() {
		rs := r.Ast.(*ast.ReturnStmt)
		if len(rs.Results) == 0 {
			continue
		}
		last := rs.Results[len(rs.Results)-1]
		if tv, has := info.Types[last]; has && tv.IsNil() {
			continue
		}
		if !nilRet[r] || c01GapNonNilErrFunc(a.p, info, last) {
			out[r] = true
			continue
		}
		// `return err` right behind a test that found err non-nil (other, path-insensitively
		// reachable tests of the same variable do not matter)
		if obj := an.ObjOf(info, ast.Unparen(last)); obj != nil && c01GapKnown(g, info, obj, r, false) {
			out[r] = true
		}
	}
	return out
}

func c01GapIsErrorType(t types.Type) bool {
	return types.Identical(t, types.Universe.Lookup("error").Type())
}

func c01GapPartyStored(c *rep.Ctx) {
	p := c.Prog
	accT, _ := p.LookupObj("state", "AccountState").(*types.TypeName)
	if accT == nil {
		c.Undecide("party-stored", "state.AccountState", "type not found")
		return
	}
	a := c01GapAccOf(p, accT.Type())
	for name, idx := range c01GapDirtyParamTable {
		tf := c.Fn(name)
		if tf == nil {
			continue
		}
		for _, i := range idx {
			if o := tf.ParamObj(i); o == nil || !a.isAcc(o.Type()) {
				c.Undecide("party-stored", name, "parameter table row is stale: parameter "+itoa64(int64(i))+" is not an account state")
			}
		}
	}
	isLoader := func(info *types.Info, e ast.Expr) (*ast.CallExpr, bool) {
		call, ok := ast.Unparen(e).(*ast.CallExpr)
		if !ok {
			return nil, false
		}
		fn := an.Callee(info, call)
		if fn == nil {
			return nil, false
		}
		sig, _ := fn.Type().(*types.Signature)
		if sig == nil || sig.Results().Len() == 0 || !a.isAcc(sig.Results().At(0).Type()) {
			return nil, false
		}
		return call, true
	}
	// pass 1: which functions hand a changed object back to the caller
	type local struct {
		f    *an.Func
		obj  types.Object
		defs []an.Site // loader calls defining it
	}
	var locals []local
	for _, f := range p.Funcs() {
		if f.Body == nil || c01OffNodePkg(f) || !strings.HasPrefix(f.Pkg.PkgPath, an.Module) {
			continue
		}
		if strings.HasSuffix(p.Fset.Position(f.Pos()).Filename, "_test.go") {
			continue
		}
		info := f.Info()
		g := f.Graph()
		if g == nil {
			continue
		}
		seen := map[types.Object]*local{}
		for _, n := range g.Nodes {
			if n.Kind != an.KStmt {
				continue
			}
			var lhs, rhs []ast.Expr
			switch s := n.Ast.(type) {
			case *ast.AssignStmt:
				lhs, rhs = s.Lhs, s.Rhs
			case *ast.ValueSpec:
				for _, nm := range s.Names {
					lhs = append(lhs, nm)
				}
				rhs = s.Values
			default:
				continue
			}
			if len(rhs) != 1 || len(lhs) == 0 {
				continue
			}
			call, ok := isLoader(info, rhs[0])
			if !ok {
				continue
			}
			id, isID := ast.Unparen(lhs[0]).(*ast.Ident)
			if !isID {
				continue
			}
			if id.Name == "_" {
				// the object is dropped at once: only a problem if the callee hands back a changed object (pass 2)
				locals = append(locals, local{f: f, obj: nil, defs: []an.Site{{Node: n, Call: call, Fn: an.Callee(info, call)}}})
				continue
			}
			obj := info.Defs[id]
			if obj == nil {
				obj = info.Uses[id]
			}
			v, isVar := obj.(*types.Var)
			if !isVar || v.IsField() || a.paramIndex(f, obj) >= 0 || (v.Parent() != nil && v.Pkg() != nil && v.Parent() == v.Pkg().Scope()) {
				continue
			}
			if seen[obj] == nil {
				locals = append(locals, local{f: f, obj: obj})
				seen[obj] = &locals[len(locals)-1]
			}
			seen[obj].defs = append(seen[obj].defs, an.Site{Node: n, Call: call, Fn: an.Callee(info, call)})
		}
	}
	returnsObj := func(f *an.Func, obj types.Object) an.Set {
		out := an.Set{}
		for _, r := range f.Graph().Returns() {
			for _, e := range r.Ast.(*ast.ReturnStmt).Results {
				if an.ObjOf(f.Info(), ast.Unparen(e)) == obj {
					out[r] = true
				}
			}
		}
		return out
	}
	for changed := true; changed; {
		changed = false
		for _, l := range locals {
			if l.obj == nil || a.dirtyRet[l.f] {
				continue
			}
			dirty := len(a.dirtySites(l.f, l.obj)) > 0
			for _, d := range l.defs {
				if cf := p.FuncOf(d.Fn); cf != nil && a.dirtyRet[cf] {
					dirty = true
				}
			}
			if dirty && len(returnsObj(l.f, l.obj)) > 0 {
				a.dirtyRet[l.f] = true
				changed = true
			}
		}
	}
	// pass 2: obligations
	n := 0
	for _, l := range locals {
		f := l.f
		g := f.Graph()
		info := f.Info()
		if l.obj == nil {
			for _, d := range l.defs {
				if cf := p.FuncOf(d.Fn); cf != nil && a.dirtyRet[cf] {
					n++
					c.Check("party-stored", f.TopDecl().Name()+"|result of "+shortName(cf.Name())+" dropped", d.Call.Pos(), false, "the callee hands back an account object it has changed; dropping it loses the change (coin credited to nobody)")
				}
			}
			continue
		}
		var starts []*an.Node
		var errCalls, prims []an.Site
		for _, s := range a.dirtySites(f, l.obj) {
			name := an.FuncName(s.Fn)
			if name == c01Add || name == c01Sub {
				prims = append(prims, s)
				continue
			}
			// a callee that changes and stores the object itself is self-contained
			selfStoring := false
			if cf := p.FuncOf(s.Fn); cf != nil {
				for i, arg := range s.Call.Args {
					if an.ObjOf(info, ast.Unparen(arg)) == l.obj && a.storePar[cf][i] {
						selfStoring = true
					}
				}
			}
			if !selfStoring {
				errCalls = append(errCalls, s)
			}
		}
		for _, d := range l.defs {
			if cf := p.FuncOf(d.Fn); cf != nil && a.dirtyRet[cf] {
				errCalls = append(errCalls, d)
			}
		}
		if len(errCalls)+len(prims) == 0 {
			continue // read-only use of the loaded object
		}
		for _, s := range errCalls {
			if e := c01GapErrNilAfter(g, s); len(e) > 0 {
				// the error may be tested more than once (log, then decide): a test that every
				// path from an earlier success edge passes decides again, so start from the last ones
				for _, e1 := range setNodes(e) {
					late := true
					for _, e2 := range setNodes(e) {
						if e2 != e1 && e2.Cond != e1.Cond && g.PostDominated(e1, an.SetOf(e2.Cond)) {
							late = false
						}
					}
					if late {
						starts = append(starts, e1)
					}
				}
			} else {
				starts = append(starts, s.Node.Succs...)
			}
		}
		if len(errCalls) == 0 {
			// raw credit/debit only (payout, genesis): the obligation starts at the primitive
			for _, s := range prims {
				starts = append(starts, s.Node.Succs...)
			}
		}
		done, _ := a.doneSet(f, l.obj, true)
		n++
		ok := !g.Reach(starts, done)[g.Exit]
		c.Check("party-stored", f.TopDecl().Name()+"|"+l.obj.Name(), l.obj.Pos(), ok, "an account object loaded here and changed (transfer party, raw credit/debit, or handed to a callee that does so) is stored with PutState, handed to a storing callee, or returned, on every path from the change to a successful return; the only accepted skip is the branch on which it has the same account id as another object that was stored")
	}
	c.Floor("party-stored", 8)
	_ = n
}

// c01GapErrNilAfter: the branch edges after the call at site on which its
// error result (received in a variable) is known nil and has not been
// reassigned since the call.  Unlike Graph.ErrNilEdges the test may also be
// reachable from other arms (switch arms that assign the same variable); the
// edges are used as starting points of a forward search, so more paths only
// mean more obligations.
func c01GapErrNilAfter(g *an.Graph, site an.Site) an.Set {
	out := g.ErrNilEdges(site)
	info := g.Fn.Info()
	var obj types.Object
	switch st := site.Node.Ast.(type) {
	case *ast.AssignStmt:
		if len(st.Rhs) == 1 && ast.Unparen(st.Rhs[0]) == site.Call && len(st.Lhs) > 0 {
			obj = an.ObjOf(info, st.Lhs[len(st.Lhs)-1])
		}
	}
	if obj == nil || !c01GapIsErrorType(obj.Type()) {
		return out
	}
	reach := g.Reach(site.Node.Succs, nil)
	for e := range g.EdgesImplying(an.NilAtom(info, obj), map[string]bool{"nil": true}) {
		if !reach[e.Cond] {
			continue
		}
		clean := true
		for m := range g.Between(site.Node, e.Cond) {
			if m.Kind == an.KStmt && an.Assigns(info, m.Ast, obj) {
				clean = false
			}
		}
		if clean {
			out[e] = true
		}
	}
	return out
}

// c01GapOtherFeeTest: some X.Balance().Cmp(fee) / fee.Cmp(X.Balance()) in f
// where X is not one of the known account objects.
func c01GapOtherFeeTest(f *an.Func, fee, sender, receiver types.Object, sel []types.Object) bool {
	info := f.Info()
	known := map[types.Object]bool{sender: true, receiver: true}
	for _, o := range sel {
		known[o] = true
	}
	found := false
	ast.Inspect(f.Body, func(nd ast.Node) bool {
		call, ok := nd.(*ast.CallExpr)
		if !ok || an.CalleeName(info, call) != "math/big.(*Int).Cmp" || len(call.Args) != 1 {
			return true
		}
		sel, _ := ast.Unparen(call.Fun).(*ast.SelectorExpr)
		if sel == nil {
			return true
		}
		for _, pr := range [][2]ast.Expr{{sel.X, call.Args[0]}, {call.Args[0], sel.X}} {
			bc, isC := ast.Unparen(pr[0]).(*ast.CallExpr)
			if !isC || an.CalleeName(info, bc) != c01GapBalance || an.ObjOf(info, ast.Unparen(pr[1])) != fee {
				continue
			}
			if !known[recvObj(info, bc)] {
				found = true
			}
		}
		return true
	})
	return found
}

// c01GapAccLocals: variables of type *AccountState used in f (locals and parameters).
func c01GapAccLocals(f *an.Func, a *c01GapAcc) []types.Object {
	seen := map[types.Object]bool{}
	var out []types.Object
	info := f.Info()
	ast.Inspect(f.Body, func(nd ast.Node) bool {
		if id, ok := nd.(*ast.Ident); ok {
			o := info.Uses[id]
			if o == nil {
				o = info.Defs[id]
			}
			if v, isV := o.(*types.Var); isV && !v.IsField() && a.isAcc(v.Type()) && !seen[o] {
				seen[o] = true
				out = append(out, o)
			}
		}
		return true
	})
	return out
}

// c01GapSameIDAtom: x.AccountID() ==/!= y.AccountID() as atom "same".
func c01GapSameIDAtom(info *types.Info, x, y types.Object) an.Atomizer {
	return func(e ast.Expr) (string, bool, bool) {
		be, ok := ast.Unparen(e).(*ast.BinaryExpr)
		if !ok || (be.Op != token.EQL && be.Op != token.NEQ) {
			return "", false, false
		}
		idOf := func(z ast.Expr) types.Object {
			call, ok := ast.Unparen(z).(*ast.CallExpr)
			if !ok || an.CalleeName(info, call) != "state.(*AccountState).AccountID" {
				return nil
			}
			return recvObj(info, call)
		}
		p, q := idOf(be.X), idOf(be.Y)
		if p != nil && q != nil && ((p == x && q == y) || (p == y && q == x)) {
			return "same", be.Op == token.NEQ, true
		}
		// x == y on the objects themselves: the same object is the same account, so for the only
		// question asked of this atom (is "same account" implied?) the pointer test may share the
		// atom: the one real situation this leaves out (two objects, equal ids) is a same-account
		// situation anyway.
		p, q = an.ObjOf(info, be.X), an.ObjOf(info, be.Y)
		if p != nil && q != nil && ((p == x && q == y) || (p == y && q == x)) {
			return "same", be.Op == token.NEQ, true
		}
		return "", false, false
	}
}

// ---------------------------------------------------------------------------
// exec-account-alias: executeTx stores its own sender and receiver objects
// after the governance call returns.  An account object that the governance
// code loads itself, changes and stores must therefore be known to denote a
// different account than the executor's sender and receiver (compared by id on
// the way to the load, the equal branch re-using the executor's object):
// otherwise the executor's later PutState overwrites the change.

func c01GapExecAccountAlias(c *rep.Ctx) {
	p := c.Prog
	accT, _ := p.LookupObj("state", "AccountState").(*types.TypeName)
	root := c.Fn("chain.executeTx")
	gov := c.Fn("chain.executeGovernanceTx")
	if accT == nil || root == nil || gov == nil {
		return
	}
	a := c01GapAccOf(p, accT.Type())
	execs := sitesOf(root, "contract.Execute")
	if len(execs) == 0 {
		c.Undecide("exec-account-alias", root.Name(), "contract.Execute call not found (sender/receiver roles)")
		return
	}
	sender, receiver := c01ExecParty(root, execs[0], 4), c01ExecParty(root, execs[0], 5)
	// roles[f][paramIndex] = "sender" | "receiver"
	roles := map[*an.Func]map[int]string{}
	type item struct {
		f    *an.Func
		role map[types.Object]string
	}
	work := []item{{root, map[types.Object]string{sender: "sender", receiver: "receiver"}}}
	visited := map[*an.Func]bool{}
	inTree := map[*an.Func]bool{}
	for len(work) > 0 {
		it := work[0]
		work = work[1:]
		g := it.f.Graph()
		if g == nil {
			continue
		}
		info := it.f.Info()
		for _, s := range g.Calls(nil) {
			if s.Fn == nil {
				continue
			}
			cf := p.FuncOf(s.Fn)
			if cf == nil || cf.Body == nil || c01OffNodePkg(cf) {
				continue
			}
			if it.f == root && cf != gov {
				continue // only the governance arm: the VM keeps its own id-keyed map (NewVmContext, getCallState)
			}
			rel := an.Rel(cf.Pkg.PkgPath)
			if !(rel == "chain" || strings.HasPrefix(rel, "contract/name") || strings.HasPrefix(rel, "contract/system") || strings.HasPrefix(rel, "contract/enterprise")) {
				continue
			}
			inTree[cf] = true
			if roles[cf] == nil {
				roles[cf] = map[int]string{}
			}
			next := map[types.Object]string{}
			grew := false
			for i, arg := range s.Call.Args {
				if r, ok := it.role[an.ObjOf(info, ast.Unparen(arg))]; ok && r != "" {
					if roles[cf][i] == "" {
						roles[cf][i] = r
						grew = true
					} else if roles[cf][i] != r {
						roles[cf][i] = "mixed"
					}
				}
			}
			for i, r := range roles[cf] {
				if r != "mixed" {
					next[cf.ParamObj(i)] = r
				}
			}
			if !visited[cf] || grew {
				visited[cf] = true
				work = append(work, item{cf, next})
			}
		}
	}
	var fs []*an.Func
	for f := range inTree {
		fs = append(fs, f)
	}
	sort.Slice(fs, func(i, j int) bool { return fs[i].Name() < fs[j].Name() })
	n := 0
	for _, f := range fs {
		g := f.Graph()
		info := f.Info()
		for _, s := range sitesOf(f, c01GapGetAcc, c01GapNewAcc) {
			v := g.ResultVarAt(s, 0)
			if v == nil || len(s.Call.Args) == 0 {
				continue
			}
			// written through: stored, changed, or handed back
			written := false
			for _, ps := range sitesOf(f, c01GapPut) {
				if recvObj(info, ps.Call) == v {
					written = true
				}
			}
			for _, cs := range g.Calls(nil) {
				if cs.Fn == nil {
					continue
				}
				switch an.FuncName(cs.Fn) {
				case c01Add, c01Sub:
					if recvObj(info, cs.Call) == v {
						written = true
					}
				case c01Send:
					if argIs(info, cs.Call, 0, v) || argIs(info, cs.Call, 1, v) {
						written = true
					}
				}
			}
			for _, r := range g.Returns() {
				for _, e := range r.Ast.(*ast.ReturnStmt).Results {
					if an.ObjOf(info, ast.Unparen(e)) == v {
						written = true
					}
				}
			}
			if len(a.dirtySites(f, v)) > 0 {
				written = true
			}
			if !written {
				continue
			}
			idArg := an.ObjOf(info, ast.Unparen(s.Call.Args[0]))
			for _, role := range []string{"sender", "receiver"} {
				n++
				ok := false
				how := "no parameter of " + shortName(f.Name()) + " denotes the executor's " + role + ", so the loaded id cannot be compared with it"
				for i, r := range roles[f] {
					if r != role {
						continue
					}
					par := f.ParamObj(i)
					if par == nil || idArg == nil {
						continue
					}
					okG, h := g.GuardedAt(s.Node, c01GapIDEqAtom(g, info, par, idArg), map[string]bool{"same": false})
					how = h
					if okG {
						ok = true
					}
				}
				c.Check("exec-account-alias", f.Name()+"|"+an.ExprString(s.Call)+"|vs-"+role, s.Call.Pos(), ok, "an account object loaded, changed and stored inside the governance call must be known (by an id comparison on the way to the load) not to be the executor's "+role+" account: executeTx stores its own "+role+" object afterwards and overwrites the change ("+how+")")
			}
		}
	}
	if n < 4 {
		c.Undecide("exec-account-alias", gov.Name(), "expected the account loads of the name contract in the governance call tree")
	}
}

// c01GapIDEqAtom: bytes.Equal(par.ID(), id) / bytes.Equal(id, par.ID()) /
// par.AccountID() == types.ToAccountID(id) as atom "same".
func c01GapIDEqAtom(g *an.Graph, info *types.Info, par, id types.Object) an.Atomizer {
	isParID := func(e ast.Expr, names ...string) bool {
		call, ok := ast.Unparen(e).(*ast.CallExpr)
		if !ok || recvObj(info, call) != par {
			return false
		}
		nm := an.CalleeName(info, call)
		for _, w := range names {
			if nm == w {
				return true
			}
		}
		return false
	}
	isID := func(e ast.Expr) bool { return an.ObjOf(info, ast.Unparen(e)) == id }
	return func(e ast.Expr) (string, bool, bool) {
		switch x := ast.Unparen(e).(type) {
		case *ast.CallExpr:
			if an.CalleeName(info, x) == "bytes.Equal" && len(x.Args) == 2 {
				for _, pr := range [][2]ast.Expr{{x.Args[0], x.Args[1]}, {x.Args[1], x.Args[0]}} {
					if isParID(pr[0], "state.(*AccountState).ID", "state.(*AccountState).IDNoPadding") && isID(pr[1]) {
						return "same", false, true
					}
				}
			}
		case *ast.BinaryExpr:
			if x.Op != token.EQL && x.Op != token.NEQ {
				break
			}
			for _, pr := range [][2]ast.Expr{{x.X, x.Y}, {x.Y, x.X}} {
				if !isParID(pr[0], "state.(*AccountState).AccountID") {
					continue
				}
				other := ast.Unparen(pr[1])
				// the account id of the loaded address may be held in a once-defined local
				if o := an.ObjOf(info, other); o != nil && g != nil {
					if rhs, _ := g.SingleDef(o); rhs != nil {
						other = ast.Unparen(rhs)
					}
				}
				if call, ok := other.(*ast.CallExpr); ok && an.CalleeName(info, call) == "types.ToAccountID" && len(call.Args) == 1 && isID(call.Args[0]) {
					return "same", x.Op == token.NEQ, true
				}
			}
		}
		return "", false, false
	}
}

// ---------------------------------------------------------------------------
// admission-cover: executeTx debits the fee without a test of its own (the
// test after the debit cannot fire: Balance() is never negative).  On the
// path of contract.Execute that does not run the VM (plain transfer) nothing
// else compares the balance with the fee, so the validation that precedes the
// execution must have established  balance - amount >= maximum fee.

func c01GapAdmissionCover(c *rep.Ctx) {
	const (
		vws = "types.(*transaction).ValidateWithSenderState"
		vmf = "types.(*transaction).ValidateMaxFee"
	)
	isName := func(fn *types.Func, want string) bool {
		if fn == nil {
			return false
		}
		n := an.FuncName(fn)
		return n == want || n == strings.Replace(want, "(*transaction)", "(Transaction)", 1)
	}
	// (1) executeTx: each execution is behind the validation of its payer
	if f := c.Fn("chain.executeTx"); f != nil {
		g := f.Graph()
		info := f.Info()
		execs := sitesOf(f, "contract.Execute")
		if len(execs) >= 2 {
			sender, receiver := c01ExecParty(f, execs[0], 4), c01ExecParty(f, execs[0], 5)
			stateOf := func(e ast.Expr, obj types.Object, getter string) bool {
				call, ok := ast.Unparen(e).(*ast.CallExpr)
				return ok && an.CalleeName(info, call) == getter && recvObj(info, call) == obj && obj != nil
			}
			gateS, gateR := an.Set{}, an.Set{}
			for _, s := range g.Calls(func(fn *types.Func, _ *ast.CallExpr) bool { return isName(fn, vws) }) {
				if len(s.Call.Args) == 3 && stateOf(s.Call.Args[0], sender, "state.(*AccountState).State") {
					gateS = gateS.Union(g.ErrNilEdges(s))
				}
			}
			for _, s := range g.Calls(func(fn *types.Func, _ *ast.CallExpr) bool { return isName(fn, vmf) }) {
				if len(s.Call.Args) == 3 && stateOf(s.Call.Args[0], receiver, c01GapBalance) {
					gateR = gateR.Union(g.ErrNilEdges(s))
				}
			}
			for _, e := range execs {
				delegated := false
				if n := len(e.Call.Args); n > 0 {
					if tv, has := info.Types[e.Call.Args[n-1]]; has && tv.Value != nil && tv.Value.ExactString() == "true" {
						delegated = true
					}
				}
				gate, who := gateS, "ValidateWithSenderState(sender.State())"
				if delegated {
					gate, who = gateR, "ValidateMaxFee(receiver.Balance())"
				}
				ok := len(gate) > 0 && g.Dominated(e.Node, gate)
				if ok {
					// the validated object is not changed in between (no credit/debit/transfer before the execution)
					for _, o := range sitesOf(f, c01Add, c01Sub, c01Send) {
						if g.Reachable(o.Node, e.Node) {
							ok = false
						}
					}
				}
				c.Check("admission-cover", f.Name()+"|"+who+" < Execute", e.Call.Pos(), ok, "the execution whose fee is debited without a test runs only after "+who+" succeeded on the unchanged account")
			}
		}
	}
	// (2) ValidateWithSenderState: the transaction types that can take the no-VM path pass ValidateMaxFee(balance - amount)
	if f := c.Fn(vws); f != nil {
		g := f.Graph()
		info := f.Info()
		plain := map[string]bool{"TxType_NORMAL": true, "TxType_TRANSFER": true, "TxType_CALL": true, "TxType_DEPLOY": true, "TxType_REDEPLOY": true}
		nilRet := an.Set{}
		for _, r := range g.Returns() {
			rs := r.Ast.(*ast.ReturnStmt)
			if len(rs.Results) == 1 {
				if tv, has := info.Types[rs.Results[0]]; has && tv.IsNil() {
					nilRet[r] = true
				}
			}
		}
		gate := an.Set{}
		for _, s := range g.Calls(func(fn *types.Func, _ *ast.CallExpr) bool { return isName(fn, vmf) }) {
			if len(s.Call.Args) != 3 {
				continue
			}
			// argument = balance - amount
			if lin, ok := c01GapTxLin(f, s.Call.Args[0], 0); ok && lin.eq(c01GapLin{"balance": 1, "amount": -1}) {
				gate = gate.Union(g.ErrNilEdges(s))
			}
		}
		found := map[string]bool{}
		ast.Inspect(f.Body, func(nd ast.Node) bool {
			cc, ok := nd.(*ast.CaseClause)
			if !ok || len(cc.Body) == 0 {
				return true
			}
			var names []string
			for _, e := range cc.List {
				if o := an.ObjOf(info, ast.Unparen(e)); o != nil {
					if _, isC := o.(*types.Const); isC && plain[o.Name()] {
						names = append(names, o.Name())
					}
				}
			}
			if len(names) == 0 {
				return true
			}
			start := g.NodeOf(cc.Body[0])
			if start == nil {
				start = g.NodeContaining(cc.Body[0].Pos())
			}
			ok = start != nil && len(gate) > 0
			if ok {
				reach := g.Reach([]*an.Node{start}, gate)
				for r := range nilRet {
					if reach[r] {
						ok = false
					}
				}
			}
			for _, nm := range names {
				found[nm] = true
				c.Check("admission-cover", vws+"|"+nm, cc.Pos(), ok, "for a transaction type that can be executed without running the VM the validation succeeds only after ValidateMaxFee(balance - amount) succeeded: nothing later compares the balance left after the transfer with the fee")
			}
			return true
		})
		for nm := range plain {
			if !found[nm] {
				c.Check("admission-cover", vws+"|"+nm, f.Pos(), false, "no case of the sender validation covers this transaction type")
			}
		}
	}
	// (3) ValidateMaxFee: success only when the maximum fee does not exceed the balance it was computed for
	if f := c.Fn(vmf); f != nil {
		g := f.Graph()
		info := f.Info()
		bal := f.ParamObj(0)
		var maxFee types.Object
		for _, s := range sitesOf(f, "fee.TxMaxFee") {
			if len(s.Call.Args) == 5 && an.ObjOf(info, ast.Unparen(s.Call.Args[3])) == bal {
				maxFee = g.ResultVarAt(s, 0)
			}
		}
		if bal == nil || maxFee == nil {
			c.Undecide("admission-cover", vmf, "fee.TxMaxFee(…, balance, …) result not found")
			return
		}
		at := func(e ast.Expr) (string, bool, bool) {
			be, ok := ast.Unparen(e).(*ast.BinaryExpr)
			if !ok {
				return "", false, false
			}
			tv, has := info.Types[be.Y]
			if !has || tv.Value == nil || tv.Value.ExactString() != "0" {
				return "", false, false
			}
			call, isC := ast.Unparen(be.X).(*ast.CallExpr)
			if !isC || an.CalleeName(info, call) != "math/big.(*Int).Cmp" || len(call.Args) != 1 {
				return "", false, false
			}
			sel, _ := ast.Unparen(call.Fun).(*ast.SelectorExpr)
			if sel == nil {
				return "", false, false
			}
			x, y := an.ObjOf(info, sel.X), an.ObjOf(info, ast.Unparen(call.Args[0]))
			switch {
			case x == maxFee && y == bal: // sign(maxFee - balance)
				switch be.Op {
				case token.GTR:
					return "over", false, true
				case token.LEQ:
					return "over", true, true
				}
			case x == bal && y == maxFee: // sign(balance - maxFee)
				switch be.Op {
				case token.LSS:
					return "over", false, true
				case token.GEQ:
					return "over", true, true
				}
			}
			return "", false, false
		}
		n := 0
		for _, r := range g.Returns() {
			rs := r.Ast.(*ast.ReturnStmt)
			if len(rs.Results) != 1 {
				continue
			}
			if tv, has := info.Types[rs.Results[0]]; !has || !tv.IsNil() {
				continue
			}
			n++
			ok, how := g.GuardedAt(r, at, map[string]bool{"over": false})
			c.Check("admission-cover", vmf+"|success", rs.Pos(), ok && g.SingleDefOrParam(bal) && g.SingleDefOrParam(maxFee), "ValidateMaxFee succeeds only when the maximum fee does not exceed the balance it was given: "+how)
		}
		if n == 0 {
			c.Undecide("admission-cover", vmf, "no success return found")
		}
	}
}

// c01GapTxLin: linear form of a big.Int expression in ValidateWithSenderState
// over "balance" (senderState.GetBalanceBigInt()) and "amount" (tx body amount).
func c01GapTxLin(f *an.Func, e ast.Expr, depth int) (c01GapLin, bool) {
	if depth > 6 {
		return nil, false
	}
	info := f.Info()
	g := f.Graph()
	e = ast.Unparen(e)
	switch x := e.(type) {
	case *ast.Ident:
		obj := an.ObjOf(info, x)
		if obj == nil || !g.SingleDefOrParam(obj) {
			return nil, false
		}
		rhs, _ := g.SingleDef(obj)
		if rhs == nil {
			return nil, false
		}
		return c01GapTxLin(f, rhs, depth+1)
	case *ast.CallExpr:
		switch an.CalleeName(info, x) {
		case "math/big.(*Int).Sub", "math/big.(*Int).Add":
			if len(x.Args) != 2 {
				return nil, false
			}
			a, ok1 := c01GapTxLin(f, x.Args[0], depth+1)
			b, ok2 := c01GapTxLin(f, x.Args[1], depth+1)
			if !ok1 || !ok2 {
				return nil, false
			}
			k := int64(1)
			if an.CalleeName(info, x) == "math/big.(*Int).Sub" {
				k = -1
			}
			return a.add(b, k), true
		case "types.(*State).GetBalanceBigInt":
			if recvObj(info, x) == f.ParamObj(0) {
				return c01GapLin{"balance": 1}, true
			}
		case "types.(*TxBody).GetAmountBigInt":
			return c01GapLin{"amount": 1}, true
		}
	}
	return nil, false
}
