package props

import (
	"go/ast"
	"go/token"
	"go/types"
	"sort"
	"strings"

	"verif/checker/internal/an"
	"verif/checker/internal/rep"
)

// C01 — ledger conservation: executing blocks never mints or burns coin.
//
// Decided clause (coin-flow pairing): every mutation of a native-coin balance
// happens at a closed set of primitive sites, and each site sits in a
// conserving pattern: transfer (debit and credit of the same amount), fee
// (debit of txFee once, credited to BpReward once, recorded in the receipt),
// payout (BpReward credited to the coinbase once per block), undo, genesis.

func init() { register("C01", runC01) }

const (
	c01Add  = "state.(*AccountState).AddBalance"
	c01Sub  = "state.(*AccountState).SubBalance"
	c01Send = "state.SendBalance"
)

// packages that are not part of the node's execution path (test harnesses and
// tools); raw balance writes there are out of scope.  Reason per row.
var c01OffNode = map[string]string{
	"contract/vm_dummy":  "in-memory chain used only by contract tests",
	"contract/vm_direct": "offline replay tool, own executor copy",
	"cmd/brick/exec":     "brick test tool",
	"cmd/brick/context":  "brick test tool",
	"tests":              "integration test helpers",
}

// pattern table: enclosing function of a raw Add/SubBalance call -> pattern
var c01RawSites = map[string]string{
	"state.SendBalance":                     "transfer",
	"chain.resetAccount":                    "fee (re-applied after Reset)",
	"chain.executeTx":                       "fee",
	"chain.sendRewardCoinbase":              "payout",
	"contract.(*recoveryPoint).revertState": "undo",
	"state.(*ChainStateDB).SetGenesis":      "mint (genesis only)",
}

// users of SendBalance: enclosing function -> what moves
var c01SendUsers = map[string]string{
	"contract.Execute":                        "transaction amount sender -> receiver",
	"contract.sendBalance":                    "contract-initiated transfer (host callback helper)",
	"contract/name.CreateName":                "name price sender -> aergo.name",
	"contract/name.UpdateName":                "name price sender -> aergo.name",
	"contract/name.SetContractOwner":          "aergo.name balance -> new owner",
	"contract/system.(*stakeCmd).run":         "stake sender -> aergo.system",
	"contract/system.(*unstakeCmd).run":       "unstake aergo.system -> sender",
	"consensus/impl/dpos.sendVotingReward":    "voting reward vault -> winner",
}

func runC01(c *rep.Ctx) {
	c.Explain = "Decides the coin-flow shape of block execution: the Balance field of an account state is written only by AccountState.AddBalance/SubBalance; every call of those two primitives on the node's execution path lies in one of six functions, each checked against its conserving pattern on all control-flow paths (SendBalance: debit and credit with the same operand on the same paths behind the insufficient-balance guard; executeTx: the fee returned by contract.Execute is debited from the payer once, credited to BlockState.BpReward exactly once outside any loop and recorded as the receipt's FeeUsed, governance fee is the zero literal, on the runtime-error arm exactly one resetAccount re-applies the fee; sendRewardCoinbase: BpReward is credited to the coinbase once; revertState: symmetric undo; SetGenesis: mint reachable only from genesis initialisation); every user of SendBalance is in the frozen table, and both parties of a transfer made outside the executor are stored. It decides which statements move coin and that they are paired, not the arithmetic."
	c.NotDecided = []string{"big.Int arithmetic (e.g. Bytes() of a negative number)", "value ranges (negative amounts)", "what the Lua VM does", "equality of sums over a state dump", "fork/reorganisation histories"}
	c.Assume = []string{"packages listed as off-node (vm_dummy, vm_direct, brick, tests) are not linked into aergosvr's block execution path"}
	c01ClosedWriters(c)
	c01RawCallSites(c)
	c01Transfer(c)
	c01Fee(c)
	c01Payout(c)
	c01Undo(c)
	c01Mint(c)
	c01SendBalanceUsers(c)
}

func c01OffNodePkg(f *an.Func) bool {
	if f == nil {
		return false
	}
	rel := an.Rel(f.Pkg.PkgPath)
	for k := range c01OffNode {
		if rel == k || strings.HasPrefix(rel, k+"/") {
			return true
		}
	}
	return false
}

func c01ClosedWriters(c *rep.Ctx) {
	p := c.Prog
	bal := p.LookupField("types", "State", "Balance")
	if bal == nil {
		c.Undecide("balance-writers", "types.State.Balance", "field not found")
		return
	}
	allowed := map[string]string{
		c01Add: "the credit primitive",
		c01Sub: "the debit primitive",
		"types.(*State).Clone": "copy",
		"types.NewState":       "constructor",
	}
	// literals with a Balance are allowed only under a test-mode flag of the owning component
	testFlags := []*types.Var{p.LookupField("state/statedb", "StateDB", "Testmode"), p.LookupField("mempool", "MemPool", "testConfig")}
	n := 0
	for _, w := range p.FieldWrites(map[*types.Var]bool{bal: true}) {
		if w.Fn == nil || c01OffNodePkg(w.Fn) {
			continue
		}
		fn := w.Fn.TopDecl().Name()
		// generated protobuf code (Reset, Unmarshal, getters) lives in types/*.pb.go
		if strings.HasSuffix(p.Fset.Position(w.Pos).Filename, ".pb.go") {
			continue
		}
		n++
		_, ok := allowed[fn]
		if !ok && w.How == "literal" {
			g := w.Fn.Graph()
			if node := g.NodeContaining(w.Pos); node != nil {
				for _, tf := range testFlags {
					if tf == nil {
						continue
					}
					if okT, _ := g.GuardedAt(node, an.FieldAtom(w.Fn.Info(), tf, "test"), map[string]bool{"test": true}); okT {
						ok = true
					}
				}
			}
		}
		c.Check("balance-writers", fn+"|"+w.How, w.Pos, ok, "types.State.Balance may be written only by the AddBalance/SubBalance primitives (and value constructors): found "+w.How+" in "+fn)
	}
	if n < 2 {
		c.Undecide("balance-writers", "types.State.Balance", "the two primitive writes were not found")
	}
}

func c01RawCallSites(c *rep.Ctx) {
	p := c.Prog
	sites := p.CallSitesOf(map[string]bool{c01Add: true, c01Sub: true})
	n := 0
	for _, s := range sites {
		if s.Fn == nil || c01OffNodePkg(s.Fn) {
			continue
		}
		fn := s.Fn.TopDecl().Name()
		pat, ok := c01RawSites[fn]
		n++
		c.Check("raw-sites", fn+"|"+shortName(an.FuncName(s.Obj)), s.Call.Pos(), ok, "a raw balance credit/debit must sit in one of the conserving patterns (transfer, fee, payout, undo, genesis); pattern here: "+pat)
	}
	c.Floor("raw-sites", 9)
	// method values of the primitives would escape the site enumeration
	for _, r := range p.FuncRefs(map[string]bool{c01Add: true, c01Sub: true}) {
		if c01OffNodePkg(r.Fn) {
			continue
		}
		name := "<package level>"
		if r.Fn != nil {
			name = r.Fn.Name()
		}
		c.Check("raw-sites", name+"|method-value", token.NoPos, false, "AddBalance/SubBalance taken as a method value: the call sites can no longer be enumerated")
	}
}

func c01Transfer(c *rep.Ctx) {
	f := c.Fn(c01Send)
	if f == nil {
		return
	}
	g := f.Graph()
	info := f.Info()
	subs, adds := sitesOf(f, c01Sub), sitesOf(f, c01Add)
	if len(subs) != 1 || len(adds) != 1 {
		c.Check("transfer", c01Send+"|one-debit-one-credit", f.Pos(), false, "SendBalance must debit once and credit once")
		return
	}
	sender, receiver, amount := f.ParamObj(0), f.ParamObj(1), f.ParamObj(2)
	ok := recvObj(info, subs[0].Call) == sender && recvObj(info, adds[0].Call) == receiver && sender != receiver
	c.Check("transfer", c01Send+"|parties", subs[0].Call.Pos(), ok, "the debit is applied to the sender parameter and the credit to the receiver parameter")
	ok = argIs(info, subs[0].Call, 0, amount) && argIs(info, adds[0].Call, 0, amount) && g.SingleDefOrParam(amount)
	c.Check("transfer", c01Send+"|same-amount", subs[0].Call.Pos(), ok, "debit and credit use the same, unmodified amount parameter")
	// same paths: each dominates / post-dominates the other
	ok = g.Dominated(adds[0].Node, nodesOf(subs)) && g.PostDominated(subs[0].Node, nodesOf(adds)) &&
		g.Dominated(subs[0].Node, nil) == false
	c.Check("transfer", c01Send+"|same-paths", adds[0].Call.Pos(), g.Dominated(adds[0].Node, nodesOf(subs)) && g.PostDominated(subs[0].Node, nodesOf(adds)), "every path that debits also credits and vice versa")
	c.Check("transfer", c01Send+"|not-in-loop", subs[0].Call.Pos(), !g.InLoop(subs[0].Node) && !g.InLoop(adds[0].Node), "debit and credit happen once")
	// insufficient-balance guard:  sender.Balance().Cmp(amount) < 0 -> error, dominating the debit
	roleBal := func(e ast.Expr) bool {
		call, ok := ast.Unparen(e).(*ast.CallExpr)
		return ok && an.CalleeName(info, call) == "state.(*AccountState).Balance" && recvObj(info, call) == sender
	}
	guard := false
	for _, n := range g.Nodes {
		if n.Kind != an.KFalse && n.Kind != an.KTrue {
			continue
		}
		be, isB := n.Ast.(*ast.BinaryExpr)
		if !isB {
			continue
		}
		call, isC := ast.Unparen(be.X).(*ast.CallExpr)
		if !isC || an.CalleeName(info, call) != "math/big.(*Int).Cmp" || len(call.Args) != 1 {
			continue
		}
		sel, _ := ast.Unparen(call.Fun).(*ast.SelectorExpr)
		if sel == nil || !roleBal(sel.X) || an.ObjOf(info, call.Args[0]) != amount {
			continue
		}
		tv, has := info.Types[be.Y]
		if !has || tv.Value == nil || tv.Value.ExactString() != "0" {
			continue
		}
		// balance.Cmp(amount) < 0 must be false (>= 0 true) on the way to the debit
		pass := (be.Op == token.LSS && n.Kind == an.KFalse) || (be.Op == token.GEQ && n.Kind == an.KTrue)
		if pass && g.Dominated(subs[0].Node, an.SetOf(n)) {
			guard = true
		}
	}
	c.Check("transfer", c01Send+"|balance-guard", subs[0].Call.Pos(), guard, "the debit is dominated by the guard sender.Balance() >= amount (error exit otherwise)")
}

func c01Fee(c *rep.Ctx) {
	f := c.Fn("chain.executeTx")
	if f == nil {
		return
	}
	g := f.Graph()
	info := f.Info()
	execs := sitesOf(f, "contract.Execute")
	if len(execs) < 2 {
		c.Undecide("fee", "chain.executeTx", "expected the two contract.Execute call sites (ordinary and fee-delegated)")
		return
	}
	// the fee variable: result #3 of contract.Execute
	var fee types.Object
	for _, e := range execs {
		v := g.ResultVarAt(e, 3)
		if v == nil || (fee != nil && v != fee) {
			c.Check("fee", "chain.executeTx|fee-variable", e.Call.Pos(), false, "the fee returned by contract.Execute must be received in one variable")
			return
		}
		fee = v
	}
	// all definitions of the fee variable: Execute results or the zero literal (governance)
	for _, n := range g.StmtNodes(func(n *an.Node) bool { return an.Assigns(info, n.Ast, fee) }) {
		ok := false
		what := an.ExprString(exprOfStmt(n.Ast))
		if containsCallTo(info, n.Ast, "contract.Execute") {
			ok = true
		} else if as, isAs := n.Ast.(*ast.AssignStmt); isAs && len(as.Rhs) == 1 && c01IsZeroBig(info, as.Rhs[0]) {
			ok = true
		} else if vs, isVS := n.Ast.(*ast.ValueSpec); isVS && len(vs.Values) == 0 {
			ok = true // var txFee *big.Int
		}
		c.Check("fee", "chain.executeTx|fee-def", n.Ast.Pos(), ok, "the fee is either what contract.Execute charged or the zero literal of the governance arm (found: "+what+")")
	}
	// payer debit: directly after each Execute, on every path, exactly one SubBalance(fee) on the right party
	sender, receiver := c01ExecParty(f, execs[0], 4), c01ExecParty(f, execs[0], 5)
	for _, e := range execs {
		delegated := false
		if n := len(e.Call.Args); n > 0 {
			if tv, has := info.Types[e.Call.Args[n-1]]; has && tv.Value != nil && tv.Value.ExactString() == "true" {
				delegated = true
			}
		}
		var debit []an.Site
		for _, s := range sitesOf(f, c01Sub) {
			if argIs(info, s.Call, 0, fee) && g.DominatedFrom(e.Node, s.Node, nil) == false && g.Reachable(e.Node, s.Node) && s.Node.Block == e.Node.Block {
				debit = append(debit, s)
			}
		}
		payer := sender
		who := "sender"
		if delegated {
			payer, who = receiver, "receiver (fee delegation)"
		}
		ok := len(debit) == 1 && recvObj(info, debit[0].Call) == payer && payer != nil
		if ok {
			// straight-line: the debit post-dominates the execution and nothing assigns the fee in between
			ok = g.PostDominated(e.Node, nodesOf(debit))
			for m := range g.Between(e.Node, debit[0].Node) {
				if m.Kind == an.KStmt && an.Assigns(info, m.Ast, fee) {
					ok = false
				}
			}
		}
		c.Check("fee", "chain.executeTx|debit-after-Execute("+who+")", e.Call.Pos(), ok, "the fee charged by contract.Execute is debited exactly once from the "+who+" immediately after the execution, on every path")
	}
	// every debit of the fee variable in executeTx is one of those
	for _, s := range sitesOf(f, c01Sub, c01Add) {
		ok := s.Fn.Name() == "SubBalance" && argIs(info, s.Call, 0, fee)
		c.Check("fee", "chain.executeTx|only-fee-debits", s.Call.Pos(), ok, "executeTx touches balances directly only to debit the fee")
	}
	// credit to BpReward: exactly one site, same variable, outside loops, dominating the receipt
	bp := c01BpRewardAdd(f)
	rec := sitesOf(f, "state.(*BlockState).AddReceipt")
	okBp := len(bp) == 1 && len(rec) == 1
	if okBp {
		call := bp[0].Call
		bpF := c.Prog.LookupField("state", "BlockState", "BpReward")
		okBp = len(call.Args) == 2 && argIs(info, call, 1, fee) && !g.InLoop(bp[0].Node) && g.Dominated(rec[0].Node, nodesOf(bp))
		if u, isU := ast.Unparen(call.Args[0]).(*ast.UnaryExpr); !isU || u.Op != token.AND || an.FieldOf(info, u.X) != bpF {
			okBp = false
		}
		// no assignment of the fee between the last debit decision and the credit is checked by fee-def (only Execute / zero)
	}
	c.Check("fee", "chain.executeTx|credit-BpReward", posOf(bp), okBp, "the same fee variable is added to BlockState.BpReward exactly once, outside any loop, on every path that produces a receipt")
	// receipt.FeeUsed = fee.Bytes()
	feeUsed := c.Prog.LookupField("types", "Receipt", "FeeUsed")
	okFU := false
	var fuPos token.Pos
	for _, w := range c.Prog.FieldWrites(map[*types.Var]bool{feeUsed: true}) {
		if w.Fn != f || w.How != "assign" {
			continue
		}
		n := g.NodeContaining(w.Pos)
		if as, isAs := n.Ast.(*ast.AssignStmt); isAs && len(as.Rhs) == 1 && mentions(info, as.Rhs[0], fee) && containsCallTo(info, as.Rhs[0], "math/big.(*Int).Bytes") {
			okFU, fuPos = len(rec) == 1 && g.Dominated(rec[0].Node, an.SetOf(n)), w.Pos
		}
	}
	c.Check("fee", "chain.executeTx|receipt.FeeUsed", fuPos, okFU && feeUsed != nil, "the receipt records the very fee that was credited to the producer (the documented supply exception is the sum of these)")
	// runtime-error arm: exactly one fee-carrying resetAccount on every path, on the payer
	resets := sitesOf(f, "chain.resetAccount")
	var feeResets []an.Site
	for _, r := range resets {
		if argIs(info, r.Call, 1, fee) {
			feeResets = append(feeResets, r)
		} else if len(r.Call.Args) == 3 {
			tv, has := info.Types[r.Call.Args[1]]
			c.Check("fee", "chain.executeTx|reset-without-fee", r.Call.Pos(), has && tv.IsNil(), "a resetAccount that does not carry the fee passes nil")
		}
	}
	okOnce := len(feeResets) >= 1
	for i, a := range feeResets {
		for j, b := range feeResets {
			if i != j && g.Reachable(a.Node, b.Node) {
				okOnce = false // two fee debits on one path
			}
		}
	}
	// every reset of the error arm: all paths from the first reset site to the credit pass exactly one fee-carrying reset
	if len(bp) == 1 && len(resets) > 0 {
		feeSet := nodesOf(feeResets)
		for _, r := range resets {
			if feeSet[r.Node] {
				continue
			}
			if g.Reach(r.Node.Succs, feeSet)[bp[0].Node] {
				// a fee-less reset from which the credit is reachable without a fee reset: allowed only if a fee reset dominates it
				if !g.Dominated(r.Node, feeSet) {
					okOnce = false
				}
			}
		}
	}
	c.Check("fee", "chain.executeTx|error-arm-fee-once", posOf(feeResets), okOnce, "on the runtime-error arm the fee is re-applied by exactly one resetAccount per path (sender, or the receiver under fee delegation)")
	// resetAccount: debit of its fee parameter, guarded by fee != nil and by the balance check
	if rf := c.Fn("chain.resetAccount"); rf != nil {
		rg := rf.Graph()
		ri := rf.Info()
		feeP := rf.ParamObj(1)
		subs := sitesOf(rf, c01Sub)
		ok := len(subs) == 1 && argIs(ri, subs[0].Call, 0, feeP) && recvObj(ri, subs[0].Call) == rf.ParamObj(0) && !rg.InLoop(subs[0].Node)
		if ok {
			nn := rg.EdgesImplying(an.NilAtom(ri, feeP), map[string]bool{"nil": false})
			ok = len(nn) > 0 && rg.Dominated(subs[0].Node, nn)
		}
		c.Check("fee", "chain.resetAccount|debit", posOf(subs), ok, "resetAccount debits exactly its fee parameter from the account it was handed, once, only when a fee is given")
		c.Check("fee", "chain.resetAccount|no-credit", rf.Pos(), len(sitesOf(rf, c01Add)) == 0, "resetAccount never credits")
	}
}

func exprOfStmt(n ast.Node) ast.Expr {
	switch s := n.(type) {
	case *ast.AssignStmt:
		if len(s.Rhs) > 0 {
			return s.Rhs[0]
		}
	case ast.Expr:
		return s
	}
	return &ast.Ident{Name: "<decl>"}
}

// c01IsZeroBig:  new(big.Int).SetUint64(0) / big.NewInt(0) / types.NewZeroAmount()
func c01IsZeroBig(info *types.Info, e ast.Expr) bool {
	call, ok := ast.Unparen(e).(*ast.CallExpr)
	if !ok {
		return false
	}
	zeroArg := func() bool {
		if len(call.Args) != 1 {
			return false
		}
		tv, has := info.Types[call.Args[0]]
		return has && tv.Value != nil && tv.Value.ExactString() == "0"
	}
	switch an.CalleeName(info, call) {
	case "math/big.(*Int).SetUint64", "math/big.(*Int).SetInt64":
		sel, _ := ast.Unparen(call.Fun).(*ast.SelectorExpr)
		if sel == nil {
			return false
		}
		inner, isCall := ast.Unparen(sel.X).(*ast.CallExpr)
		return isCall && an.IsBuiltin(info, inner, "new") && zeroArg()
	case "math/big.NewInt":
		return zeroArg()
	case "types.NewZeroAmount":
		return true
	}
	return false
}

func c01ExecParty(f *an.Func, s an.Site, arg int) types.Object {
	if arg >= len(s.Call.Args) {
		return nil
	}
	return an.ObjOf(f.Info(), s.Call.Args[arg])
}

func c01Payout(c *rep.Ctx) {
	p := c.Prog
	if f := c.Fn("chain.sendRewardCoinbase"); f != nil {
		g := f.Graph()
		info := f.Info()
		adds := sitesOf(f, c01Add)
		bpF := p.LookupField("state", "BlockState", "BpReward")
		ok := len(adds) == 1 && len(sitesOf(f, c01Sub)) == 0 && !g.InLoop(adds[0].Node)
		if ok {
			arg := ast.Unparen(adds[0].Call.Args[0])
			src := arg
			if o := an.ObjOf(info, arg); o != nil {
				if rhs, _ := g.SingleDef(o); rhs != nil {
					src = rhs
				}
			}
			u, isU := ast.Unparen(src).(*ast.UnaryExpr)
			ok = isU && u.Op == token.AND && an.FieldOf(info, u.X) == bpF && bpF != nil
		}
		c.Check("payout", "chain.sendRewardCoinbase|credit", posOf(adds), ok, "the coinbase account is credited exactly once with BlockState.BpReward (the sum of the fees debited in this block)")
		puts := sitesOf(f, "state.(*AccountState).PutState")
		okPut := len(adds) == 1 && len(puts) >= 1 && recvObj(info, puts[0].Call) == recvObj(info, adds[0].Call) && g.PostDominated(adds[0].Node, nodesOf(puts))
		c.Check("payout", "chain.sendRewardCoinbase|put", posOf(puts), okPut, "the credited coinbase account is stored on every path")
	}
	// the reward function runs once per block in both executors
	reward := p.LookupObjVar("chain", "SendBlockReward")
	for _, name := range []string{"chain.(*blockExecutor).execute", "consensus/chain.(*BlockGenerator).GatherTXs"} {
		f := c.Fn(name)
		if f == nil {
			continue
		}
		g := f.Graph()
		calls := funcValueCalls(f, reward)
		ok := len(calls) == 1 && !g.InLoop(calls[0].Node)
		c.Check("payout", name+"|reward-once", posOf(calls), ok && reward != nil, "the block reward function is invoked exactly once per block, outside the transaction loop")
	}
	// SendBlockReward is only ever bound to sendRewardCoinbase or to the decorator literal that ends in it
	cg := p.BuildCallGraphCached()
	vals := cg.FuncValues(reward)
	okVals := len(vals) >= 2
	for _, v := range vals {
		switch {
		case v.Name() == "chain.sendRewardCoinbase":
		case v.Lit != nil && v.TopDecl().Name() == "chain.DecorateBlockRewardFn":
			lg := v.Graph()
			inner := lg.CallsTo("chain.sendRewardCoinbase")
			okLit := len(inner) == 1 && !lg.InLoop(inner[0].Node)
			if okLit {
				for _, r := range lg.NilReturns() {
					_ = r
				}
				// the decorated function's error stops the payout; otherwise the payout's result is returned
				for _, r := range lg.Returns() {
					rs := r.Ast.(*ast.ReturnStmt)
					if len(rs.Results) == 1 && containsCallTo(v.Info(), rs.Results[0], "chain.sendRewardCoinbase") {
						continue
					}
					if !lg.Dominated(r, nodesOf(inner)) && !an.NonNilErrorExpr(v.Info(), rs.Results[0]) {
						// `return err` of the decorated fn: fine (error aborts the block)
					}
				}
			}
			if !okLit {
				okVals = false
			}
		default:
			okVals = false
		}
	}
	c.Check("payout", "chain.SendBlockReward|bindings", token.NoPos, okVals && reward != nil, "the block reward function is bound only to sendRewardCoinbase or to the consensus decorator that calls it exactly once")
	// voting reward: both parties of the vault -> winner transfer are stored
	if f := c.Fn("consensus/impl/dpos.sendVotingReward"); f != nil {
		c01BothPartiesPut(c, f)
	}
}

// c01BothPartiesPut: in f, after a successful SendBalance(a, b, x) both a and b are stored with PutState on every path to a nil return.
func c01BothPartiesPut(c *rep.Ctx, f *an.Func) {
	g := f.Graph()
	info := f.Info()
	for _, s := range sitesOf(f, c01Send) {
		okEdges := g.ErrNilEdges(s)
		for i, role := range []string{"debited", "credited"} {
			party := an.ObjOf(info, s.Call.Args[i])
			puts := an.Set{}
			for _, ps := range sitesOf(f, "state.(*AccountState).PutState") {
				if recvObj(info, ps.Call) == party {
					puts[ps.Node] = true
				}
			}
			ok := party != nil && len(puts) > 0 && len(okEdges) > 0
			if ok {
				for _, r := range g.NilReturns() {
					if !g.Reach(s.Node.Succs, nil)[r] || !g.DominatedFrom(s.Node, r, an.Set{}) && false {
						continue
					}
					// returns reached on the success side of the transfer
					onFail := !g.Reach(setNodes(okEdges), nil)[r]
					if onFail {
						continue
					}
					if g.Reach(setNodes(okEdges), puts)[r] {
						ok = false
					}
				}
			}
			c.Check("payout", f.Name()+"|put-"+role, s.Call.Pos(), ok, "after a successful transfer the "+role+" account is stored before the function reports success (otherwise coin is minted or burnt in the state trie)")
		}
	}
}

func setNodes(s an.Set) []*an.Node {
	var out []*an.Node
	for n := range s {
		out = append(out, n)
	}
	sort.Slice(out, func(i, j int) bool { return out[i].ID < out[j].ID })
	return out
}

func c01Undo(c *rep.Ctx) {
	f := c.Fn("contract.(*recoveryPoint).revertState")
	if f == nil {
		return
	}
	g := f.Graph()
	info := f.Info()
	adds, subs := sitesOf(f, c01Add), sitesOf(f, c01Sub)
	amountF := c.Prog.LookupField("contract", "recoveryPoint", "amount")
	ok := len(adds) == 1 && len(subs) == 1 && amountF != nil &&
		an.FieldOf(info, adds[0].Call.Args[0]) == amountF && an.FieldOf(info, subs[0].Call.Args[0]) == amountF
	c.Check("undo", "contract.(*recoveryPoint).revertState|same-amount", posOf(adds), ok, "the undo credits the sender and debits the callee with the same recorded amount")
	if ok {
		// both under the same outer condition (amount > 0): the facts that dominate one dominate the other, up to the nil checks of the parties
		fa, fs := g.FactsAt(adds[0].Node), g.FactsAt(subs[0].Node)
		common := 0
		for _, a := range fa {
			for _, b := range fs {
				if a.Edge == b.Edge {
					common++
				}
			}
		}
		c.Check("undo", "contract.(*recoveryPoint).revertState|same-condition", posOf(adds), common >= 1 && !g.InLoop(adds[0].Node) && !g.InLoop(subs[0].Node), "credit and debit of the undo are controlled by the same amount test, once each")
	}
}

// c01GenesisCallers: the functions that may call ChainStateDB.SetGenesis, one line of reason each.
var c01GenesisCallers = map[string]string{
	"chain.(*Core).initGenesis": "node start on an empty chain DB (guarded by genesis-once in c01_gap.go)",
}

func c01Mint(c *rep.Ctx) {
	p := c.Prog
	f := c.Fn("state.(*ChainStateDB).SetGenesis")
	if f == nil {
		return
	}
	cg := p.BuildCallGraphCached()
	callers := cg.Callers(f)
	ok := len(callers) >= 1
	var names []string
	for _, cl := range callers {
		n := cl.TopDecl().Name()
		names = append(names, n)
		if c01OffNodePkg(cl) {
			continue
		}
		// frozen table of callers (confirmed by reading), not a name pattern
		if _, known := c01GenesisCallers[n]; !known {
			ok = false
		}
	}
	c.Check("mint", "state.(*ChainStateDB).SetGenesis|callers", f.Pos(), ok, "the only minting site is genesis construction; its callers are genesis initialisation only: "+strings.Join(names, ", "))
}

func c01SendBalanceUsers(c *rep.Ctx) {
	p := c.Prog
	n := 0
	for _, s := range p.CallSitesOf(map[string]bool{c01Send: true}) {
		if s.Fn == nil || c01OffNodePkg(s.Fn) {
			continue
		}
		fn := s.Fn.TopDecl().Name()
		what, ok := c01SendUsers[fn]
		n++
		c.Check("transfer-users", fn, s.Call.Pos(), ok, "users of SendBalance are enumerated so that a replacement by raw credit/debit or a new coin flow is noticed: "+what)
		if ok {
			// the two parties are different expressions
			a, b := an.ExprString(s.Call.Args[0]), an.ExprString(s.Call.Args[1])
			c.CheckTrivial("transfer-users", fn+"|distinct-parties", s.Call.Pos(), a != b, "sender and receiver arguments are distinct expressions ("+a+" -> "+b+")")
		}
	}
	c.Floor("transfer-users", 14)
	for _, r := range p.FuncRefs(map[string]bool{c01Send: true}) {
		if c01OffNodePkg(r.Fn) {
			continue
		}
		c.Check("transfer-users", "method-value", token.NoPos, false, "SendBalance used as a function value: users can no longer be enumerated")
	}
}
