package props

import (
	"go/ast"
	"go/token"
	"go/types"

	"verif/checker/internal/an"
)

const (
	c15ValidateSystemTx = "contract/system.ValidateSystemTx"
	c15NewSystemContext = "contract/system.newSystemContext"
	c15NewSysCmd        = "contract/system.newSysCmd"
	c15ExecuteSystemTx  = "contract/system.ExecuteSystemTx"
	c15ExecuteNameTx    = "contract/name.ExecuteNameTx"
	c15ValidateNameTx   = "contract/name.ValidateNameTx"
)

// c15ArmValidator: which validator must have succeeded before ValidateSystemTx
// returns a context for the operation (arm constant of types.OpSysTx).
var c15ArmValidator = map[string]string{
	"Opstake":   "contract/system.validateForStaking",
	"Opunstake": "contract/system.validateForUnstaking",
	"OpvoteBP":  "contract/system.validateForVote",
	"OpvoteDAO": "contract/system.validateForVote",
}

// c15NameMutators: the functions of package name that change the registry or
// move coins; they may only run after ValidateNameTx succeeded.
var c15NameMutators = []string{"contract/name.CreateName", "contract/name.UpdateName", "contract/name.SetContractOwner"}

func (e *c15Env) gates() {
	c, p := e.c, e.p
	// ---- ExecuteSystemTx: cmd.run() only on a command returned by newSysCmd
	if f := c.Fn(c15ExecuteSystemTx); f != nil {
		g := f.Graph()
		mk := g.CallsTo(c15NewSysCmd)
		runs := g.CallsTo("contract/system.(sysCmd).run")
		ok := len(mk) == 1 && len(runs) >= 1
		if ok {
			r := c15ResolverOf(f)
			for _, rn := range runs {
				if !g.Dominated(rn.Node, g.ErrNilEdges(mk[0])) || !c15IsResultOf(r, c15Recv(rn.Call), mk[0].Call, 0) {
					ok = false
				}
			}
		}
		c.Check("gate", c15ExecuteSystemTx+"|newSysCmd<run", f.Pos(), ok, "run() is invoked only on the command returned by newSysCmd, after its error was checked")
	}
	// ---- newSysCmd: constructor call only with the validated context
	ctorType := p.LookupObj("contract/system", "sysCmdCtor")
	if f := c.Fn(c15NewSysCmd); f != nil && ctorType != nil {
		g := f.Graph()
		info := f.Info()
		mk := g.CallsTo(c15NewSystemContext)
		var ctorCalls []an.Site
		for _, s := range g.Calls(nil) {
			if s.Fn != nil {
				// a direct call of a function with the constructor signature is a constructor call too
				if c15HasCtorSig(s.Fn, ctorType.Type()) {
					ctorCalls = append(ctorCalls, s)
				}
				continue
			}
			if tv, ok := info.Types[s.Call.Fun]; ok && tv.Type != nil && types.Identical(tv.Type.Underlying(), ctorType.Type().Underlying()) && !tv.IsType() {
				ctorCalls = append(ctorCalls, s)
			}
		}
		ok := len(mk) == 1 && len(ctorCalls) >= 1
		if ok {
			r := c15ResolverOf(f)
			for _, cc := range ctorCalls {
				if !g.Dominated(cc.Node, g.ErrNilEdges(mk[0])) || len(cc.Call.Args) != 1 || !c15IsResultOf(r, cc.Call.Args[0], mk[0].Call, 0) {
					ok = false
				}
			}
		}
		c.Check("gate", c15NewSysCmd+"|newSystemContext<ctor", f.Pos(), ok, "a command constructor is called only with the context returned by newSystemContext, after its error was checked")
	} else if ctorType == nil {
		c.Undecide("gate", "contract/system.sysCmdCtor", "constructor type not found")
	}
	// ---- newSystemContext: the context returned is the one ValidateSystemTx returned without error
	if f := c.Fn(c15NewSystemContext); f != nil {
		g := f.Graph()
		info := f.Info()
		vs := g.CallsTo(c15ValidateSystemTx)
		ok := len(vs) == 1
		if ok {
			r := c15ResolverOf(f)
			edges := g.ErrNilEdges(vs[0])
			n := 0
			for _, rn := range g.Returns() {
				rs := rn.Ast.(*ast.ReturnStmt)
				if len(rs.Results) != 2 || c15IsNilExpr(info, rs.Results[0]) {
					continue
				}
				n++
				if !c15IsResultOf(r, rs.Results[0], vs[0].Call, 0) || !g.Dominated(rn, edges) {
					ok = false
				}
			}
			if n == 0 {
				ok = false
			}
		}
		c.Check("gate", c15NewSystemContext+"|ValidateSystemTx", f.Pos(), ok, "the only context ever returned is the result of ValidateSystemTx on the err==nil edge")
	}
	// ---- constructors and SystemContext literals have closed user sets
	if ctorType != nil {
		names := map[string]bool{}
		for _, f := range p.Funcs() {
			if f.Pkg == e.sys && f.Obj != nil && c15HasCtorSig(f.Obj, ctorType.Type()) {
				names[f.Name()] = true
			}
		}
		n := 0
		for _, ref := range append(p.FuncRefs(names), p.CallSitesOf(names)...) {
			fn := "<package level>"
			if ref.Fn != nil {
				fn = ref.Fn.TopDecl().Name()
			}
			n++
			c.Check("gate-closed", fn+"|"+an.FuncName(ref.Obj), c15SitePos(ref), fn == c15NewSysCmd, "a command constructor is referenced only inside newSysCmd (so it only ever sees a validated context)")
		}
		if n < 3 {
			c.Undecide("gate-closed", "sysCmdCtor", "fewer constructor references than confirmed on the reference tree")
		}
	}
	if st := p.LookupObj("contract/system", "SystemContext"); st != nil {
		n := 0
		for _, pk := range p.ModulePkgs() {
			info := pk.TypesInfo
			if info == nil {
				continue
			}
			for _, file := range pk.Syntax {
				ast.Inspect(file, func(nd ast.Node) bool {
					cl, ok := nd.(*ast.CompositeLit)
					if !ok {
						return true
					}
					if tv, ok := info.Types[cl]; ok && types.Identical(tv.Type, st.Type()) {
						fn := "<package level>"
						if f := p.EnclosingFunc(pk, cl.Pos()); f != nil {
							fn = f.TopDecl().Name()
						}
						n++
						c.Check("gate-closed", fn+"|SystemContext{}", cl.Pos(), fn == c15ValidateSystemTx, "a SystemContext is built only by ValidateSystemTx")
					}
					return true
				})
			}
		}
		if n == 0 {
			c.Undecide("gate-closed", "SystemContext{}", "no construction site of SystemContext found")
		}
	}
	for _, cs := range p.CallSitesOf(map[string]bool{"contract/system.(sysCmd).run": true}) {
		fn := "<package level>"
		if cs.Fn != nil {
			fn = cs.Fn.TopDecl().Name()
		}
		c.Check("gate-closed", fn+"|sysCmd.run", cs.Call.Pos(), fn == c15ExecuteSystemTx, "commands are run only by ExecuteSystemTx")
	}
	c.Floor("gate-closed", 5)

	// ---- ValidateSystemTx: each operation arm reaches the success return only through its validator
	if f := c.Fn(c15ValidateSystemTx); f != nil {
		g := f.Graph()
		succ, _ := c15Returns(g)
		opType := p.LookupObj("types", "OpSysTx")
		arms := 0
		seen := map[string]bool{}
		for _, n := range g.Nodes {
			if n.Kind != an.KTrue || n.Cond == nil {
				continue
			}
			x, ok := n.Cond.Ast.(ast.Expr)
			if !ok {
				continue
			}
			var id *ast.Ident
			switch y := ast.Unparen(x).(type) {
			case *ast.Ident:
				id = y
			case *ast.SelectorExpr:
				id = y.Sel
			}
			if id == nil {
				continue
			}
			co, isConst := f.Info().Uses[id].(*types.Const)
			if !isConst || opType == nil || !types.Identical(co.Type(), opType.Type()) {
				continue
			}
			arms++
			seen[co.Name()] = true
			want, known := c15ArmValidator[co.Name()]
			if !known {
				c.Check("gate", c15ValidateSystemTx+"|arm:"+co.Name(), x.Pos(), false, "operation arm without a row in the validator table: classify it")
				continue
			}
			edges := an.Set{}
			for _, s := range g.CallsTo(want) {
				for ed := range g.ErrNilEdges(s) {
					edges[ed] = true
				}
			}
			ok = len(edges) > 0 && len(succ) > 0
			reach := g.Reach([]*an.Node{n}, edges)
			for _, s := range succ {
				if reach[s] {
					ok = false
				}
			}
			c.Check("gate", c15ValidateSystemTx+"|arm:"+co.Name(), x.Pos(), ok, "from this arm a context is returned only after "+want+" returned without error")
		}
		for name := range c15ArmValidator {
			if !seen[name] {
				c.Undecide("gate", c15ValidateSystemTx+"|arm:"+name, "operation arm not found in the switch")
			}
		}
		// the default arm refuses: a success return is reachable only through some case edge
		caseEdges := an.Set{}
		for _, n := range g.Nodes {
			if n.Kind == an.KTrue && n.Cond != nil {
				if x, ok := n.Cond.Ast.(ast.Expr); ok {
					if tv, has := f.Info().Types[x]; has && tv.Value != nil && opType != nil && types.Identical(tv.Type, opType.Type()) {
						caseEdges[n] = true
					}
				}
			}
		}
		ok := len(caseEdges) > 0
		for _, s := range succ {
			if !g.Dominated(s, caseEdges) {
				ok = false
			}
		}
		c.Check("gate", c15ValidateSystemTx+"|default", f.Pos(), ok, "an unknown operation never reaches the success return")
		// the staking record / old vote of the context come from the validators
		for _, fv := range []*types.Var{e.fStaked, e.fVote} {
			ws, complete := e.fieldWriteValues(fv)
			if !complete || len(ws) == 0 {
				c.Undecide("gate", "SystemContext."+fv.Name(), "writes not enumerable")
				continue
			}
			for _, w := range ws {
				fn := "<package level>"
				ok := false
				if w.fn != nil && w.expr != nil {
					fn = w.fn.TopDecl().Name()
					r := c15ResolverOf(w.fn)
					v := r.Resolve(w.expr)
					if v.Call != nil {
						name := c15CalleeName(r.info, v.Call)
						for _, val := range c15ArmValidator {
							if name == val {
								ok = fn == c15ValidateSystemTx
							}
						}
						if fv == e.fStaked && v.Idx != 0 {
							ok = false
						}
						if fv == e.fVote && v.Idx != 1 {
							ok = false
						}
					}
				}
				c.Check("gate", fn+"|SystemContext."+fv.Name(), w.pos, ok, "the context's "+fv.Name()+" is assigned only in ValidateSystemTx, from the validator's result")
			}
		}
	}
	c.Floor("gate", 12)

	// ---- ExecuteNameTx
	if f := c.Fn(c15ExecuteNameTx); f != nil {
		g := f.Graph()
		vs := g.CallsTo(c15ValidateNameTx)
		if len(vs) != 1 {
			c.Check("gate", c15ExecuteNameTx+"|ValidateNameTx", f.Pos(), false, "expected exactly one call of ValidateNameTx")
		} else {
			edges := g.ErrNilEdges(vs[0])
			n := 0
			for _, s := range g.CallsTo(c15NameMutators...) {
				n++
				c.Check("gate", c15ExecuteNameTx+"|ValidateNameTx<"+an.FuncName(s.Fn), s.Call.Pos(), g.Dominated(s.Node, edges), "the registry is changed only after ValidateNameTx returned without error")
			}
			if n < 3 {
				c.Undecide("gate", c15ExecuteNameTx, "fewer registry mutators called than on the reference tree")
			}
		}
		names := map[string]bool{}
		for _, n := range c15NameMutators {
			names[n] = true
		}
		for _, cs := range append(p.CallSitesOf(names), p.FuncRefs(names)...) {
			fn := "<package level>"
			if cs.Fn != nil {
				fn = cs.Fn.TopDecl().Name()
			}
			c.Check("gate-closed", fn+"|"+an.FuncName(cs.Obj), c15SitePos(cs), fn == c15ExecuteNameTx, "the name registry mutators are called only by ExecuteNameTx")
		}
	}
}

func c15HasCtorSig(fn *types.Func, ctor types.Type) bool {
	sig, ok := fn.Type().(*types.Signature)
	if !ok || sig.Recv() != nil {
		return false
	}
	return types.Identical(sig, ctor.Underlying())
}

func c15SitePos(cs an.CallSite) token.Pos {
	if cs.Call != nil {
		return cs.Call.Pos()
	}
	if cs.Fn != nil {
		return cs.Fn.Pos()
	}
	return token.NoPos
}

// c15IsResultOf: x denotes result idx of the given call (directly or through
// locals assigned exactly once).
func c15IsResultOf(r *c15Resolver, x ast.Expr, call *ast.CallExpr, idx int) bool {
	if x == nil {
		return false
	}
	v := r.Resolve(x)
	return v.Call == call && v.Idx == idx
}
