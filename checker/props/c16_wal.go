package props

import (
	"go/ast"
	"go/token"
	"go/types"
	"sort"
	"strings"

	"verif/checker/internal/an"
)

// c16Op is one database operation on a raft key.
type c16Op struct {
	fn      *an.Func
	g       *an.Graph
	site    an.Site
	key     string        // name of the key constructor (RaftEntry, ...)
	keyCall *ast.CallExpr // the call of the key constructor
	op      string        // Set | Delete | Get
	kind    string        // Transaction | Bulk | DB
	recv    types.Object  // object of the receiver expression (nil if not an identifier)
}

func (o *c16Op) how() string { return o.kind + "." + o.op }

// c16KeyUsers: the closed set of users of every raft key (E2).  key -> "function|Kind.Op".
var c16KeyUsers = map[string]map[string]string{
	"RaftIdentity": {
		"chain.(*ChainDB).ClearWAL|Transaction.Delete":   "clear",
		"chain.(*ChainDB).WriteIdentity|Transaction.Set": "writer",
		"chain.(*ChainDB).GetIdentity|DB.Get":            "reader",
	},
	"RaftState": {
		"chain.(*ChainDB).ClearWAL|Transaction.Delete":    "clear",
		"chain.(*ChainDB).WriteHardState|Transaction.Set": "writer",
		"chain.(*ChainDB).GetHardState|DB.Get":            "reader",
	},
	"RaftSnap": {
		"chain.(*ChainDB).ClearWAL|Transaction.Delete":   "clear",
		"chain.(*ChainDB).WriteSnapshot|Transaction.Set": "writer",
		"chain.(*ChainDB).GetSnapshot|DB.Get":            "reader",
	},
	"RaftEntryLastIdx": {
		"chain.(*ChainDB).ClearWAL$1|Bulk.Delete":                  "clear",
		"chain.(*ChainDB).writeRaftEntryLastIndex|Transaction.Set": "writer (helper: the transaction is a parameter)",
		"chain.(*ChainDB).GetRaftEntryLastIdx|DB.Get":              "reader",
	},
	"RaftEntry": {
		"chain.(*ChainDB).ClearWAL$1|Bulk.Delete":            "clear",
		"chain.(*ChainDB).WriteRaftEntry|Transaction.Delete": "truncation",
		"chain.(*ChainDB).WriteRaftEntry|Transaction.Set":    "writer",
		"chain.(*ChainDB).GetRaftEntry|DB.Get":               "reader",
	},
	"RaftEntryInvert": {
		"chain.(*ChainDB).WriteRaftEntry|Transaction.Set":  "writer",
		"chain.(*ChainDB).GetRaftEntryIndexOfBlock|DB.Get": "reader",
	},
	"RaftConfChangeProgress": {
		"chain.(*ChainDB).writeConfChangeProgress|Transaction.Set": "writer (helper: the transaction is a parameter)",
		"chain.(*ChainDB).GetConfChangeProgress|DB.Get":            "reader",
	},
}

// c16NotAtomic: writers of raft keys that do not use a transaction, with reason.
var c16NotAtomic = map[string]string{
	"chain.(*ChainDB).ClearWAL$1": "ClearWAL removes the entries 1..last with a bulk deleter after identity, hard state and snapshot were deleted in one transaction; clearing runs before raft starts and an interrupted clear leaves HasWal()==false (identity is gone), so it is repeated, not observed",
}

// codec families: encoder / decoder callee -> family
var c16Encoders = map[string]string{
	"internal/enc/proto.Encode":     "proto",
	"internal/enc/gob.Encode":       "gob",
	"consensus.(*WalEntry).ToBytes": "gob",
	"types.Uint64ToBytes":           "le64",
	"types.BlockNoToBytes":          "le64",
}
var c16Decoders = map[string]string{
	"internal/enc/proto.Decode": "proto",
	"internal/enc/gob.Decode":   "gob",
	"types.BytesToUint64":       "le64",
	"types.BlockNoFromBytes":    "le64",
}

type c16TxUse struct {
	site   an.Site
	method string       // Set/Delete/Commit/Discard for method uses, "" for argument uses
	obj    types.Object // the transaction object used
	defer_ bool
}

func c16TxUses(g *an.Graph) []c16TxUse {
	info := g.Fn.Info()
	var out []c16TxUse
	for _, s := range g.Calls(nil) {
		_, isDefer := s.Node.Ast.(*ast.DeferStmt)
		if s.Fn != nil && strings.HasPrefix(an.FuncName(s.Fn), c16DB+".(Transaction).") {
			if sel, ok := ast.Unparen(s.Call.Fun).(*ast.SelectorExpr); ok {
				out = append(out, c16TxUse{site: s, method: s.Fn.Name(), obj: an.ObjOf(info, sel.X), defer_: isDefer})
			}
			continue
		}
		for _, a := range s.Call.Args {
			if tv, ok := info.Types[a]; ok && tv.Type != nil && c16IsTx(tv.Type) {
				out = append(out, c16TxUse{site: s, obj: an.ObjOf(info, a), defer_: isDefer})
			}
		}
	}
	return out
}

func c16AllFuncs(fs []*an.Func) []*an.Func {
	var out []*an.Func
	var walk func(f *an.Func)
	walk = func(f *an.Func) {
		out = append(out, f)
		for _, l := range f.Lits {
			walk(l)
		}
	}
	for _, f := range fs {
		walk(f)
	}
	return out
}

func c16WAL(e *c16Env) {
	c, p := e.c, e.p
	dbkeyPath := an.Module + "/types/dbkey"

	// ---- enumerate every database operation on a raft key (role: first argument is a raft key constructor call)
	var ops []*c16Op
	usedKeyCalls := map[*ast.CallExpr]bool{}
	for _, f := range c16AllFuncs(p.Funcs()) {
		if f.Body == nil || f.Pkg.Imports[dbkeyPath] == nil {
			continue
		}
		info := f.Info()
		// cheap pre-filter: does the body call a raft key constructor at all?
		has := false
		an.InspectShallow(f.Body, func(n ast.Node) bool {
			if call, ok := n.(*ast.CallExpr); ok {
				if k, _ := e.keyOf(info, call); k != "" {
					has = true
				}
			}
			return !has
		})
		if !has {
			continue
		}
		g := f.Graph()
		for _, s := range g.Calls(nil) {
			if s.Fn == nil || len(s.Call.Args) == 0 {
				continue
			}
			name := an.FuncName(s.Fn)
			if !strings.HasPrefix(name, c16DB+".(") {
				continue
			}
			rest := strings.TrimPrefix(name, c16DB+".(")
			i := strings.Index(rest, ").")
			if i < 0 {
				continue
			}
			kind, op := rest[:i], rest[i+2:]
			key, kc := e.keyOf(info, s.Call.Args[0])
			if key == "" {
				continue
			}
			o := &c16Op{fn: f, g: g, site: s, key: key, keyCall: kc, op: op, kind: kind}
			if sel, ok := ast.Unparen(s.Call.Fun).(*ast.SelectorExpr); ok {
				o.recv = an.ObjOf(info, sel.X)
			}
			ops = append(ops, o)
			usedKeyCalls[kc] = true
		}
	}
	sort.Slice(ops, func(i, j int) bool { return ops[i].site.Call.Pos() < ops[j].site.Call.Pos() })

	// ---- key-users: closed user set
	seenUser := map[string]bool{}
	for _, o := range ops {
		u := o.fn.Name() + "|" + o.how()
		_, ok := c16KeyUsers[o.key][u]
		c.Check("key-users", o.key+"|"+u, o.site.Call.Pos(), ok, "raft key "+o.key+" is used ("+o.how()+") only by the enumerated ChainDB methods; "+o.fn.Name()+" "+map[bool]string{true: "is one of them (" + c16KeyUsers[o.key][u] + ")", false: "is NOT in the closed set"}[ok])
		seenUser[o.key+"|"+u] = true
		c.Fns[o.fn.TopDecl().Name()] = true
		c.Pkgs[an.Rel(o.fn.Pkg.PkgPath)] = true
	}
	c.Floor("key-users", 18)
	// every key has at least one writer and one reader
	for _, key := range c16SortedKeys(func() map[string]bool {
		m := map[string]bool{}
		for _, nm := range e.keys {
			m[nm] = true
		}
		return m
	}()) {
		var w, r int
		for _, o := range ops {
			if o.key == key && o.op == "Set" {
				w++
			}
			if o.key == key && o.op == "Get" {
				r++
			}
		}
		c.CheckTrivial("key-roles", key, token.NoPos, w >= 1 && r >= 1, "raft key "+key+" has "+itoa(w)+" writer site(s) and "+itoa(r)+" reader site(s)")
	}
	// every call of a raft key constructor is the key argument of a database operation
	names := map[string]bool{}
	for fn := range e.keys {
		names[an.FuncName(fn)] = true
	}
	for _, cs := range p.CallSitesOf(names) {
		fnName := "<package level>"
		if cs.Fn != nil {
			fnName = cs.Fn.Name()
		}
		c.CheckTrivial("key-use", fnName+"|"+cs.Obj.Name(), cs.Call.Pos(), usedKeyCalls[cs.Call], "every raft key constructed is passed directly as the key of a db Get/Set/Delete (no raft key escapes into a variable or another API)")
	}
	c.Floor("key-use", 18)

	// ---- codec agreement between the writer and the reader of each key
	c16Codec(e, ops)

	// ---- transactions
	helpers := map[*types.Func]map[string]bool{} // helper writers: the transaction is a parameter
	for _, o := range ops {
		if o.kind != "Transaction" || o.recv == nil || o.fn.Obj == nil {
			continue
		}
		for i := 0; i < 8; i++ {
			if po := c16Param(o.fn, i); po != nil && po == o.recv {
				if helpers[o.fn.Obj] == nil {
					helpers[o.fn.Obj] = map[string]bool{}
				}
				helpers[o.fn.Obj][o.key] = true
			}
		}
	}
	// writers outside a transaction
	for _, o := range ops {
		if o.op == "Get" || o.kind == "Transaction" {
			continue
		}
		reason, ex := c16NotAtomic[o.fn.Name()]
		msg := "raft key " + o.key + " is modified outside a db transaction (" + o.how() + ")"
		if ex {
			msg += " — exception: " + reason
		}
		c.Check("tx-only", o.fn.Name()+"|"+o.key+"|"+o.how(), o.site.Call.Pos(), ex, msg)
	}
	// bulk deleters flush on every path
	bulkFns := map[*an.Func]bool{}
	for _, o := range ops {
		if o.kind == "Bulk" {
			bulkFns[o.fn] = true
		}
	}
	for f := range bulkFns {
		g := f.Graph()
		flush := an.Set{}
		for _, s := range g.CallsTo(c16DB + ".(Bulk).Flush") {
			if _, d := s.Node.Ast.(*ast.DeferStmt); !d {
				flush[s.Node] = true
			}
		}
		for _, o := range ops {
			if o.fn == f && o.kind == "Bulk" {
				c.Check("bulk-flush", f.Name()+"|"+o.key, o.site.Call.Pos(), len(flush) > 0 && g.PostDominated(o.site.Node, flush), "every path from the bulk "+o.op+" of "+o.key+" to the end of the function passes Flush")
			}
		}
	}

	// owners: functions that create a transaction and write a raft key on it (directly or through a helper)
	owners := map[*an.Func]bool{}
	for _, o := range ops {
		if o.kind == "Transaction" && o.op != "Get" && (o.fn.Obj == nil || helpers[o.fn.Obj] == nil) {
			owners[o.fn] = true
		}
	}
	for _, f := range c16AllFuncs(p.Funcs()) {
		if f.Body == nil || f.Pkg.Imports[dbkeyPath] == nil || owners[f] {
			continue
		}
		calls := false
		an.InspectShallow(f.Body, func(n ast.Node) bool {
			if call, ok := n.(*ast.CallExpr); ok {
				if fn := an.Callee(f.Info(), call); fn != nil && helpers[fn] != nil {
					calls = true
				}
			}
			return !calls
		})
		if calls && (f.Obj == nil || helpers[f.Obj] == nil) {
			owners[f] = true
		}
	}
	var ownerList []*an.Func
	for f := range owners {
		ownerList = append(ownerList, f)
	}
	sort.Slice(ownerList, func(i, j int) bool { return ownerList[i].Pos() < ownerList[j].Pos() })
	for _, f := range ownerList {
		c16TxOwner(e, f, helpers)
	}
	c.Floor("tx-single", 6)
	c.Floor("tx-commit", 10)
	c.Floor("tx-same", 12)

	// helpers write only on their parameter
	for hf := range helpers {
		f := p.FuncOf(hf)
		if f == nil {
			continue
		}
		g := f.Graph()
		var txParam types.Object
		for i := 0; i < 8; i++ {
			if po := c16Param(f, i); po != nil && c16IsTx(po.Type()) {
				txParam = po
			}
		}
		for _, u := range c16TxUses(g) {
			ok := u.obj == txParam && txParam != nil && u.method != "Commit" && u.method != "Discard"
			c.Check("tx-helper", f.Name()+"|"+c16UseName(u), u.site.Call.Pos(), ok, "a helper that receives the transaction writes only on that parameter and neither commits nor discards it")
		}
		n := 0
		for _, s := range g.Calls(nil) {
			if s.Fn != nil && (an.FuncName(s.Fn) == c16DB+".(DB).NewTx" || an.FuncName(s.Fn) == "chain.(*ChainDB).NewTx") {
				n++
			}
		}
		c.Check("tx-helper", f.Name()+"|no-own-tx", f.Pos(), n == 0, "a helper that receives the transaction does not open another one")
	}

	// ---- the entry writer
	var entryWriter *an.Func
	for _, o := range ops {
		if o.key == "RaftEntry" && o.op == "Set" && o.kind == "Transaction" {
			if entryWriter != nil && entryWriter != o.fn {
				c.Undecide("wal-order", "RaftEntry", "more than one function sets raft entries: the ordering rules are written for a single writer")
				return
			}
			entryWriter = o.fn
		}
	}
	if entryWriter == nil {
		c.Undecide("wal-order", "RaftEntry", "no transactional writer of raft entries found")
		return
	}
	c16EntryWriter(e, entryWriter, ops, helpers)
	c16Readers(e, ops)
	c16ResetWAL(e, helpers)
	c16Clear(e, ops)
}

// c16NotCleared: raft key families that ClearWAL leaves behind, with reason.
var c16NotCleared = map[string]string{
	"RaftEntryInvert":        "hash -> index records are not removed by ClearWAL (nor by truncation); the reader's missing cross-check is reported by rule invert-stale",
	"RaftConfChangeProgress": "progress records of earlier membership requests are history keyed by request id; they are not part of the log handed to the raft library",
}

// c16Wipers: the functions that may wipe the wal.
var c16Wipers = map[string]string{
	"chain.(*ChainDB).ResetWAL": "ResetWAL = ClearWAL + initial hard state / snapshot / last index (itself only called under UseBackup)",
	c16RS + ".startRaft":        "only on the branches guarded by rs.UseBackup (the operator asked to start from backup data files)",
}

// c16Clear: ClearWAL removes every family of the log proper, and the wal is wiped only on request.
func c16Clear(e *c16Env, ops []*c16Op) {
	c, p := e.c, e.p
	clear := c.Fn("chain.(*ChainDB).ClearWAL")
	if clear == nil {
		return
	}
	deleted := map[string]bool{}
	for _, o := range ops {
		if o.op == "Delete" && o.fn.TopDecl() == clear {
			deleted[o.key] = true
		}
	}
	fams := map[string]bool{}
	for _, nm := range e.keys {
		fams[nm] = true
	}
	for _, k := range c16SortedKeys(fams) {
		reason, ex := c16NotCleared[k]
		msg := "ClearWAL deletes the raft key family " + k
		if !deleted[k] && ex {
			msg += " — exception: " + reason
		}
		c.CheckTrivial("clear-coverage", k, clear.Pos(), deleted[k] || ex, msg)
	}
	c.Floor("clear-coverage", 7)
	// the entries are deleted for every index 1..last: the bulk loop runs from the stored last index down to 1
	// (decided as: the deleted index is a loop variable initialised from the literal's parameter, which receives
	// the result of GetRaftEntryLastIdx)
	for _, o := range ops {
		if o.op != "Delete" || o.key != "RaftEntry" || o.fn.TopDecl() != clear || o.fn == clear {
			continue
		}
		lit := o.fn
		g, info := lit.Graph(), lit.Info()
		ok := false
		if len(o.keyCall.Args) == 1 {
			if I := an.ObjOf(info, o.keyCall.Args[0]); I != nil {
				rhs, _, _ := c16ValueAssigns(g, I)
				if len(rhs) == 1 && an.ObjOf(info, rhs[0]) == c16Param(lit, 0) && c16Param(lit, 0) != nil {
					// lower bound: the loop continues while i >= 1 (or i > 0)
					for _, n := range g.StmtNodes(func(n *an.Node) bool { return len(n.Succs) == 2 }) {
						be, isB := n.Ast.(*ast.BinaryExpr)
						if !isB || an.ObjOf(info, be.X) != I {
							continue
						}
						v, isC := c16IntConst(info, be.Y)
						if isC && ((be.Op == token.GEQ && v == 1) || (be.Op == token.GTR && v == 0)) {
							ok = true
						}
					}
				}
			}
		}
		// the literal is called with the stored last index
		cg := clear.Graph()
		okArg := false
		reads := cg.CallsTo("chain.(*ChainDB).GetRaftEntryLastIdx")
		if len(reads) == 1 {
			L := cg.ResultVarAt(reads[0], 0)
			for _, s := range cg.Calls(nil) {
				if s.Fn == nil && c16LitOf(cg, s.Call) == lit && len(s.Call.Args) == 1 && an.ObjOf(clear.Info(), s.Call.Args[0]) == L && L != nil {
					okArg = cg.Dominated(s.Node, cg.ErrNilEdges(reads[0]))
				}
			}
		}
		c.Check("clear-range", lit.Name(), o.site.Call.Pos(), ok && okArg, "ClearWAL deletes the entries of every index from the stored last index down to 1")
	}
	c.Floor("clear-range", 1)
	// who may wipe
	ub := p.LookupField(c16RaftPkg, "raftServer", "UseBackup")
	for _, cs := range p.CallSitesOf(map[string]bool{
		"chain.(*ChainDB).ClearWAL": true, "consensus.(ChainWAL).ClearWAL": true,
		"chain.(*ChainDB).ResetWAL": true, "consensus.(ChainWAL).ResetWAL": true}) {
		fn := "<package level>"
		if cs.Fn != nil {
			fn = cs.Fn.TopDecl().Name()
		}
		reason, ok := c16Wipers[fn]
		how := ""
		if ok && fn == c16RS+".startRaft" && cs.Fn != nil && ub != nil {
			g := cs.Fn.Graph()
			n := g.NodeContaining(cs.Call.Pos())
			ok = false
			if n != nil {
				ok, how = g.GuardedAt(n, an.FieldAtom(cs.Fn.Info(), ub, "backup"), map[string]bool{"backup": true})
			}
		}
		c.Check("wal-wipers", fn+"|"+cs.Obj.Name(), cs.Call.Pos(), ok, "the wal is wiped ("+cs.Obj.Name()+") only by the enumerated functions: "+reason+" "+how)
	}
	c.Floor("wal-wipers", 3)
}

func c16UseName(u c16TxUse) string {
	if u.method != "" {
		return u.method
	}
	if u.site.Fn != nil {
		return c16Short(an.FuncName(u.site.Fn))
	}
	return "call"
}

// c16TxOwner decides the single-transaction discipline of one owner function.
func c16TxOwner(e *c16Env, f *an.Func, helpers map[*types.Func]map[string]bool) {
	c := e.c
	g := f.Graph()
	name := f.Name()
	c.Fns[f.TopDecl().Name()] = true
	newtx := g.Calls(func(fn *types.Func, _ *ast.CallExpr) bool {
		if fn == nil {
			return false
		}
		n := an.FuncName(fn)
		return n == c16DB+".(DB).NewTx" || n == "chain.(*ChainDB).NewTx"
	})
	okSingle := len(newtx) == 1 && !g.InLoop(newtx[0].Node)
	c.Check("tx-single", name, f.Pos(), okSingle, "the function opens exactly one db transaction, outside any loop ("+itoa(len(newtx))+" NewTx site(s))")
	if !okSingle {
		return
	}
	T := g.ResultVarAt(newtx[0], 0)
	if T == nil {
		c.Undecide("tx-single", name, "the transaction is not stored in a local variable")
		return
	}
	uses := c16TxUses(g)
	commits := an.Set{}
	var discardDefers []*an.Node
	var writes []c16TxUse
	for _, u := range uses {
		c.Check("tx-same", name+"|"+c16UseName(u), u.site.Call.Pos(), u.obj == T, "every transaction operation and every helper call of the function uses the one transaction it opened")
		switch {
		case u.method == "Commit" && !u.defer_:
			commits[u.site.Node] = true
		case u.method == "Commit" || u.method == "Discard":
			if u.defer_ && u.method == "Discard" {
				discardDefers = append(discardDefers, u.site.Node)
			}
		case !u.defer_:
			writes = append(writes, u)
		}
	}
	// literals of the function must not touch the transaction
	for _, l := range f.Lits {
		for _, u := range c16TxUses(l.Graph()) {
			if u.obj == T {
				c.Check("tx-same", name+"|literal|"+c16UseName(u), u.site.Call.Pos(), false, "the transaction is used inside a nested function literal: the path rules of this check do not cover it")
			}
		}
	}
	nCommit := 0
	for n := range commits {
		nCommit++
		if g.InLoop(n) {
			nCommit += 100
		}
	}
	c.Check("tx-commit", name+"|once", f.Pos(), nCommit == 1, "exactly one Commit of the transaction, outside any loop")
	if nCommit != 1 {
		return
	}
	for _, w := range writes {
		key := name + "|" + c16UseName(w)
		// no write after the commit
		after := false
		for cn := range commits {
			if g.Reachable(cn, w.site.Node) {
				after = true
			}
		}
		// every exit reachable without passing Commit is a certain error return
		r := g.Reach(w.site.Node.Succs, commits)
		okExit, errExit := true, false
		why := ""
		for _, pr := range g.Exit.Preds {
			if !r[pr] {
				continue
			}
			if _, isRet := pr.Ast.(*ast.ReturnStmt); isRet && pr.Kind == an.KStmt && c16SureErr(g, pr) {
				errExit = true
				continue
			}
			okExit = false
			why = " (exit at " + c.Prog.Pos(c16NodePos(pr)) + " is reached without Commit and is not a certain error return)"
		}
		c.Check("tx-commit", key, w.site.Call.Pos(), okExit && !after, "the write is followed by Commit on every path to a successful return, and never follows the Commit"+why)
		if errExit {
			dom := false
			for _, d := range discardDefers {
				if g.Dominated(w.site.Node, an.SetOf(d)) {
					dom = true
				}
			}
			c.Check("tx-rollback", key, w.site.Call.Pos(), dom, "an error return is reachable after this write without Commit: a deferred Discard of the transaction registered before the write rolls it back")
		}
	}
}

func c16NodePos(n *an.Node) token.Pos {
	if n.Ast != nil {
		return n.Ast.Pos()
	}
	return token.NoPos
}

// ---------------------------------------------------------------------------

func c16EntryWriter(e *c16Env, f *an.Func, ops []*c16Op, helpers map[*types.Func]map[string]bool) {
	c, p := e.c, e.p
	g := f.Graph()
	info := f.Info()
	name := f.Name()
	idxField := p.LookupField("consensus", "WalEntry", "Index")
	typeField := p.LookupField("consensus", "WalEntry", "Type")
	if idxField == nil || typeField == nil {
		c.Undecide("anchor", "consensus.WalEntry", "fields Index/Type not found")
		return
	}
	// parameters by type
	var ents, blocks, ccs types.Object
	for i := 0; i < 8; i++ {
		po := c16Param(f, i)
		if po == nil {
			continue
		}
		sl, ok := po.Type().(*types.Slice)
		if !ok {
			continue
		}
		switch {
		case c16IsNamed(sl.Elem(), an.Module+"/consensus", "WalEntry"):
			ents = po
		case c16IsNamed(sl.Elem(), an.Module+"/types", "Block"):
			blocks = po
		case c16IsNamed(sl.Elem(), c16Raftpb, "ConfChange"):
			ccs = po
		}
	}
	if ents == nil || blocks == nil || ccs == nil {
		c.Undecide("anchor", name, "parameters (entries, blocks, conf changes) not recognised by type")
		return
	}
	var dels, sets, invs []*c16Op
	for _, o := range ops {
		if o.fn != f {
			continue
		}
		switch {
		case o.key == "RaftEntry" && o.op == "Delete":
			dels = append(dels, o)
		case o.key == "RaftEntry" && o.op == "Set":
			sets = append(sets, o)
		case o.key == "RaftEntryInvert" && o.op == "Set":
			invs = append(invs, o)
		}
	}
	// last-index write: direct Set or helper call
	type lastSite struct {
		site an.Site
		arg  ast.Expr
	}
	var lasts []lastSite
	for _, o := range ops {
		if o.fn == f && o.key == "RaftEntryLastIdx" && o.op == "Set" && len(o.site.Call.Args) == 2 {
			if call, ok := ast.Unparen(o.site.Call.Args[1]).(*ast.CallExpr); ok && len(call.Args) == 1 {
				lasts = append(lasts, lastSite{o.site, call.Args[0]})
			}
		}
	}
	var ccSites []an.Site
	for _, s := range g.Calls(nil) {
		if s.Fn == nil || helpers[s.Fn] == nil {
			continue
		}
		if helpers[s.Fn]["RaftEntryLastIdx"] {
			if k := c16HelperValueParam(e, p.FuncOf(s.Fn), ops, "RaftEntryLastIdx"); k >= 0 && k < len(s.Call.Args) {
				lasts = append(lasts, lastSite{s, s.Call.Args[k]})
			} else {
				c.Undecide("last-index", name, "cannot tell which argument of "+an.FuncName(s.Fn)+" is the index written")
			}
		}
		if helpers[s.Fn]["RaftConfChangeProgress"] {
			ccSites = append(ccSites, s)
		}
	}
	commits := an.Set{}
	for _, u := range c16TxUses(g) {
		if u.method == "Commit" && !u.defer_ {
			commits[u.site.Node] = true
		}
	}
	if len(dels) == 0 || len(sets) == 0 || len(lasts) != 1 || len(commits) != 1 {
		c.Check("wal-order", name+"|sites", f.Pos(), false, "the entry writer has a truncation delete ("+itoa(len(dels))+"), an entry set ("+itoa(len(sets))+"), exactly one last-index write ("+itoa(len(lasts))+") and one commit ("+itoa(len(commits))+")")
		return
	}
	last := lasts[0]
	// ---- order
	okTE := true
	for _, s := range sets {
		for _, d := range dels {
			if g.Reachable(s.site.Node, d.site.Node) || !g.Reachable(d.site.Node, s.site.Node) {
				okTE = false
			}
		}
	}
	c.Check("wal-order", name+"|truncate<entries", dels[0].site.Call.Pos(), okTE, "no truncation delete is reachable after an entry was set (a delete after the set of the same index would drop the new entry), and the entry loop follows the truncation")
	okEL := true
	for _, s := range sets {
		if g.Reachable(last.site.Node, s.site.Node) || !g.Reachable(s.site.Node, last.site.Node) {
			okEL = false
		}
	}
	for _, d := range dels {
		if g.Reachable(last.site.Node, d.site.Node) {
			okEL = false
		}
	}
	c.Check("wal-order", name+"|entries<last-index", last.site.Call.Pos(), okEL, "the last index is written after the entry loop and no entry is set or deleted after it")
	var commitNode *an.Node
	for n := range commits {
		commitNode = n
	}
	c.Check("wal-order", name+"|last-index<commit", last.site.Call.Pos(), g.Dominated(commitNode, an.SetOf(last.site.Node)) && !g.Reachable(commitNode, last.site.Node), "every path to Commit has written the last index (the log and its last index change in the same commit)")

	// ---- the old last index
	lastReads := g.CallsTo("chain.(*ChainDB).GetRaftEntryLastIdx")
	var L types.Object
	if len(lastReads) == 1 {
		L = g.ResultVarAt(lastReads[0], 0)
	}
	if L == nil || len(c16AssignNodes(g, L)) != 1 {
		c.Undecide("trunc-range", name, "the old last index is not a local variable assigned once from GetRaftEntryLastIdx")
		return
	}
	isFirst := func(x ast.Expr) bool { // ents[0].Index
		base, fv := c16FieldSel(info, x, "Index")
		if fv != idxField {
			return false
		}
		ix, ok := ast.Unparen(base).(*ast.IndexExpr)
		if !ok || an.ObjOf(info, ix.X) != ents {
			return false
		}
		v, ok := c16IntConst(info, ix.Index)
		return ok && v == 0
	}
	for di, d := range dels {
		sfx := ""
		if di > 0 {
			sfx = "#" + itoa(di+1)
		}
		dn := d.site.Node
		okRead := g.Dominated(dn, g.ErrNilEdges(lastReads[0]))
		c.Check("trunc-range", name+"|last-read"+sfx, lastReads[0].Call.Pos(), okRead, "the truncation runs only after the stored last index was read successfully")
		if len(d.keyCall.Args) != 1 {
			c.Undecide("trunc-range", name, "key constructor arity")
			continue
		}
		I := an.ObjOf(info, d.keyCall.Args[0])
		if I == nil {
			c.Undecide("trunc-range", name+"|index", "the deleted index is not a loop variable")
			continue
		}
		// loop variable: one initialisation from ents[0].Index (+0/+1), one increment by one
		var initOK, stepOK bool
		nInit, nStep := 0, 0
		for _, an_ := range c16AssignNodes(g, I) {
			switch s := an_.Ast.(type) {
			case *ast.IncDecStmt:
				nStep++
				stepOK = s.Tok == token.INC && g.Reachable(dn, an_) && g.Reachable(an_, dn)
			case *ast.AssignStmt:
				if s.Tok == token.ADD_ASSIGN && len(s.Rhs) == 1 {
					nStep++
					v, ok := c16IntConst(info, s.Rhs[0])
					stepOK = ok && v == 1 && g.Reachable(dn, an_)
					continue
				}
				nInit++
				if len(s.Lhs) == 1 && len(s.Rhs) == 1 {
					base, off := c16SplitOff(info, s.Rhs[0])
					initOK = isFirst(base) && (off == 0 || off == 1) && !g.InLoop(an_)
				}
			default:
				nInit += 10
			}
		}
		c.Check("trunc-range", name+"|start"+sfx, d.site.Call.Pos(), initOK && nInit == 1, "the truncation starts at the index of the first new entry (ents[0].Index; +1 is equivalent because that index is overwritten)")
		c.Check("trunc-range", name+"|step"+sfx, d.site.Call.Pos(), stepOK && nStep == 1, "the truncation visits every index (increment by one, inside the loop)")
		roleA := func(x ast.Expr) bool { return an.ObjOf(info, x) == I || isFirst(x) }
		roleB := func(x ast.Expr) bool { return an.ObjOf(info, x) == L }
		cmps, und := g.OrdCmps(roleA, roleB, 0)
		for _, u := range und {
			c.Undecide("trunc-range", name, "comparison "+an.ExprString(u)+" between the truncation index and the old last index cannot be normalised")
		}
		nLoop := 0
		for _, cmp := range cmps {
			if !g.Reachable(cmp.Node, dn) {
				continue
			}
			inCycle := g.Reachable(dn, cmp.Node)
			reach := func(sign int) (bool, bool) {
				ed := g.EdgeFor(cmp, sign)
				if ed == nil {
					return false, false
				}
				return g.Reach([]*an.Node{ed}, an.SetOf(cmp.Node))[dn], true
			}
			lt, d1 := reach(-1)
			eq, d2 := reach(0)
			gt, d3 := reach(+1)
			if !d1 || !d2 || !d3 {
				c.Undecide("trunc-range", name, "condition "+an.ExprString(cmp.Expr)+" is part of a compound condition")
				continue
			}
			if inCycle {
				nLoop++
				c.Check("trunc-range", name+"|loop-bound"+sfx, cmp.Expr.Pos(), lt && eq && !gt, "the truncation loop deletes index i for i < last and i == last and stops for i > last (inclusive upper bound: the old last entry must not survive a shorter overwrite); condition: "+an.ExprString(cmp.Expr))
			} else {
				c.Check("trunc-range", name+"|guard"+sfx, cmp.Expr.Pos(), lt, "a guard in front of the truncation lets it run whenever the first new index is below the old last index; condition: "+an.ExprString(cmp.Expr))
			}
		}
		if nLoop == 0 {
			c.Undecide("trunc-range", name+"|loop-bound", "no loop condition comparing the truncation index with the old last index was found")
		}
	}

	// ---- the entry loop
	loops := c16RangeOver(g, ents)
	var rl *c16RangeLoop
	for _, l := range loops {
		if l.contains(g, sets[0].site.Node) {
			rl = l
		}
	}
	if rl == nil || rl.val == nil {
		c.Undecide("entry-loop", name, "the entries are not set inside a `for _, entry := range <entries parameter>` loop")
		return
	}
	E, K := rl.val, rl.key
	isEIndex := func(x ast.Expr) bool {
		base, fv := c16FieldSel(info, x, "Index")
		return fv == idxField && an.ObjOf(info, base) == E
	}
	// the last index written
	{
		okV, why := false, ""
		if V := an.ObjOf(info, last.arg); V != nil {
			rhs, nodes, other := c16ValueAssigns(g, V)
			okV = len(rhs) >= 1 && other == 0
			for i, r := range rhs {
				if !isEIndex(r) || !rl.contains(g, nodes[i]) {
					okV = false
					why = " (assigned from " + an.ExprString(r) + ")"
				}
			}
			// assigned on every iteration
			if okV {
				gate := an.Set{}
				for _, n := range nodes {
					gate[n] = true
				}
				if g.Reach([]*an.Node{rl.body}, gate)[rl.head] {
					okV = false
					why = " (an iteration can finish without assigning it)"
				}
			}
		} else {
			// ents[len(ents)-1].Index
			base, fv := c16FieldSel(info, last.arg, "Index")
			if ix, ok := ast.Unparen(base).(*ast.IndexExpr); ok && fv == idxField && an.ObjOf(info, ix.X) == ents {
				b, off := c16SplitOff(info, ix.Index)
				if call, ok := b.(*ast.CallExpr); ok && an.IsBuiltin(info, call, "len") && len(call.Args) == 1 && an.ObjOf(info, call.Args[0]) == ents && off == -1 {
					okV = true
				}
			}
			if !okV {
				why = " (argument " + an.ExprString(last.arg) + ")"
			}
		}
		c.Check("last-index", name+"|value", last.site.Call.Pos(), okV, "the last index written is the Index of the last entry of the batch: the variable is assigned entry.Index on every iteration of the entry loop and nowhere else"+why)
		c.Check("last-index", name+"|after-loop", last.site.Call.Pos(), rl.done != nil && g.Dominated(last.site.Node, an.SetOf(rl.done)), "the last index is written only after the entry loop has run to completion")
	}
	// entry key/value pairing and unconditional set
	errOnlyFacts := func(n *an.Node, allow func(cond ast.Expr, val bool) bool) (bool, string) {
		for _, ft := range g.FactsAt(n) {
			if ft.Edge.Cond == nil || !rl.contains(g, ft.Edge.Cond) {
				continue
			}
			if c16ErrTestOnly(info, ft.Cond, ft.Val) {
				continue
			}
			if allow != nil && allow(ft.Cond, ft.Val) {
				continue
			}
			return false, an.ExprString(ft.Cond)
		}
		return true, ""
	}
	for si, s := range sets {
		sfx := ""
		if si > 0 {
			sfx = "#" + itoa(si+1)
		}
		okKey := len(s.keyCall.Args) == 1 && isEIndex(s.keyCall.Args[0])
		okVal := false
		if len(s.site.Call.Args) == 2 {
			if D := an.ObjOf(info, s.site.Call.Args[1]); D != nil {
				rhs, nodes, other := c16ValueAssigns(g, D)
				okVal = len(rhs) >= 1 && other == 0
				gate := an.Set{}
				for i, r := range rhs {
					call, ok := ast.Unparen(r).(*ast.CallExpr)
					if !ok || an.CalleeName(info, call) != "consensus.(*WalEntry).ToBytes" {
						okVal = false
						continue
					}
					sel, ok := ast.Unparen(call.Fun).(*ast.SelectorExpr)
					if !ok || an.ObjOf(info, sel.X) != E {
						okVal = false
					}
					gate[nodes[i]] = true
				}
				if okVal && g.Reach([]*an.Node{rl.body}, gate)[s.site.Node] {
					okVal = false
				}
			} else if call, ok := ast.Unparen(s.site.Call.Args[1]).(*ast.CallExpr); ok {
				_ = call
			}
		}
		c.Check("entry-pairing", name+"|key"+sfx, s.site.Call.Pos(), okKey, "the entry is stored under the key of its own Index (RaftEntry(entry.Index) of the loop's entry)")
		c.Check("entry-pairing", name+"|value"+sfx, s.site.Call.Pos(), okVal, "the value stored is entry.ToBytes() of the same loop entry, computed in the same iteration")
		okU, bad := errOnlyFacts(s.site.Node, nil)
		c.Check("entry-uncond", name+sfx, s.site.Call.Pos(), okU, "every entry of the batch is set: inside the loop the set depends only on error tests"+map[bool]string{true: "", false: " (it also depends on " + bad + ")"}[okU])
	}
	// block arm
	typeAtom := func(constName, atom string) an.Atomizer {
		return func(x ast.Expr) (string, bool, bool) {
			be, ok := ast.Unparen(x).(*ast.BinaryExpr)
			if !ok || (be.Op != token.EQL && be.Op != token.NEQ) {
				return "", false, false
			}
			for _, pr := range [][2]ast.Expr{{be.X, be.Y}, {be.Y, be.X}} {
				base, fv := c16FieldSel(info, pr[0], "Type")
				if fv == typeField && an.ObjOf(info, base) == E && c16IsConst(info, pr[1], an.Module+"/consensus", constName) {
					return atom, be.Op == token.NEQ, true
				}
			}
			return "", false, false
		}
	}
	atB := typeAtom("EntryBlock", "B")
	atC := typeAtom("EntryConfChange", "C")
	isBlocksK := func(x ast.Expr) bool { // blocks[K]
		ix, ok := ast.Unparen(x).(*ast.IndexExpr)
		return ok && K != nil && an.ObjOf(info, ix.X) == blocks && an.ObjOf(info, ix.Index) == K
	}
	addBlocks := g.CallsTo("chain.(*ChainDB).addBlock")
	c.Check("block-arm", name+"|pair", f.Pos(), len(addBlocks) >= 1 && len(invs) >= 1 && len(addBlocks) == len(invs), "the block of a block entry is stored ("+itoa(len(addBlocks))+" addBlock site) and its inverse key is written ("+itoa(len(invs))+" site) in the same function")
	for _, s := range addBlocks {
		okG, how := g.GuardedAt(s.Node, atB, map[string]bool{"B": true})
		okArg := false
		for _, a := range s.Call.Args {
			if isBlocksK(a) {
				okArg = true
			}
		}
		okU, bad := errOnlyFacts(s.Node, func(cond ast.Expr, val bool) bool {
			return an.CondImplies(info, cond, val, atB, map[string]bool{"B": true})
		})
		c.Check("block-arm", name+"|addBlock", s.Call.Pos(), okG && okArg && okU && rl.contains(g, s.Node), "the block is stored exactly when entry.Type == EntryBlock, and it is blocks[i] of the loop index ("+how+map[bool]string{true: "", false: "; extra condition " + bad}[okU]+")")
	}
	for _, o := range invs {
		okG, how := g.GuardedAt(o.site.Node, atB, map[string]bool{"B": true})
		okKey := false
		if len(o.keyCall.Args) == 1 {
			if call, ok := ast.Unparen(o.keyCall.Args[0]).(*ast.CallExpr); ok && an.CalleeName(info, call) == "types.(*Block).BlockHash" {
				if sel, ok := ast.Unparen(call.Fun).(*ast.SelectorExpr); ok && isBlocksK(sel.X) {
					okKey = true
				}
			}
		}
		okVal := false
		if len(o.site.Call.Args) == 2 {
			if call, ok := ast.Unparen(o.site.Call.Args[1]).(*ast.CallExpr); ok && len(call.Args) == 1 && isEIndex(call.Args[0]) {
				okVal = true
			}
		}
		okU, bad := errOnlyFacts(o.site.Node, func(cond ast.Expr, val bool) bool {
			return an.CondImplies(info, cond, val, atB, map[string]bool{"B": true})
		})
		c.Check("block-arm", name+"|invert-guard", o.site.Call.Pos(), okG && okU && rl.contains(g, o.site.Node), "the inverse key is written exactly when entry.Type == EntryBlock ("+how+map[bool]string{true: "", false: "; extra condition " + bad}[okU]+")")
		c.Check("block-arm", name+"|invert-key", o.site.Call.Pos(), okKey, "the inverse key is the hash of blocks[i] of the loop index (the block stored by addBlock in the same iteration)")
		c.Check("block-arm", name+"|invert-value", o.site.Call.Pos(), okVal, "the inverse key maps to entry.Index of the same loop entry (the key under which the entry was set)")
	}
	// conf-change arm
	for _, s := range ccSites {
		okG, how := g.GuardedAt(s.Node, atC, map[string]bool{"C": true})
		okArg := false
		for _, a := range s.Call.Args {
			base, fv := c16FieldSel(info, a, "ID")
			if fv == nil {
				continue
			}
			if ix, ok := ast.Unparen(base).(*ast.IndexExpr); ok && K != nil && an.ObjOf(info, ix.X) == ccs && an.ObjOf(info, ix.Index) == K {
				okArg = true
			}
		}
		c.Check("cc-arm", name+"|"+c16Short(an.FuncName(s.Fn)), s.Call.Pos(), okG && okArg && rl.contains(g, s.Node), "the progress of a configuration change is saved (in the same transaction) exactly for entries of type EntryConfChange, under the id of ccProposes[i] of the loop index ("+how+")")
	}
	c.Floor("wal-order", 3)
	c.Floor("trunc-range", 4)
	c.Floor("last-index", 2)
	c.Floor("entry-pairing", 2)
	c.Floor("block-arm", 5)
	c.Floor("cc-arm", 1)
}

// c16HelperValueParam: index of the parameter of helper whose value is written
// under key (through one encoder call), or -1.
func c16HelperValueParam(e *c16Env, helper *an.Func, ops []*c16Op, key string) int {
	if helper == nil {
		return -1
	}
	info := helper.Info()
	for _, o := range ops {
		if o.fn != helper || o.key != key || o.op != "Set" || len(o.site.Call.Args) != 2 {
			continue
		}
		var x ast.Expr = o.site.Call.Args[1]
		if call, ok := ast.Unparen(x).(*ast.CallExpr); ok && len(call.Args) == 1 {
			x = call.Args[0]
		}
		obj := an.ObjOf(info, x)
		for i := 0; i < 8; i++ {
			if po := c16Param(helper, i); po != nil && po == obj {
				return i
			}
		}
	}
	return -1
}

// ---------------------------------------------------------------------------
// codec agreement

func c16Codec(e *c16Env, ops []*c16Op) {
	c := e.c
	type side struct {
		fam string
		typ types.Type
		pos token.Pos
		fn  string
		enc string
	}
	writers := map[string][]side{}
	readers := map[string][]side{}
	for _, o := range ops {
		info := o.fn.Info()
		switch o.op {
		case "Set":
			if len(o.site.Call.Args) != 2 {
				continue
			}
			var call *ast.CallExpr
			v := ast.Unparen(o.site.Call.Args[1])
			if cx, ok := v.(*ast.CallExpr); ok {
				call = cx
			} else if obj := an.ObjOf(info, v); obj != nil {
				rhs, _, _ := c16ValueAssigns(o.g, obj)
				var calls []*ast.CallExpr
				for _, r := range rhs {
					if cx, ok := ast.Unparen(r).(*ast.CallExpr); ok {
						calls = append(calls, cx)
					} else {
						calls = append(calls, nil)
					}
				}
				if len(calls) == 1 {
					call = calls[0]
				}
			}
			if call == nil {
				c.Undecide("codec", o.key+"|"+o.fn.Name(), "the value written is not the (single) result of an encoder call")
				continue
			}
			nm := an.CalleeName(info, call)
			fam, ok := c16Encoders[nm]
			if !ok {
				c.Check("codec", o.key+"|"+o.fn.Name()+"|encoder", call.Pos(), false, "the value written under "+o.key+" is produced by "+nm+", which is not one of the known encoders")
				continue
			}
			var t types.Type
			switch {
			case nm == "consensus.(*WalEntry).ToBytes":
				if sel, ok := ast.Unparen(call.Fun).(*ast.SelectorExpr); ok {
					t = c16Deref(info.TypeOf(sel.X))
				}
			case fam == "le64":
				t = types.Typ[types.Uint64]
			default:
				if len(call.Args) >= 1 {
					t = c16Deref(info.TypeOf(call.Args[0]))
				}
			}
			writers[o.key] = append(writers[o.key], side{fam, t, call.Pos(), o.fn.Name(), nm})
		case "Get":
			R := o.g.ResultVarAt(o.site, 0)
			if R == nil {
				c.Undecide("codec", o.key+"|"+o.fn.Name(), "the value read is not stored in a local variable")
				continue
			}
			found := false
			for _, s := range o.g.Calls(nil) {
				if s.Fn == nil || len(s.Call.Args) == 0 || an.ObjOf(info, s.Call.Args[0]) != R {
					continue
				}
				nm := an.FuncName(s.Fn)
				fam, ok := c16Decoders[nm]
				if !ok {
					continue
				}
				var t types.Type = types.Typ[types.Uint64]
				if fam != "le64" && len(s.Call.Args) >= 2 {
					t = c16Deref(info.TypeOf(s.Call.Args[1]))
				}
				readers[o.key] = append(readers[o.key], side{fam, t, s.Call.Pos(), o.fn.Name(), nm})
				found = true
			}
			if !found {
				c.Undecide("codec", o.key+"|"+o.fn.Name(), "no decoder call on the value read")
			}
		}
	}
	norm := func(t types.Type) types.Type {
		if t == nil {
			return nil
		}
		if b, ok := t.Underlying().(*types.Basic); ok && b.Kind() == types.Uint64 {
			return types.Typ[types.Uint64]
		}
		return t
	}
	for _, key := range func() []string {
		m := map[string]bool{}
		for k := range writers {
			m[k] = true
		}
		for k := range readers {
			m[k] = true
		}
		return c16SortedKeys(m)
	}() {
		for _, w := range writers[key] {
			for _, r := range readers[key] {
				ok := w.fam == r.fam && w.typ != nil && r.typ != nil && types.Identical(norm(w.typ), norm(r.typ))
				c.Check("codec", key+"|"+w.fn+"|"+r.fn, w.pos, ok, "writer and reader of "+key+" use inverse codecs on the same type: "+c16Short(w.enc)+"("+types.TypeString(w.typ, nil)+") / "+c16Short(r.enc)+"("+types.TypeString(r.typ, nil)+")")
			}
		}
	}
	c.Floor("codec", 7)
	// the encoder families are what the table says
	if f := c.Fn("consensus.(*WalEntry).ToBytes"); f != nil {
		g := f.Graph()
		s := g.CallsTo("internal/enc/gob.Encode")
		ok := len(s) == 1 && len(s[0].Call.Args) == 1 && an.ObjOf(f.Info(), s[0].Call.Args[0]) == c16Recv(f)
		c.Check("codec-family", "consensus.(*WalEntry).ToBytes", f.Pos(), ok, "WalEntry.ToBytes is gob.Encode of the receiver (so gob.Decode into a WalEntry is its inverse)")
	}
	for _, pr := range [][2]string{{"types.BlockNoToBytes", "types.Uint64ToBytes"}, {"types.BlockNoFromBytes", "types.BytesToUint64"}} {
		if f := c.Fn(pr[0]); f != nil {
			c.Check("codec-family", pr[0], f.Pos(), len(f.Graph().CallsTo(pr[1])) == 1, pr[0]+" is "+pr[1]+" (one 8-byte integer codec)")
		}
	}
	// Uint64ToBytes and BytesToUint64 use the same byte order object
	order := func(spec string) types.Object {
		f := c.Fn(spec)
		if f == nil {
			return nil
		}
		var o types.Object
		ast.Inspect(f.Body, func(n ast.Node) bool {
			if sel, ok := n.(*ast.SelectorExpr); ok {
				if v, ok := f.Info().Uses[sel.Sel].(*types.Var); ok && v.Pkg() != nil && v.Pkg().Path() == "encoding/binary" {
					o = v
				}
			}
			return true
		})
		return o
	}
	a, b := order("types.Uint64ToBytes"), order("types.BytesToUint64")
	c.Check("codec-family", "types.Uint64ToBytes|types.BytesToUint64", token.NoPos, a != nil && a == b, "the 8-byte integer encoder and decoder use the same byte order")
}

// ---------------------------------------------------------------------------
// readers

func c16Readers(e *c16Env, ops []*c16Op) {
	c, p := e.c, e.p
	idxField := p.LookupField("consensus", "WalEntry", "Index")
	dataField := p.LookupField("consensus", "WalEntry", "Data")
	// GetRaftEntry: the entry read under RaftEntry(idx) is returned only if its own Index equals idx
	for _, o := range ops {
		if o.key != "RaftEntry" || o.op != "Get" {
			continue
		}
		f, g, info := o.fn, o.g, o.fn.Info()
		if len(o.keyCall.Args) != 1 {
			continue
		}
		idx := an.ObjOf(info, o.keyCall.Args[0])
		at := func(x ast.Expr) (string, bool, bool) {
			be, ok := ast.Unparen(x).(*ast.BinaryExpr)
			if !ok || (be.Op != token.EQL && be.Op != token.NEQ) {
				return "", false, false
			}
			for _, pr := range [][2]ast.Expr{{be.X, be.Y}, {be.Y, be.X}} {
				if _, fv := c16FieldSel(info, pr[0], "Index"); fv == idxField && idx != nil && an.ObjOf(info, pr[1]) == idx {
					return "eq", be.Op == token.NEQ, true
				}
			}
			return "", false, false
		}
		n := 0
		for _, r := range c16NilErrReturns(g) {
			rs := r.Ast.(*ast.ReturnStmt)
			if len(rs.Results) < 2 {
				continue
			}
			if tv, ok := info.Types[rs.Results[0]]; ok && tv.IsNil() {
				continue
			}
			n++
			okG, how := g.GuardedAt(r, at, map[string]bool{"eq": true})
			c.Check("entry-crosscheck", f.Name(), r.Ast.Pos(), okG, "an entry is returned for index idx only when the decoded entry's own Index equals idx ("+how+")")
		}
		if n == 0 {
			c.Undecide("entry-crosscheck", f.Name(), "no successful return found")
		}
	}
	c.Floor("entry-crosscheck", 1)

	// inverse map staleness: the index stored under the hash of a block survives the deletion of the entry
	// (truncation, ClearWAL).  Either every deleter of RaftEntry also deletes RaftEntryInvert, or the reader
	// that composes the two lookups verifies that the entry found carries the hash asked for.
	delBoth := true
	nDel := 0
	for _, o := range ops {
		if o.key != "RaftEntry" || o.op != "Delete" {
			continue
		}
		nDel++
		has := false
		for _, o2 := range ops {
			if o2.fn == o.fn && o2.key == "RaftEntryInvert" && o2.op == "Delete" {
				has = true
			}
		}
		if !has {
			delBoth = false
		}
	}
	if f := c.Fn("chain.(*ChainDB).GetRaftEntryOfBlock"); f != nil {
		g, info := f.Graph(), f.Info()
		hash := c16Param(f, 0)
		at := func(x ast.Expr) (string, bool, bool) {
			call, ok := ast.Unparen(x).(*ast.CallExpr)
			if !ok || an.CalleeName(info, call) != "bytes.Equal" || len(call.Args) != 2 {
				return "", false, false
			}
			for _, pr := range [][2]ast.Expr{{call.Args[0], call.Args[1]}, {call.Args[1], call.Args[0]}} {
				if _, fv := c16FieldSel(info, pr[0], "Data"); fv == dataField && an.ObjOf(info, pr[1]) == hash {
					return "same", false, true
				}
			}
			return "", false, false
		}
		verified := true
		nRet := 0
		for _, r := range g.Returns() {
			rs := r.Ast.(*ast.ReturnStmt)
			if len(rs.Results) == 0 || c16SureErr(g, r) {
				continue
			}
			if tv, ok := info.Types[rs.Results[0]]; ok && tv.IsNil() {
				continue
			}
			nRet++
			if okG, _ := g.GuardedAt(r, at, map[string]bool{"same": true}); !okG {
				verified = false
			}
		}
		if nRet == 0 {
			c.Undecide("invert-stale", f.Name(), "no successful return found")
		} else {
			c.Check("invert-stale", f.Name(), f.Pos(), (delBoth && nDel > 0) || verified, "an entry looked up by block hash is the entry of that block: either every deletion of a raft entry also deletes its inverse key, or the lookup compares entry.Data with the hash (today: "+itoa(nDel)+" deleter(s) of RaftEntry, none deletes RaftEntryInvert; the reader returns GetRaftEntry(idx) unverified)")
		}
	}
}

// ---------------------------------------------------------------------------
// ResetWAL: hard state, snapshot metadata and last index are derived from the same HardStateInfo

func c16ResetWAL(e *c16Env, helpers map[*types.Func]map[string]bool) {
	c, p := e.c, e.p
	f := c.Fn("chain.(*ChainDB).ResetWAL")
	if f == nil {
		return
	}
	g, info := f.Graph(), f.Info()
	hsi := c16Param(f, 0)
	commitF := p.LookupField("types", "HardStateInfo", "Commit")
	termF := p.LookupField("types", "HardStateInfo", "Term")
	if hsi == nil || commitF == nil || termF == nil {
		c.Undecide("anchor", "types.HardStateInfo", "fields Commit/Term not found")
		return
	}
	isHSI := func(x ast.Expr, fld *types.Var) bool {
		base, fv := c16FieldSel(info, x, fld.Name())
		return fv == fld && an.ObjOf(info, base) == hsi
	}
	// composite literals of raftpb.HardState and raftpb.SnapshotMetadata
	want := map[string]map[string]*types.Var{
		"HardState":        {"Term": termF, "Commit": commitF},
		"SnapshotMetadata": {"Term": termF, "Index": commitF},
	}
	seen := map[string]bool{}
	an.InspectShallow(f.Body, func(n ast.Node) bool {
		cl, ok := n.(*ast.CompositeLit)
		if !ok {
			return true
		}
		t := info.TypeOf(cl)
		for tn, flds := range want {
			if !c16IsNamed(t, c16Raftpb, tn) {
				continue
			}
			seen[tn] = true
			got := map[string]bool{}
			for _, el := range cl.Elts {
				kv, ok := el.(*ast.KeyValueExpr)
				if !ok {
					continue
				}
				id, ok := kv.Key.(*ast.Ident)
				if !ok {
					continue
				}
				if src, ok := flds[id.Name]; ok && isHSI(kv.Value, src) {
					got[id.Name] = true
				}
			}
			okAll := true
			for fn := range flds {
				if !got[fn] {
					okAll = false
				}
			}
			c.Check("reset-consistency", f.Name()+"|"+tn, cl.Pos(), okAll, "ResetWAL builds raftpb."+tn+" from the Term and Commit of the given HardStateInfo (snapshot index = commit)")
		}
		return true
	})
	for tn := range want {
		if !seen[tn] {
			c.Undecide("reset-consistency", f.Name()+"|"+tn, "literal not found")
		}
	}
	// last index = Commit
	n := 0
	for _, s := range g.Calls(nil) {
		if s.Fn == nil || helpers[s.Fn] == nil || !helpers[s.Fn]["RaftEntryLastIdx"] {
			continue
		}
		n++
		ok := false
		for _, a := range s.Call.Args {
			if isHSI(a, commitF) {
				ok = true
			}
		}
		c.Check("reset-consistency", f.Name()+"|last-index", s.Call.Pos(), ok, "ResetWAL sets the last entry index to the Commit of the given HardStateInfo (the index of the snapshot it has just written)")
		// order: clear < hard state < snapshot < last index
		clear := g.CallsTo("chain.(*ChainDB).ClearWAL")
		hs := g.CallsTo("chain.(*ChainDB).WriteHardState")
		sn := g.CallsTo("chain.(*ChainDB).WriteSnapshot")
		okO := len(clear) == 1 && len(hs) == 1 && len(sn) == 1
		if okO {
			okO = g.Dominated(hs[0].Node, an.SetOf(clear[0].Node)) && g.Dominated(sn[0].Node, g.ErrNilEdges(hs[0])) && g.Dominated(s.Node, an.SetOf(sn[0].Node)) &&
				!g.Reachable(s.Node, clear[0].Node) && !g.Reachable(hs[0].Node, clear[0].Node)
		}
		c.Check("reset-consistency", f.Name()+"|order", f.Pos(), okO, "ResetWAL clears the old log first, then writes hard state, snapshot and last index (nothing written is cleared afterwards)")
	}
	if n == 0 {
		c.Undecide("reset-consistency", f.Name(), "no last-index write found")
	}
	c.Floor("reset-consistency", 4)
}
