package props

import "verif/checker/internal/rep"

// c20CFront: call-order rules over the clang AST of the C host modules.
func c20CFront(c *rep.Ctx) {
	cfrontC20(c)
}
