package props

import (
	"fmt"
	"go/ast"
	"go/token"
	"go/types"
	"sort"
	"strings"

	"golang.org/x/tools/go/cfg"

	"verif/checker/internal/an"
	"verif/checker/internal/rep"
)

// C05 gap rules.  Each rule is a necessary condition of a coherent chain
// database that the first rules did not decide; every one was found by a
// realistic breaking patch that the check did not report (seeded/_mut/C05).
//
//	tip-agreement      the in-memory tip and the persisted latest pointer name the same block
//	                   in swapChainMapping, dropBlock and RecoverChainMapping
//	block-stored       hash->block is written unless the consensus WAL already wrote it
//	tx-index-write     addTx / addTxsOfBlock index every transaction at its own position
//	index-own-hash     every caller indexes a block's transactions under that block's hash
//	execute-gate       the tip moves only after the block executed; receipts, events and the
//	                   executor belong to the block that is executed
//	parent-link        a block is connected to the tip only with number parent+1 and the
//	                   parent's hash (isMainChain, resolveOrphan)
//	receipts-written   receipts are stored whenever there are any, under the block's own key
//	old-receipts       a reorganisation deletes receipts of rolled-back main-chain blocks only
//	write-committed    every write through a locally opened transaction / bulk is committed
//	                   on every successful exit
//	swap-skip          the height-mapping swap is skipped only when the tip already is the
//	                   branch top
//	orphan-chain       the processor applies exactly the block it then resolves orphans for,
//	                   and continues with the resolved orphan
//	height-entry       a height entry written for the number of block X holds the hash of X
//	state-root         a block execution that is not verify-only succeeds only after the block
//	                   state was committed and the state DB root moved to it
func init() {
	extend("C05", c05GapTipAgreement)
	extend("C05", c05GapBlockStored)
	extend("C05", c05GapTxIndexWrite)
	extend("C05", c05GapIndexOwnHash)
	extend("C05", c05GapExecuteGate)
	extend("C05", c05GapParentLink)
	extend("C05", c05GapReceiptsWritten)
	extend("C05", c05GapOldReceipts)
	extend("C05", c05GapWriteCommitted)
	extend("C05", c05GapSwapSkip)
	extend("C05", c05GapOrphanChain)
	extend("C05", c05GapHeightEntry)
	extend("C05", c05GapStateRoot)
	// the crash argument of C06 rests on the same two facts
	extend("C06", c05GapWriteCommitted)
	extend("C06", c05GapSwapSkip)
}

// ---------------------------------------------------------------------------
// helpers (all resolution through the type checker)

func c05GapIsBlockPtr(t types.Type) bool {
	pt, ok := t.(*types.Pointer)
	if !ok {
		return false
	}
	n, ok := pt.Elem().(*types.Named)
	return ok && n.Obj().Name() == "Block" && n.Obj().Pkg() != nil && strings.HasSuffix(n.Obj().Pkg().Path(), "/types")
}

func c05GapIsConv(info *types.Info, call *ast.CallExpr) bool {
	if len(call.Args) != 1 {
		return false
	}
	tv, ok := info.Types[call.Fun]
	return ok && tv.IsType()
}

// c05GapResolve follows once-defined locals to their defining expression
// (x := e, one assignment in the function, e not a multi-valued call).
func c05GapResolve(g *an.Graph, info *types.Info, e ast.Expr) ast.Expr {
	for i := 0; i < 6; i++ {
		e = ast.Unparen(e)
		id, ok := e.(*ast.Ident)
		if !ok {
			return e
		}
		v, ok := an.ObjOf(info, id).(*types.Var)
		if !ok || v.IsField() {
			return e
		}
		rhs, _ := g.SingleDef(v)
		if rhs == nil {
			return e
		}
		if tv, has := info.Types[rhs]; has {
			if _, tuple := tv.Type.(*types.Tuple); tuple {
				return e
			}
		}
		e = rhs
	}
	return e
}

// c05GapRoot: the identifier object at the bottom of a selector / method /
// index chain (b.GetHeader().GetBlockNo() -> b).
func c05GapRoot(info *types.Info, e ast.Expr) types.Object {
	for {
		e = ast.Unparen(e)
		switch x := e.(type) {
		case *ast.Ident:
			return an.ObjOf(info, x)
		case *ast.SelectorExpr:
			if _, isPkg := an.ObjOf(info, x.X).(*types.PkgName); isPkg {
				return nil
			}
			e = x.X
		case *ast.CallExpr:
			if c05GapIsConv(info, x) {
				e = x.Args[0]
				continue
			}
			sel, ok := ast.Unparen(x.Fun).(*ast.SelectorExpr)
			if !ok {
				return nil
			}
			if _, isPkg := an.ObjOf(info, sel.X).(*types.PkgName); isPkg {
				return nil
			}
			e = sel.X
		case *ast.IndexExpr:
			e = x.X
		case *ast.StarExpr:
			e = x.X
		case *ast.UnaryExpr:
			if x.Op != token.AND {
				return nil
			}
			e = x.X
		default:
			return nil
		}
	}
}

// c05GapBlockOf: the sub-expression of type *types.Block that a chain like
// X.GetBody().GetTxs(), X.BlockHash(), X.Header.BlockNo starts from.
func c05GapBlockOf(info *types.Info, e ast.Expr) ast.Expr {
	for {
		e = ast.Unparen(e)
		if tv, ok := info.Types[e]; ok && tv.Type != nil && !tv.IsType() && c05GapIsBlockPtr(tv.Type) {
			return e
		}
		switch x := e.(type) {
		case *ast.SelectorExpr:
			e = x.X
		case *ast.CallExpr:
			if c05GapIsConv(info, x) {
				e = x.Args[0]
				continue
			}
			sel, ok := ast.Unparen(x.Fun).(*ast.SelectorExpr)
			if !ok {
				return nil
			}
			e = sel.X
		default:
			return nil
		}
	}
}

// c05GapCanon: spelling-independent designator of a block-valued expression
// (once-defined locals resolved, identifiers by object).
func c05GapCanon(g *an.Graph, info *types.Info, e ast.Expr) string {
	e = ast.Unparen(e)
	if _, isId := e.(*ast.Ident); isId {
		r := c05GapResolve(g, info, e)
		if _, isCall := r.(*ast.CallExpr); !isCall && r != e {
			return c05GapCanon(g, info, r)
		}
	}
	switch x := e.(type) {
	case *ast.Ident:
		if o := an.ObjOf(info, x); o != nil {
			return fmt.Sprintf("%s@%d", o.Name(), o.Pos())
		}
		return x.Name
	case *ast.SelectorExpr:
		return c05GapCanon(g, info, x.X) + "." + x.Sel.Name
	case *ast.IndexExpr:
		return c05GapCanon(g, info, x.X) + "[" + c05GapCanon(g, info, x.Index) + "]"
	}
	return an.ExprString(e)
}

// c05GapHashOfBlock / c05GapTxsOfBlock / c05GapNoOfBlock: is e (locals
// resolved) the hash / transaction list / number of a block, and of which one.
var c05GapHashGetters = map[string]bool{"types.(*Block).BlockHash": true, "types.(*Block).GetHash": true}
var c05GapNoGetters = map[string]bool{"types.(*Block).BlockNo": true, "types.(*BlockHeader).GetBlockNo": true}

func c05GapHashOfBlock(p *an.Prog, g *an.Graph, info *types.Info, e ast.Expr) ast.Expr {
	e = c05GapResolve(g, info, e)
	switch x := e.(type) {
	case *ast.CallExpr:
		if c05GapHashGetters[an.CalleeName(info, x)] {
			return c05GapBlockOf(info, x)
		}
	case *ast.SelectorExpr:
		if f := an.FieldOf(info, x); f != nil && f == p.LookupField("types", "Block", "Hash") {
			return c05GapBlockOf(info, x)
		}
	}
	return nil
}

func c05GapTxsOfBlock(p *an.Prog, g *an.Graph, info *types.Info, e ast.Expr) ast.Expr {
	e = c05GapResolve(g, info, e)
	switch x := e.(type) {
	case *ast.CallExpr:
		if an.CalleeName(info, x) == "types.(*BlockBody).GetTxs" {
			return c05GapBlockOf(info, x)
		}
	case *ast.SelectorExpr:
		if f := an.FieldOf(info, x); f != nil && f == p.LookupField("types", "BlockBody", "Txs") {
			return c05GapBlockOf(info, x)
		}
	}
	return nil
}

func c05GapNoOfBlock(p *an.Prog, g *an.Graph, info *types.Info, e ast.Expr) ast.Expr {
	e = c05GapResolve(g, info, e)
	for {
		c, ok := e.(*ast.CallExpr)
		if !ok || !c05GapIsConv(info, c) {
			break
		}
		e = c05GapResolve(g, info, c.Args[0])
	}
	switch x := e.(type) {
	case *ast.CallExpr:
		if c05GapNoGetters[an.CalleeName(info, x)] {
			return c05GapBlockOf(info, x)
		}
	case *ast.SelectorExpr:
		if f := an.FieldOf(info, x); f != nil && f == p.LookupField("types", "BlockHeader", "BlockNo") {
			return c05GapBlockOf(info, x)
		}
	}
	return nil
}

// linear forms that keep the operand expressions and resolve once-defined locals
type c05GapTerm struct {
	coef int64
	expr ast.Expr
}

type c05GapLinForm struct {
	terms map[string]*c05GapTerm
	k     int64
}

func (a *c05GapLinForm) addTo(b *c05GapLinForm, sign int64) {
	for key, t := range b.terms {
		if cur := a.terms[key]; cur != nil {
			cur.coef += sign * t.coef
			if cur.coef == 0 {
				delete(a.terms, key)
			}
		} else {
			a.terms[key] = &c05GapTerm{coef: sign * t.coef, expr: t.expr}
		}
	}
	a.k += sign * b.k
}

func c05GapLin(g *an.Graph, info *types.Info, e ast.Expr, depth int) (*c05GapLinForm, bool) {
	e = ast.Unparen(e)
	out := &c05GapLinForm{terms: map[string]*c05GapTerm{}}
	if tv, ok := info.Types[e]; ok && tv.Value != nil {
		lf, ok := linOf(info, e)
		if !ok {
			return nil, false
		}
		out.k = lf["1"]
		return out, true
	}
	switch x := e.(type) {
	case *ast.BinaryExpr:
		if x.Op != token.ADD && x.Op != token.SUB {
			return nil, false
		}
		a, ok1 := c05GapLin(g, info, x.X, depth)
		b, ok2 := c05GapLin(g, info, x.Y, depth)
		if !ok1 || !ok2 {
			return nil, false
		}
		sign := int64(1)
		if x.Op == token.SUB {
			sign = -1
		}
		a.addTo(b, sign)
		return a, true
	case *ast.CallExpr:
		if c05GapIsConv(info, x) {
			return c05GapLin(g, info, x.Args[0], depth)
		}
	case *ast.Ident:
		if depth < 5 {
			if r := c05GapResolve(g, info, x); r != ast.Expr(x) {
				return c05GapLin(g, info, r, depth+1)
			}
		}
		if o := an.ObjOf(info, x); o != nil {
			out.terms[fmt.Sprintf("%s@%d", o.Name(), o.Pos())] = &c05GapTerm{coef: 1, expr: x}
			return out, true
		}
	}
	switch e.(type) {
	case *ast.CallExpr, *ast.SelectorExpr, *ast.Ident:
		out.terms[an.ExprString(e)] = &c05GapTerm{coef: 1, expr: e}
		return out, true
	}
	return nil, false
}

// c05GapDiff: lin(x) - lin(y)
func c05GapDiff(g *an.Graph, info *types.Info, x, y ast.Expr) (*c05GapLinForm, bool) {
	a, ok1 := c05GapLin(g, info, x, 0)
	b, ok2 := c05GapLin(g, info, y, 0)
	if !ok1 || !ok2 {
		return nil, false
	}
	a.addTo(b, -1)
	return a, true
}

func (a *c05GapLinForm) sorted() []*c05GapTerm {
	var keys []string
	for k := range a.terms {
		keys = append(keys, k)
	}
	sort.Strings(keys)
	var out []*c05GapTerm
	for _, k := range keys {
		out = append(out, a.terms[k])
	}
	return out
}

// c05GapLoopEdges: the head vertex of a for / range loop and the two edge
// vertices "another iteration" (body) and "exhausted" (done).
func c05GapLoopEdges(g *an.Graph, loop ast.Stmt) (head, body, done *an.Node) {
	for _, n := range g.Nodes {
		if (n.Kind != an.KTrue && n.Kind != an.KFalse) || n.Block == nil || n.Block.Stmt != loop {
			continue
		}
		if n.Block.Kind != cfg.KindRangeLoop && n.Block.Kind != cfg.KindForLoop {
			continue
		}
		head = n.Cond
		if n.Kind == an.KTrue {
			body = n
		} else {
			done = n
		}
	}
	return
}

// c05GapErrorReturns: returns whose error result is known non-nil.
func c05GapErrorReturns(g *an.Graph) an.Set {
	may := an.Set{}
	for _, r := range g.NilReturns() {
		may[r] = true
	}
	out := an.Set{}
	for _, r := range g.Returns() {
		if !may[r] {
			out[r] = true
		}
	}
	return out
}

// c05GapLoopOver: loop visits every element of a sequence accepted by isSeq:
// `for k, v := range S`, `for i := 0; i < len(S); i++`, `for i := len(S)-1; i >= 0; i--`.
// Returns the index object and the element object (nil when indexed as S[i]).
func c05GapLoopOver(g *an.Graph, info *types.Info, loop ast.Stmt, isSeq func(ast.Expr) bool) (key, val types.Object, ok bool) {
	switch s := loop.(type) {
	case *ast.RangeStmt:
		if !isSeq(s.X) {
			return nil, nil, false
		}
		if s.Key != nil {
			key = an.ObjOf(info, s.Key)
		}
		if s.Value != nil {
			val = an.ObjOf(info, s.Value)
		}
		return key, val, true
	case *ast.ForStmt:
		as, isAs := s.Init.(*ast.AssignStmt)
		cond, isBin := s.Cond.(*ast.BinaryExpr)
		post, isInc := s.Post.(*ast.IncDecStmt)
		if !isAs || !isBin || !isInc || len(as.Lhs) != 1 || len(as.Rhs) != 1 {
			return nil, nil, false
		}
		iv := an.ObjOf(info, as.Lhs[0])
		if iv == nil || an.ObjOf(info, post.X) != iv {
			return nil, nil, false
		}
		lenOf := func(e ast.Expr) bool {
			call := innerLen(info, e)
			return call != nil && isSeq(call.Args[0])
		}
		// normalise the condition to  i OP other
		x, y, op := cond.X, cond.Y, cond.Op
		if an.ObjOf(info, ast.Unparen(y)) == iv {
			x, y, op = y, x, flipOpTok(op)
		}
		if an.ObjOf(info, ast.Unparen(x)) != iv {
			return nil, nil, false
		}
		initLin, ok1 := c05GapLin(g, info, as.Rhs[0], 0)
		if !ok1 {
			return nil, nil, false
		}
		if post.Tok == token.INC {
			// i := 0; i < len(S)
			if len(initLin.terms) != 0 || initLin.k != 0 || op != token.LSS || !lenOf(y) {
				return nil, nil, false
			}
			return iv, nil, true
		}
		// i := len(S)-1; i >= 0  /  i > -1
		ts := initLin.sorted()
		if len(ts) != 1 || ts[0].coef != 1 || initLin.k != -1 || !lenOf(ts[0].expr) {
			return nil, nil, false
		}
		tv, has := info.Types[y]
		if !has || tv.Value == nil {
			return nil, nil, false
		}
		if !((op == token.GEQ && tv.Value.ExactString() == "0") || (op == token.GTR && tv.Value.ExactString() == "-1")) {
			return nil, nil, false
		}
		return iv, nil, true
	}
	return nil, nil, false
}

// c05GapEnclosingLoop: innermost for/range statement of body that contains pos.
func c05GapEnclosingLoop(body ast.Node, pos token.Pos) ast.Stmt {
	var found ast.Stmt
	ast.Inspect(body, func(n ast.Node) bool {
		if n == nil {
			return false
		}
		if _, isLit := n.(*ast.FuncLit); isLit {
			return false
		}
		switch s := n.(type) {
		case *ast.ForStmt:
			if s.Body.Pos() <= pos && pos < s.Body.End() {
				found = s
			}
		case *ast.RangeStmt:
			if s.Body.Pos() <= pos && pos < s.Body.End() {
				found = s
			}
		}
		return true
	})
	return found
}

func c05GapBoolEdge(g *an.Graph, n *an.Node) (ast.Expr, bool) {
	if n.Kind != an.KTrue && n.Kind != an.KFalse {
		return nil, false
	}
	cond, ok := n.Ast.(ast.Expr)
	if !ok || cond == nil {
		return nil, false
	}
	tv, ok := g.Fn.Info().Types[cond]
	if !ok || tv.Type == nil {
		return nil, false
	}
	b, isB := tv.Type.Underlying().(*types.Basic)
	return cond, isB && b.Info()&types.IsBoolean != 0
}

// c05GapExpand rewrites a condition so that once-defined boolean locals are
// replaced by their defining expressions ( done := a && b; if !done {...} ).
// Only &&, ||, ! and parentheses are rebuilt; the leaves are the original nodes.
func c05GapExpand(g *an.Graph, info *types.Info, e ast.Expr, depth int) ast.Expr {
	switch x := e.(type) {
	case *ast.ParenExpr:
		return &ast.ParenExpr{X: c05GapExpand(g, info, x.X, depth)}
	case *ast.UnaryExpr:
		if x.Op == token.NOT {
			return &ast.UnaryExpr{Op: token.NOT, X: c05GapExpand(g, info, x.X, depth)}
		}
	case *ast.BinaryExpr:
		if x.Op == token.LAND || x.Op == token.LOR {
			return &ast.BinaryExpr{Op: x.Op, X: c05GapExpand(g, info, x.X, depth), Y: c05GapExpand(g, info, x.Y, depth)}
		}
	case *ast.Ident:
		if depth < 4 {
			if v, isVar := an.ObjOf(info, x).(*types.Var); isVar && !v.IsField() {
				if b, isB := v.Type().Underlying().(*types.Basic); isB && b.Info()&types.IsBoolean != 0 {
					if rhs, _ := g.SingleDef(v); rhs != nil {
						if tv, has := info.Types[rhs]; has {
							if _, tuple := tv.Type.(*types.Tuple); !tuple {
								return &ast.ParenExpr{X: c05GapExpand(g, info, rhs, depth+1)}
							}
						}
					}
				}
			}
		}
	}
	return e
}

// c05GapEdgesImplying is Graph.EdgesImplying on expanded conditions.
func c05GapEdgesImplying(g *an.Graph, at an.Atomizer, want map[string]bool) an.Set {
	out := an.Set{}
	info := g.Fn.Info()
	for _, n := range g.Nodes {
		cond, ok := c05GapBoolEdge(g, n)
		if !ok {
			continue
		}
		if an.CondImplies(info, c05GapExpand(g, info, cond, 0), n.Kind == an.KTrue, at, want) {
			out[n] = true
		}
	}
	return out
}

// ---------------------------------------------------------------------------
// tip-agreement

func c05GapTipAgreement(c *rep.Ctx) {
	p := c.Prog
	// swapChainMapping: the in-memory tip is element 0 of the new branch
	if f := c.Fn("chain.(*ChainDB).swapChainMapping"); f != nil {
		g, info := f.Graph(), f.Info()
		sl := g.CallsTo("chain.(*ChainDB).setLatest")
		ok := len(sl) == 1
		if ok {
			arg := c05GapResolve(g, info, sl[0].Call.Args[0])
			ix, isIx := arg.(*ast.IndexExpr)
			ok = isIx && an.ObjOf(info, c05GapResolve(g, info, ix.X)) == f.ParamObj(0) && f.ParamObj(0) != nil
			if ok {
				tv, has := info.Types[ix.Index]
				ok = has && tv.Value != nil && tv.Value.ExactString() == "0"
			}
		}
		c.Check("tip-agreement", "chain.(*ChainDB).swapChainMapping|memory-tip", posOf(sl), ok, "after a reorganisation the in-memory best block is the tip of the new branch (element 0 of the gathered blocks), the block the persisted latest pointer names")
	}
	// dropBlock: latest pointer, in-memory tip and the deleted height entry agree
	if f := c.Fn("chain.(*ChainDB).dropBlock"); f != nil {
		g, info := f.Graph(), f.Info()
		drop := f.ParamObj(0)
		want := func(e ast.Expr, k int64) bool {
			lf, ok := c05GapLin(g, info, e, 0)
			if !ok || lf.k != k || len(lf.terms) != 1 {
				return false
			}
			t := lf.sorted()[0]
			return t.coef == 1 && an.ObjOf(info, t.expr) == drop && drop != nil
		}
		noArg := func(e ast.Expr) ast.Expr { // BlockNoToBytes(x) -> x
			call, ok := c05GapResolve(g, info, e).(*ast.CallExpr)
			if !ok || an.CalleeName(info, call) != "types.BlockNoToBytes" || len(call.Args) != 1 {
				return nil
			}
			return call.Args[0]
		}
		latestOK, heightDel, hashDel := false, false, false
		for _, s := range g.CallsTo(c05TxSet) {
			if containsCallTo(info, s.Call.Args[0], "types/dbkey.LatestBlock") {
				if a := noArg(s.Call.Args[1]); a != nil && want(a, -1) {
					latestOK = true
				}
			}
		}
		var dropped types.Object
		for _, s := range g.CallsTo("chain.(*ChainDB).GetBlockByNo") {
			if want(s.Call.Args[0], 0) {
				dropped = g.ResultVarAt(s, 0)
			}
		}
		for _, s := range g.CallsTo(c05TxDel) {
			if a := noArg(s.Call.Args[0]); a != nil && want(a, 0) {
				heightDel = true
			}
			if b := c05GapHashOfBlock(p, g, info, s.Call.Args[0]); b != nil && dropped != nil && an.ObjOf(info, b) == dropped {
				hashDel = true
			}
		}
		memOK := false
		sl := g.CallsTo("chain.(*ChainDB).setLatest")
		if len(sl) == 1 {
			if o := an.ObjOf(info, sl[0].Call.Args[0]); o != nil {
				for _, s := range g.CallsTo("chain.(*ChainDB).GetBlockByNo") {
					if g.ResultVarAt(s, 0) == o && want(s.Call.Args[0], -1) {
						memOK = true
					}
				}
			}
		}
		c.Check("tip-agreement", "chain.(*ChainDB).dropBlock|latest-and-memory", posOf(sl), latestOK && memOK, "dropping block n moves the persisted latest pointer and the in-memory tip to the same block n-1")
		c.Check("tip-agreement", "chain.(*ChainDB).dropBlock|index-removed", f.Pos(), heightDel && hashDel, "dropping block n deletes the height entry n and the hash entry of the block that was stored at n")
	}
	// RecoverChainMapping: both name the old best block of the marker
	if f := c.Fn("chain.(*ReorgMarker).RecoverChainMapping"); f != nil {
		g, info := f.Graph(), f.Info()
		bestHash := p.LookupField("chain", "ReorgMarker", "BrBestHash")
		bestNo := p.LookupField("chain", "ReorgMarker", "BrBestNo")
		if bestHash == nil || bestNo == nil {
			c.Undecide("tip-agreement", "chain.ReorgMarker", "fields BrBestHash / BrBestNo not found")
		} else {
			var oldBest types.Object
			for _, s := range g.CallsTo("chain.(*ChainDB).getBlock", "chain.(*ChainDB).GetBlock") {
				if len(s.Call.Args) == 1 && an.FieldOf(info, c05GapResolve(g, info, s.Call.Args[0])) == bestHash {
					oldBest = g.ResultVarAt(s, 0)
				}
			}
			sl := g.CallsTo("chain.(*ChainDB).setLatest")
			memOK := len(sl) == 1 && oldBest != nil && an.ObjOf(info, c05GapResolve(g, info, sl[0].Call.Args[0])) == oldBest
			latestOK := false
			for _, s := range g.CallsTo(c05BulkSet) {
				if !containsCallTo(info, s.Call.Args[0], "types/dbkey.LatestBlock") {
					continue
				}
				call, ok := c05GapResolve(g, info, s.Call.Args[1]).(*ast.CallExpr)
				if !ok || an.CalleeName(info, call) != "types.BlockNoToBytes" || len(call.Args) != 1 {
					continue
				}
				a := c05GapResolve(g, info, call.Args[0])
				if an.FieldOf(info, a) == bestNo {
					latestOK = true
				}
				if b := c05GapNoOfBlock(p, g, info, a); b != nil && oldBest != nil && an.ObjOf(info, b) == oldBest {
					latestOK = true
				}
			}
			c.Check("tip-agreement", "chain.(*ReorgMarker).RecoverChainMapping|latest-and-memory", posOf(sl), memOK && latestOK, "rolling the mapping back after a crash sets the persisted latest pointer to the marker's old best number and the in-memory tip to the block loaded by the marker's old best hash")
		}
	}
	c.Floor("tip-agreement", 4)
}

// ---------------------------------------------------------------------------
// block-stored

func c05GapBlockStored(c *rep.Ctx) {
	p := c.Prog
	if f := c.Fn("chain.(*ChainDB).connectToChain"); f != nil {
		g, info := f.Graph(), f.Info()
		skip := f.ParamObj(2)
		at := func(e ast.Expr) (string, bool, bool) {
			if o := an.ObjOf(info, e); o != nil && o == skip {
				return "skip", false, true
			}
			return "", false, false
		}
		add := g.CallsTo("chain.(*ChainDB).addBlock")
		avoid := c05GapEdgesImplying(g, at, map[string]bool{"skip": true}).Union(nodesOf(add))
		ok := skip != nil && len(add) >= 1 && g.SingleDefOrParam(skip)
		n := 0
		for _, s := range g.CallsTo(c05TxSet) {
			if !containsCallTo(info, s.Call.Args[0], "types/dbkey.LatestBlock") {
				continue
			}
			n++
			if g.Reach([]*an.Node{g.Entry}, avoid)[s.Node] {
				ok = false
			}
		}
		for _, s := range add {
			ok = ok && argIs(info, s.Call, 1, f.ParamObj(1))
		}
		c.Check("block-stored", "chain.(*ChainDB).connectToChain|add-unless-skip", posOf(add), ok && n >= 1, "the latest pointer is moved to a block only after that block was written under its hash, unless the caller said the block is stored already")
	}
	// callers: the skip flag is false or implies that the consensus keeps a WAL
	isWAL := func(info *types.Info) an.Atomizer {
		return func(e ast.Expr) (string, bool, bool) {
			if call, ok := ast.Unparen(e).(*ast.CallExpr); ok {
				if fn := an.Callee(info, call); fn != nil && fn.Name() == "HasWAL" && len(call.Args) == 0 {
					return "wal", false, true
				}
			}
			return "", false, false
		}
	}
	sites := p.CallSitesOf(map[string]bool{"chain.(*ChainDB).connectToChain": true})
	for _, s := range sites {
		if s.Fn == nil || len(s.Call.Args) != 3 {
			continue
		}
		info := s.Fn.Info()
		arg := c05GapResolve(s.Fn.Graph(), info, s.Call.Args[2])
		ok := false
		if tv, has := info.Types[arg]; has && tv.Value != nil {
			ok = tv.Value.ExactString() == "false"
		} else if an.CondImplies(info, c05GapExpand(s.Fn.Graph(), info, arg, 0), true, isWAL(info), map[string]bool{"wal": true}) {
			ok = true
		} else if call, isCall := arg.(*ast.CallExpr); isCall {
			// the flag is computed by a helper: every result it returns implies the WAL
			if h := p.FuncOf(an.Callee(info, call)); h != nil && h.Body != nil && an.Callee(info, call) != nil {
				hg, hi := h.Graph(), h.Info()
				rets := hg.Returns()
				ok = len(rets) > 0
				for _, r := range rets {
					rs := r.Ast.(*ast.ReturnStmt)
					if len(rs.Results) != 1 {
						ok = false
						continue
					}
					res := c05GapResolve(hg, hi, rs.Results[0])
					if tv, has := hi.Types[res]; has && tv.Value != nil && tv.Value.ExactString() == "false" {
						continue
					}
					if !an.CondImplies(hi, c05GapExpand(hg, hi, res, 0), true, isWAL(hi), map[string]bool{"wal": true}) {
						ok = false
					}
				}
			}
		}
		c.Check("block-stored", s.Fn.TopDecl().Name()+"|skip-implies-wal", s.Call.Pos(), ok, "writing the block under its hash is skipped only when the consensus has a write-ahead log (which stored the block already)")
	}
	c.Floor("block-stored", 3)
}

// ---------------------------------------------------------------------------
// tx-index-write

func c05GapTxIndexWrite(c *rep.Ctx) {
	p := c.Prog
	if f := c.Fn("chain.(*ChainDB).addTx"); f != nil {
		g, info := f.Graph(), f.Info()
		sets := g.CallsTo(c05TxSet)
		ok := len(sets) == 1
		if ok {
			for _, r := range g.NilReturns() {
				if !g.Dominated(r, nodesOf(sets)) {
					ok = false
				}
			}
		}
		c.Check("tx-index-write", "chain.(*ChainDB).addTx|unconditional", posOf(sets), ok, "addTx succeeds only after it wrote the index entry (an existing entry of an abandoned branch must be overwritten)")
		// the record
		fHash := p.LookupField("types", "TxIdx", "BlockHash")
		fIdx := p.LookupField("types", "TxIdx", "Idx")
		if fHash == nil || fIdx == nil {
			c.Undecide("tx-index-write", "types.TxIdx", "fields BlockHash / Idx not found")
		} else if len(sets) == 1 {
			var lit *ast.CompositeLit
			var litVar types.Object
			nLit := 0
			ast.Inspect(f.Body, func(n ast.Node) bool {
				cl, isCl := n.(*ast.CompositeLit)
				if !isCl {
					return true
				}
				if tv, has := info.Types[cl]; has && tv.Type != nil && strings.HasSuffix(tv.Type.String(), "/types.TxIdx") {
					lit = cl
					nLit++
				}
				return true
			})
			okRec := lit != nil && nLit == 1
			if !okRec {
				c.Undecide("tx-index-write", "chain.(*ChainDB).addTx|record", "the index record is not built by one types.TxIdx literal in addTx")
			}
			if okRec {
				gotHash, gotIdx := false, false
				for _, el := range lit.Elts {
					kv, isKv := el.(*ast.KeyValueExpr)
					if !isKv {
						continue
					}
					kid, _ := kv.Key.(*ast.Ident)
					if kid == nil {
						continue
					}
					switch info.Uses[kid] {
					case types.Object(fHash):
						gotHash = an.ObjOf(info, c05GapResolve(g, info, kv.Value)) == f.ParamObj(2)
					case types.Object(fIdx):
						gotIdx = rootObj(info, c05GapResolve(g, info, kv.Value)) == f.ParamObj(3)
					}
				}
				okRec = gotHash && gotIdx
				// the variable holding the literal
				for _, n := range g.Nodes {
					if as, isAs := n.Ast.(*ast.AssignStmt); isAs && n.Kind == an.KStmt {
						for i, r := range as.Rhs {
							rr := ast.Unparen(r)
							if u, isU := rr.(*ast.UnaryExpr); isU && u.Op == token.AND {
								rr = ast.Unparen(u.X)
							}
							if rr == ast.Expr(lit) && i < len(as.Lhs) {
								litVar = an.ObjOf(info, as.Lhs[i])
							}
						}
					}
				}
				// the value written is the encoding of that literal, the key is the hash of the tx parameter
				val := sets[0].Call.Args[1]
				valOK := false
				if vo := an.ObjOf(info, val); vo != nil && litVar != nil {
					if rhs, _ := g.SingleDef(vo); rhs != nil && mentions(info, rhs, litVar) {
						valOK = true
					}
				} else if litVar != nil && mentions(info, val, litVar) {
					valOK = true
				}
				keyOK := c05GapRoot(info, c05GapResolve(g, info, sets[0].Call.Args[0])) == f.ParamObj(1) && f.ParamObj(1) != nil
				okRec = okRec && valOK && keyOK
			}
			if lit != nil && nLit == 1 {
				c.Check("tx-index-write", "chain.(*ChainDB).addTx|record", posOf(sets), okRec, "the entry written under the transaction's hash records the block hash and the position that were passed in")
			}
		}
	}
	if f := c.Fn("chain.(*ChainDB).addTxsOfBlock"); f != nil {
		g, info := f.Graph(), f.Info()
		calls := g.CallsTo("chain.(*ChainDB).addTx")
		ok := len(calls) == 1
		why := ""
		if ok {
			s := calls[0]
			loop := c05GapEnclosingLoop(f.Body, s.Call.Pos())
			txs := f.ParamObj(1)
			isSeq := func(e ast.Expr) bool { return an.ObjOf(info, c05GapResolve(g, info, e)) == txs && txs != nil }
			var key, val types.Object
			if loop == nil {
				ok, why = false, "addTx is not called in a loop"
			} else if key, val, ok = c05GapLoopOver(g, info, loop, isSeq); !ok {
				why = "the loop does not visit every element of the transaction list"
			}
			if ok {
				head, body, _ := c05GapLoopEdges(g, loop)
				if head == nil || body == nil {
					c.Undecide("tx-index-write", "chain.(*ChainDB).addTxsOfBlock", "loop edges not found")
					return
				}
				if g.Reach([]*an.Node{body}, an.SetOf(s.Node))[head] {
					ok, why = false, "an iteration can skip addTx"
				}
				if g.Reach([]*an.Node{body}, c05GapErrorReturns(g).Add(head))[g.Exit] {
					ok, why = false, "the loop can be left early without an error"
				}
			}
			if ok {
				a := s.Call.Args
				okTx := false
				if val != nil && an.ObjOf(info, c05GapResolve(g, info, a[1])) == val {
					okTx = true
				}
				if ix, isIx := c05GapResolve(g, info, a[1]).(*ast.IndexExpr); isIx && isSeq(ix.X) && key != nil && an.ObjOf(info, c05GapResolve(g, info, ix.Index)) == key {
					okTx = true
				}
				okIdx := false
				if lf, lok := c05GapLin(g, info, a[3], 0); lok && key != nil && lf.k == 0 && len(lf.terms) == 1 {
					t := lf.sorted()[0]
					okIdx = t.coef == 1 && an.ObjOf(info, t.expr) == key
				}
				okHash := an.ObjOf(info, c05GapResolve(g, info, a[2])) == f.ParamObj(2) && f.ParamObj(2) != nil
				if !okTx || !okIdx || !okHash {
					ok, why = false, "transaction, block hash or position argument of addTx is not the loop's element, the hash parameter and the loop's index"
				}
			}
		}
		msg := "every transaction of the list is indexed, each at its own position in the list and under the block hash handed in"
		if why != "" {
			msg += " (" + why + ")"
		}
		c.Check("tx-index-write", "chain.(*ChainDB).addTxsOfBlock|every-tx", posOf(calls), ok, msg)
	}
	c.Floor("tx-index-write", 3)
}

// ---------------------------------------------------------------------------
// index-own-hash

func c05GapIndexOwnHash(c *rep.Ctx) {
	p := c.Prog
	n := 0
	for _, s := range p.CallSitesOf(map[string]bool{"chain.(*ChainDB).addTxsOfBlock": true}) {
		if s.Fn == nil || len(s.Call.Args) != 3 {
			continue
		}
		n++
		g, info := s.Fn.Graph(), s.Fn.Info()
		bt := c05GapTxsOfBlock(p, g, info, s.Call.Args[1])
		bh := c05GapHashOfBlock(p, g, info, s.Call.Args[2])
		ok := bt != nil && bh != nil && c05GapCanon(g, info, bt) == c05GapCanon(g, info, bh)
		c.Check("index-own-hash", s.Fn.TopDecl().Name()+"|addTxsOfBlock", s.Call.Pos(), ok, "the transactions of a block are indexed under the hash of that same block (transaction list and hash are taken from one block value)")
		// inside a loop (reorganisation): the loop visits every block of a block list and indexes each
		if loop := c05GapEnclosingLoop(s.Fn.Body, s.Call.Pos()); loop != nil && bt != nil {
			var seq ast.Expr
			isSeq := func(e ast.Expr) bool {
				r := c05GapResolve(g, info, e)
				tv, has := info.Types[r]
				if !has || tv.Type == nil {
					return false
				}
				sl, isSl := tv.Type.Underlying().(*types.Slice)
				if !isSl || !c05GapIsBlockPtr(sl.Elem()) {
					return false
				}
				if seq == nil {
					seq = r
				}
				return c05GapCanon(g, info, seq) == c05GapCanon(g, info, r)
			}
			key, val, okLoop := c05GapLoopOver(g, info, loop, isSeq)
			why := ""
			if !okLoop {
				why = "the loop does not visit every element of one block list"
			} else {
				head, body, _ := c05GapLoopEdges(g, loop)
				node := g.NodeContaining(s.Call.Pos())
				switch {
				case head == nil || body == nil || node == nil:
					okLoop, why = false, "loop edges not found"
				case g.Reach([]*an.Node{body}, an.SetOf(node))[head]:
					okLoop, why = false, "an iteration can skip the index write"
				case g.Reach([]*an.Node{body}, c05GapErrorReturns(g).Add(head))[g.Exit]:
					okLoop, why = false, "the loop can be left early without an error"
				}
				// the block indexed is the loop's element
				if okLoop {
					elem := c05GapCanon(g, info, bt)
					switch {
					case val != nil && elem == fmt.Sprintf("%s@%d", val.Name(), val.Pos()):
					case key != nil && seq != nil && elem == c05GapCanon(g, info, seq)+"["+fmt.Sprintf("%s@%d", key.Name(), key.Pos())+"]":
					default:
						okLoop, why = false, "the block indexed is not the loop's element"
					}
				}
			}
			msg := "the transaction index is written for every block of the list the loop runs over"
			if why != "" {
				msg += " (" + why + ")"
			}
			c.Check("index-own-hash", s.Fn.TopDecl().Name()+"|every-block", s.Call.Pos(), okLoop, msg)
		}
	}
	if n < 2 {
		c.Undecide("index-own-hash", "chain.(*ChainDB).addTxsOfBlock", "fewer than the two known callers found")
	}
}

// ---------------------------------------------------------------------------
// execute-gate

func c05GapExecuteGate(c *rep.Ctx) {
	if f := c.Fn("chain.(*chainProcessor).execute"); f != nil {
		g, info := f.Graph(), f.Info()
		ex := g.CallsTo("chain.(*chainProcessor).executeBlock")
		conn := g.CallsTo("chain.(*chainProcessor).connectToChain")
		ok := len(ex) == 1 && len(conn) == 1
		if ok {
			edges := g.ErrNilEdges(ex[0])
			ok = len(edges) > 0 && g.Dominated(conn[0].Node, edges) &&
				argIs(info, ex[0].Call, 0, f.ParamObj(0)) && argIs(info, conn[0].Call, 0, f.ParamObj(0))
		}
		c.Check("execute-gate", "chain.(*chainProcessor).execute|execute-then-connect", posOf(conn), ok, "the tip moves to a block only after that same block was executed without error (state committed, receipts written)")
	}
	if f := c.Fn("chain.(*ChainService).executeBlock"); f != nil {
		g, info := f.Graph(), f.Info()
		blk := f.ParamObj(1)
		ok := blk != nil
		n := 0
		for _, spec := range []struct {
			name string
			arg  int
		}{{"chain.newBlockExecutor", 2}, {"chain.(*ChainDB).writeReceiptsAndOperations", 0}, {"chain.(*ChainService).notifyEvents", 0}} {
			for _, s := range g.CallsTo(spec.name) {
				n++
				if spec.arg >= len(s.Call.Args) || an.ObjOf(info, c05GapResolve(g, info, s.Call.Args[spec.arg])) != blk {
					ok = false
				}
			}
		}
		c.Check("execute-gate", "chain.(*ChainService).executeBlock|same-block", f.Pos(), ok && n >= 3, "the executor is built for, the receipts are stored under and the events are published for the block that was handed in (not the previous best block)")
		// receipts use the executor's own state
		wr := g.CallsTo("chain.(*ChainDB).writeReceiptsAndOperations")
		nb := g.CallsTo("chain.newBlockExecutor")
		okEx := len(wr) == 1 && len(nb) == 1
		if okEx {
			exVar := g.ResultVarAt(nb[0], 0)
			if okEx = exVar != nil && len(wr[0].Call.Args) == 3; okEx {
				a := c05GapResolve(g, info, wr[0].Call.Args[1])
				okEx = c05GapRoot(info, a) == exVar && containsCallTo(info, a, "state.(*BlockState).Receipts")
			}
		}
		c.Check("execute-gate", "chain.(*ChainService).executeBlock|receipts-of-execution", posOf(wr), okEx, "the receipts stored for the block are those produced by its own execution")
	}
	c.Floor("execute-gate", 3)
}

// ---------------------------------------------------------------------------
// parent-link

func c05GapParentLink(c *rep.Ctx) {
	p := c.Prog
	if f := c.Fn("chain.(*ChainService).resolveOrphan"); f != nil {
		g, info := f.Graph(), f.Info()
		parent := f.ParamObj(0)
		var child types.Object
		at := func(e ast.Expr) (string, bool, bool) {
			be, ok := ast.Unparen(e).(*ast.BinaryExpr)
			if !ok || (be.Op != token.EQL && be.Op != token.NEQ) {
				return "", false, false
			}
			d, ok := c05GapDiff(g, info, be.X, be.Y)
			if !ok || len(d.terms) != 2 {
				return "", false, false
			}
			var pos, neg *c05GapTerm
			for _, t := range d.terms {
				switch t.coef {
				case 1:
					pos = t
				case -1:
					neg = t
				}
			}
			if pos == nil || neg == nil {
				return "", false, false
			}
			pb, nb := c05GapNoOfBlock(p, g, info, pos.expr), c05GapNoOfBlock(p, g, info, neg.expr)
			if pb == nil || nb == nil {
				return "", false, false
			}
			pr, nr := c05GapRoot(info, pb), c05GapRoot(info, nb)
			// parent + 1 - child == 0   or   child - parent - 1 == 0
			switch {
			case pr == parent && d.k == 1 && nr != parent:
				child = nr
			case nr == parent && d.k == -1 && pr != parent:
				child = pr
			default:
				return "", false, false
			}
			return "linked", be.Op == token.NEQ, true
		}
		edges := g.EdgesImplying(at, map[string]bool{"linked": true})
		ok := parent != nil && len(edges) > 0 && child != nil
		n := 0
		for _, r := range g.Returns() {
			rs := r.Ast.(*ast.ReturnStmt)
			if len(rs.Results) != 2 {
				continue
			}
			if tv, has := info.Types[rs.Results[0]]; has && tv.IsNil() {
				continue
			}
			n++
			if !g.Dominated(r, edges) || c05GapRoot(info, rs.Results[0]) != child {
				ok = false
			}
		}
		c.Check("parent-link", "chain.(*ChainService).resolveOrphan|number", f.Pos(), ok && n >= 1, "a parked block is handed on for connection only if its number is the parent's number + 1 (nothing else checks the number of a block that is connected through orphan resolution)")
		// the orphan is looked up under the parent's own hash
		okKey := false
		ast.Inspect(f.Body, func(nd ast.Node) bool {
			ix, isIx := nd.(*ast.IndexExpr)
			if !isIx {
				return true
			}
			if fld := an.FieldOf(info, ix.X); fld == nil || fld != p.LookupField("chain", "OrphanPool", "cache") {
				return true
			}
			key := c05GapResolve(g, info, ix.Index)
			if call, isCall := key.(*ast.CallExpr); isCall && len(call.Args) == 1 {
				if b := c05GapHashOfBlock(p, g, info, call.Args[0]); b != nil && an.ObjOf(info, b) == parent {
					okKey = true
				}
			}
			return true
		})
		for _, s := range g.CallsTo("chain.(*OrphanPool).getOrphan") {
			if len(s.Call.Args) == 1 {
				if b := c05GapHashOfBlock(p, g, info, s.Call.Args[0]); b != nil && an.ObjOf(info, b) == parent {
					okKey = true
				}
			}
		}
		c.Check("parent-link", "chain.(*ChainService).resolveOrphan|key", f.Pos(), okKey, "the parked block is looked up under the hash of the block that was just added (the pool is keyed by parent hash)")
	}
	if f := c.Fn("chain.(*OrphanPool).addOrphan"); f != nil {
		g, info := f.Graph(), f.Info()
		blk := f.ParamObj(0)
		cache := p.LookupField("chain", "OrphanPool", "cache")
		prevF := p.LookupField("types", "BlockHeader", "PrevBlockHash")
		okKey, n := blk != nil && cache != nil && prevF != nil, 0
		ast.Inspect(f.Body, func(nd ast.Node) bool {
			as, isAs := nd.(*ast.AssignStmt)
			if !isAs || len(as.Lhs) != 1 || len(as.Rhs) != 1 {
				return true
			}
			ix, isIx := ast.Unparen(as.Lhs[0]).(*ast.IndexExpr)
			if !isIx || an.FieldOf(info, ix.X) != cache || cache == nil {
				return true
			}
			n++
			good := false
			if call, isCall := c05GapResolve(g, info, ix.Index).(*ast.CallExpr); isCall && len(call.Args) == 1 {
				a := c05GapResolve(g, info, call.Args[0])
				isPrev := an.FieldOf(info, a) == prevF && prevF != nil
				if c2, isC := a.(*ast.CallExpr); isC && an.CalleeName(info, c2) == "types.(*BlockHeader).GetPrevBlockHash" {
					isPrev = true
				}
				good = isPrev && c05GapRoot(info, a) == blk
			}
			if !good || !mentions(info, c05GapResolve(g, info, as.Rhs[0]), blk) {
				okKey = false
			}
			return true
		})
		c.Check("parent-link", "chain.(*OrphanPool).addOrphan|key", f.Pos(), okKey && n >= 1, "a block without a known parent is parked under its parent's hash, the key resolveOrphan looks up when that parent has been added")
	}
	// the block that is parked is the block that arrived
	for _, spec := range []struct{ fn, callee string }{
		{"chain.(*ChainService).handleOrphan", "chain.(*ChainService).addOrphan"},
		{"chain.(*ChainService).addOrphan", "chain.(*OrphanPool).addOrphan"},
	} {
		if f := c.Fn(spec.fn); f != nil {
			sites := f.Graph().CallsTo(spec.callee)
			ok := len(sites) == 1 && len(sites[0].Call.Args) == 1 && an.ObjOf(f.Info(), c05GapResolve(f.Graph(), f.Info(), sites[0].Call.Args[0])) == f.ParamObj(0) && f.ParamObj(0) != nil
			c.Check("parent-link", spec.fn+"|parks-own-block", posOf(sites), ok, "the block parked in the orphan pool is the block that arrived without a known parent")
		}
	}
	if f := c.Fn("chain.(*ChainDB).isMainChain"); f != nil {
		g, info := f.Graph(), f.Info()
		blk := f.ParamObj(0)
		bestBlk := map[types.Object]bool{}
		for _, s := range g.CallsTo("chain.(*ChainDB).GetBestBlock") {
			if o := g.ResultVarAt(s, 0); o != nil && g.SingleDefOrParam(o) {
				bestBlk[o] = true
			}
		}
		isBest := func(e ast.Expr) bool {
			if b := c05GapNoOfBlock(p, g, info, e); b != nil && bestBlk[an.ObjOf(info, b)] {
				return true
			}
			call, ok := c05GapResolve(g, info, e).(*ast.CallExpr)
			if !ok {
				return false
			}
			switch an.CalleeName(info, call) {
			case "chain.(*ChainDB).getBestBlockNo":
				return true
			}
			return false
		}
		isOwnNo := func(e ast.Expr) bool {
			b := c05GapNoOfBlock(p, g, info, e)
			return b != nil && an.ObjOf(info, b) == blk
		}
		at := func(e ast.Expr) (string, bool, bool) {
			be, ok := ast.Unparen(e).(*ast.BinaryExpr)
			if !ok {
				return "", false, false
			}
			d, ok := c05GapDiff(g, info, be.X, be.Y)
			if !ok {
				return "", false, false
			}
			ts := d.sorted()
			switch len(ts) {
			case 2:
				if be.Op != token.EQL && be.Op != token.NEQ {
					return "", false, false
				}
				var pos, neg *c05GapTerm
				for _, t := range ts {
					if t.coef == 1 {
						pos = t
					} else if t.coef == -1 {
						neg = t
					}
				}
				if pos == nil || neg == nil {
					return "", false, false
				}
				// own - best - 1 == 0   or   best + 1 - own == 0
				if (isOwnNo(pos.expr) && isBest(neg.expr) && d.k == -1) || (isBest(pos.expr) && isOwnNo(neg.expr) && d.k == 1) {
					return "next", be.Op == token.NEQ, true
				}
			case 1:
				if !isOwnNo(ts[0].expr) || d.k != 0 {
					return "", false, false
				}
				op := be.Op
				if ts[0].coef == -1 {
					op = flipOpTok(op)
				} else if ts[0].coef != 1 {
					return "", false, false
				}
				// own OP 0 (unsigned): positive <=> own > 0 <=> own != 0
				switch op {
				case token.GTR, token.NEQ:
					return "pos", false, true
				case token.EQL, token.LEQ:
					return "pos", true, true
				}
			}
			return "", false, false
		}
		// edges on which "number == best+1 or number == 0" is known
		gate := g.InfeasibleEdges(at, map[string]bool{"next": false, "pos": true})
		ok := blk != nil && len(gate) > 0
		n := 0
		why := ""
		for _, r := range g.Returns() {
			rs := r.Ast.(*ast.ReturnStmt)
			if len(rs.Results) != 2 {
				continue
			}
			if tv, has := info.Types[rs.Results[0]]; has && tv.Value != nil && tv.Value.ExactString() == "false" {
				continue
			}
			n++
			if !g.Dominated(r, gate) {
				ok, why = false, "a result other than false is returned without the number test"
			}
			eq, isCall := c05GapResolve(g, info, rs.Results[0]).(*ast.CallExpr)
			if !isCall || an.CalleeName(info, eq) != "bytes.Equal" || len(eq.Args) != 2 {
				ok, why = false, "the result is not the comparison of the parent hash with the hash at the best height"
				continue
			}
			prevSide, bestSide := 0, 0
			for _, a := range eq.Args {
				ra := c05GapResolve(g, info, a)
				if call, isC := ra.(*ast.CallExpr); isC && an.CalleeName(info, call) == "types.(*BlockHeader).GetPrevBlockHash" {
					if b := c05GapBlockOf(info, call); b != nil && an.ObjOf(info, b) == blk {
						prevSide++
						continue
					}
				}
				if fld := an.FieldOf(info, ra); fld != nil && fld == p.LookupField("types", "BlockHeader", "PrevBlockHash") {
					if b := c05GapBlockOf(info, ra); b != nil && an.ObjOf(info, b) == blk {
						prevSide++
						continue
					}
				}
				// the hash of the cached best block
				if b := c05GapHashOfBlock(p, g, info, a); b != nil && bestBlk[an.ObjOf(info, b)] {
					bestSide++
					continue
				}
				// result of getHashByNo(best)
				if o := an.ObjOf(info, a); o != nil {
					for _, s := range g.CallsTo("chain.(*ChainDB).getHashByNo", "chain.(*ChainDB).GetHashByNo") {
						if g.ResultVarAt(s, 0) == o && len(s.Call.Args) == 1 && isBest(s.Call.Args[0]) {
							bestSide++
						}
					}
				}
			}
			if prevSide != 1 || bestSide != 1 {
				ok, why = false, "the comparison is not between the block's parent hash and the hash stored at the best height"
			}
		}
		msg := "a block is executed on top of the tip only if its number is best+1 (or 0) and its parent hash equals the hash stored at the best height"
		if why != "" {
			msg += " (" + why + ")"
		}
		c.Check("parent-link", "chain.(*ChainDB).isMainChain|number-and-hash", f.Pos(), ok && n >= 1, msg)
	}
	c.Floor("parent-link", 5)
}

// ---------------------------------------------------------------------------
// receipts-written

func c05GapReceiptsWritten(c *rep.Ctx) {
	p := c.Prog
	f := c.Fn("chain.(*ChainDB).writeReceiptsAndOperations")
	if f == nil {
		return
	}
	g, info := f.Graph(), f.Info()
	blk, rcp := f.ParamObj(0), f.ParamObj(1)
	// atom "rc": the receipt list is not empty
	at := func(e ast.Expr) (string, bool, bool) {
		e = ast.Unparen(e)
		be, ok := e.(*ast.BinaryExpr)
		if !ok {
			return "", false, false
		}
		x, y, op := be.X, be.Y, be.Op
		if innerLen(info, x) == nil {
			x, y, op = y, x, flipOpTok(op)
		}
		l := innerLen(info, x)
		if l == nil || c05GapRoot(info, c05GapResolve(g, info, l.Args[0])) != rcp || rcp == nil {
			return "", false, false
		}
		tv, has := info.Types[y]
		if !has || tv.Value == nil || tv.Value.ExactString() != "0" {
			return "", false, false
		}
		switch op {
		case token.NEQ, token.GTR:
			return "rc", false, true
		case token.EQL, token.LEQ:
			return "rc", true, true
		}
		return "", false, false
	}
	var rset []an.Site
	keyOK := true
	for _, s := range g.CallsTo(c05TxSet) {
		k, isCall := c05GapResolve(g, info, s.Call.Args[0]).(*ast.CallExpr)
		if !isCall || an.CalleeName(info, k) != "types/dbkey.Receipts" || len(k.Args) != 2 {
			continue
		}
		rset = append(rset, s)
		bh := c05GapHashOfBlock(p, g, info, k.Args[0])
		bn := c05GapNoOfBlock(p, g, info, k.Args[1])
		if bh == nil || bn == nil || an.ObjOf(info, bh) != blk || an.ObjOf(info, bn) != blk || blk == nil {
			keyOK = false
		}
		if !mentions(info, s.Call.Args[1], rcp) {
			if vo := an.ObjOf(info, s.Call.Args[1]); vo == nil {
				keyOK = false
			} else if rhs, _ := g.SingleDef(vo); rhs == nil || !mentions(info, rhs, rcp) {
				keyOK = false
			}
		}
	}
	empty := c05GapEdgesImplying(g, at, map[string]bool{"rc": false})
	ok := len(rset) == 1 && len(empty) > 0 && !g.Reach([]*an.Node{g.Entry}, empty.Union(nodesOf(rset)))[g.Exit]
	c.Check("receipts-written", "chain.(*ChainDB).writeReceiptsAndOperations|when-present", posOf(rset), ok, "the function returns without storing the receipts only when the receipt list is empty (whether or not there are internal operations)")
	c.Check("receipts-written", "chain.(*ChainDB).writeReceiptsAndOperations|key", posOf(rset), len(rset) == 1 && keyOK, "the receipts are stored under the key built from the hash and the number of the block they belong to, and the value is the encoding of the list handed in")
	c.Floor("receipts-written", 2)
}

// ---------------------------------------------------------------------------
// old-receipts

func c05GapOldReceipts(c *rep.Ctx) {
	p := c.Prog
	oldF := p.LookupField("chain", "reorganizer", "oldBlocks")
	bestF := p.LookupField("chain", "reorganizer", "bestBlock")
	if oldF == nil || bestF == nil {
		c.Undecide("old-receipts", "chain.reorganizer", "fields oldBlocks / bestBlock not found")
		return
	}
	// every receipt deletion outside dropBlock ranges over the rolled-back blocks
	n := 0
	for _, s := range p.CallSitesOf(map[string]bool{"chain.(*ChainDB).deleteReceiptsAndOperations": true}) {
		if s.Fn == nil || s.Fn.TopDecl().Name() == "chain.(*ChainDB).dropBlock" || len(s.Call.Args) != 3 {
			continue
		}
		n++
		g, info := s.Fn.Graph(), s.Fn.Info()
		ok := false
		if loop, isRange := c05GapEnclosingLoop(s.Fn.Body, s.Call.Pos()).(*ast.RangeStmt); isRange && loop.Value != nil {
			elem := an.ObjOf(info, loop.Value)
			bh := c05GapHashOfBlock(p, g, info, s.Call.Args[1])
			bn := c05GapNoOfBlock(p, g, info, s.Call.Args[2])
			ok = an.FieldOf(info, c05GapResolve(g, info, loop.X)) == oldF && elem != nil && bh != nil && bn != nil &&
				an.ObjOf(info, bh) == elem && an.ObjOf(info, bn) == elem
		}
		c.Check("old-receipts", s.Fn.TopDecl().Name()+"|deletes-old-only", s.Call.Pos(), ok, "a reorganisation deletes the receipts of the rolled-back blocks (the oldBlocks list), each under that block's own hash and number; the new branch's receipts were just written")
	}
	if n == 0 {
		c.Undecide("old-receipts", "chain.(*ChainDB).deleteReceiptsAndOperations", "no caller besides dropBlock found")
	}
	// what goes into oldBlocks comes from the main chain
	pk := p.Pkg("chain")
	if pk == nil {
		c.Undecide("old-receipts", "chain", "package not loaded")
		return
	}
	m := 0
	for _, f := range p.Funcs() {
		if f.Pkg != pk || f.Body == nil || f.Lit != nil {
			continue
		}
		g, info := f.Graph(), f.Info()
		ast.Inspect(f.Body, func(nd ast.Node) bool {
			as, isAs := nd.(*ast.AssignStmt)
			if !isAs {
				return true
			}
			for i, l := range as.Lhs {
				if an.FieldOf(info, l) != oldF {
					continue
				}
				m++
				var rhs ast.Expr
				if len(as.Rhs) == len(as.Lhs) {
					rhs = ast.Unparen(as.Rhs[i])
				} else if len(as.Rhs) == 1 {
					rhs = ast.Unparen(as.Rhs[0])
				}
				ok := false
				if sl, isSl := rhs.(*ast.SliceExpr); isSl && an.FieldOf(info, sl.X) == oldF {
					ok = true // re-slicing the list keeps a subset
				}
				if tv, has := info.Types[rhs]; has && tv.IsNil() {
					ok = true
				}
				if call, isCall := rhs.(*ast.CallExpr); isCall {
					switch {
					case an.IsBuiltin(info, call, "append") && len(call.Args) >= 2 && an.FieldOf(info, call.Args[0]) == oldF:
						ok = true
						for _, a := range call.Args[1:] {
							o := an.ObjOf(info, a)
							from := false
							for _, s := range g.CallsTo("chain.(*ChainDB).GetBlockByNo") {
								if o != nil && g.ResultVarAt(s, 0) == o {
									from = true
								}
							}
							// the variable must not be reassigned from anything else
							if !from || !g.SingleDefOrParam(o) {
								ok = false
							}
						}
					case an.IsBuiltin(info, call, "make"):
						ok = true
					case an.Callee(info, call) == nil && len(call.Args) >= 1:
						// recovery: the walk down from the marker's old best block
						ok = an.FieldOf(info, c05GapResolve(g, info, call.Args[0])) == bestF
					}
				}
				c.Check("old-receipts", f.Name()+"|old-blocks-source", as.Pos(), ok, "the list of rolled-back blocks is filled only with blocks read through the height index (main chain) or, in recovery, by walking down from the marker's old best block")
			}
			return true
		})
	}
	if m < 2 {
		c.Undecide("old-receipts", "chain.reorganizer.oldBlocks", "assignments not found")
	}
	c.Floor("old-receipts", 3)
}

// ---------------------------------------------------------------------------
// write-committed

var c05GapOpeners = []string{c05NewTx, c05NewBulk, "chain.(*ChainDB).NewTx"}

func c05GapWriteCommitted(c *rep.Ctx) {
	p := c.Prog
	pk := p.Pkg("chain")
	if pk == nil {
		c.Undecide("write-committed", "chain", "package not loaded")
		return
	}
	for _, f := range p.Funcs() {
		if f.Pkg != pk || f.Body == nil {
			continue
		}
		if strings.HasSuffix(p.Pos(f.Pos()), "_test.go") || strings.Contains(p.Pos(f.Pos()), "_test.go:") {
			continue
		}
		g := f.Graph()
		if g == nil {
			continue
		}
		info := f.Info()
		opens := g.CallsTo(c05GapOpeners...)
		if len(opens) == 0 {
			continue
		}
		errRets := c05GapErrorReturns(g)
		for _, o := range opens {
			t := g.ResultVarAt(o, 0)
			if t == nil {
				// handed on directly (e.g. return store.NewTx()): the receiver is responsible
				continue
			}
			isT := func(e ast.Expr) bool {
				e = ast.Unparen(e)
				if u, isU := e.(*ast.UnaryExpr); isU && u.Op == token.AND {
					e = ast.Unparen(u.X)
				}
				return an.ObjOf(info, e) == t
			}
			commits := an.Set{}
			var writes []an.Site
			escapes := false
			for _, s := range g.Calls(nil) {
				name := ""
				if s.Fn != nil {
					name = an.FuncName(s.Fn)
				}
				recvT := false
				if sel, isSel := ast.Unparen(s.Call.Fun).(*ast.SelectorExpr); isSel {
					x := ast.Unparen(sel.X)
					if st, isStar := x.(*ast.StarExpr); isStar {
						x = st.X
					}
					recvT = isT(x)
				}
				switch {
				case recvT && (name == c05TxCommit || name == c05Flush):
					commits[s.Node] = true
				case recvT && (name == c05TxSet || name == c05TxDel || name == c05BulkSet || name == c05BulkDel):
					writes = append(writes, s)
				case recvT:
					// Discard, DiscardLast, ...
				default:
					for i, a := range s.Call.Args {
						if !isT(a) {
							continue
						}
						if c05GapHelperCommits(p, s.Fn, i) {
							commits[s.Node] = true
						} else {
							writes = append(writes, s)
						}
						break
					}
				}
			}
			// the transaction leaves the function (returned / stored): not decided here
			for _, r := range g.Returns() {
				for _, res := range r.Ast.(*ast.ReturnStmt).Results {
					if isT(res) {
						escapes = true
					}
				}
			}
			if escapes || len(writes) == 0 {
				continue
			}
			ok := len(commits) > 0
			var bad token.Pos
			for _, w := range writes {
				// a helper that reported an error: the other edge of the test of its result
				failed := an.Set{}
				for e := range g.ErrNilEdges(w) {
					if e.Cond == nil {
						continue
					}
					for _, sib := range e.Cond.Succs {
						if sib != e && (sib.Kind == an.KTrue || sib.Kind == an.KFalse) {
							failed[sib] = true
						}
					}
				}
				if g.Reach([]*an.Node{w.Node}, commits.Union(errRets).Union(failed))[g.Exit] && !commits[w.Node] {
					ok = false
					if bad == token.NoPos {
						bad = w.Call.Pos()
					}
				}
			}
			pos := o.Call.Pos()
			if bad != token.NoPos {
				pos = bad
			}
			kind := "tx"
			if o.Fn != nil && an.FuncName(o.Fn) == c05NewBulk {
				kind = "bulk"
			}
			c.Check("write-committed", f.Name()+"|"+kind, pos, ok, "every write through a transaction or bulk opened in this function is followed by its Commit / Flush on every path that does not end in an error return")
		}
	}
	c.Floor("write-committed", 10)
}

// c05GapHelperCommits: the module function fn commits / flushes its i-th
// parameter on every path that does not end in an error return.
func c05GapHelperCommits(p *an.Prog, fn *types.Func, i int) bool {
	if fn == nil {
		return false
	}
	h := p.FuncOf(fn)
	if h == nil || h.Body == nil {
		return false
	}
	par := h.ParamObj(i)
	if par == nil {
		return false
	}
	hg, hi := h.Graph(), h.Info()
	commits := an.Set{}
	for _, s := range hg.CallsTo(c05TxCommit, c05Flush) {
		if sel, isSel := ast.Unparen(s.Call.Fun).(*ast.SelectorExpr); isSel {
			x := ast.Unparen(sel.X)
			if st, isStar := x.(*ast.StarExpr); isStar {
				x = ast.Unparen(st.X)
			}
			if an.ObjOf(hi, x) == par {
				commits[s.Node] = true
			}
		}
	}
	return len(commits) > 0 && !hg.Reach([]*an.Node{hg.Entry}, commits.Union(c05GapErrorReturns(hg)))[hg.Exit]
}

// ---------------------------------------------------------------------------
// swap-skip

func c05GapSwapSkip(c *rep.Ctx) {
	p := c.Prog
	f := c.Fn("chain.(*reorganizer).swapChainMapping")
	if f == nil {
		return
	}
	g, info := f.Graph(), f.Info()
	top := p.LookupField("chain", "reorganizer", "brTopBlock")
	newF := p.LookupField("chain", "reorganizer", "newBlocks")
	if top == nil || newF == nil {
		c.Undecide("swap-skip", "chain.reorganizer", "fields brTopBlock / newBlocks not found")
		return
	}
	var best types.Object
	for _, s := range g.CallsTo("chain.(*ChainDB).GetBestBlock") {
		best = g.ResultVarAt(s, 0)
	}
	at := func(e ast.Expr) (string, bool, bool) {
		call, ok := ast.Unparen(e).(*ast.CallExpr)
		if !ok || an.CalleeName(info, call) != "bytes.Equal" || len(call.Args) != 2 {
			return "", false, false
		}
		nb, nt := 0, 0
		for _, a := range call.Args {
			b := c05GapHashOfBlock(p, g, info, a)
			if b == nil {
				return "", false, false
			}
			rb := c05GapResolve(g, info, b)
			if best != nil && an.ObjOf(info, rb) == best {
				nb++
			}
			if an.FieldOf(info, rb) == top {
				nt++
			}
		}
		if nb == 1 && nt == 1 {
			return "same", false, true
		}
		return "", false, false
	}
	same := c05GapEdgesImplying(g, at, map[string]bool{"same": true})
	swap := g.CallsTo("chain.(*ChainDB).swapChainMapping")
	ok := len(swap) == 1 && len(swap[0].Call.Args) == 1 && an.FieldOf(info, c05GapResolve(g, info, swap[0].Call.Args[0])) == newF
	if ok {
		done := g.ErrNilEdges(swap[0]).Union(same)
		for _, r := range g.NilReturns() {
			// `return cdb.swapChainMapping(...)` hands the result on
			if rs := r.Ast.(*ast.ReturnStmt); len(rs.Results) == 1 && ast.Unparen(rs.Results[0]) == ast.Expr(swap[0].Call) {
				continue
			}
			if !g.Dominated(r, done) {
				ok = false
			}
		}
	}
	c.Check("swap-skip", "chain.(*reorganizer).swapChainMapping|only-if-already-swapped", posOf(swap), ok, "the reorganiser reports the height mapping as swapped only after ChainDB.swapChainMapping(new branch) succeeded or when the best block already is the branch top (a recovery that found the swap done)")
}

// ---------------------------------------------------------------------------
// orphan-chain

func c05GapOrphanChain(c *rep.Ctx) {
	p := c.Prog
	applyF := p.LookupField("chain", "chainProcessor", "apply")
	blockF := p.LookupField("chain", "chainProcessor", "block")
	if applyF == nil || blockF == nil {
		c.Undecide("orphan-chain", "chain.chainProcessor", "fields apply / block not found")
		return
	}
	n := 0
	for _, cs := range p.CallSitesOf(map[string]bool{"chain.(*ChainService).resolveOrphan": true}) {
		if cs.Fn == nil {
			continue
		}
		n++
		f := cs.Fn
		g, info := f.Graph(), f.Info()
		var site an.Site
		for _, s := range g.CallsTo("chain.(*ChainService).resolveOrphan") {
			if s.Call == cs.Call {
				site = s
			}
		}
		if site.Node == nil || len(cs.Call.Args) != 1 {
			c.Undecide("orphan-chain", f.Name(), "resolveOrphan call not found in the graph")
			continue
		}
		cur := an.ObjOf(info, cs.Call.Args[0])
		applies := funcValueCalls(f, applyF)
		res := g.ResultVarAt(site, 0)
		handedOn := res != nil && res == cur
		if res != nil && res != cur {
			// next, err := resolveOrphan(cur); ...; cur = next
			for _, nd := range g.Nodes {
				if st, isAs := nd.Ast.(*ast.AssignStmt); isAs && nd.Kind == an.KStmt && len(st.Lhs) == 1 && len(st.Rhs) == 1 &&
					an.ObjOf(info, st.Lhs[0]) == cur && an.ObjOf(info, st.Rhs[0]) == res && g.Dominated(nd, an.SetOf(site.Node)) {
					handedOn = true
				}
			}
		}
		ok := cur != nil && len(applies) >= 1 && handedOn
		why := ""
		if !ok {
			why = "the block whose orphans are resolved is not a local that also receives the resolved orphan"
		}
		if ok {
			edges := an.Set{}
			for _, a := range applies {
				if len(a.Call.Args) != 1 || an.ObjOf(info, a.Call.Args[0]) != cur {
					ok, why = false, "apply is called with another block than the one whose orphans are resolved next"
				}
				for e := range g.ErrNilEdges(a) {
					edges[e] = true
				}
			}
			if ok && (len(edges) == 0 || !g.Dominated(site.Node, edges)) {
				ok, why = false, "orphans are resolved for a block that was not applied successfully"
			}
		}
		if ok {
			// every other definition of the local is the processor's starting block
			for _, nd := range g.Nodes {
				if nd.Kind != an.KStmt || nd == site.Node || !an.Assigns(info, nd.Ast, cur) {
					continue
				}
				good := false
				switch st := nd.Ast.(type) {
				case *ast.AssignStmt:
					if len(st.Lhs) == 1 && len(st.Rhs) == 1 && (an.FieldOf(info, st.Rhs[0]) == blockF || (res != nil && an.ObjOf(info, st.Rhs[0]) == res)) {
						good = true
					}
				case *ast.ValueSpec:
					good = len(st.Values) == 0 || (len(st.Values) == 1 && an.FieldOf(info, st.Values[0]) == blockF)
				}
				if !good {
					ok, why = false, "the local is assigned from something else than the starting block or resolveOrphan"
				}
			}
			// success only when no orphan is left
			done := g.EdgesImplying(an.NilAtom(info, cur), map[string]bool{"nil": true})
			for _, r := range g.NilReturns() {
				if len(done) == 0 || !g.Dominated(r, done) {
					ok, why = false, "the run can succeed while a resolved orphan has not been applied"
				}
			}
		}
		msg := "the processor applies the block, then resolves the orphan parked under that block's hash, and goes on with that orphan until none is left"
		if why != "" {
			msg += " (" + why + ")"
		}
		c.Check("orphan-chain", f.Name()+"|apply-then-resolve", cs.Call.Pos(), ok, msg)
	}
	if n == 0 {
		c.Undecide("orphan-chain", "chain.(*ChainService).resolveOrphan", "no caller found")
	}
}

// ---------------------------------------------------------------------------
// height-entry

// c05GapDefAt: the expression a local holds at a use: its single definition,
// or the definitions that reach the use when they all are the same expression.
// via collects the definition vertices that were looked through.
func c05GapDefAt(g *an.Graph, info *types.Info, e ast.Expr, use *an.Node, via *[]*an.Node) ast.Expr {
	for depth := 0; depth < 6; depth++ {
		e = ast.Unparen(e)
		id, ok := e.(*ast.Ident)
		if !ok {
			return e
		}
		v, ok := an.ObjOf(info, id).(*types.Var)
		if !ok || v.IsField() {
			return e
		}
		if r := c05GapResolve(g, info, id); r != ast.Expr(id) {
			e = r
			continue
		}
		defs := an.Set{}
		for _, nd := range g.Nodes {
			if nd.Kind == an.KStmt && an.Assigns(info, nd.Ast, v) {
				defs[nd] = true
			}
		}
		// no definition at all on some path (parameter, zero value): not resolved
		if len(defs) == 0 || g.Reach([]*an.Node{g.Entry}, defs)[use] {
			return e
		}
		var found ast.Expr
		var used []*an.Node
		for d := range defs {
			others := an.Set{}
			for o := range defs {
				if o != d {
					others[o] = true
				}
			}
			if d == use || !g.Reach(d.Succs, others)[use] {
				continue // does not reach the use
			}
			var rhs ast.Expr
			switch st := d.Ast.(type) {
			case *ast.AssignStmt:
				if len(st.Lhs) == len(st.Rhs) && st.Tok != token.ADD_ASSIGN && st.Tok != token.SUB_ASSIGN {
					for i, l := range st.Lhs {
						if an.ObjOf(info, l) == types.Object(v) {
							rhs = st.Rhs[i]
						}
					}
				}
			case *ast.ValueSpec:
				if len(st.Values) == len(st.Names) {
					for i, nm := range st.Names {
						if info.Defs[nm] == types.Object(v) {
							rhs = st.Values[i]
						}
					}
				}
			}
			if rhs == nil || (found != nil && an.ExprString(found) != an.ExprString(rhs)) {
				return e
			}
			found = rhs
			used = append(used, d)
		}
		if found == nil {
			return e
		}
		if via != nil {
			*via = append(*via, used...)
		}
		e = found
	}
	return e
}

func c05GapHeightEntry(c *rep.Ctx) {
	p := c.Prog
	pk := p.Pkg("chain")
	if pk == nil {
		c.Undecide("height-entry", "chain", "package not loaded")
		return
	}
	n := 0
	for _, f := range p.Funcs() {
		if f.Pkg != pk || f.Body == nil || strings.Contains(p.Pos(f.Pos()), "_test.go:") {
			continue
		}
		g := f.Graph()
		if g == nil {
			continue
		}
		info := f.Info()
		for _, s := range g.CallsTo(c05TxSet, c05BulkSet) {
			if len(s.Call.Args) != 2 {
				continue
			}
			var via []*an.Node
			key, isCall := c05GapDefAt(g, info, s.Call.Args[0], s.Node, &via).(*ast.CallExpr)
			if !isCall || an.CalleeName(info, key) != "types.BlockNoToBytes" || len(key.Args) != 1 {
				continue
			}
			noExpr := c05GapDefAt(g, info, key.Args[0], s.Node, &via)
			bn := c05GapNoOfBlock(p, g, info, noExpr)
			if bn == nil {
				continue // a number that is not read off a block (raft log, deletions by number): not decided here
			}
			n++
			bh := c05GapHashOfBlock(p, g, info, c05GapDefAt(g, info, s.Call.Args[1], s.Node, &via))
			ok := bh != nil && c05GapCanon(g, info, bn) == c05GapCanon(g, info, bh)
			// the block variable must not change between the definitions looked through and the write
			if root := c05GapRoot(info, bn); ok && root != nil {
				for _, d := range via {
					for m := range g.Between(d, s.Node) {
						if m.Kind == an.KStmt && an.Assigns(info, m.Ast, root) {
							ok = false
						}
					}
				}
			}
			c.Check("height-entry", f.Name()+"|"+an.ExprString(ast.Unparen(bn)), s.Call.Pos(), ok, "the height index entry written under the number of a block holds the hash of that same block")
		}
	}
	if n < 2 {
		c.Undecide("height-entry", "chain", "the height index writes of connectToChain / swapChainMapping were not recognised")
	}
}

// ---------------------------------------------------------------------------
// state-root

func c05GapStateRoot(c *rep.Ctx) {
	p := c.Prog
	if f := c.Fn("chain.(*blockExecutor).commit"); f != nil {
		g, info := f.Graph(), f.Info()
		cm := g.CallsTo("state.(*BlockState).Commit", "state/statedb.(*StateDB).Commit")
		ur := g.CallsTo("state.(*ChainStateDB).UpdateRoot")
		ok := len(cm) == 1 && len(ur) == 1
		if ok {
			e1, e2 := g.ErrNilEdges(cm[0]), g.ErrNilEdges(ur[0])
			direct := false
			for _, r := range g.Returns() {
				if rs := r.Ast.(*ast.ReturnStmt); len(rs.Results) == 1 && ast.Unparen(rs.Results[0]) == ast.Expr(ur[0].Call) {
					direct = true
				}
			}
			ok = len(e1) > 0 && (len(e2) > 0 || direct) && g.Dominated(ur[0].Node, e1)
			for _, r := range g.NilReturns() {
				if rs := r.Ast.(*ast.ReturnStmt); len(rs.Results) == 1 && ast.Unparen(rs.Results[0]) == ast.Expr(ur[0].Call) {
					continue
				}
				if !g.Dominated(r, e2) {
					ok = false
				}
			}
			// the root moves to the state that was committed
			bs := p.LookupField("chain", "blockExecutor", "BlockState")
			recv := ast.Expr(nil)
			if sel, isSel := ast.Unparen(cm[0].Call.Fun).(*ast.SelectorExpr); isSel {
				recv = sel.X
			}
			sameState := bs != nil && len(ur[0].Call.Args) == 1 && an.FieldOf(info, ur[0].Call.Args[0]) == bs &&
				(an.FieldOf(info, recv) == bs || an.ObjOf(info, recv) == c05GapRoot(info, ur[0].Call.Args[0]))
			ok = ok && sameState
		}
		c.Check("state-root", "chain.(*blockExecutor).commit|commit-then-root", posOf(ur), ok, "committing an executed block succeeds only after the block state was flushed and the chain state DB's root was moved to that same state")
	}
	if f := c.Fn("chain.(*blockExecutor).execute"); f != nil {
		g, info := f.Graph(), f.Info()
		vo := p.LookupField("chain", "blockExecutor", "verifyOnly")
		cm := g.CallsTo("chain.(*blockExecutor).commit")
		ok := vo != nil && len(cm) == 1
		if ok {
			at := an.FieldAtom(info, vo, "verify")
			gate := g.ErrNilEdges(cm[0]).Union(c05GapEdgesImplying(g, at, map[string]bool{"verify": true}))
			for _, r := range g.NilReturns() {
				if rs := r.Ast.(*ast.ReturnStmt); len(rs.Results) == 1 && ast.Unparen(rs.Results[0]) == ast.Expr(cm[0].Call) {
					continue
				}
				if !g.Dominated(r, gate) {
					ok = false
				}
			}
		}
		c.Check("state-root", "chain.(*blockExecutor).execute|commit-unless-verify", posOf(cm), ok, "executing a block succeeds only after commit() succeeded, unless the executor is verify-only")
	}
	c.Floor("state-root", 2)
}
