package props

import (
	"go/ast"
	"go/token"
	"go/types"
	"strings"

	"verif/checker/internal/an"
)

// ---------------------------------------------------------------------------
// small AST/type helpers of C17 (all resolved through go/types)

// c17Top returns the name of the declared function enclosing f ("<package level>" for nil).
func c17Top(f *an.Func) string {
	if f == nil {
		return "<package level>"
	}
	return f.TopDecl().Name()
}

// c17Named strips pointers and returns the named type of t (nil if none).
func c17Named(t types.Type) *types.Named {
	for t != nil {
		t = types.Unalias(t)
		if p, ok := t.(*types.Pointer); ok {
			t = p.Elem()
			continue
		}
		break
	}
	n, _ := t.(*types.Named)
	return n
}

// c17TypeKey renders a (pointer to a) named type as module-relative "pkg.Name".
func c17TypeKey(t types.Type) string {
	n := c17Named(t)
	if n == nil || n.Obj() == nil {
		if t == nil {
			return "<nil>"
		}
		return types.TypeString(t, func(p *types.Package) string { return an.Rel(p.Path()) })
	}
	if n.Obj().Pkg() == nil {
		return n.Obj().Name()
	}
	return an.Rel(n.Obj().Pkg().Path()) + "." + n.Obj().Name()
}

// c17StructField returns field `name` of the struct underlying named type n.
func c17StructField(n *types.Named, name string) *types.Var {
	if n == nil {
		return nil
	}
	st, ok := n.Underlying().(*types.Struct)
	if !ok {
		return nil
	}
	for i := 0; i < st.NumFields(); i++ {
		if st.Field(i).Name() == name {
			return st.Field(i)
		}
	}
	return nil
}

func c17IsNil(info *types.Info, e ast.Expr) bool {
	if e == nil {
		return false
	}
	tv, ok := info.Types[ast.Unparen(e)]
	return ok && tv.IsNil()
}

// c17Const returns the constant value text of e ("" when not constant).
func c17Const(info *types.Info, e ast.Expr) string {
	if e == nil {
		return ""
	}
	tv, ok := info.Types[ast.Unparen(e)]
	if !ok || tv.Value == nil {
		return ""
	}
	return tv.Value.ExactString()
}

// c17Contains: does expression e (not descending into function literals)
// contain a sub-expression satisfying pred?
func c17Contains(e ast.Node, pred func(ast.Expr) bool) bool {
	found := false
	if e == nil {
		return false
	}
	an.InspectShallow(e, func(n ast.Node) bool {
		if found {
			return false
		}
		if x, ok := n.(ast.Expr); ok && pred(x) {
			found = true
			return false
		}
		return true
	})
	return found
}

// c17Sources lists the right-hand sides of every assignment of local variable v
// inside the declared function `top` (function literals included): `=`/`:=`
// (tuple assignments yield the call), `var` specs with values, range
// key/value (yield the ranged expression) and type-switch bindings (yield the
// asserted expression).  ++/--/op= are self-derived and ignored; a `var`
// without value (zero value) is ignored.
func c17Sources(top *an.Func, v types.Object) []ast.Expr {
	var out []ast.Expr
	if top == nil || top.Body == nil || v == nil {
		return nil
	}
	info := top.Info()
	is := func(e ast.Expr) bool {
		id, ok := ast.Unparen(e).(*ast.Ident)
		if !ok {
			return false
		}
		return info.Defs[id] == v || info.Uses[id] == v
	}
	ast.Inspect(top.Body, func(n ast.Node) bool {
		switch s := n.(type) {
		case *ast.AssignStmt:
			if s.Tok != token.ASSIGN && s.Tok != token.DEFINE {
				return true
			}
			for i, l := range s.Lhs {
				if !is(l) {
					continue
				}
				if len(s.Rhs) == len(s.Lhs) {
					out = append(out, s.Rhs[i])
				} else if len(s.Rhs) == 1 {
					out = append(out, s.Rhs[0])
				}
			}
		case *ast.ValueSpec:
			for i, nm := range s.Names {
				if info.Defs[nm] != v {
					continue
				}
				if len(s.Values) == len(s.Names) {
					out = append(out, s.Values[i])
				} else if len(s.Values) == 1 {
					out = append(out, s.Values[0])
				}
			}
		case *ast.RangeStmt:
			if (s.Key != nil && is(s.Key)) || (s.Value != nil && is(s.Value)) {
				out = append(out, s.X)
			}
		case *ast.TypeSwitchStmt:
			as, ok := s.Assign.(*ast.AssignStmt)
			if !ok || len(as.Rhs) != 1 {
				return true
			}
			ta, ok := ast.Unparen(as.Rhs[0]).(*ast.TypeAssertExpr)
			if !ok {
				return true
			}
			for _, cl := range s.Body.List {
				if info.Implicits[cl] == v {
					out = append(out, ta.X)
				}
			}
		}
		return true
	})
	return out
}

// c17Derives: expression e contains a sub-expression satisfying pred, or
// contains a local variable ALL of whose assignments (at least one) derive
// from pred in the same sense (depth-bounded).  Parameters have no assignments:
// pred has to recognise the identifier itself.
func c17Derives(top *an.Func, e ast.Node, pred func(ast.Expr) bool, depth int) bool {
	if e == nil || depth < 0 {
		return false
	}
	if c17Contains(e, pred) {
		return true
	}
	info := top.Info()
	ok := false
	seen := map[types.Object]bool{}
	an.InspectShallow(e, func(n ast.Node) bool {
		if ok {
			return false
		}
		id, isID := n.(*ast.Ident)
		if !isID {
			return true
		}
		v, isVar := info.Uses[id].(*types.Var)
		if !isVar || v.IsField() || seen[v] {
			return true
		}
		if v.Pkg() != nil && v.Parent() == v.Pkg().Scope() {
			return true // package-level variable
		}
		seen[v] = true
		srcs := c17Sources(top, v)
		all, cnt := true, 0
		for _, s := range srcs {
			if c17Contains(s, c17ObjPred(info, v)) {
				continue // v = f(v, ...): keeps whatever v derived from
			}
			cnt++
			if !c17Derives(top, s, pred, depth-1) {
				all = false
				break
			}
		}
		if all && cnt > 0 {
			ok = true
		}
		return true
	})
	return ok
}

// c17FieldPred recognises a selection of the given struct field.
func c17FieldPred(info *types.Info, fld *types.Var) func(ast.Expr) bool {
	return func(e ast.Expr) bool { return fld != nil && an.FieldOf(info, e) == fld }
}

// c17ObjPred recognises a use of the given object.
func c17ObjPred(info *types.Info, obj types.Object) func(ast.Expr) bool {
	return func(e ast.Expr) bool {
		id, ok := e.(*ast.Ident)
		return ok && obj != nil && (info.Uses[id] == obj || info.Defs[id] == obj)
	}
}

// c17CallPred recognises a call of one of the named functions (an.FuncName).
func c17CallPred(info *types.Info, names ...string) func(ast.Expr) bool {
	want := map[string]bool{}
	for _, n := range names {
		want[n] = true
	}
	return func(e ast.Expr) bool {
		c, ok := e.(*ast.CallExpr)
		if !ok {
			return false
		}
		fn := an.Callee(info, c)
		return fn != nil && want[an.FuncName(fn)]
	}
}

func c17Or(ps ...func(ast.Expr) bool) func(ast.Expr) bool {
	return func(e ast.Expr) bool {
		for _, p := range ps {
			if p(e) {
				return true
			}
		}
		return false
	}
}

// readers of a block's number / hash (role table, resolved by object)
var c17BlockNoCalls = []string{"types.(*Block).BlockNo", "types.(*BlockHeader).GetBlockNo"}
var c17BlockHashCalls = []string{"types.(*Block).GetHash", "types.(*Block).BlockHash"}

func c17BlockNoPred(p *an.Prog, info *types.Info) func(ast.Expr) bool {
	return c17Or(c17CallPred(info, c17BlockNoCalls...), c17FieldPred(info, p.LookupField("types", "BlockHeader", "BlockNo")))
}

func c17BlockHashPred(p *an.Prog, info *types.Info) func(ast.Expr) bool {
	return c17Or(c17CallPred(info, c17BlockHashCalls...), c17FieldPred(info, p.LookupField("types", "Block", "Hash")))
}

// c17ErrIdx returns the index of the last result of fn when it is an error (-1 otherwise).
func c17ErrIdx(fn *types.Func) int {
	if fn == nil {
		return -1
	}
	sig, ok := fn.Type().(*types.Signature)
	if !ok || sig.Results().Len() == 0 {
		return -1
	}
	i := sig.Results().Len() - 1
	if types.Identical(sig.Results().At(i).Type(), types.Universe.Lookup("error").Type()) {
		return i
	}
	return -1
}

// c17NonNilReturns: return vertices whose result number idx is not the nil
// literal (idx<0: the last result).
func c17NonNilReturns(g *an.Graph, idx int) an.Set {
	out := an.Set{}
	info := g.Fn.Info()
	for _, r := range g.Returns() {
		rs := r.Ast.(*ast.ReturnStmt)
		if len(rs.Results) == 0 {
			continue
		}
		i := idx
		if i < 0 {
			i = len(rs.Results) - 1
		}
		if i >= len(rs.Results) {
			continue
		}
		if !c17IsNil(info, rs.Results[i]) {
			out[r] = true
		}
	}
	return out
}

// c17NilCmpAtom recognises  <x> == nil / <x> != nil  where x satisfies isX, as
// atom `name` (true when x is nil).
func c17NilCmpAtom(info *types.Info, name string, isX func(ast.Expr) bool) an.Atomizer {
	return func(e ast.Expr) (string, bool, bool) {
		be, ok := ast.Unparen(e).(*ast.BinaryExpr)
		if !ok || (be.Op != token.EQL && be.Op != token.NEQ) {
			return "", false, false
		}
		for _, pr := range [][2]ast.Expr{{be.X, be.Y}, {be.Y, be.X}} {
			if isX(ast.Unparen(pr[0])) && c17IsNil(info, pr[1]) {
				return name, be.Op == token.NEQ, true
			}
		}
		return "", false, false
	}
}

// c17Atoms chains atomizers (first match wins).
func c17Atoms(as ...an.Atomizer) an.Atomizer {
	return func(e ast.Expr) (string, bool, bool) {
		for _, a := range as {
			if n, neg, ok := a(e); ok {
				return n, neg, true
			}
		}
		return "", false, false
	}
}

// c17EqAtom recognises  a == b / a != b  (and bytes.Equal(a,b),
// bytes.Compare(a,b) ==/!= 0 when bytesToo) where {a,b} satisfy {isA,isB} in
// either order, as atom `name` (true when equal).
func c17EqAtom(info *types.Info, name string, bytesToo bool, isA, isB func(ast.Expr) bool) an.Atomizer {
	pair := func(x, y ast.Expr) bool {
		return (isA(x) && isB(y)) || (isA(y) && isB(x))
	}
	return func(e ast.Expr) (string, bool, bool) {
		e = ast.Unparen(e)
		if bytesToo {
			if c, ok := e.(*ast.CallExpr); ok && len(c.Args) == 2 && an.CalleeName(info, c) == "bytes.Equal" && pair(c.Args[0], c.Args[1]) {
				return name, false, true
			}
		}
		be, ok := e.(*ast.BinaryExpr)
		if !ok || (be.Op != token.EQL && be.Op != token.NEQ) {
			return "", false, false
		}
		if bytesToo {
			for _, pr := range [][2]ast.Expr{{be.X, be.Y}, {be.Y, be.X}} {
				c, ok := ast.Unparen(pr[0]).(*ast.CallExpr)
				if ok && len(c.Args) == 2 && an.CalleeName(info, c) == "bytes.Compare" && c17Const(info, pr[1]) == "0" && pair(c.Args[0], c.Args[1]) {
					return name, be.Op == token.NEQ, true
				}
			}
			return "", false, false
		}
		if pair(be.X, be.Y) {
			return name, be.Op == token.NEQ, true
		}
		return "", false, false
	}
}

// c17TypeSwitches lists the type switches directly in the body of f (not in nested literals).
func c17TypeSwitches(f *an.Func) []*ast.TypeSwitchStmt {
	var out []*ast.TypeSwitchStmt
	an.InspectShallow(f.Body, func(n ast.Node) bool {
		if ts, ok := n.(*ast.TypeSwitchStmt); ok {
			out = append(out, ts)
		}
		return true
	})
	return out
}

// c17SwitchSubject returns the expression x of `switch [v :=] x.(type)`.
func c17SwitchSubject(ts *ast.TypeSwitchStmt) ast.Expr {
	var e ast.Expr
	switch a := ts.Assign.(type) {
	case *ast.AssignStmt:
		if len(a.Rhs) == 1 {
			e = a.Rhs[0]
		}
	case *ast.ExprStmt:
		e = a.X
	}
	if ta, ok := ast.Unparen(e).(*ast.TypeAssertExpr); ok {
		return ta.X
	}
	return nil
}

// c17Clause is one case type of a type switch.
type c17Clause struct {
	Key    string // module-relative type key
	Type   types.Type
	Clause *ast.CaseClause
	Multi  bool // the clause lists several types
}

func c17Clauses(info *types.Info, ts *ast.TypeSwitchStmt) (out []c17Clause, deflt *ast.CaseClause) {
	for _, st := range ts.Body.List {
		cc := st.(*ast.CaseClause)
		if cc.List == nil {
			deflt = cc
			continue
		}
		for _, te := range cc.List {
			tv, ok := info.Types[te]
			if !ok || tv.Type == nil {
				continue
			}
			out = append(out, c17Clause{Key: c17TypeKey(tv.Type), Type: tv.Type, Clause: cc, Multi: len(cc.List) > 1})
		}
	}
	return
}

// c17In reports whether pos lies inside node n.
func c17In(n ast.Node, pos token.Pos) bool { return n != nil && n.Pos() <= pos && pos < n.End() }

// c17Lits returns f and all function literals nested in it.
func c17Lits(f *an.Func) []*an.Func {
	out := []*an.Func{f}
	for _, l := range f.Lits {
		out = append(out, c17Lits(l)...)
	}
	return out
}

// c17LitOfVar resolves a call of a local function variable to the single
// function literal assigned to it in `top` (nil when ambiguous).
func c17LitOfVar(p *an.Prog, top *an.Func, call *ast.CallExpr) *an.Func {
	v := an.CalleeVar(top.Info(), call)
	if v == nil {
		return nil
	}
	srcs := c17Sources(top, v)
	if len(srcs) != 1 {
		return nil
	}
	lit, ok := ast.Unparen(srcs[0]).(*ast.FuncLit)
	if !ok {
		return nil
	}
	return p.LitFunc(lit)
}

func c17Short(name string) string {
	if i := strings.LastIndex(name, "/"); i >= 0 {
		return name[i+1:]
	}
	return name
}

// c17AssignNodes: vertices of g assigning local object obj.
func c17AssignNodes(g *an.Graph, obj types.Object) []*an.Node {
	info := g.Fn.Info()
	return g.StmtNodes(func(n *an.Node) bool { return an.Assigns(info, n.Ast, obj) })
}

// c17FieldAssign: when vertex n is an assignment `<x>.fld = rhs`, returns rhs.
func c17FieldAssign(info *types.Info, n *an.Node, fld *types.Var) (ast.Expr, bool) {
	as, ok := n.Ast.(*ast.AssignStmt)
	if !ok || len(as.Lhs) != len(as.Rhs) {
		return nil, false
	}
	for i, l := range as.Lhs {
		if an.FieldOf(info, l) == fld {
			return as.Rhs[i], true
		}
	}
	return nil, false
}

// ---------------------------------------------------------------------------
// flow-sensitive derivation (reaching definitions on the control-flow graph)

// c17PredAt is a predicate on an expression evaluated at a vertex.
type c17PredAt func(x ast.Expr, at *an.Node) bool

func c17Anywhere(p func(ast.Expr) bool) c17PredAt {
	return func(x ast.Expr, _ *an.Node) bool { return p(x) }
}

// c17DefRHS returns the right-hand side that vertex n assigns to local v
// (nil for zero-value declarations, ++/--, op=).
func c17DefRHS(g *an.Graph, n *an.Node, v types.Object) ast.Expr {
	info := g.Fn.Info()
	is := func(e ast.Expr) bool {
		id, ok := ast.Unparen(e).(*ast.Ident)
		return ok && (info.Defs[id] == v || info.Uses[id] == v)
	}
	switch s := n.Ast.(type) {
	case *ast.AssignStmt:
		if s.Tok != token.ASSIGN && s.Tok != token.DEFINE {
			return nil
		}
		for i, l := range s.Lhs {
			if is(l) {
				if len(s.Lhs) == len(s.Rhs) {
					return s.Rhs[i]
				}
				if len(s.Rhs) == 1 {
					return s.Rhs[0]
				}
			}
		}
	case *ast.ValueSpec:
		for i, nm := range s.Names {
			if info.Defs[nm] == v {
				if len(s.Values) == len(s.Names) {
					return s.Values[i]
				}
				if len(s.Values) == 1 {
					return s.Values[0]
				}
			}
		}
	case *ast.Ident:
		// range key / value: the ranged expression
		var x ast.Expr
		ast.Inspect(g.Fn.Body, func(m ast.Node) bool {
			if rs, ok := m.(*ast.RangeStmt); ok && (rs.Key == ast.Expr(s) || rs.Value == ast.Expr(s)) {
				x = rs.X
			}
			return true
		})
		return x
	}
	return nil
}

// c17ReachingDefs: the vertices assigning local v whose value may still be in
// v when vertex `at` is evaluated.
func c17ReachingDefs(g *an.Graph, v types.Object, at *an.Node) []*an.Node {
	defs := c17AssignNodes(g, v)
	var out []*an.Node
	for _, d := range defs {
		avoid := an.Set{}
		for _, o := range defs {
			if o != at {
				avoid[o] = true
			}
		}
		if g.Reach(d.Succs, avoid)[at] {
			out = append(out, d)
		}
	}
	return out
}

// c17DerivesAt is c17Derives made flow-sensitive inside one function graph:
// a local variable used at vertex `at` derives from pred when every
// definition reaching `at` (at least one) has a right-hand side that derives
// from pred at its own vertex.  Variables not assigned in this graph
// (parameters, captured variables, type-switch bindings) fall back to the
// flow-insensitive rule.
func c17DerivesAt(g *an.Graph, at *an.Node, e ast.Node, pred c17PredAt, depth int) bool {
	if e == nil || at == nil || depth < 0 {
		return false
	}
	if c17Contains(e, func(x ast.Expr) bool { return pred(x, at) }) {
		return true
	}
	info := g.Fn.Info()
	top := g.Fn.TopDecl()
	ok := false
	seen := map[types.Object]bool{}
	an.InspectShallow(e, func(n ast.Node) bool {
		if ok {
			return false
		}
		id, isID := n.(*ast.Ident)
		if !isID {
			return true
		}
		v, isVar := info.Uses[id].(*types.Var)
		if !isVar || v.IsField() || seen[v] {
			return true
		}
		if v.Pkg() != nil && v.Parent() == v.Pkg().Scope() {
			return true
		}
		seen[v] = true
		if len(c17AssignNodes(g, v)) == 0 {
			if c17Derives(top, id, func(x ast.Expr) bool { return pred(x, at) }, depth-1) {
				ok = true
			}
			return true
		}
		defs := c17ReachingDefs(g, v, at)
		if len(defs) == 0 {
			return true
		}
		all := true
		for _, d := range defs {
			rhs := c17DefRHS(g, d, v)
			if rhs == nil || !c17DerivesAt(g, d, rhs, pred, depth-1) {
				all = false
				break
			}
		}
		if all {
			ok = true
		}
		return true
	})
	return ok
}
