package props

import (
	"go/ast"
	"go/constant"
	"go/token"
	"go/types"
	"sort"
	"strings"

	"verif/checker/internal/an"
	"verif/checker/internal/rep"
)

// C18 gap rules (P2P boundary).  Added after a systematic mutation review of
// every anchor of the property; each rule is a necessary condition decided from
// the shape of the code on all paths:
//
//	header-layout       every field of the 48-byte frame header is written by
//	                    marshalHeader and read by parseHeader at the same byte
//	                    range, with the same width and byte order, and lands in
//	                    the message field that the writer's accessor returns
//	                    (constructor parameter -> field -> accessor resolved)
//	length-agreement    the frame writer emits nothing unless the announced
//	                    length equals the length of the payload it writes
//	read-cursor         every Read inside a fill loop writes behind the bytes
//	                    already read (destination advances with the byte count)
//	nil-sender          the Sender of a Status received from the wire is
//	                    dereferenced (directly or in a callee) only where it is
//	                    known to be non-nil
//	hs-identity-source  the version manager hands every handshaker the genesis
//	                    hash of the local genesis block and the peer id it was
//	                    called with; the wire handshakers pass the peer id they
//	                    were constructed with
//	hs-switch-closed    the version manager constructs handshakers only for the
//	                    versions the accepted / attempted lists enumerate
//	errcache-gate       the bad-block cache is filled only for a failed block
//	                    whose failure addBlockInternal marked cacheable
//	errcache-transient  a failure that depends on the current best block or on
//	                    the orphan pool is never marked cacheable
//	dispatch-recover    payload parsing, authentication and handling of a
//	                    received message run under a deferred recover()
//	dispatch-gate       a message is handled only when its payload was parsed
//	                    and authenticated without error, and with that payload
//	loop-bound          a counting loop whose upper bound was decoded from the
//	                    wire runs only behind an upper-bound guard
func init() {
	extend("C18", c18GapHeaderLayout)
	extend("C18", c18GapLengthAgreement)
	extend("C18", c18GapReadCursor)
	extend("C18", c18GapNilSender)
	extend("C18", c18GapIdentitySource)
	extend("C18", c18GapSwitchClosed)
	extend("C18", c18GapErrCache)
	extend("C18", c18GapDispatch)
	extend("C18", c18GapLoopBound)
}

// ---------------------------------------------------------------------------
// helpers

// c18GapReachingDef returns the right-hand side of the single assignment of
// obj that reaches use (no other assignment of obj in between), or nil.
func c18GapReachingDef(g *an.Graph, obj types.Object, use *an.Node) ast.Expr {
	info := g.Fn.Info()
	var defs []*an.Node
	for _, n := range g.Nodes {
		if n.Kind == an.KStmt && n != use && an.Assigns(info, n.Ast, obj) {
			defs = append(defs, n)
		}
	}
	var found ast.Expr
	cnt := 0
	for _, d := range defs {
		if !g.Reachable(d, use) {
			continue
		}
		killed := false
		between := g.Between(d, use)
		for _, o := range defs {
			if o != d && between[o] {
				killed = true
			}
		}
		if killed {
			continue
		}
		cnt++
		found = nil
		switch s := d.Ast.(type) {
		case *ast.AssignStmt:
			for i, l := range s.Lhs {
				if an.ObjOf(info, l) == obj && len(s.Lhs) == len(s.Rhs) {
					found = s.Rhs[i]
				}
			}
		case *ast.ValueSpec:
			for i, nm := range s.Names {
				if info.Defs[nm] == obj && i < len(s.Values) {
					found = s.Values[i]
				}
			}
		}
	}
	if cnt != 1 {
		return nil
	}
	return found
}

// c18GapConstInt evaluates a constant integer expression (nil -> def).
func c18GapConstInt(info *types.Info, e ast.Expr, def int64) (int64, bool) {
	if e == nil {
		return def, true
	}
	tv, ok := info.Types[e]
	if !ok || tv.Value == nil || tv.Value.Kind() != constant.Int {
		return 0, false
	}
	v, exact := constant.Int64Val(tv.Value)
	return v, exact
}

// c18GapResolve follows once-defined locals to their defining expression.
func c18GapResolve(g *an.Graph, e ast.Expr) ast.Expr {
	info := g.Fn.Info()
	for i := 0; i < 4; i++ {
		e = ast.Unparen(e)
		id, ok := e.(*ast.Ident)
		if !ok {
			return e
		}
		v, isVar := info.Uses[id].(*types.Var)
		if !isVar || v.IsField() || v.Pkg() == nil || v.Parent() == nil || v.Parent() == v.Pkg().Scope() {
			return e
		}
		rhs, idx := g.SingleDef(v)
		if rhs == nil || idx != 0 {
			return e
		}
		if _, isCall := ast.Unparen(rhs).(*ast.CallExpr); isCall {
			if tup, isTup := info.TypeOf(rhs).(*types.Tuple); isTup && tup.Len() > 1 {
				return e
			}
		}
		e = rhs
	}
	return e
}

func c18GapBinaryCodec(fn *types.Func, prefix string) (width int64, ok bool) {
	if fn == nil || fn.Pkg() == nil || fn.Pkg().Path() != "encoding/binary" || !strings.HasPrefix(fn.Name(), prefix) {
		return 0, false
	}
	switch strings.TrimPrefix(fn.Name(), prefix) {
	case "Uint16":
		return 2, true
	case "Uint32":
		return 4, true
	case "Uint64":
		return 8, true
	}
	return 0, false
}

// c18GapOrderObj: the byte-order value a codec method is called on
// (binary.BigEndian / binary.LittleEndian), nil if not a plain package variable.
func c18GapOrderObj(info *types.Info, call *ast.CallExpr) types.Object {
	sel, ok := ast.Unparen(call.Fun).(*ast.SelectorExpr)
	if !ok {
		return nil
	}
	switch x := ast.Unparen(sel.X).(type) {
	case *ast.SelectorExpr:
		return info.Uses[x.Sel]
	case *ast.Ident:
		return info.Uses[x]
	}
	return nil
}

// ---------------------------------------------------------------------------
// header-layout

type c18GapSlot struct {
	lo, hi int64
	width  int64 // bytes moved by the codec (-1: opaque, checked against the value type)
	order  types.Object
	pos    token.Pos
}

func c18GapHeaderLayout(c *rep.Ctx) {
	const rule = "header-layout"
	p := c.Prog
	wr := c.Fn("p2p/v030.(*V030ReadWriter).marshalHeader")
	rd := c.Fn("p2p/v030.parseHeader")
	if wr == nil || rd == nil {
		return
	}
	buf := p.LookupField("p2p/v030", "V030ReadWriter", "writeBuf")
	mvT, _ := p.LookupObj("p2p/p2pcommon", "MessageValue").(*types.TypeName)
	if buf == nil || mvT == nil {
		c.Undecide(rule, "p2p/v030", "header buffer field or p2pcommon.MessageValue not found")
		return
	}
	arr, isArr := buf.Type().Underlying().(*types.Array)
	if !isArr {
		c.Undecide(rule, "p2p/v030.V030ReadWriter.writeBuf", "the header buffer is not a fixed-size array")
		return
	}
	size := arr.Len()

	// ---- writer: accessor -> slot
	winfo := wr.Info()
	wg := wr.Graph()
	msg := wr.ParamObj(0)
	if msg == nil {
		c.Undecide(rule, wr.Name(), "message parameter not found")
		return
	}
	// accessorIn: the method of the message parameter whose value e carries
	accessorIn := func(e ast.Expr) string {
		name, n := "", 0
		ast.Inspect(e, func(m ast.Node) bool {
			call, ok := m.(*ast.CallExpr)
			if !ok {
				return true
			}
			if an.IsBuiltin(winfo, call, "len") && len(call.Args) == 1 {
				// len(m.Payload()) is the length the reader will be told
				if in, ok := ast.Unparen(call.Args[0]).(*ast.CallExpr); ok {
					if sel, ok := ast.Unparen(in.Fun).(*ast.SelectorExpr); ok && an.ObjOf(winfo, sel.X) == msg && sel.Sel.Name == "Payload" {
						name = "Length"
						n++
						return false
					}
				}
			}
			if sel, ok := ast.Unparen(call.Fun).(*ast.SelectorExpr); ok && an.ObjOf(winfo, sel.X) == msg {
				name = sel.Sel.Name
				n++
			}
			return true
		})
		if n != 1 {
			return ""
		}
		return name
	}
	writer := map[string]c18GapSlot{}
	bad := false
	ast.Inspect(wr.Body, func(n ast.Node) bool {
		call, ok := n.(*ast.CallExpr)
		if !ok || len(call.Args) < 2 {
			return true
		}
		w, isPut := c18GapBinaryCodec(an.Callee(winfo, call), "Put")
		isCopy := an.IsBuiltin(winfo, call, "copy")
		if !isPut && !isCopy {
			return true
		}
		se, ok := ast.Unparen(call.Args[0]).(*ast.SliceExpr)
		if !ok || an.FieldOf(winfo, se.X) != buf {
			return true
		}
		lo, ok1 := c18GapConstInt(winfo, se.Low, 0)
		hi, ok2 := c18GapConstInt(winfo, se.High, size)
		if !ok1 || !ok2 {
			c.Undecide(rule, wr.Name(), "header write with non-constant bounds")
			bad = true
			return true
		}
		slot := c18GapSlot{lo: lo, hi: hi, pos: call.Pos()}
		src := call.Args[1]
		if isPut {
			slot.width = w
			slot.order = c18GapOrderObj(winfo, call)
			for i := 0; i < 3; i++ {
				id, isId := c18StripConv(winfo, src).(*ast.Ident)
				if !isId {
					break
				}
				v, isVar := winfo.Uses[id].(*types.Var)
				use := wg.NodeContaining(call.Pos())
				if !isVar || v.IsField() || v == msg || use == nil {
					break
				}
				def := c18GapReachingDef(wg, v, use)
				if def == nil {
					break
				}
				src = def
			}
		} else {
			// copy(dst, v[:]) / copy(dst, v): width = length of the array value
			if s2, ok := ast.Unparen(src).(*ast.SliceExpr); ok && s2.Low == nil && s2.High == nil {
				src = s2.X
			}
			slot.width = -1
			if t := winfo.TypeOf(src); t != nil {
				if at, ok := t.Underlying().(*types.Array); ok {
					slot.width = at.Len()
				}
			}
			if id, ok := ast.Unparen(src).(*ast.Ident); ok {
				if v, isVar := winfo.Uses[id].(*types.Var); isVar && !v.IsField() {
					use := wg.NodeContaining(call.Pos())
					if use != nil {
						if def := c18GapReachingDef(wg, v, use); def != nil {
							src = def
						}
					}
				}
			}
		}
		acc := accessorIn(src)
		if acc == "" {
			// a constant / package-level zero value written in the arm that carries no value of the message
			// (e.g. the empty id when the message has no original id): not a field write; coverage of the
			// buffer is header-fully-written's business, and a field that loses its accessor write is
			// reported below as not written
			root := ast.Unparen(src)
			for {
				if sel, ok := root.(*ast.SelectorExpr); ok {
					if _, isPkg := winfo.Uses[identOf(sel.X)].(*types.PkgName); isPkg {
						root = sel.Sel
						break
					}
					root = ast.Unparen(sel.X)
					return true
				}
				break
			}
			if id, ok := root.(*ast.Ident); ok {
				if o := winfo.Uses[id]; o != nil && o.Parent() == o.Pkg().Scope() {
					return true
				}
			}
			if tv, ok := winfo.Types[src]; ok && tv.Value != nil {
				return true
			}
			c.Undecide(rule, wr.Name(), "header write whose value is not an accessor of the message: "+an.ExprString(call.Args[1]))
			bad = true
			return true
		}
		if _, dup := writer[acc]; dup {
			c.Undecide(rule, wr.Name()+"|"+acc, "the accessor is written to the header twice")
			bad = true
		}
		writer[acc] = slot
		return true
	})

	// ---- reader: accessor -> slot
	rinfo := rd.Info()
	rg := rd.Graph()
	rbuf := rd.ParamObj(0)
	if rbuf == nil {
		c.Undecide(rule, rd.Name(), "header parameter not found")
		return
	}
	// slotOf: the header slice an expression decodes (locals resolved)
	slotOf := func(e ast.Expr) (c18GapSlot, bool) {
		var slot c18GapSlot
		n := 0
		var walk func(e ast.Expr, outer []ast.Node, depth int)
		walk = func(e ast.Expr, outer []ast.Node, depth int) {
			stack := append([]ast.Node{}, outer...)
			base := len(stack)
			ast.Inspect(e, func(x ast.Node) bool {
				if x == nil {
					if len(stack) > base {
						stack = stack[:len(stack)-1]
					}
					return true
				}
				switch y := x.(type) {
				case *ast.SliceExpr:
					if an.ObjOf(rinfo, y.X) != rbuf {
						break
					}
					lo, ok1 := c18GapConstInt(rinfo, y.Low, 0)
					hi, ok2 := c18GapConstInt(rinfo, y.High, size)
					if ok1 && ok2 {
						slot.lo, slot.hi, slot.pos = lo, hi, y.Pos()
						n++
					} else {
						n += 2
					}
					slot.width = -1
					// the nearest enclosing call that is not a conversion decodes the slice
					for i := len(stack) - 1; i >= 0; i-- {
						call, isCall := stack[i].(*ast.CallExpr)
						if !isCall {
							continue
						}
						if tv, has := rinfo.Types[call.Fun]; has && tv.IsType() {
							continue
						}
						if w, isCodec := c18GapBinaryCodec(an.Callee(rinfo, call), ""); isCodec {
							slot.width = w
							slot.order = c18GapOrderObj(rinfo, call)
						} else if l, isArr := c18GapArrayLen(rinfo.TypeOf(call)); isArr {
							slot.width = l
						}
						break
					}
				case *ast.Ident:
					// once-defined local: continue in its definition
					if v, isVar := rinfo.Uses[y].(*types.Var); isVar && v != rbuf && !v.IsField() && v.Pkg() != nil && v.Parent() != v.Pkg().Scope() && depth < 4 {
						if rhs, idx := rg.SingleDef(v); rhs != nil && idx == 0 {
							walk(rhs, stack, depth+1)
						}
					}
				}
				stack = append(stack, x)
				return true
			})
		}
		walk(e, nil, 0)
		return slot, n == 1
	}
	reader := map[string]c18GapSlot{}
	// constructor parameter -> field -> accessor
	accOfField := map[*types.Var]string{}
	for _, f := range p.Funcs() {
		if f.Decl == nil || f.Decl.Recv == nil || f.Body == nil || len(f.Body.List) != 1 || f.Obj == nil {
			continue
		}
		sig := f.Obj.Type().(*types.Signature)
		if sig.Recv() == nil || c18Named(sig.Recv().Type()) != mvT || sig.Params().Len() != 0 {
			continue
		}
		if rs, ok := f.Body.List[0].(*ast.ReturnStmt); ok && len(rs.Results) == 1 {
			if fv := an.FieldOf(f.Info(), rs.Results[0]); fv != nil {
				accOfField[fv] = f.Obj.Name()
			}
		}
	}
	paramAccessor := func(cf *an.Func, idx int) string {
		po := cf.ParamObj(idx)
		if po == nil || cf.Body == nil {
			return ""
		}
		info := cf.Info()
		out := ""
		ast.Inspect(cf.Body, func(n ast.Node) bool {
			cl, ok := n.(*ast.CompositeLit)
			if !ok || c18Named(info.TypeOf(cl)) != mvT {
				return true
			}
			for _, el := range cl.Elts {
				kv, ok := el.(*ast.KeyValueExpr)
				if !ok {
					continue
				}
				if an.ObjOf(info, kv.Value) != po {
					continue
				}
				if id, ok := kv.Key.(*ast.Ident); ok {
					if fv, ok := info.Uses[id].(*types.Var); ok {
						out = accOfField[fv]
					}
				}
			}
			return true
		})
		return out
	}
	nRet := 0
	for _, r := range rg.Returns() {
		rs := r.Ast.(*ast.ReturnStmt)
		if len(rs.Results) != 2 {
			continue
		}
		nRet++
		call, ok := ast.Unparen(c18GapResolve(rg, rs.Results[0])).(*ast.CallExpr)
		cf := (*an.Func)(nil)
		if ok {
			cf = p.FuncOf(an.Callee(rinfo, call))
		}
		if cf == nil {
			c.Undecide(rule, rd.Name(), "the parsed message is not built by a constructor call")
			bad = true
			continue
		}
		for i, a := range call.Args {
			acc := paramAccessor(cf, i)
			if acc == "" {
				c.Undecide(rule, rd.Name(), "constructor argument "+itoa(i)+" of "+cf.Name()+" does not land in a field with an accessor")
				bad = true
				continue
			}
			slot, ok := slotOf(a)
			if !ok {
				c.Undecide(rule, rd.Name()+"|"+acc, "the value is not decoded from exactly one constant slice of the header")
				bad = true
				continue
			}
			reader[acc] = slot
		}
		slot, ok := slotOf(rs.Results[1])
		if !ok {
			c.Undecide(rule, rd.Name()+"|Length", "the returned length is not decoded from exactly one constant slice of the header")
			bad = true
			continue
		}
		reader["Length"] = slot
	}
	if nRet != 1 {
		c.Undecide(rule, rd.Name(), "expected exactly one return of (message, length)")
		return
	}
	if bad {
		return
	}
	names := map[string]bool{}
	for k := range writer {
		names[k] = true
	}
	for k := range reader {
		names[k] = true
	}
	var keys []string
	for k := range names {
		keys = append(keys, k)
	}
	sort.Strings(keys)
	for _, k := range keys {
		w, hasW := writer[k]
		r, hasR := reader[k]
		pos := w.pos
		if !hasW {
			pos = r.pos
		}
		why := ""
		switch {
		case !hasW:
			why = "read from the header but never written"
		case !hasR:
			why = "written to the header but never read back"
		case w.lo != r.lo || w.hi != r.hi:
			why = "written at [" + itoa64(w.lo) + ":" + itoa64(w.hi) + ") but read from [" + itoa64(r.lo) + ":" + itoa64(r.hi) + ")"
		case w.width != w.hi-w.lo:
			why = "the writer moves " + itoa64(w.width) + " bytes into a slot of " + itoa64(w.hi-w.lo)
		case r.width != r.hi-r.lo:
			why = "the reader decodes " + itoa64(r.width) + " bytes from a slot of " + itoa64(r.hi-r.lo)
		case w.order != nil && r.order != nil && w.order != r.order:
			why = "writer and reader use different byte orders"
		}
		msgText := "header field " + k + "(): written and read at the same byte range [" + itoa64(w.lo) + ":" + itoa64(w.hi) + ") with the same width and byte order, and stored in the field that " + k + "() returns"
		if why != "" {
			msgText = "header field " + k + "(): " + why + " (the message read back differs from the message written)"
		}
		c.Check(rule, "p2p/v030|"+k, pos, why == "", msgText)
	}
	c.Floor(rule, 5)
}

func c18GapNumParams(f *an.Func) int {
	if f.Type == nil || f.Type.Params == nil {
		return 0
	}
	return f.Type.Params.NumFields()
}

func c18GapArrayLen(t types.Type) (int64, bool) {
	if t == nil {
		return 0, false
	}
	if at, ok := t.Underlying().(*types.Array); ok {
		return at.Len(), true
	}
	return 0, false
}

// ---------------------------------------------------------------------------
// length-agreement

// c18GapLenEqEdges: edges of f on which  <msg>.Length() == len(<msg>.Payload())  is known.
func c18GapLenEqEdges(f *an.Func, msg types.Object) an.Set {
	info := f.Info()
	isLength := func(e ast.Expr) bool {
		call, ok := c18StripConv(info, e).(*ast.CallExpr)
		if !ok || len(call.Args) != 0 {
			return false
		}
		sel, ok := ast.Unparen(call.Fun).(*ast.SelectorExpr)
		return ok && sel.Sel.Name == "Length" && an.ObjOf(info, sel.X) == msg
	}
	isPayloadLen := func(e ast.Expr) bool {
		call, ok := c18StripConv(info, e).(*ast.CallExpr)
		if !ok || !an.IsBuiltin(info, call, "len") || len(call.Args) != 1 {
			return false
		}
		in, ok := ast.Unparen(call.Args[0]).(*ast.CallExpr)
		if !ok {
			return false
		}
		sel, ok := ast.Unparen(in.Fun).(*ast.SelectorExpr)
		return ok && sel.Sel.Name == "Payload" && an.ObjOf(info, sel.X) == msg
	}
	return f.Graph().EdgesImplying(func(e ast.Expr) (string, bool, bool) {
		be, ok := ast.Unparen(e).(*ast.BinaryExpr)
		if !ok || (be.Op != token.EQL && be.Op != token.NEQ) {
			return "", false, false
		}
		if (isLength(be.X) && isPayloadLen(be.Y)) || (isLength(be.Y) && isPayloadLen(be.X)) {
			return "EQ", be.Op == token.NEQ, true
		}
		return "", false, false
	}, map[string]bool{"EQ": true})
}

func c18GapLengthAgreement(c *rep.Ctx) {
	const rule = "length-agreement"
	p := c.Prog
	wr := c.Fn("p2p/v030.(*V030ReadWriter).WriteMsg")
	if wr == nil {
		return
	}
	g := wr.Graph()
	info := wr.Info()
	msg := wr.ParamObj(0)
	var firstWrite *an.Node
	for _, s := range g.Calls(func(fn *types.Func, _ *ast.CallExpr) bool {
		return fn != nil && fn.Name() == "Write" && fn.Pkg() != nil && fn.Pkg().Path() == "bufio"
	}) {
		if firstWrite == nil || s.Call.Pos() < firstWrite.Ast.Pos() {
			firstWrite = s.Node
		}
	}
	if msg == nil || firstWrite == nil {
		c.Undecide(rule, wr.Name(), "message parameter or stream write not found")
		return
	}
	edges := c18GapLenEqEdges(wr, msg)
	// a helper  check(msg) error  whose nil returns are behind the comparison
	for _, s := range g.Calls(func(fn *types.Func, call *ast.CallExpr) bool { return p.FuncOf(fn) != nil }) {
		cf := p.FuncOf(s.Fn)
		if cf == nil || cf.Body == nil {
			continue
		}
		for i, a := range s.Call.Args {
			if an.ObjOf(info, a) != msg {
				continue
			}
			po := cf.ParamObj(i)
			if po == nil {
				continue
			}
			he := c18GapLenEqEdges(cf, po)
			if len(he) == 0 {
				continue
			}
			cg := cf.Graph()
			all := true
			nils := cg.NilReturns()
			for _, r := range nils {
				if !cg.Dominated(r, he) {
					all = false
				}
			}
			if all && len(nils) > 0 {
				for e := range g.ErrNilEdges(s) {
					edges[e] = true
				}
			}
		}
	}
	ok := len(edges) > 0 && g.Dominated(firstWrite, edges)
	how := "guarded"
	if !ok {
		// alternative: the header length is taken from the payload itself
		for _, s := range g.Calls(func(fn *types.Func, _ *ast.CallExpr) bool { return p.FuncOf(fn) != nil }) {
			cf := p.FuncOf(s.Fn)
			if cf == nil || cf.Body == nil || !g.Dominated(firstWrite, an.SetOf(s.Node)) {
				continue
			}
			for i, a := range s.Call.Args {
				if an.ObjOf(info, a) != msg {
					continue
				}
				po := cf.ParamObj(i)
				ci := cf.Info()
				usesLength, usesPayloadLen := false, false
				ast.Inspect(cf.Body, func(n ast.Node) bool {
					call, isCall := n.(*ast.CallExpr)
					if !isCall {
						return true
					}
					if sel, isSel := ast.Unparen(call.Fun).(*ast.SelectorExpr); isSel && an.ObjOf(ci, sel.X) == po && sel.Sel.Name == "Length" {
						usesLength = true
					}
					if an.IsBuiltin(ci, call, "len") && len(call.Args) == 1 {
						if in, isIn := ast.Unparen(call.Args[0]).(*ast.CallExpr); isIn {
							if sel, isSel := ast.Unparen(in.Fun).(*ast.SelectorExpr); isSel && an.ObjOf(ci, sel.X) == po && sel.Sel.Name == "Payload" {
								usesPayloadLen = true
							}
						}
					}
					return true
				})
				if po != nil && usesPayloadLen && !usesLength {
					ok, how = true, "derived"
				}
			}
		}
	}
	c.Check(rule, wr.Name()+"|"+how, firstWrite.Ast.Pos(), ok, "nothing is written to the stream unless the length announced in the header equals the length of the payload that follows (`Length() != len(Payload()) -> error` before the first write, or the header length is len(Payload()) itself): otherwise the reader's frame boundaries drift and every later message is garbage")
	c.Floor(rule, 1)
}

// ---------------------------------------------------------------------------
// read-cursor

func c18GapReadCursor(c *rep.Ctx) {
	const rule = "read-cursor"
	p := c.Prog
	n := 0
	for _, f := range p.Funcs() {
		if f.Body == nil || !c18InScope(an.Rel(f.Pkg.PkgPath)) {
			continue
		}
		var all []*an.Func
		(&c18An{}).allFuncs(f, &all)
		for _, fn := range all {
			info := fn.Info()
			// cheap pre-filter
			has := false
			an.InspectShallow(fn.Body, func(m ast.Node) bool {
				if call, ok := m.(*ast.CallExpr); ok {
					if sel, ok := ast.Unparen(call.Fun).(*ast.SelectorExpr); ok && sel.Sel.Name == "Read" && len(call.Args) == 1 {
						has = true
					}
				}
				return !has
			})
			if !has {
				continue
			}
			g := fn.Graph()
			for _, s := range g.Calls(func(cf *types.Func, call *ast.CallExpr) bool {
				if cf == nil || cf.Name() != "Read" || len(call.Args) != 1 {
					return false
				}
				sig := cf.Type().(*types.Signature)
				if sig.Recv() == nil || sig.Params().Len() != 1 || sig.Results().Len() != 2 {
					return false
				}
				sl, ok := sig.Params().At(0).Type().Underlying().(*types.Slice)
				if !ok {
					return false
				}
				b, ok := sl.Elem().Underlying().(*types.Basic)
				return ok && b.Kind() == types.Byte && c18IsInt(sig.Results().At(0).Type())
			}) {
				if !g.InLoop(s.Node) {
					continue
				}
				n++
				cnt := g.ResultVarAt(s, 0)
				dst := ast.Unparen(s.Call.Args[0])
				var base types.Object
				var low ast.Expr
				switch x := dst.(type) {
				case *ast.Ident:
					base = an.ObjOf(info, x)
				case *ast.SliceExpr:
					base = an.ObjOf(info, x.X)
					low = x.Low
				}
				key := fn.Name()
				if base == nil || cnt == nil {
					c.Undecide(rule, key, "Read in a loop whose destination or byte count is not a plain variable")
					continue
				}
				inLoop := func(m *an.Node) bool { return g.Reachable(s.Node, m) && g.Reachable(m, s.Node) }
				ok := false
				if low != nil {
					// buf[off:] with  off += n  in the loop
					off := an.ObjOf(info, c18StripConv(info, low))
					for _, m := range g.Nodes {
						if m.Kind != an.KStmt || off == nil || !inLoop(m) {
							continue
						}
						as, isAs := m.Ast.(*ast.AssignStmt)
						if !isAs || len(as.Lhs) != 1 || len(as.Rhs) != 1 || an.ObjOf(info, as.Lhs[0]) != off {
							continue
						}
						switch as.Tok {
						case token.ADD_ASSIGN:
							if an.ObjOf(info, c18StripConv(info, as.Rhs[0])) == cnt {
								ok = true
							}
						case token.ASSIGN:
							if be, isBe := ast.Unparen(as.Rhs[0]).(*ast.BinaryExpr); isBe && be.Op == token.ADD {
								x, y := an.ObjOf(info, c18StripConv(info, be.X)), an.ObjOf(info, c18StripConv(info, be.Y))
								if (x == off && y == cnt) || (x == cnt && y == off) {
									ok = true
								}
							}
						}
					}
				} else {
					// buf = buf[n:] in the loop
					for _, m := range g.Nodes {
						if m.Kind != an.KStmt || !inLoop(m) {
							continue
						}
						as, isAs := m.Ast.(*ast.AssignStmt)
						if !isAs || len(as.Lhs) != 1 || len(as.Rhs) != 1 || an.ObjOf(info, as.Lhs[0]) != base {
							continue
						}
						if se, isSe := ast.Unparen(as.Rhs[0]).(*ast.SliceExpr); isSe && an.ObjOf(info, se.X) == base && se.Low != nil && an.ObjOf(info, c18StripConv(info, se.Low)) == cnt {
							ok = true
						}
					}
				}
				c.Fns[fn.TopDecl().Name()] = true
				c.Check(rule, key, s.Call.Pos(), ok, "a Read that is repeated until a buffer is full writes behind the bytes already read (buf[off:] with off += n, or buf = buf[n:]): a destination that does not advance overwrites the beginning of the frame whenever the stream delivers it in more than one piece")
			}
		}
	}
	if n < 2 {
		c.Undecide(rule, "p2p", "expected the fill loops of the frame reader and of p2putil.ReadToLen")
	}
	c.Floor(rule, 2)
}

// ---------------------------------------------------------------------------
// nil-sender

type c18GapNil struct {
	c      *rep.Ctx
	p      *an.Prog
	status *types.TypeName
	sender *types.Var
	memoP  map[string]int // 0 unknown, 1 derefs unguarded, 2 safe
	depth  int
}

type c18GapDeref struct {
	pos  token.Pos
	node *an.Node
	what string
}

// sites lists the places of fn where the pointer denoted by (base, viaSender)
// is dereferenced without a dominating non-nil test.  viaSender: base is a
// *Status and the pointer is base.Sender; otherwise the pointer is base itself.
func (h *c18GapNil) sites(fn *an.Func, base types.Object, viaSender bool) (unguarded, guarded []c18GapDeref) {
	info := fn.Info()
	g := fn.Graph()
	isSenderOfBase := func(e ast.Expr) bool {
		e = ast.Unparen(e)
		if call, ok := e.(*ast.CallExpr); ok && len(call.Args) == 0 {
			if sel, ok := ast.Unparen(call.Fun).(*ast.SelectorExpr); ok && sel.Sel.Name == "GetSender" {
				return an.ObjOf(info, sel.X) == base
			}
			return false
		}
		sel, ok := e.(*ast.SelectorExpr)
		return ok && an.FieldOf(info, sel) == h.sender && an.ObjOf(info, sel.X) == base
	}
	aliases := map[types.Object]bool{}
	if !viaSender {
		aliases[base] = true
	}
	// once-defined locals  a := base.Sender  /  a := base
	for _, n := range g.Nodes {
		if n.Kind != an.KStmt {
			continue
		}
		var lhs, rhs []ast.Expr
		switch s := n.Ast.(type) {
		case *ast.AssignStmt:
			lhs, rhs = s.Lhs, s.Rhs
		case *ast.ValueSpec:
			for _, nm := range s.Names {
				lhs = append(lhs, nm)
			}
			rhs = s.Values
		}
		if len(lhs) != len(rhs) {
			continue
		}
		for i, l := range lhs {
			o := an.ObjOf(info, l)
			if o == nil {
				continue
			}
			src := ast.Unparen(rhs[i])
			match := (viaSender && isSenderOfBase(src)) || (!viaSender && an.ObjOf(info, src) == base)
			if _, isId := ast.Unparen(l).(*ast.Ident); match && isId {
				if r, _ := g.SingleDef(o); r != nil {
					aliases[o] = true
				}
			}
		}
	}
	isPtr := func(e ast.Expr) bool {
		e = ast.Unparen(e)
		if id, ok := e.(*ast.Ident); ok {
			return aliases[an.ObjOf(info, id)]
		}
		return viaSender && isSenderOfBase(e)
	}
	at := func(e ast.Expr) (string, bool, bool) {
		be, ok := ast.Unparen(e).(*ast.BinaryExpr)
		if !ok || (be.Op != token.EQL && be.Op != token.NEQ) {
			return "", false, false
		}
		for _, pr := range [][2]ast.Expr{{be.X, be.Y}, {be.Y, be.X}} {
			if tv, has := info.Types[pr[1]]; has && tv.IsNil() && isPtr(pr[0]) {
				return "nil", be.Op == token.NEQ, true
			}
		}
		return "", false, false
	}
	add := func(pos token.Pos, what string) {
		n := g.NodeContaining(pos)
		d := c18GapDeref{pos, n, what}
		if n == nil {
			unguarded = append(unguarded, d)
			return
		}
		if ok, _ := g.GuardedAt(n, at, map[string]bool{"nil": false}); ok || c18GapShortCircuit(info, n.Ast, pos, at, map[string]bool{"nil": false}) {
			guarded = append(guarded, d)
		} else {
			unguarded = append(unguarded, d)
		}
	}
	an.InspectShallow(fn.Body, func(n ast.Node) bool {
		switch x := n.(type) {
		case *ast.SelectorExpr:
			if isPtr(x.X) && an.FieldOf(info, x) != nil {
				add(x.Pos(), "field "+x.Sel.Name)
			}
		case *ast.StarExpr:
			if isPtr(x.X) {
				add(x.Pos(), "*")
			}
		case *ast.CallExpr:
			cf := h.p.FuncOf(an.Callee(info, x))
			if cf == nil || cf.Body == nil {
				return true
			}
			for i, a := range x.Args {
				switch {
				case isPtr(a):
					if h.derefs(cf, i, false) {
						add(x.Pos(), "call "+cf.Name())
					}
				case viaSender && an.ObjOf(info, a) == base:
					if h.derefs(cf, i, true) {
						add(x.Pos(), "call "+cf.Name())
					}
				}
			}
		}
		return true
	})
	return
}

// c18GapShortCircuit: pos lies in the right operand of an && / || inside root
// whose left operand, having let evaluation continue, implies want
// ( x == nil || f(x.a) ,  x != nil && x.a ).  go/cfg keeps a whole condition in
// one vertex, so this part of the guard is decided on the expression.
func c18GapShortCircuit(info *types.Info, root ast.Node, pos token.Pos, at an.Atomizer, want map[string]bool) bool {
	found := false
	ast.Inspect(root, func(n ast.Node) bool {
		if n == nil || found || !(n.Pos() <= pos && pos < n.End()) {
			return false
		}
		if _, isLit := n.(*ast.FuncLit); isLit {
			return false
		}
		if be, ok := n.(*ast.BinaryExpr); ok && (be.Op == token.LAND || be.Op == token.LOR) {
			if be.Y.Pos() <= pos && pos < be.Y.End() && an.CondImplies(info, be.X, be.Op == token.LAND, at, want) {
				found = true
			}
		}
		return true
	})
	return found
}

// derefs: does cf dereference its idx-th parameter (or that parameter's
// Sender) on some path without testing it for nil?
func (h *c18GapNil) derefs(cf *an.Func, idx int, viaSender bool) bool {
	key := cf.Name() + "|" + itoa(idx) + map[bool]string{true: "|S", false: ""}[viaSender]
	switch h.memoP[key] {
	case 1:
		return true
	case 2:
		return false
	}
	if h.depth > 4 {
		return false
	}
	po := cf.ParamObj(idx)
	if po == nil {
		return false
	}
	if viaSender && c18Named(po.Type()) != h.status {
		return false
	}
	if _, isPtr := po.Type().Underlying().(*types.Pointer); !isPtr {
		return false
	}
	h.memoP[key] = 2 // recursion guard
	h.depth++
	un, _ := h.sites(cf, po, viaSender)
	h.depth--
	if len(un) > 0 {
		h.memoP[key] = 1
		return true
	}
	return false
}

func c18GapNilSender(c *rep.Ctx) {
	const rule = "nil-sender"
	p := c.Prog
	h := &c18GapNil{c: c, p: p, memoP: map[string]int{}}
	h.status, _ = p.LookupObj("types", "Status").(*types.TypeName)
	h.sender = p.LookupField("types", "Status", "Sender")
	if h.status == nil || h.sender == nil {
		c.Undecide(rule, "types.Status.Sender", "status message type or its Sender field not found")
		return
	}
	if _, isPtr := h.sender.Type().Underlying().(*types.Pointer); !isPtr {
		c.Undecide(rule, "types.Status.Sender", "the Sender field is not a pointer any more")
		return
	}
	n := 0
	for _, f := range p.Funcs() {
		rel := an.Rel(f.Pkg.PkgPath)
		if f.Body == nil || f.Decl == nil || (rel != "p2p/v030" && rel != "p2p/v200" && rel != "p2p") {
			continue
		}
		info := f.Info()
		// status values of this function: parameters and locals of type *types.Status
		// that are not built here with a composite literal carrying a Sender
		bases := map[types.Object]bool{}
		ast.Inspect(f.Body, func(m ast.Node) bool {
			sel, ok := m.(*ast.SelectorExpr)
			if !ok || an.FieldOf(info, sel) != h.sender {
				return true
			}
			if o := an.ObjOf(info, sel.X); o != nil && c18Named(o.Type()) == h.status {
				bases[o] = true
			}
			return true
		})
		for i := 0; i < c18GapNumParams(f); i++ {
			if po := f.ParamObj(i); po != nil && c18Named(po.Type()) == h.status {
				bases[po] = true
			}
		}
		var bs []types.Object
		for b := range bases {
			bs = append(bs, b)
		}
		sort.Slice(bs, func(i, j int) bool { return bs[i].Pos() < bs[j].Pos() })
		for _, b := range bs {
			un, gd := h.sites(f, b, true)
			for _, d := range gd {
				n++
				c.Check(rule, f.Name()+"|"+d.what, d.pos, true, "the Sender of a status message received from the peer is dereferenced only where it is known to be non-nil")
			}
			for _, d := range un {
				n++
				c.Check(rule, f.Name()+"|"+d.what, d.pos, false, "the Sender of a status message received from the peer is dereferenced ("+d.what+") on a path without a non-nil test: a status without sender makes the handshake goroutine panic (nothing recovers there, the node stops)")
			}
			if len(un)+len(gd) > 0 {
				c.Fns[f.Name()] = true
			}
		}
	}
	if n < 6 {
		c.Undecide(rule, "p2p handshakers", "fewer dereferences of Status.Sender found than on the reference tree")
	}
	c.Floor(rule, 6)
}

// ---------------------------------------------------------------------------
// hs-identity-source, hs-switch-closed

func c18GapIsHandshakerType(t types.Type) bool {
	if _, isPtr := t.(*types.Pointer); !isPtr {
		return false
	}
	ms := types.NewMethodSet(t)
	return ms.Lookup(nil, "DoForInbound") != nil && ms.Lookup(nil, "DoForOutbound") != nil
}

func c18GapRoleOfType(t types.Type) string {
	switch {
	case c18IsPeerID(t):
		return "peer-id"
	}
	if sl, ok := t.Underlying().(*types.Slice); ok {
		if b, ok := sl.Elem().Underlying().(*types.Basic); ok && b.Kind() == types.Byte {
			return "genesis"
		}
	}
	return ""
}

// c18GapParamRole: which identity field of the handshaker the idx-th parameter
// of constructor cf ends up in ("" = none).
func c18GapParamRole(p *an.Prog, cf *an.Func, idx int, depth int) string {
	po := cf.ParamObj(idx)
	if po == nil || cf.Body == nil || depth > 3 {
		return ""
	}
	info := cf.Info()
	role := ""
	ast.Inspect(cf.Body, func(n ast.Node) bool {
		switch x := n.(type) {
		case *ast.CompositeLit:
			st, _ := info.TypeOf(x).Underlying().(*types.Struct)
			if st == nil {
				return true
			}
			for i, el := range x.Elts {
				var fv *types.Var
				val := el
				if kv, ok := el.(*ast.KeyValueExpr); ok {
					val = kv.Value
					if id, ok := kv.Key.(*ast.Ident); ok {
						fv, _ = info.Uses[id].(*types.Var)
					}
				} else if i < st.NumFields() {
					fv = st.Field(i)
				}
				if fv != nil && an.ObjOf(info, val) == po {
					if r := c18GapRoleOfType(fv.Type()); r != "" {
						role = r
					}
				}
			}
		case *ast.AssignStmt:
			for i, l := range x.Lhs {
				if i < len(x.Rhs) && an.ObjOf(info, x.Rhs[i]) == po {
					if fv := an.FieldOf(info, l); fv != nil {
						if r := c18GapRoleOfType(fv.Type()); r != "" {
							role = r
						}
					}
				}
			}
		case *ast.CallExpr:
			inner := p.FuncOf(an.Callee(info, x))
			if inner == nil || inner == cf || inner.Obj == nil {
				return true
			}
			sig := inner.Obj.Type().(*types.Signature)
			if sig.Recv() != nil || sig.Results().Len() != 1 || !c18GapIsHandshakerType(sig.Results().At(0).Type()) {
				return true
			}
			for i, a := range x.Args {
				if an.ObjOf(info, a) == po {
					if r := c18GapParamRole(p, inner, i, depth+1); r != "" {
						role = r
					}
				}
			}
		}
		return true
	})
	return role
}

func c18GapVersionManagers(p *an.Prog) []*an.Func {
	var out []*an.Func
	for _, f := range p.Funcs() {
		if f.Obj != nil && f.Obj.Name() == "GetVersionedHandshaker" && f.Body != nil && c18InScope(an.Rel(f.Pkg.PkgPath)) {
			out = append(out, f)
		}
	}
	return out
}

func c18GapIdentitySource(c *rep.Ctx) {
	const rule = "hs-identity-source"
	p := c.Prog
	genesisVar := p.LookupObj("chain", "Genesis")
	if genesisVar == nil {
		c.Undecide(rule, "chain.Genesis", "the local genesis variable was not found")
		return
	}
	vms := c18GapVersionManagers(p)
	if len(vms) == 0 {
		c.Undecide(rule, "GetVersionedHandshaker", "no version manager found")
		return
	}
	n := 0
	for _, vm := range vms {
		info := vm.Info()
		g := vm.Graph()
		var pidParam types.Object
		for i := 0; i < c18GapNumParams(vm); i++ {
			if vm.ParamObj(i) != nil && c18IsPeerID(vm.ParamObj(i).Type()) {
				pidParam = vm.ParamObj(i)
			}
		}
		ast.Inspect(vm.Body, func(m ast.Node) bool {
			call, ok := m.(*ast.CallExpr)
			if !ok {
				return true
			}
			cf := p.FuncOf(an.Callee(info, call))
			if cf == nil || cf.Obj == nil {
				return true
			}
			sig := cf.Obj.Type().(*types.Signature)
			if sig.Recv() != nil || sig.Results().Len() != 1 || !c18GapIsHandshakerType(sig.Results().At(0).Type()) {
				return true
			}
			for i, a := range call.Args {
				role := c18GapParamRole(p, cf, i, 0)
				if role == "" {
					continue
				}
				n++
				e := c18GapResolve(g, a)
				key := vm.Name() + "|" + cf.Name() + "|" + role
				switch role {
				case "genesis":
					mentions := c18GapMentionsDeep(g, e, genesisVar, 0)
					isDigest := false
					switch x := ast.Unparen(e).(type) {
					case *ast.SelectorExpr:
						isDigest = x.Sel.Name == "Hash"
					case *ast.CallExpr:
						if sel, ok := ast.Unparen(x.Fun).(*ast.SelectorExpr); ok {
							isDigest = sel.Sel.Name == "BlockHash" || sel.Sel.Name == "GetHash"
						}
					}
					if !mentions && c18GapOpaque(info, e) {
						c.Undecide(rule, key, "the genesis argument is neither derived from chain.Genesis nor a plain value: "+an.ExprString(a))
						continue
					}
					c.Check(rule, key, a.Pos(), mentions && isDigest, "the handshaker compares the peer's genesis hash with the hash of this node's genesis block (chain.Genesis.Block()): the version manager passes exactly that value")
				case "peer-id":
					c.Check(rule, key, a.Pos(), pidParam != nil && an.ObjOf(info, e) == pidParam, "the handshaker compares the peer id in the status with the peer id the version manager was called with (the identity of the connection)")
				}
			}
			return true
		})
	}
	// ---- the wire handshakers hand over the peer id they were constructed with
	for _, cs := range p.CallSitesOf(map[string]bool{"p2p/p2pcommon.(VersionedManager).GetVersionedHandshaker": true}) {
		if cs.Fn == nil || cs.Call == nil || !c18InScope(an.Rel(cs.Fn.Pkg.PkgPath)) || len(cs.Call.Args) < 2 {
			continue
		}
		info := cs.Fn.Info()
		top := cs.Fn.TopDecl()
		var recv types.Object
		if top.Decl != nil && top.Decl.Recv != nil && len(top.Decl.Recv.List) == 1 && len(top.Decl.Recv.List[0].Names) == 1 {
			recv = info.Defs[top.Decl.Recv.List[0].Names[0]]
		}
		for _, a := range cs.Call.Args {
			if t := info.TypeOf(a); t == nil || !c18IsPeerID(t) {
				continue
			}
			n++
			key := top.Name() + "|peer-id"
			fv := an.FieldOf(info, a)
			base := ast.Unparen(a)
			for {
				if s2, ok := base.(*ast.SelectorExpr); ok {
					base = ast.Unparen(s2.X)
					continue
				}
				break
			}
			if fv == nil || recv == nil || an.ObjOf(info, base) != recv {
				c.Check(rule, key, a.Pos(), false, "the versioned handshaker is created with a peer id that is not the wire handshaker's own peer id field: "+an.ExprString(a))
				continue
			}
			// every write of that field is a constructor literal fed by a constructor parameter
			okW, nW := true, 0
			for _, w := range p.FieldWrites(map[*types.Var]bool{fv: true}) {
				nW++
				if w.Fn == nil || w.How != "literal" {
					okW = false
					continue
				}
				td := w.Fn.TopDecl()
				if td.Decl == nil || td.Decl.Recv != nil {
					okW = false
					continue
				}
				winfo := td.Info()
				fromParam := false
				ast.Inspect(td.Body, func(m ast.Node) bool {
					kv, ok := m.(*ast.KeyValueExpr)
					if !ok {
						return true
					}
					if id, ok := kv.Key.(*ast.Ident); ok && winfo.Uses[id] == fv {
						for i := 0; i < c18GapNumParams(td); i++ {
							if td.ParamObj(i) != nil && an.ObjOf(winfo, kv.Value) == td.ParamObj(i) {
								fromParam = true
							}
						}
					}
					return true
				})
				if !fromParam {
					okW = false
				}
			}
			c.Check(rule, key, a.Pos(), okW && nW > 0, "the versioned handshaker is created with the wire handshaker's peer id field, which is set only by the constructor from its parameter (the peer id of the connection handed in by the peer manager)")
		}
	}
	if n < 8 {
		c.Undecide(rule, "version manager", "fewer identity arguments found than on the reference tree")
	}
	c.Floor(rule, 8)
}

// c18GapMentionsDeep: e mentions obj, directly or through once-defined locals.
func c18GapMentionsDeep(g *an.Graph, e ast.Expr, obj types.Object, depth int) bool {
	info := g.Fn.Info()
	if c18Mentions(info, e, obj) {
		return true
	}
	if depth > 3 {
		return false
	}
	found := false
	ast.Inspect(e, func(n ast.Node) bool {
		id, ok := n.(*ast.Ident)
		if !ok || found {
			return !found
		}
		if v, isVar := info.Uses[id].(*types.Var); isVar && !v.IsField() && v.Pkg() != nil && v.Parent() != v.Pkg().Scope() {
			if rhs, idx := g.SingleDef(v); rhs != nil && idx == 0 && c18GapMentionsDeep(g, rhs, obj, depth+1) {
				found = true
			}
		}
		return !found
	})
	return found
}

// c18GapOpaque: e is a field selection or a call, i.e. a value whose origin this rule does not trace.
func c18GapOpaque(info *types.Info, e ast.Expr) bool {
	switch x := ast.Unparen(e).(type) {
	case *ast.SelectorExpr:
		return an.FieldOf(info, x) != nil
	case *ast.CallExpr:
		if tv, ok := info.Types[x.Fun]; ok && tv.IsType() {
			return false
		}
		return true
	}
	return false
}

func c18GapSwitchClosed(c *rep.Ctx) {
	const rule = "hs-switch-closed"
	p := c.Prog
	inb, _ := c18VarInitElems(p, "p2p/p2pcommon", "AcceptedInboundVersions")
	outb, _ := c18VarInitElems(p, "p2p/p2pcommon", "AttemptingOutboundVersions")
	if len(inb) == 0 || len(outb) == 0 {
		c.Undecide(rule, "p2p/p2pcommon", "version lists not found")
		return
	}
	in := func(l []types.Object, o types.Object) bool {
		for _, x := range l {
			if x == o {
				return true
			}
		}
		return false
	}
	n := 0
	for _, vm := range c18GapVersionManagers(p) {
		info := vm.Info()
		ast.Inspect(vm.Body, func(m ast.Node) bool {
			sw, ok := m.(*ast.SwitchStmt)
			if !ok || sw.Tag == nil {
				return true
			}
			if _, isVar := an.ObjOf(info, sw.Tag).(*types.Var); !isVar {
				return true
			}
			for _, st := range sw.Body.List {
				cc := st.(*ast.CaseClause)
				builds := false
				for _, s := range cc.Body {
					ast.Inspect(s, func(x ast.Node) bool {
						if rs, ok := x.(*ast.ReturnStmt); ok && len(rs.Results) > 0 {
							if tv, has := info.Types[rs.Results[0]]; has && !tv.IsNil() {
								builds = true
							}
						}
						return true
					})
				}
				if !builds {
					continue
				}
				if cc.List == nil {
					n++
					c.Check(rule, vm.Name()+"|default", cc.Pos(), false, "the default arm of the version switch constructs a handshaker: any version number a peer answers with is accepted")
					continue
				}
				for _, e := range cc.List {
					var o types.Object
					switch x := ast.Unparen(e).(type) {
					case *ast.Ident:
						o = info.Uses[x]
					case *ast.SelectorExpr:
						o = info.Uses[x.Sel]
					}
					if o == nil {
						c.Undecide(rule, vm.Name(), "case expression that is not a named version constant")
						continue
					}
					n++
					c.Check(rule, vm.Name()+"|"+o.Name(), e.Pos(), in(inb, o) && in(outb, o), "a handshaker is constructed only for versions enumerated in AcceptedInboundVersions and AttemptingOutboundVersions (the outbound side takes the version from the peer's answer without looking it up in the list, and the per-version handshake rules enumerate the lists)")
				}
			}
			return false
		})
	}
	if n < 4 {
		c.Undecide(rule, "GetVersionedHandshaker", "fewer version cases than on the reference tree")
	}
	c.Floor(rule, 4)
}

// ---------------------------------------------------------------------------
// errcache-gate, errcache-transient

// c18GapTransient: callees whose failure depends on the node's momentary
// state, not on the block (table rows with the reason).
var c18GapTransient = map[string]string{
	"chain.(*OrphanPool).addOrphan": "the orphan pool refuses a block when it is full or already holds it",
}

func c18GapErrCache(c *rep.Ctx) {
	p := c.Prog
	choke := c.Fn("chain.(*ChainService).addBlock")
	internal := c.Fn("chain.(*ChainService).addBlockInternal")
	errBlocks := p.LookupField("chain", "ChainService", "errBlocks")
	if choke == nil || internal == nil {
		return
	}
	if errBlocks == nil {
		c.Undecide("errcache-gate", "chain.ChainService.errBlocks", "bad-block cache field not found")
		return
	}
	// ---- errcache-gate
	g := choke.Graph()
	info := choke.Info()
	var adds []an.Site
	var inner []an.Site
	for _, s := range g.Calls(nil) {
		if sel, ok := ast.Unparen(s.Call.Fun).(*ast.SelectorExpr); ok && an.FieldOf(info, sel.X) == errBlocks {
			switch sel.Sel.Name {
			case "Add", "ContainsOrAdd", "PeekOrAdd":
				adds = append(adds, s)
			}
		}
		if s.Fn != nil && p.FuncOf(s.Fn) == internal {
			inner = append(inner, s)
		}
	}
	if len(adds) == 0 || len(inner) != 1 {
		c.Undecide("errcache-gate", choke.Name(), "expected one call of addBlockInternal and the Add on the bad-block cache")
	} else {
		site := inner[0]
		flag := g.BoolEdges(site, true)
		errVar := g.ResultVarAt(site, 0)
		for _, a := range adds {
			c.Check("errcache-gate", choke.Name()+"|flag", a.Call.Pos(), len(flag) > 0 && g.Dominated(a.Node, flag), "a block is put into the bad-block cache only when addBlockInternal marked its failure as cacheable (transient failures — stale best block, orphan, wrong moment — must leave the block acceptable later)")
			failed := false
			if errVar != nil {
				clean := true
				for m := range g.Between(site.Node, a.Node) {
					if m.Kind == an.KStmt && m != site.Node && an.Assigns(info, m.Ast, errVar) {
						clean = false
					}
				}
				ok, _ := g.GuardedAt(a.Node, an.NilAtom(info, errVar), map[string]bool{"nil": false})
				failed = ok && clean
			}
			c.Check("errcache-gate", choke.Name()+"|failed", a.Call.Pos(), failed, "a block is put into the bad-block cache only when addBlockInternal returned an error for it")
		}
	}
	c.Floor("errcache-gate", 2)

	// ---- errcache-transient
	cgraph := p.BuildCallGraphCached()
	seeds := map[*an.Func]bool{}
	for name := range c18GapTransient {
		if f := c.Fn(name); f != nil {
			seeds[f] = true
		}
	}
	transient := cgraph.MayReach(seeds, nil)
	ig := internal.Graph()
	iinfo := internal.Info()
	best := map[types.Object]bool{}
	for _, s := range ig.Calls(func(fn *types.Func, _ *ast.CallExpr) bool {
		return fn != nil && (fn.Name() == "GetBestBlock" || fn.Name() == "getBestBlock")
	}) {
		if o := ig.ResultVarAt(s, 0); o != nil {
			best[o] = true
		}
	}
	if len(best) == 0 {
		c.Undecide("errcache-transient", internal.Name(), "the best block is not read in addBlockInternal any more")
	}
	mentionsBest := func(e ast.Node) bool {
		for o := range best {
			if c18Mentions(iinfo, e, o) {
				return true
			}
		}
		return false
	}
	n := 0
	for _, r := range ig.Returns() {
		rs := r.Ast.(*ast.ReturnStmt)
		if len(rs.Results) != 2 {
			continue
		}
		tv, ok := iinfo.Types[rs.Results[1]]
		if !ok || tv.Value == nil || tv.Value.ExactString() != "true" {
			continue
		}
		if tv0, ok := iinfo.Types[rs.Results[0]]; ok && tv0.IsNil() {
			continue
		}
		obj := an.ObjOf(iinfo, rs.Results[0])
		if obj == nil {
			// decided by errcache-scope (reported undecided there); an error built in place:
			// look at the branch conditions that lead here
			continue
		}
		for _, s := range ig.Calls(nil) {
			idx := 0
			if tup, ok := iinfo.TypeOf(s.Call).(*types.Tuple); ok {
				idx = tup.Len() - 1
			}
			if ig.ResultVarAt(s, idx) != obj || !ig.Reachable(s.Node, r) {
				continue
			}
			clean := true
			for m := range ig.Between(s.Node, r) {
				if m.Kind == an.KStmt && m != s.Node && an.Assigns(iinfo, m.Ast, obj) {
					clean = false
				}
			}
			if !clean {
				continue
			}
			n++
			name := "?"
			why := ""
			if s.Fn != nil {
				name = an.FuncName(s.Fn)
				if cf := p.FuncOf(s.Fn); cf != nil && transient[cf] {
					var via []string
					for k := range c18GapTransient {
						via = append(via, k)
					}
					sort.Strings(via)
					why = "it can fail because of the node's momentary state (" + strings.Join(via, ", ") + " reachable)"
				}
			} else if v := an.CalleeVar(iinfo, s.Call); v != nil {
				name = "chain.chainProcessor." + v.Name()
			}
			for _, a := range s.Call.Args {
				if mentionsBest(a) {
					why = "its outcome depends on the current best block (" + an.ExprString(a) + ")"
				}
			}
			msgText := "the cached failure of " + name + " depends neither on the current best block nor on the orphan pool"
			if why != "" {
				msgText = "a failure of " + name + " is marked cacheable although " + why + ": the genuine block stays refused after the condition has passed"
			}
			c.Check("errcache-transient", internal.Name()+"|"+name, rs.Pos(), why == "", msgText)
		}
	}
	if n < 2 {
		c.Undecide("errcache-transient", internal.Name(), "expected at least 2 cached error returns")
	}
	c.Floor("errcache-transient", 2)
}

// ---------------------------------------------------------------------------
// dispatch-recover, dispatch-gate

func c18GapDispatch(c *rep.Ctx) {
	f := c.Fn("p2p.(*remotePeerImpl).handleMsg")
	if f == nil {
		return
	}
	g := f.Graph()
	info := f.Info()
	sites := map[string][]an.Site{}
	for _, s := range g.Calls(func(fn *types.Func, _ *ast.CallExpr) bool {
		return fn != nil && strings.HasPrefix(an.FuncName(fn), "p2p/p2pcommon.(MessageHandler).")
	}) {
		sites[s.Fn.Name()] = append(sites[s.Fn.Name()], s)
	}
	if len(sites["Handle"]) != 1 || len(sites["ParsePayload"]) != 1 || len(sites["CheckAuth"]) != 1 {
		c.Undecide("dispatch-gate", f.Name(), "expected one call each of MessageHandler.ParsePayload, CheckAuth and Handle")
		return
	}
	// deferred literals that call recover() themselves
	rec := an.Set{}
	for _, n := range g.Nodes {
		ds, ok := n.Ast.(*ast.DeferStmt)
		if n.Kind != an.KStmt || !ok {
			continue
		}
		// the deferred function itself must call recover(): a literal, or a declared
		// function / method of the module
		var body *ast.BlockStmt
		binfo := info
		if lit, ok := ast.Unparen(ds.Call.Fun).(*ast.FuncLit); ok {
			body = lit.Body
		} else if df := c.Prog.FuncOf(an.Callee(info, ds.Call)); df != nil && df.Body != nil {
			body, binfo = df.Body, df.Info()
		}
		if body == nil {
			continue
		}
		calls := false
		an.InspectShallow(body, func(m ast.Node) bool {
			if call, ok := m.(*ast.CallExpr); ok && an.IsBuiltin(binfo, call, "recover") {
				calls = true
			}
			return true
		})
		if calls {
			rec[n] = true
		}
	}
	for _, name := range []string{"ParsePayload", "CheckAuth", "Handle"} {
		s := sites[name][0]
		c.Check("dispatch-recover", f.Name()+"|"+name, s.Call.Pos(), len(rec) > 0 && g.Dominated(s.Node, rec), "MessageHandler."+name+" runs on bytes chosen by the peer (type assertions, Must* parsers): it is called only after a `defer func(){ recover() }()` was installed, so a panic costs the connection, not the node")
	}
	h := sites["Handle"][0]
	pp := sites["ParsePayload"][0]
	ca := sites["CheckAuth"][0]
	c.Check("dispatch-gate", f.Name()+"|parsed", h.Call.Pos(), g.Dominated(h.Node, g.ErrNilEdges(pp)), "a message is handled only when its payload was decoded without error")
	c.Check("dispatch-gate", f.Name()+"|authenticated", h.Call.Pos(), g.Dominated(h.Node, g.ErrNilEdges(ca)), "a message is handled only when CheckAuth accepted it")
	body := g.ResultVarAt(pp, 0)
	same := body != nil && len(h.Call.Args) == 2 && an.ObjOf(info, h.Call.Args[1]) == body && len(ca.Call.Args) == 2 && an.ObjOf(info, ca.Call.Args[1]) == body
	c.Check("dispatch-gate", f.Name()+"|body", h.Call.Pos(), same, "the body handed to CheckAuth and Handle is the one ParsePayload returned for this message")
	c.Floor("dispatch-recover", 3)
	c.Floor("dispatch-gate", 3)
}

// ---------------------------------------------------------------------------
// loop-bound

func c18GapLoopBound(c *rep.Ctx) {
	const rule = "loop-bound"
	a := c18NewAn(c)
	if len(a.scope) < 8 {
		c.Undecide(rule, "scope", "fewer than 8 p2p packages loaded")
		return
	}
	for i := 0; i < 12 && a.pass(); i++ {
	}
	n := 0
	for _, f := range a.funcs {
		info := f.Info()
		var loops []*ast.ForStmt
		an.InspectShallow(f.Body, func(m ast.Node) bool {
			if fs, ok := m.(*ast.ForStmt); ok && fs.Cond != nil {
				loops = append(loops, fs)
			}
			return true
		})
		if len(loops) == 0 {
			continue
		}
		for _, fs := range loops {
			be, ok := ast.Unparen(fs.Cond).(*ast.BinaryExpr)
			if !ok {
				continue
			}
			var counter, bound ast.Expr
			switch be.Op {
			case token.LSS, token.LEQ:
				counter, bound = be.X, be.Y
			case token.GTR, token.GEQ:
				counter, bound = be.Y, be.X
			default:
				continue
			}
			cv := an.ObjOf(info, c18StripConv(info, counter))
			if cv == nil {
				continue
			}
			// the counter counts upwards inside the loop
			up := false
			chk := func(m ast.Node) bool {
				switch s := m.(type) {
				case *ast.IncDecStmt:
					if s.Tok == token.INC && an.ObjOf(info, s.X) == cv {
						up = true
					}
				case *ast.AssignStmt:
					if s.Tok == token.ADD_ASSIGN && len(s.Lhs) == 1 && an.ObjOf(info, s.Lhs[0]) == cv {
						up = true
					}
				}
				return true
			}
			if fs.Post != nil {
				ast.Inspect(fs.Post, chk)
			}
			an.InspectShallow(fs.Body, chk)
			if !up {
				continue
			}
			d := a.dep(info, bound)
			if !d.wire {
				continue
			}
			n++
			g := f.Graph()
			target := g.NodeContaining(fs.Cond.Pos())
			key := f.Name() + "|" + cv.Name()
			if target == nil {
				c.Undecide(rule, key, "cannot locate the loop condition in the control-flow graph")
				continue
			}
			good := an.Set{}
			for _, b := range a.boundingEdges(f, d) {
				if b.edge.Cond == target {
					continue // the loop's own condition bounds nothing
				}
				if q := a.limitQuality(f, b.limit, 0, nil); q == "" {
					good[b.edge] = true
					// clamp idiom  if x > L { x = L }: on the other edge the variable is
					// overwritten with a value that does not come from the wire
					if b.el.fld == nil && b.el.obj != nil {
						for _, m := range g.Nodes {
							as, isAs := m.Ast.(*ast.AssignStmt)
							if m.Kind != an.KStmt || !isAs || as.Tok != token.ASSIGN || len(as.Lhs) != 1 || len(as.Rhs) != 1 {
								continue
							}
							if an.ObjOf(info, as.Lhs[0]) == b.el.obj && !a.dep(info, as.Rhs[0]).wire && g.Dominated(m, an.SetOf(b.edge.Cond)) {
								good[m] = true
							}
						}
					}
				}
			}
			c.Fns[f.TopDecl().Name()] = true
			c.Check(rule, key, fs.Cond.Pos(), len(good) > 0 && g.Dominated(target, good), "a loop that counts up to a value decoded from the wire ("+d.srcList()+") runs only behind an upper-bound comparison of that value with a configured limit (otherwise the peer chooses how long this node works and how much it appends)")
		}
	}
	if n < 1 {
		c.Undecide(rule, "p2p", "expected the version loop of the wire handshake")
	}
	c.Floor(rule, 1)
}
