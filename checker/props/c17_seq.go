package props

import (
	"go/ast"
	"go/token"
	"go/types"
	"sort"

	"verif/checker/internal/an"
	"verif/checker/internal/rep"
)

// c17SeqWriters: who may write Syncer.Seq.
var c17SeqWriters = map[string]string{
	"syncer.NewSyncer":        "initial sequence (1) of a fresh syncer",
	"syncer.(*Syncer).IncSeq": "the increment (checked to be ++ and called by handleSyncStart only)",
}

// c17NoSeqNeeded: Seq-carrying message literals that legitimately leave Seq unset (none today).
var c17NoSeqNeeded = map[string]string{}

// c17SeqTypes: named struct types of types/message with a field `Seq`.
func c17SeqTypes(p *an.Prog) map[string]*types.Var {
	out := map[string]*types.Var{}
	pk := p.Pkg(c17Msg)
	if pk == nil || pk.Types == nil {
		return out
	}
	sc := pk.Types.Scope()
	for _, n := range sc.Names() {
		tn, ok := sc.Lookup(n).(*types.TypeName)
		if !ok {
			continue
		}
		nt, ok := tn.Type().(*types.Named)
		if !ok {
			continue
		}
		if f := c17StructField(nt, "Seq"); f != nil {
			out[c17Msg+"."+n] = f
		}
	}
	return out
}

func c17Seq(c *rep.Ctx) {
	p := c.Prog
	seqTypes := c17SeqTypes(p)
	if len(seqTypes) < 10 {
		c.Undecide("anchor", "types/message.*{Seq}", "fewer Seq-carrying message types than on the reference tree (14)")
		return
	}
	verify := c.Fn("syncer.(*Syncer).verifySeq")
	handle := c.Fn("syncer.(*Syncer).handleMessage")
	recv := c.Fn("syncer.(*Syncer).Receive")
	start := c.Fn("syncer.(*Syncer).handleSyncStart")
	syncerSeq := p.LookupField("syncer", "Syncer", "Seq")
	isRunning := p.LookupField("syncer", "Syncer", "isRunning")
	if verify == nil || handle == nil || recv == nil || start == nil || syncerSeq == nil || isRunning == nil {
		if syncerSeq == nil || isRunning == nil {
			c.Undecide("anchor", "syncer.Syncer.{Seq,isRunning}", "field not found")
		}
		return
	}

	// ---- the two tables
	hts := c17TypeSwitches(handle)
	vts := c17TypeSwitches(verify)
	if len(hts) != 1 || len(vts) != 1 {
		c.Undecide("seq-table", "syncer.(*Syncer).{handleMessage,verifySeq}", "expected exactly one type switch in each")
		return
	}
	hClauses, _ := c17Clauses(handle.Info(), hts[0])
	vClauses, vDefault := c17Clauses(verify.Info(), vts[0])
	vBy := map[string]c17Clause{}
	for _, cl := range vClauses {
		vBy[cl.Key] = cl
	}
	var handledSeq []string
	for _, cl := range hClauses {
		if _, has := seqTypes[cl.Key]; has {
			handledSeq = append(handledSeq, cl.Key)
			_, inV := vBy[cl.Key]
			c.Check("seq-table", "verifySeq|"+c17Short(cl.Key), cl.Clause.Pos(), inV, "a message type that handleMessage processes and that carries a session sequence (field Seq) has its own arm in verifySeq: a stale message of an earlier session is recognised")
		}
	}
	sort.Strings(handledSeq)
	c.Floor("seq-table", 7)

	// ---- what an arm of verifySeq does
	vinfo := verify.Info()
	isSession := func(x ast.Expr) bool {
		x = ast.Unparen(x)
		if an.FieldOf(vinfo, x) == syncerSeq {
			return true
		}
		if call, ok := x.(*ast.CallExpr); ok && an.CalleeName(vinfo, call) == "syncer.(*Syncer).GetSeq" {
			return true
		}
		return false
	}
	// the result variable
	var resVar types.Object
	resOK := true
	an.InspectShallow(verify.Body, func(x ast.Node) bool {
		rs, ok := x.(*ast.ReturnStmt)
		if !ok {
			return true
		}
		if len(rs.Results) != 1 {
			resOK = false
			return true
		}
		o := an.ObjOf(vinfo, rs.Results[0])
		if o == nil || (resVar != nil && o != resVar) {
			resOK = false
		}
		resVar = o
		return true
	})
	if !resOK || resVar == nil {
		c.Undecide("seq-verified", verify.Name(), "verifySeq does not return one local result variable: unrecognised shape")
	} else {
		// assignments of the result variable: per clause
		type asg struct {
			rhs ast.Expr
			pos token.Pos
		}
		var all []asg
		an.InspectShallow(verify.Body, func(x ast.Node) bool {
			switch s := x.(type) {
			case *ast.AssignStmt:
				for i, l := range s.Lhs {
					if an.ObjOf(vinfo, l) == resVar && len(s.Lhs) == len(s.Rhs) {
						all = append(all, asg{s.Rhs[i], s.Pos()})
					}
				}
			case *ast.ValueSpec:
				for i, nm := range s.Names {
					if vinfo.Defs[nm] == resVar && len(s.Values) == len(s.Names) {
						all = append(all, asg{s.Values[i], s.Pos()})
					}
				}
			}
			return true
		})
		// a comparison `session seq == <x>`; returns x
		cmpArg := func(e ast.Expr) ast.Expr {
			be, ok := ast.Unparen(e).(*ast.BinaryExpr)
			if !ok || be.Op != token.EQL {
				return nil
			}
			if isSession(be.X) {
				return be.Y
			}
			if isSession(be.Y) {
				return be.X
			}
			return nil
		}
		for _, cl := range vClauses {
			seqFld, has := seqTypes[cl.Key]
			if !has {
				continue
			}
			vg := verify.Graph()
			seqAt := c17Anywhere(c17FieldPred(vinfo, seqFld))
			var curPos token.Pos
			fromMsg := func(x ast.Node) bool { return c17DerivesAt(vg, vg.NodeContaining(curPos), x, seqAt, 3) }
			n, good := 0, 0
			why := "the arm does not set the result"
			for _, a := range all {
				if !c17In(cl.Clause, a.pos) {
					continue
				}
				n++
				curPos = a.pos
				if arg := cmpArg(a.rhs); arg != nil {
					if fromMsg(arg) {
						good++
					} else {
						why = "the value compared with the session sequence is not this message's Seq"
					}
					continue
				}
				if call, ok := ast.Unparen(a.rhs).(*ast.CallExpr); ok && len(call.Args) == 1 {
					if lf := c17LitOfVar(p, verify, call); lf != nil && lf.Type.Params != nil && len(lf.Type.Params.List) == 1 && len(lf.Type.Params.List[0].Names) == 1 {
						par := vinfo.Defs[lf.Type.Params.List[0].Names[0]]
						litOK := true
						nr := 0
						an.InspectShallow(lf.Body, func(y ast.Node) bool {
							if rs, ok := y.(*ast.ReturnStmt); ok {
								nr++
								if len(rs.Results) != 1 {
									litOK = false
									return true
								}
								arg := cmpArg(rs.Results[0])
								if arg == nil || an.ObjOf(vinfo, arg) != par {
									litOK = false
								}
							}
							return true
						})
						if litOK && nr > 0 {
							if fromMsg(call.Args[0]) {
								good++
							} else {
								why = "the value passed to the comparison is not this message's Seq"
							}
							continue
						}
					}
				}
				why = "the result is set to something else than `session sequence == msg.Seq` (" + an.ExprString(a.rhs) + ")"
			}
			ok := n > 0 && good == n && !cl.Multi
			msg := "the verifySeq arm sets the verdict to `syncer.Seq == msg.Seq` for this message type and to nothing else"
			if !ok {
				msg += ": " + why
			}
			c.Check("seq-verified", "verifySeq|"+c17Short(cl.Key), cl.Clause.Pos(), ok, msg)
		}
		// no assignment of the verdict after the switch, none in the default arm but acceptance
		for _, a := range all {
			if c17In(vts[0], a.pos) && !c17In(vDefault, a.pos) {
				continue
			}
			if a.pos < vts[0].Pos() {
				continue // initial value before the switch; every arm overwrites it (checked per arm for Seq types)
			}
			if c17In(vDefault, a.pos) {
				continue // messages without a sequence are accepted
			}
			c.Check("seq-verified", "verifySeq|after-switch", a.pos, false, "the verdict of verifySeq is overwritten after the per-type comparison")
		}
		c.Floor("seq-verified", 7)
	}

	// ---- handleMessage checks the sequence before anything else
	hg := handle.Graph()
	hinfo := handle.Info()
	vs := hg.CallsTo(verify.Name())
	if len(vs) != 1 {
		c.Check("seq-first", handle.Name()+"|verifySeq", handle.Pos(), false, "handleMessage does not call verifySeq exactly once")
	} else {
		gates := hg.BoolEdges(vs[0], true)
		subj := c17SwitchSubject(hts[0])
		sameMsg := subj != nil && len(vs[0].Call.Args) == 1 && an.ObjOf(hinfo, subj) != nil && an.ObjOf(hinfo, subj) == an.ObjOf(hinfo, vs[0].Call.Args[0])
		c.Check("seq-first", handle.Name()+"|same-message", vs[0].Call.Pos(), sameMsg, "verifySeq is applied to the very message the type switch dispatches on")
		seen := map[string]bool{}
		for _, s := range hg.Calls(nil) {
			if s.Fn == nil || s.Fn.Pkg() == nil || an.Rel(s.Fn.Pkg().Path()) != "syncer" || s.Node == vs[0].Node {
				continue
			}
			if _, isDefer := s.Node.Ast.(*ast.DeferStmt); isDefer {
				continue // the recover wrapper is installed first
			}
			name := an.FuncName(s.Fn)
			if seen[name] && hg.Dominated(s.Node, gates) {
				continue
			}
			seen[name] = true
			c.Check("seq-first", handle.Name()+"|"+c17Short(name), s.Call.Pos(), len(gates) > 0 && hg.Dominated(s.Node, gates), "every handler of the syncer runs only on paths on which verifySeq(msg) returned true")
		}
		c.Floor("seq-first", 8)
	}

	// ---- Receive: what is dropped while no session is running
	runAt := func(x ast.Expr) (string, bool, bool) {
		if an.FieldOf(recv.Info(), x) == isRunning {
			return "RUN", false, true
		}
		return "", false, false
	}
	dropped := map[string]bool{}
	var dropPos token.Pos
	an.InspectShallow(recv.Body, func(x ast.Node) bool {
		is, ok := x.(*ast.IfStmt)
		if !ok || !an.CondImplies(recv.Info(), is.Cond, true, runAt, map[string]bool{"RUN": false}) {
			return true
		}
		an.InspectShallow(is.Body, func(y ast.Node) bool {
			ts, ok := y.(*ast.TypeSwitchStmt)
			if !ok {
				return true
			}
			cls, _ := c17Clauses(recv.Info(), ts)
			for _, cl := range cls {
				ret := false
				for _, st := range cl.Clause.Body {
					if _, ok := st.(*ast.ReturnStmt); ok {
						ret = true
					}
				}
				if ret {
					dropped[cl.Key] = true
					dropPos = ts.Pos()
				}
			}
			return true
		})
		return true
	})
	if len(dropped) == 0 {
		c.Check("idle-drop", recv.Name(), recv.Pos(), false, "Receive no longer drops session messages while no synchronisation is running")
	} else {
		for _, k := range handledSeq {
			c.Check("idle-drop", recv.Name()+"|"+c17Short(k), dropPos, dropped[k], "a sequence-carrying message that handleMessage would process is dropped by Receive while !isRunning (between two sessions syncer.Seq still equals the last session's sequence, so verifySeq cannot reject its late messages)")
		}
	}
	// the message that starts a session must not be dropped
	startKeys := []string{}
	for _, cl := range hClauses {
		calls := false
		an.InspectShallow(cl.Clause, func(x ast.Node) bool {
			if call, ok := x.(*ast.CallExpr); ok && an.CalleeName(hinfo, call) == start.Name() {
				calls = true
			}
			return true
		})
		if calls {
			startKeys = append(startKeys, cl.Key)
		}
	}
	if len(startKeys) == 0 {
		c.Undecide("idle-drop", handle.Name()+"|start", "no arm of handleMessage calls handleSyncStart")
	}
	for _, k := range startKeys {
		c.Check("idle-drop", recv.Name()+"|start-not-dropped|"+c17Short(k), dropPos, !dropped[k], "the message that starts a synchronisation is not in the idle drop list: a later synchronisation can start")
	}
	c.Floor("idle-drop", 8)

	// ---- sequence ownership and freshness
	for _, w := range p.FieldWrites(map[*types.Var]bool{syncerSeq: true}) {
		fn := c17Top(w.Fn)
		why, ok := c17SeqWriters[fn]
		if ok && fn == "syncer.(*Syncer).IncSeq" {
			ok = w.How == "incdec"
			if n := w.Fn.Graph().NodeContaining(w.Pos); ok && n != nil {
				s, isInc := n.Ast.(*ast.IncDecStmt)
				ok = isInc && s.Tok == token.INC
			}
		}
		msg := "Syncer.Seq is written only by the constructor and by IncSeq (++)"
		if ok {
			msg += ": " + why
		}
		c.Check("seq-owner", fn, w.Pos, ok, msg)
	}
	inc := map[string]bool{"syncer.(*Syncer).IncSeq": true}
	for _, cs := range p.CallSitesOf(inc) {
		c.Check("seq-owner", c17Top(cs.Fn)+"|IncSeq", cs.Call.Pos(), cs.Fn == start, "the session sequence is advanced only by handleSyncStart")
	}
	c.Floor("seq-owner", 3)
	sg := start.Graph()
	sinfo := start.Info()
	incs := sg.CallsTo("syncer.(*Syncer).IncSeq")
	ctxs := sg.CallsTo("types.NewSyncCtx")
	if len(incs) == 0 || len(ctxs) == 0 {
		c.Check("seq-fresh", start.Name(), start.Pos(), false, "handleSyncStart no longer advances the sequence and builds a new sync context")
	} else {
		incSet := an.Set{}
		for _, s := range incs {
			incSet[s.Node] = true
		}
		for _, s := range ctxs {
			arg0 := len(s.Call.Args) > 0 && c17Contains(s.Call.Args[0], func(x ast.Expr) bool {
				if an.FieldOf(sinfo, x) == syncerSeq {
					return true
				}
				call, ok := x.(*ast.CallExpr)
				return ok && an.CalleeName(sinfo, call) == "syncer.(*Syncer).GetSeq"
			})
			c.Check("seq-fresh", start.Name()+"|NewSyncCtx", s.Call.Pos(), arg0 && sg.Dominated(s.Node, incSet), "a new session's context is stamped with Syncer.Seq read after IncSeq on every path: every session has a sequence no earlier message carries")
		}
		for _, w := range p.FieldWrites(map[*types.Var]bool{isRunning: true}) {
			if w.Fn != start {
				continue
			}
			n := sg.NodeContaining(w.Pos)
			c.Check("seq-fresh", start.Name()+"|isRunning", w.Pos, n != nil && sg.Dominated(n, incSet), "the syncer is marked running only after the sequence was advanced")
		}
	}
	// the context keeps the stamp it was given
	ctxSeq := p.LookupField("types", "SyncContext", "Seq")
	for _, w := range p.FieldWrites(map[*types.Var]bool{ctxSeq: true}) {
		fn := c17Top(w.Fn)
		ok := fn == "types.NewSyncCtx" && w.How == "literal"
		if ok {
			f := w.Fn
			var par types.Object
			if f.Type.Params != nil && len(f.Type.Params.List) > 0 && len(f.Type.Params.List[0].Names) > 0 {
				par = f.Info().Defs[f.Type.Params.List[0].Names[0]]
			}
			ok = false
			ast.Inspect(f.Body, func(x ast.Node) bool {
				if kv, isKV := x.(*ast.KeyValueExpr); isKV && kv.Pos() == w.Pos {
					ok = par != nil && an.ObjOf(f.Info(), kv.Value) == par
				}
				return true
			})
		}
		c.Check("seq-fresh", fn+"|SyncContext.Seq", w.Pos, ok, "SyncContext.Seq is set once, by NewSyncCtx, from its first parameter (the workers read their sequence from the context)")
	}
	c.Floor("seq-fresh", 3)

	// ---- every Seq-carrying message that is built is stamped
	n := 0
	for _, pk := range p.ModulePkgs() {
		info := pk.TypesInfo
		if info == nil {
			continue
		}
		for _, file := range pk.Syntax {
			ast.Inspect(file, func(x ast.Node) bool {
				lit, ok := x.(*ast.CompositeLit)
				if !ok {
					return true
				}
				tv, ok := info.Types[lit]
				if !ok {
					return true
				}
				key := c17TypeKey(tv.Type)
				seqFld, has := seqTypes[key]
				if !has {
					return true
				}
				if _, isStruct := types.Unalias(tv.Type).Underlying().(*types.Struct); !isStruct {
					return true
				}
				encl := c17Top(p.EnclosingFunc(pk, lit.Pos()))
				construct := encl + "|" + c17Short(key)
				if why, ex := c17NoSeqNeeded[construct]; ex {
					c.CheckTrivial("seq-stamped", construct+"|exempt", lit.Pos(), true, why)
					return true
				}
				n++
				var val ast.Expr
				positional := false
				for i, el := range lit.Elts {
					if kv, ok := el.(*ast.KeyValueExpr); ok {
						if id, ok := kv.Key.(*ast.Ident); ok && info.Uses[id] == seqFld {
							val = kv.Value
						}
					} else {
						positional = true
						st := types.Unalias(tv.Type).Underlying().(*types.Struct)
						if i < st.NumFields() && st.Field(i) == seqFld {
							val = el
						}
					}
				}
				_ = positional
				ok = val != nil && c17Const(info, val) == ""
				c.Check("seq-stamped", construct, lit.Pos(), ok, "a message with a session sequence is built with its Seq set from a run-time value (the request's / the session's sequence): an unstamped answer or stop request would be dropped as stale by verifySeq")
				return true
			})
		}
	}
	if n == 0 {
		c.Undecide("seq-stamped", "types/message.*{Seq}", "no literal found")
	}
	c.Floor("seq-stamped", 25)
}
