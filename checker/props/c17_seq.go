package props

import (
	"go/ast"
	"go/token"
	"go/types"
	"sort"

	"verif/checker/internal/an"
	"verif/checker/internal/rep"
)

// c17SeqWriters: who may write Syncer.Seq.
var c17SeqWriters = map[string]string{
	"syncer.NewSyncer":        "initial sequence (1) of a fresh syncer",
	"syncer.(*Syncer).IncSeq": "the increment (checked to be ++ and called by handleSyncStart only)",
}

// c17NoSeqNeeded: Seq-carrying message literals that legitimately leave Seq unset (none today).
var c17NoSeqNeeded = map[string]string{}

// c17SeqTypes: named struct types of types/message with a field `Seq`.
func c17SeqTypes(p *an.Prog) map[string]*types.Var {
	out := map[string]*types.Var{}
	pk := p.Pkg(c17Msg)
	if pk == nil || pk.Types == nil {
		return out
	}
	sc := pk.Types.Scope()
	for _, n := range sc.Names() {
		tn, ok := sc.Lookup(n).(*types.TypeName)
		if !ok {
			continue
		}
		nt, ok := tn.Type().(*types.Named)
		if !ok {
			continue
		}
		if f := c17StructField(nt, "Seq"); f != nil {
			out[c17Msg+"."+n] = f
		}
	}
	return out
}

func c17Seq(c *rep.Ctx) {
	p := c.Prog
	seqTypes := c17SeqTypes(p)
	if len(seqTypes) < 10 {
		c.Undecide("anchor", "types/message.*{Seq}", "fewer Seq-carrying message types than on the reference tree (14)")
		return
	}
	verify := c.Fn("syncer.(*Syncer).verifySeq")
	handle := c.Fn("syncer.(*Syncer).handleMessage")
	recv := c.Fn("syncer.(*Syncer).Receive")
	start := c.Fn("syncer.(*Syncer).handleSyncStart")
	syncerSeq := p.LookupField("syncer", "Syncer", "Seq")
	isRunning := p.LookupField("syncer", "Syncer", "isRunning")
	if verify == nil || handle == nil || recv == nil || start == nil || syncerSeq == nil || isRunning == nil {
		if syncerSeq == nil || isRunning == nil {
			c.Undecide("anchor", "syncer.Syncer.{Seq,isRunning}", "field not found")
		}
		return
	}

	// ---- the two tables
	hts := c17TypeSwitches(handle)
	vts := c17TypeSwitches(verify)
	if len(hts) != 1 || len(vts) != 1 {
		c.Undecide("seq-table", "syncer.(*Syncer).{handleMessage,verifySeq}", "expected exactly one type switch in each")
		return
	}
	hClauses, _ := c17Clauses(handle.Info(), hts[0])
	vClauses, vDefault := c17Clauses(verify.Info(), vts[0])
	vBy := map[string]c17Clause{}
	for _, cl := range vClauses {
		vBy[cl.Key] = cl
	}
	var handledSeq []string
	for _, cl := range hClauses {
		if _, has := seqTypes[cl.Key]; has {
			handledSeq = append(handledSeq, cl.Key)
			_, inV := vBy[cl.Key]
			c.Check("seq-table", "verifySeq|"+c17Short(cl.Key), cl.Clause.Pos(), inV, "a message type that handleMessage processes and that carries a session sequence (field Seq) has its own arm in verifySeq: a stale message of an earlier session is recognised")
		}
	}
	sort.Strings(handledSeq)
	c.Floor("seq-table", 7)

	// ---- what an arm of verifySeq does
	vinfo := verify.Info()
	isSession := func(x ast.Expr) bool {
		x = ast.Unparen(x)
		if an.FieldOf(vinfo, x) == syncerSeq {
			return true
		}
		if call, ok := x.(*ast.CallExpr); ok && an.CalleeName(vinfo, call) == "syncer.(*Syncer).GetSeq" {
			return true
		}
		return false
	}
	// the result variable
	var resVar types.Object
	resOK := true
	an.InspectShallow(verify.Body, func(x ast.Node) bool {
		rs, ok := x.(*ast.ReturnStmt)
		if !ok {
			return true
		}
		if len(rs.Results) != 1 {
			resOK = false
			return true
		}
		o := an.ObjOf(vinfo, rs.Results[0])
		if o == nil || (resVar != nil && o != resVar) {
			resOK = false
		}
		resVar = o
		return true
	})
	if !resOK || resVar == nil {
		c.Undecide("seq-verified", verify.Name(), "verifySeq does not return one local result variable: unrecognised shape")
	} else {
		// assignments of the result variable: per clause
		type asg struct {
			rhs ast.Expr
			pos token.Pos
		}
		var all []asg
		an.InspectShallow(verify.Body, func(x ast.Node) bool {
			switch s := x.(type) {
			case *ast.AssignStmt:
				for i, l := range s.Lhs {
					if an.ObjOf(vinfo, l) == resVar && len(s.Lhs) == len(s.Rhs) {
						all = append(all, asg{s.Rhs[i], s.Pos()})
					}
				}
			case *ast.ValueSpec:
				for i, nm := range s.Names {
					if vinfo.Defs[nm] == resVar && len(s.Values) == len(s.Names) {
						all = append(all, asg{s.Values[i], s.Pos()})
					}
				}
			}
			return true
		})
		// a comparison `session seq == <x>`; returns x
		cmpArg := func(e ast.Expr) ast.Expr {
			be, ok := ast.Unparen(e).(*ast.BinaryExpr)
			if !ok || be.Op != token.EQL {
				return nil
			}
			if isSession(be.X) {
				return be.Y
			}
			if isSession(be.Y) {
				return be.X
			}
			return nil
		}
		for _, cl := range vClauses {
			seqFld, has := seqTypes[cl.Key]
			if !has {
				continue
			}
			vg := verify.Graph()
			seqAt := c17Anywhere(c17FieldPred(vinfo, seqFld))
			var curPos token.Pos
			fromMsg := func(x ast.Node) bool { return c17DerivesAt(vg, vg.NodeContaining(curPos), x, seqAt, 3) }
			n, good := 0, 0
			why := "the arm does not set the result"
			for _, a := range all {
				if !c17In(cl.Clause, a.pos) {
					continue
				}
				n++
				curPos = a.pos
				if arg := cmpArg(a.rhs); arg != nil {
					if fromMsg(arg) {
						good++
					} else {
						why = "the value compared with the session sequence is not this message's Seq"
					}
					continue
				}
				if call, ok := ast.Unparen(a.rhs).(*ast.CallExpr); ok && len(call.Args) == 1 {
					if lf := c17LitOfVar(p, verify, call); lf != nil && lf.Type.Params != nil && len(lf.Type.Params.List) == 1 && len(lf.Type.Params.List[0].Names) == 1 {
						par := vinfo.Defs[lf.Type.Params.List[0].Names[0]]
						litOK := true
						nr := 0
						an.InspectShallow(lf.Body, func(y ast.Node) bool {
							if rs, ok := y.(*ast.ReturnStmt); ok {
								nr++
								if len(rs.Results) != 1 {
									litOK = false
									return true
								}
								arg := cmpArg(rs.Results[0])
								if arg == nil || an.ObjOf(vinfo, arg) != par {
									litOK = false
								}
							}
							return true
						})
						if litOK && nr > 0 {
							if fromMsg(call.Args[0]) {
								good++
							} else {
								why = "the value passed to the comparison is not this message's Seq"
							}
							continue
						}
					}
				}
				why = "the result is set to something else than `session sequence == msg.Seq` (" + an.ExprString(a.rhs) + ")"
			}
			ok := n > 0 && good == n && !cl.Multi
			msg := "the verifySeq arm sets the verdict to `syncer.Seq == msg.Seq` for this message type and to nothing else"
			if !ok {
				msg += ": " + why
			}
			c.Check("seq-verified", "verifySeq|"+c17Short(cl.Key), cl.Clause.Pos(), ok, msg)
		}
		// no assignment of the verdict after the switch, none in the default arm but acceptance
		for _, a := range all {
			if c17In(vts[0], a.pos) && !c17In(vDefault, a.pos) {
				continue
			}
			if a.pos < vts[0].Pos() {
				continue // initial value before the switch; every arm overwrites it (checked per arm for Seq types)
			}
			if c17In(vDefault, a.pos) {
				continue // messages without a sequence are accepted
			}
			c.Check("seq-verified", "verifySeq|after-switch", a.pos, false, "the verdict of verifySeq is overwritten after the per-type comparison")
		}
		c.Floor("seq-verified", 7)
	}

	// ---- handleMessage checks the sequence before anything else
	hg := handle.Graph()
	hinfo := handle.Info()
	vs := hg.CallsTo(verify.Name())
	if len(vs) != 1 {
		c.Check("seq-first", handle.Name()+"|verifySeq", handle.Pos(), false, "handleMessage does not call verifySeq exactly once")
	} else {
		gates := hg.BoolEdges(vs[0], true)
		subj := c17SwitchSubject(hts[0])
		sameMsg := subj != nil && len(vs[0].Call.Args) == 1 && an.ObjOf(hinfo, subj) != nil && an.ObjOf(hinfo, subj) == an.ObjOf(hinfo, vs[0].Call.Args[0])
		c.Check("seq-first", handle.Name()+"|same-message", vs[0].Call.Pos(), sameMsg, "verifySeq is applied to the very message the type switch dispatches on")
		seen := map[string]bool{}
		for _, s := range hg.Calls(nil) {
			if s.Fn == nil || s.Fn.Pkg() == nil || an.Rel(s.Fn.Pkg().Path()) != "syncer" || s.Node == vs[0].Node {
				continue
			}
			if _, isDefer := s.Node.Ast.(*ast.DeferStmt); isDefer {
				continue // the recover wrapper is installed first
			}
			name := an.FuncName(s.Fn)
			if seen[name] && hg.Dominated(s.Node, gates) {
				continue
			}
			seen[name] = true
			c.Check("seq-first", handle.Name()+"|"+c17Short(name), s.Call.Pos(), len(gates) > 0 && hg.Dominated(s.Node, gates), "every handler of the syncer runs only on paths on which verifySeq(msg) returned true")
		}
		c.Floor("seq-first", 8)
	}

	// ---- Receive: what is dropped while no session is running
	runAt := func(x ast.Expr) (string, bool, bool) {
		if an.FieldOf(recv.Info(), x) == isRunning {
			return "RUN", false, true
		}
		return "", false, false
	}
	dropped := map[string]bool{}
	var dropPos token.Pos
	// the message Receive hands to handleMessage (locals resolved): the drop
	// list must be taken over the same value
	rinfo := recv.Info()
	resolveMsg := func(x ast.Expr) string {
		for i := 0; i < 4; i++ {
			x = ast.Unparen(x)
			id, ok := x.(*ast.Ident)
			if !ok {
				break
			}
			v, ok := rinfo.Uses[id].(*types.Var)
			if !ok {
				break
			}
			srcs := c17Sources(recv, v)
			if len(srcs) != 1 {
				break
			}
			x = srcs[0]
		}
		return an.ExprString(x)
	}
	handled := ""
	for _, s := range recv.Graph().CallsTo(handle.Name()) {
		if len(s.Call.Args) == 1 {
			handled = resolveMsg(s.Call.Args[0])
		}
	}
	// the arms of a type switch that leave Receive
	dropSwitch := func(ts *ast.TypeSwitchStmt) {
		cls, _ := c17Clauses(rinfo, ts)
		for _, cl := range cls {
			ret := false
			for _, st := range cl.Clause.Body {
				if _, ok := st.(*ast.ReturnStmt); ok {
					ret = true
				}
			}
			if ret {
				dropped[cl.Key] = true
				dropPos = ts.Pos()
			}
		}
	}
	var conjuncts func(x ast.Expr) []ast.Expr
	conjuncts = func(x ast.Expr) []ast.Expr {
		x = ast.Unparen(x)
		if be, ok := x.(*ast.BinaryExpr); ok && be.Op == token.LAND {
			return append(conjuncts(be.X), conjuncts(be.Y)...)
		}
		return []ast.Expr{x}
	}
	// scan(stmts, idle): idle = an enclosing condition already implies !isRunning.
	//   if <idle> { switch msg.(type) { case A, B: return } }
	//   if <idle> && isA(msg) { return }      isA: same-package helper whose
	//   if <idle> { if isA(msg) { return } }  body is a type switch / type test
	//                                         over its parameter (c17TypeSetHelper)
	var scan func(body *ast.BlockStmt, idle bool)
	scan = func(body *ast.BlockStmt, idle bool) {
		if body == nil {
			return
		}
		for _, st := range body.List {
			switch x := st.(type) {
			case *ast.TypeSwitchStmt:
				if idle {
					dropSwitch(x)
				}
			case *ast.BlockStmt:
				scan(x, idle)
			case *ast.IfStmt:
				if x.Init != nil {
					continue
				}
				here := idle
				var sets [][]string
				plain := true
				for _, cj := range conjuncts(x.Cond) {
					if an.CondImplies(rinfo, cj, true, runAt, map[string]bool{"RUN": false}) {
						here = true
						continue
					}
					call, ok := cj.(*ast.CallExpr)
					if !ok {
						plain = false
						continue
					}
					hf := p.FuncOf(an.Callee(rinfo, call))
					keys, idx, ok := c17TypeSetHelper(recv, hf)
					if !ok || idx >= len(call.Args) || handled == "" || resolveMsg(call.Args[idx]) != handled {
						plain = false
						continue
					}
					sets = append(sets, keys)
				}
				if !here || !plain {
					continue // not (only) about the idle state: nothing is concluded from it
				}
				if len(sets) == 0 {
					scan(x.Body, true)
					continue
				}
				if len(sets) != 1 {
					continue
				}
				leaves := false
				for _, bs := range x.Body.List {
					if _, ok := bs.(*ast.ReturnStmt); ok {
						leaves = true
					}
				}
				if leaves {
					for _, k := range sets[0] {
						dropped[k] = true
					}
					dropPos = x.Pos()
				}
			}
		}
	}
	scan(recv.Body, false)
	if len(dropped) == 0 {
		c.Check("idle-drop", recv.Name(), recv.Pos(), false, "Receive no longer drops session messages while no synchronisation is running")
	} else {
		for _, k := range handledSeq {
			c.Check("idle-drop", recv.Name()+"|"+c17Short(k), dropPos, dropped[k], "a sequence-carrying message that handleMessage would process is dropped by Receive while !isRunning (between two sessions syncer.Seq still equals the last session's sequence, so verifySeq cannot reject its late messages)")
		}
	}
	// the message that starts a session must not be dropped
	startKeys := []string{}
	for _, cl := range hClauses {
		calls := false
		an.InspectShallow(cl.Clause, func(x ast.Node) bool {
			if call, ok := x.(*ast.CallExpr); ok && an.CalleeName(hinfo, call) == start.Name() {
				calls = true
			}
			return true
		})
		if calls {
			startKeys = append(startKeys, cl.Key)
		}
	}
	if len(startKeys) == 0 {
		c.Undecide("idle-drop", handle.Name()+"|start", "no arm of handleMessage calls handleSyncStart")
	}
	for _, k := range startKeys {
		c.Check("idle-drop", recv.Name()+"|start-not-dropped|"+c17Short(k), dropPos, !dropped[k], "the message that starts a synchronisation is not in the idle drop list: a later synchronisation can start")
	}
	c.Floor("idle-drop", 8)

	// ---- sequence ownership and freshness
	for _, w := range p.FieldWrites(map[*types.Var]bool{syncerSeq: true}) {
		fn := c17Top(w.Fn)
		why, ok := c17SeqWriters[fn]
		if ok && fn == "syncer.(*Syncer).IncSeq" {
			ok = w.How == "incdec"
			if n := w.Fn.Graph().NodeContaining(w.Pos); ok && n != nil {
				s, isInc := n.Ast.(*ast.IncDecStmt)
				ok = isInc && s.Tok == token.INC
			}
		}
		msg := "Syncer.Seq is written only by the constructor and by IncSeq (++)"
		if ok {
			msg += ": " + why
		}
		c.Check("seq-owner", fn, w.Pos, ok, msg)
	}
	inc := map[string]bool{"syncer.(*Syncer).IncSeq": true}
	for _, cs := range p.CallSitesOf(inc) {
		c.Check("seq-owner", c17Top(cs.Fn)+"|IncSeq", cs.Call.Pos(), cs.Fn == start, "the session sequence is advanced only by handleSyncStart")
	}
	c.Floor("seq-owner", 3)
	sg := start.Graph()
	sinfo := start.Info()
	incs := sg.CallsTo("syncer.(*Syncer).IncSeq")
	ctxs := sg.CallsTo("types.NewSyncCtx")
	if len(incs) == 0 || len(ctxs) == 0 {
		c.Check("seq-fresh", start.Name(), start.Pos(), false, "handleSyncStart no longer advances the sequence and builds a new sync context")
	} else {
		incSet := an.Set{}
		for _, s := range incs {
			incSet[s.Node] = true
		}
		for _, s := range ctxs {
			arg0 := len(s.Call.Args) > 0 && c17Contains(s.Call.Args[0], func(x ast.Expr) bool {
				if an.FieldOf(sinfo, x) == syncerSeq {
					return true
				}
				call, ok := x.(*ast.CallExpr)
				return ok && an.CalleeName(sinfo, call) == "syncer.(*Syncer).GetSeq"
			})
			c.Check("seq-fresh", start.Name()+"|NewSyncCtx", s.Call.Pos(), arg0 && sg.Dominated(s.Node, incSet), "a new session's context is stamped with Syncer.Seq read after IncSeq on every path: every session has a sequence no earlier message carries")
		}
		for _, w := range p.FieldWrites(map[*types.Var]bool{isRunning: true}) {
			if w.Fn != start {
				continue
			}
			n := sg.NodeContaining(w.Pos)
			c.Check("seq-fresh", start.Name()+"|isRunning", w.Pos, n != nil && sg.Dominated(n, incSet), "the syncer is marked running only after the sequence was advanced")
		}
	}
	// the context keeps the stamp it was given
	ctxSeq := p.LookupField("types", "SyncContext", "Seq")
	for _, w := range p.FieldWrites(map[*types.Var]bool{ctxSeq: true}) {
		fn := c17Top(w.Fn)
		ok := fn == "types.NewSyncCtx" && w.How == "literal"
		if ok {
			f := w.Fn
			var par types.Object
			if f.Type.Params != nil && len(f.Type.Params.List) > 0 && len(f.Type.Params.List[0].Names) > 0 {
				par = f.Info().Defs[f.Type.Params.List[0].Names[0]]
			}
			ok = false
			ast.Inspect(f.Body, func(x ast.Node) bool {
				if kv, isKV := x.(*ast.KeyValueExpr); isKV && kv.Pos() == w.Pos {
					ok = par != nil && an.ObjOf(f.Info(), kv.Value) == par
				}
				return true
			})
		}
		c.Check("seq-fresh", fn+"|SyncContext.Seq", w.Pos, ok, "SyncContext.Seq is set once, by NewSyncCtx, from its first parameter (the workers read their sequence from the context)")
	}
	c.Floor("seq-fresh", 3)

	// ---- every Seq-carrying message that is built is stamped
	n := 0
	for _, pk := range p.ModulePkgs() {
		info := pk.TypesInfo
		if info == nil {
			continue
		}
		for _, file := range pk.Syntax {
			ast.Inspect(file, func(x ast.Node) bool {
				lit, ok := x.(*ast.CompositeLit)
				if !ok {
					return true
				}
				tv, ok := info.Types[lit]
				if !ok {
					return true
				}
				key := c17TypeKey(tv.Type)
				seqFld, has := seqTypes[key]
				if !has {
					return true
				}
				if _, isStruct := types.Unalias(tv.Type).Underlying().(*types.Struct); !isStruct {
					return true
				}
				encl := c17Top(p.EnclosingFunc(pk, lit.Pos()))
				construct := encl + "|" + c17Short(key)
				if why, ex := c17NoSeqNeeded[construct]; ex {
					c.CheckTrivial("seq-stamped", construct+"|exempt", lit.Pos(), true, why)
					return true
				}
				n++
				var val ast.Expr
				positional := false
				for i, el := range lit.Elts {
					if kv, ok := el.(*ast.KeyValueExpr); ok {
						if id, ok := kv.Key.(*ast.Ident); ok && info.Uses[id] == seqFld {
							val = kv.Value
						}
					} else {
						positional = true
						st := types.Unalias(tv.Type).Underlying().(*types.Struct)
						if i < st.NumFields() && st.Field(i) == seqFld {
							val = el
						}
					}
				}
				_ = positional
				ok = val != nil && c17Const(info, val) == ""
				c.Check("seq-stamped", construct, lit.Pos(), ok, "a message with a session sequence is built with its Seq set from a run-time value (the request's / the session's sequence): an unstamped answer or stop request would be dropped as stale by verifySeq")
				return true
			})
		}
	}
	if n == 0 {
		c.Undecide("seq-stamped", "types/message.*{Seq}", "no literal found")
	}
	c.Floor("seq-stamped", 25)
}

// c17TypeSetHelper: f is a function of the package of `from` with one bool
// result that answers "is the dynamic type of my parameter one of T1..Tn":
//
//	func isA(m interface{}) bool { switch m.(type) { case T1, T2: return true }; return false }
//	func isA(m interface{}) bool { _, ok := m.(T1); return ok }
//
// Returns the type keys T1..Tn (as c17Clauses spells them) and the index of
// the tested parameter.  Every arm must return a constant; the arms returning
// true form the set, everything else (other arms, default, after the switch)
// must return false.  The parameter must not be reassigned.
func c17TypeSetHelper(from, f *an.Func) (keys []string, param int, ok bool) {
	if f == nil || from == nil || f.Decl == nil || f.Body == nil || f.Pkg == nil || f.Pkg != from.Pkg {
		return nil, 0, false
	}
	info := f.Info()
	ft := f.Decl.Type
	if ft.Results == nil || len(ft.Results.List) != 1 || len(ft.Results.List[0].Names) > 1 {
		return nil, 0, false
	}
	if tv, has := info.Types[ft.Results.List[0].Type]; !has || !types.Identical(tv.Type, types.Typ[types.Bool]) {
		return nil, 0, false
	}
	if len(ft.Results.List[0].Names) == 1 {
		return nil, 0, false // named result: bare returns are not followed
	}
	var params []types.Object
	for _, fld := range ft.Params.List {
		if len(fld.Names) == 0 {
			params = append(params, nil)
		}
		for _, nm := range fld.Names {
			params = append(params, info.Defs[nm])
		}
	}
	paramOf := func(x ast.Expr) int {
		o := an.ObjOf(info, ast.Unparen(x))
		if o == nil {
			return -1
		}
		for i, po := range params {
			if po == o {
				if len(c17Sources(f, o)) != 0 {
					return -1 // reassigned
				}
				return i
			}
		}
		return -1
	}
	boolConst := func(st ast.Stmt) (val, isConst bool) {
		rs, isRet := st.(*ast.ReturnStmt)
		if !isRet || len(rs.Results) != 1 {
			return false, false
		}
		switch c17Const(info, rs.Results[0]) {
		case "true":
			return true, true
		case "false":
			return false, true
		}
		return false, false
	}
	list := f.Body.List
	// form 2: _, ok := p.(T); return ok
	if len(list) == 2 {
		as, isAs := list[0].(*ast.AssignStmt)
		rs, isRet := list[1].(*ast.ReturnStmt)
		if isAs && isRet && as.Tok == token.DEFINE && len(as.Lhs) == 2 && len(as.Rhs) == 1 && len(rs.Results) == 1 {
			ta, isTA := ast.Unparen(as.Rhs[0]).(*ast.TypeAssertExpr)
			okObj := an.ObjOf(info, as.Lhs[1])
			if isTA && ta.Type != nil && okObj != nil && an.ObjOf(info, ast.Unparen(rs.Results[0])) == okObj {
				if i := paramOf(ta.X); i >= 0 {
					if tv, has := info.Types[ta.Type]; has && tv.Type != nil {
						return []string{c17TypeKey(tv.Type)}, i, true
					}
				}
			}
		}
	}
	// form 1: switch p.(type) { case ...: return <const> ... } [return false]
	if len(list) < 1 || len(list) > 2 {
		return nil, 0, false
	}
	ts, isTS := list[0].(*ast.TypeSwitchStmt)
	if !isTS || ts.Init != nil {
		return nil, 0, false
	}
	subj := c17SwitchSubject(ts)
	if subj == nil {
		return nil, 0, false
	}
	param = paramOf(subj)
	if param < 0 {
		return nil, 0, false
	}
	tail, tailConst := false, false
	if len(list) == 2 {
		tail, tailConst = boolConst(list[1])
		if !tailConst || tail {
			return nil, 0, false
		}
	}
	seenDefault := false
	for _, st := range ts.Body.List {
		cc := st.(*ast.CaseClause)
		if len(cc.Body) == 0 && len(list) == 2 {
			continue // empty arm: falls to the trailing `return false`
		}
		if len(cc.Body) != 1 {
			return nil, 0, false
		}
		val, isConst := boolConst(cc.Body[0])
		if !isConst {
			return nil, 0, false
		}
		if cc.List == nil {
			seenDefault = true
			if val {
				return nil, 0, false // "everything but": not a finite set
			}
			continue
		}
		if !val {
			continue
		}
		for _, te := range cc.List {
			tv, has := info.Types[te]
			if !has || tv.Type == nil || tv.IsNil() {
				return nil, 0, false
			}
			keys = append(keys, c17TypeKey(tv.Type))
		}
	}
	if len(list) == 1 && !seenDefault {
		return nil, 0, false // falls off the end: does not compile anyway
	}
	return keys, param, len(keys) > 0
}
