package props

import (
	"go/ast"
	"go/token"
	"go/types"

	"verif/checker/internal/an"
)

// stride: the producer-vote candidate list is stored as a plain concatenation
// of candidate ids and read back in fixed strides of PeerIDLength
// (VoteResult.AddVote/SubVote, deserializeVote, GetVotes).  Reading inverts
// writing only if every concatenated element has exactly that length, so the
// writer side (the admission validator types.ValidateSystemTx or the command
// constructor that concatenates) must refuse any decoded candidate whose
// length differs from the stride.
func (e *c15Env) stride() {
	c, p := e.c, e.p
	strideObj, _ := p.LookupObj("contract/system", "PeerIDLength").(*types.Const)
	cand := p.LookupField("types", "Vote", "Candidate")
	if strideObj == nil || cand == nil {
		c.Undecide("stride", "contract/system.PeerIDLength", "stride constant or Vote.Candidate not found")
		return
	}
	stride, okS := c15ConstVal(strideObj)
	if !okS {
		c.Undecide("stride", "contract/system.PeerIDLength", "stride constant is not an integer")
		return
	}
	// readers: functions of contract/system that use the stride constant together with a Candidate field
	readers := 0
	for _, f := range p.Funcs() {
		if f.Pkg != e.sys || f.Body == nil {
			continue
		}
		info := f.Info()
		usesStride, usesCand := false, false
		ast.Inspect(f.Body, func(n ast.Node) bool {
			switch x := n.(type) {
			case *ast.Ident:
				if info.Uses[x] == strideObj {
					usesStride = true
				}
			case *ast.SelectorExpr:
				if an.FieldOf(info, x) == cand {
					usesCand = true
				}
			}
			return true
		})
		if usesStride && usesCand {
			readers++
		}
	}
	if readers < 2 {
		c.Undecide("stride", "readers", "fewer fixed-stride readers of Vote.Candidate than on the reference tree (the encoding changed?)")
		return
	}
	c.Note("stride: %d functions of contract/system read Vote.Candidate in strides of PeerIDLength=%d", readers, stride)
	// writer: the constructor that appends decoded candidates; plus the admission validator of the same operation
	type place struct {
		fn   string
		want bool // must contain decode sites
	}
	guarded, sites := 0, 0
	var firstPos token.Pos
	for _, pl := range []place{{"contract/system.newVoteCmd", true}, {"types.ValidateSystemTx", true}} {
		f := c.Fn(pl.fn)
		if f == nil {
			continue
		}
		g := f.Graph()
		info := f.Info()
		r := c15ResolverOf(f)
		decs := g.CallsTo("internal/enc/base58.Decode")
		if len(decs) == 0 {
			c.Undecide("stride", pl.fn, "no base58.Decode of a candidate found here")
			continue
		}
		succ, _ := c15Returns(g)
		for _, d := range decs {
			sites++
			if firstPos == token.NoPos || pl.fn == "contract/system.newVoteCmd" {
				firstPos = d.Call.Pos()
			}
			obj := g.ResultVarAt(d, 0)
			if obj == nil {
				continue
			}
			// a branch condition comparing len(obj) with the stride whose "different length" edge cannot reach a success return
			for _, n := range g.Nodes {
				if n.Kind != an.KTrue && n.Kind != an.KFalse {
					continue
				}
				x, ok := n.Ast.(ast.Expr)
				if !ok {
					continue
				}
				found := false
				var op token.Token
				c15Leaves(x, func(l ast.Expr) {
					be, ok := l.(*ast.BinaryExpr)
					if !ok || (be.Op != token.EQL && be.Op != token.NEQ) {
						return
					}
					for _, pr := range [][2]ast.Expr{{be.X, be.Y}, {be.Y, be.X}} {
						call, ok := ast.Unparen(pr[0]).(*ast.CallExpr)
						if !ok || !an.IsBuiltin(info, call, "len") || len(call.Args) != 1 {
							continue
						}
						if v := r.Resolve(call.Args[0]); !(v.Call == d.Call && v.Idx == 0) && an.ObjOf(info, call.Args[0]) != obj {
							continue
						}
						if k, isK := c15ConstInt(info, pr[1]); isK && k == stride {
							found, op = true, be.Op
						}
					}
				})
				if !found {
					continue
				}
				// only the simple forms  len(x) != S {refuse}  /  len(x) == S {continue}  are recognised
				if _, simple := ast.Unparen(x).(*ast.BinaryExpr); !simple {
					continue
				}
				wrongEdge := (op == token.NEQ && n.Kind == an.KTrue) || (op == token.EQL && n.Kind == an.KFalse)
				if !wrongEdge {
					continue
				}
				reach := g.Reach([]*an.Node{n}, nil)
				refuses := true
				for _, s := range succ {
					if reach[s] {
						refuses = false
					}
				}
				// and no append of the candidate on the wrong-length edge
				if refuses && g.Reachable(d.Node, n.Cond) {
					guarded++
				}
			}
		}
	}
	if sites == 0 {
		return
	}
	c.Check("stride", "contract/system.newVoteCmd|Vote.Candidate/PeerIDLength", firstPos, guarded > 0,
		"candidates are concatenated into Vote.Candidate and read back in strides of PeerIDLength, but neither types.ValidateSystemTx nor newVoteCmd refuses a decoded candidate whose length differs from PeerIDLength: a valid peer id of another length (e.g. a 34-byte sha2-256 multihash id or a 38-byte ed25519 id passes IDFromBytes) shifts the stride, so the tally is credited to a padded phantom candidate and the stored vote is re-read with a wrong candidate/amount split")
	c.Floor("stride", 1)
}

func c15ConstVal(co *types.Const) (int64, bool) {
	v := co.Val()
	if v == nil {
		return 0, false
	}
	s := v.ExactString()
	var n int64
	for _, ch := range s {
		if ch < '0' || ch > '9' {
			return 0, false
		}
		n = n*10 + int64(ch-'0')
	}
	return n, true
}
