package props

import (
	"go/ast"
	"go/constant"
	"go/token"
	"go/types"
	"strings"

	"verif/checker/internal/an"
	"verif/checker/internal/rep"
)

// Rules added after the fourth round of independently seeded changes
// (DESIGN.md section 10).

func init() {
	// the version a block is executed under is part of "same block, same result" (C02) as much as of C19
	extend("C02", c19GapHeaderVersion)
	// the state root must stay at the best block unless the consensus allowed the reorganisation:
	// the order veto < rollback and the restore on error exits are C05's "state root == best block's root"
	extend("C05", c07Pipeline)
	// the veto compares with the LIB (not with another number of the status): C07's "never below the irreversible block"
	extend("C07", c08ReorgGate)
	extend("C07", c08GapLibAccessor)

	extend("C08", r4ReplayBelowLib)
	extend("C14", r4SeparatorAgreement)
	extend("C19", r4BlockIDAfterFinal)
	extend("C09", r4BlockIDAfterFinal)
	extend("C15", r4LockRecordExistence)
}

// --- C08: the rebuild of the LIB status reaches below the LIB ---
//
// libStatus.load replays blocks from begRecoBlockNo(end) to rebuild the
// confirmation list AND to overwrite the producers' proposals that came from
// an abandoned branch.  The start is max(end, LIB) - window (clamped at 1).
// If the clamp to the LIB is applied after the window is subtracted, the replay
// never starts below the LIB: after a reorganisation forking at the LIB the
// stale proposals survive and calcLIB can report a block that is not on the
// main chain.  Decided: no assignment of the LIB number to the start value is
// reachable after the window was subtracted from it.
func r4ReplayBelowLib(c *rep.Ctx) {
	f := c.Fn("consensus/impl/dpos.(*libStatus).begRecoBlockNo")
	if f == nil {
		return
	}
	p := c.Prog
	info := f.Info()
	g := f.Graph()
	libF := p.LookupField("consensus/impl/dpos", "libStatus", "Lib")
	reqF := p.LookupField("consensus/impl/dpos", "libStatus", "confirmsRequired")
	if libF == nil || reqF == nil {
		c.Undecide("replay-below-lib", "dpos.libStatus", "fields Lib / confirmsRequired not found")
		return
	}
	// the returned variable
	var res types.Object
	for _, r := range g.Returns() {
		rs := r.Ast.(*ast.ReturnStmt)
		if len(rs.Results) == 1 {
			res = an.ObjOf(info, rs.Results[0])
		}
	}
	if res == nil {
		c.Undecide("replay-below-lib", f.Name(), "the start value is not returned through a local")
		return
	}
	readsLib := func(e ast.Expr) bool {
		if readsField(info, e, libF) {
			return true
		}
		found := false
		ast.Inspect(e, func(n ast.Node) bool {
			if id, ok := n.(*ast.Ident); ok {
				if o := info.Uses[id]; o != nil {
					if rhs, _ := g.SingleDef(o); rhs != nil && readsField(info, rhs, libF) {
						found = true
					}
				}
			}
			return !found
		})
		return found
	}
	readsWindow := func(e ast.Expr) bool {
		if readsField(info, e, reqF) {
			return true
		}
		found := false
		ast.Inspect(e, func(n ast.Node) bool {
			if id, ok := n.(*ast.Ident); ok {
				if o := info.Uses[id]; o != nil {
					if rhs, _ := g.SingleDef(o); rhs != nil && readsField(info, rhs, reqF) {
						found = true
					}
				}
			}
			return !found
		})
		return found
	}
	var clamps, subs []*an.Node
	for _, n := range g.Nodes {
		if n.Kind != an.KStmt {
			continue
		}
		as, ok := n.Ast.(*ast.AssignStmt)
		if !ok || len(as.Lhs) != 1 || len(as.Rhs) != 1 || an.ObjOf(info, as.Lhs[0]) != res {
			continue
		}
		switch {
		case as.Tok == token.SUB_ASSIGN && readsWindow(as.Rhs[0]):
			subs = append(subs, n)
		case as.Tok == token.ASSIGN || as.Tok == token.DEFINE:
			if be, isB := ast.Unparen(as.Rhs[0]).(*ast.BinaryExpr); isB && be.Op == token.SUB && readsWindow(be.Y) {
				subs = append(subs, n)
			} else if readsLib(as.Rhs[0]) {
				clamps = append(clamps, n)
			}
		}
	}
	if len(subs) == 0 {
		c.Undecide("replay-below-lib", f.Name(), "the subtraction of the replay window (a multiple of confirmsRequired) was not found")
		return
	}
	ok := true
	for _, s := range subs {
		for _, cl := range clamps {
			if g.Reachable(s, cl) {
				ok = false
			}
		}
	}
	c.Check("replay-below-lib", f.Name()+"|window-after-clamp", f.Pos(), ok, "the replay start is raised to the LIB only before the window is subtracted ("+itoa(len(clamps))+" clamp, "+itoa(len(subs))+" subtraction sites): a start clamped to the LIB afterwards never reaches below it, the proposals of an abandoned branch survive a reorganisation at the LIB and calcLIB can name a block that is not on the main chain")
}

// --- C14: the separator refused in a conf value is the separator of the stored record ---
//
// serializeConf writes the values back to back, each preceded by one separator
// byte; deserializeConf splits at that separator.  checkArgs refuses values
// containing it.  If the refused constant is not the separator (e.g. two
// backslashes instead of one) a value containing the real separator is stored,
// read back as two values, and Conf.Validate indexes strings.Split(v,":")[1]
// of a fragment without a colon: panic at pool admission and in execution.
func r4SeparatorAgreement(c *rep.Ctx) {
	ser := c.Fn("contract/enterprise.serializeConf")
	des := c.Fn("contract/enterprise.deserializeConf")
	chk := c.Fn("contract/enterprise.checkArgs")
	if ser == nil || des == nil || chk == nil {
		return
	}
	constStr := func(info *types.Info, e ast.Expr) (string, bool) {
		tv, ok := info.Types[e]
		if !ok || tv.Value == nil {
			return "", false
		}
		switch tv.Value.Kind() {
		case constant.String:
			return constant.StringVal(tv.Value), true
		case constant.Int:
			if v, exact := constant.Int64Val(tv.Value); exact && v >= 0 && v < 256 {
				return string([]byte{byte(v)}), true
			}
		}
		return "", false
	}
	// writer: the single constant byte/string appended inside the loop over the values
	var wsep []string
	ast.Inspect(ser.Body, func(n ast.Node) bool {
		rs, ok := n.(*ast.RangeStmt)
		if !ok {
			return true
		}
		ast.Inspect(rs.Body, func(m ast.Node) bool {
			call, ok := m.(*ast.CallExpr)
			if !ok || !an.IsBuiltin(ser.Info(), call, "append") {
				return true
			}
			for _, a := range call.Args[1:] {
				if s, ok := constStr(ser.Info(), a); ok {
					wsep = append(wsep, s)
				}
			}
			return true
		})
		return false
	})
	// reader: the separator argument of strings.Split over the stored data
	var rsep []string
	for _, call := range an.CallsIn(des.Body) {
		if an.CalleeName(des.Info(), call) == "strings.Split" && len(call.Args) == 2 {
			if s, ok := constStr(des.Info(), call.Args[1]); ok {
				rsep = append(rsep, s)
			}
		}
	}
	// guard: strings.Contains(arg, X) / ContainsRune / ContainsAny / IndexByte on an error-returning edge of checkArgs
	var gsep []string
	for _, call := range an.CallsIn(chk.Body) {
		nm := an.CalleeName(chk.Info(), call)
		if (nm == "strings.Contains" || nm == "strings.ContainsAny" || nm == "strings.ContainsRune" || nm == "strings.IndexByte" || nm == "strings.Index") && len(call.Args) == 2 {
			if s, ok := constStr(chk.Info(), call.Args[1]); ok {
				gsep = append(gsep, s)
			}
		}
	}
	if len(wsep) != 1 || len(rsep) != 1 {
		c.Undecide("separator-agreement", "contract/enterprise.serializeConf/deserializeConf", "the value separator of the conf record was not found as one constant in writer and reader")
		return
	}
	c.Check("separator-agreement", "contract/enterprise.serializeConf~deserializeConf", des.Pos(), wsep[0] == rsep[0], "the conf record is split at the separator it was written with")
	ok := false
	for _, s := range gsep {
		if s == wsep[0] {
			ok = true
		}
	}
	c.Check("separator-agreement", "contract/enterprise.checkArgs|refuses-separator", chk.Pos(), ok, "a conf value containing the record separator ("+strings.ReplaceAll(wsep[0], "\\", "\\\\")+") is refused before it is stored (constants compared by value): otherwise the value is read back as two values and Conf.Validate indexes a fragment without ':' (panic in admission and execution)")
}

// --- C19/C09: the identifier of a produced block is taken after the header is final ---
//
// Block.BlockHash() memoises the digest in Block.Hash and no header mutator
// resets it.  The block factories finish the header after
// BlockGenerator.GenerateBlock returned (SetConfirms, Sign).  Anything that
// makes the identifier be computed earlier (a log field, a lookup) freezes the
// digest of an unfinished header: the stored and announced identifier no
// longer commits to Confirms, PubKey and Sign, and two blocks differing only
// there share one id.
func r4BlockIDAfterFinal(c *rep.Ctx) {
	p := c.Prog
	cg := p.BuildCallGraphCached()
	hashFn := p.Func("types.(*Block).BlockHash")
	if hashFn == nil {
		c.Undecide("block-id-final", "types.(*Block).BlockHash", "anchor not found")
		return
	}
	// is the hash memoised at all?  (a write of Block.Hash inside BlockHash)
	hashF := p.LookupField("types", "Block", "Hash")
	memo := false
	ast.Inspect(hashFn.Body, func(n ast.Node) bool {
		if as, ok := n.(*ast.AssignStmt); ok {
			for _, l := range as.Lhs {
				if an.FieldOf(hashFn.Info(), l) == hashF && hashF != nil {
					memo = true
				}
			}
		}
		return true
	})
	if !memo {
		c.CheckTrivial("block-id-final", "types.(*Block).BlockHash|memoised", hashFn.Pos(), true, "the identifier is recomputed on every call: no ordering obligation")
		return
	}
	reachHash := cg.MayReach(map[*an.Func]bool{hashFn: true}, func(e an.Edge) bool {
		return e.Caller != nil && an.Rel(e.Caller.Pkg.PkgPath) == "types" && e.Kind == an.EStatic
	})
	// header mutators: methods of *types.Block that assign a header field (or the header) of the receiver
	headerF := p.LookupField("types", "Block", "Header")
	isMutator := func(fn *an.Func) bool {
		if fn == nil || fn.Body == nil || an.Rel(fn.Pkg.PkgPath) != "types" {
			return false
		}
		found := false
		ast.Inspect(fn.Body, func(n ast.Node) bool {
			as, ok := n.(*ast.AssignStmt)
			if !ok {
				return true
			}
			for _, l := range as.Lhs {
				if readsField(fn.Info(), l, headerF) && headerF != nil {
					found = true
				}
			}
			return true
		})
		return found
	}
	n := 0
	for _, fname := range []string{
		"consensus/chain.(*BlockGenerator).GenerateBlock",
		"consensus/impl/dpos.(*BlockFactory).generateBlock",
		"consensus/impl/raftv2.(*BlockFactory).generateBlock",
	} {
		f := c.Fn(fname)
		if f == nil {
			continue
		}
		info := f.Info()
		g := f.Graph()
		// the block under construction: result of types.NewBlock or first result of GenerateBlock
		var blk types.Object
		for _, s := range g.CallsTo("types.NewBlock", "consensus/chain.(*BlockGenerator).GenerateBlock") {
			if o := g.ResultVarAt(s, 0); o != nil {
				blk = o
			}
		}
		if blk == nil {
			c.Undecide("block-id-final", fname, "the block under construction was not found (types.NewBlock / GenerateBlock result)")
			continue
		}
		var readers, mutators []an.Site
		for _, s := range g.Calls(func(fn *types.Func, call *ast.CallExpr) bool { return fn != nil && recvObj(info, call) == blk }) {
			cf := p.Func(an.FuncName(s.Fn))
			if cf == nil {
				continue
			}
			if reachHash[cf] {
				readers = append(readers, s)
			}
			if isMutator(cf) {
				mutators = append(mutators, s)
			}
		}
		n++
		ok := true
		var bad token.Pos
		unfinishedOnReturn := strings.HasSuffix(fname, "GenerateBlock") // its callers finish the header
		for _, r := range readers {
			if unfinishedOnReturn {
				ok, bad = false, r.Call.Pos()
				continue
			}
			for _, m := range mutators {
				if g.Reachable(r.Node, m.Node) && r.Node != m.Node {
					ok, bad = false, r.Call.Pos()
				}
			}
		}
		if bad == token.NoPos {
			bad = f.Pos()
		}
		c.Check("block-id-final", fname+"|id-after-header-final", bad, ok, "the memoised identifier of the block under construction is not computed (ID, BlockHash, BlockID ...) before the last header mutation ("+itoa(len(readers))+" identifier uses, "+itoa(len(mutators))+" header mutations here; GenerateBlock hands the block to factories that still set Confirms and sign): an identifier frozen early does not commit to the final header")
	}
	if n < 2 {
		c.Undecide("block-id-final", "block factories", "fewer block-producing functions found than on the reference tree")
	}
}

// --- C15: the lock period applies to every existing staking record, also an emptied one ---
//
// A full unstake leaves a record whose When is the unstake block and whose
// amount is the empty (non-nil) byte string of big.Int zero.  The staking lock
// "no new stake within StakingDelay of the last stake/unstake" must hold for
// it.  Decided: in the refusal guards that return ErrLessTimeHasPassed the
// existence of the record is not tested through the length / zero-ness of the
// amount.
func r4LockRecordExistence(c *rep.Ctx) {
	p := c.Prog
	errObj := p.LookupObj("types", "ErrLessTimeHasPassed")
	if errObj == nil {
		c.Undecide("lock-record", "types.ErrLessTimeHasPassed", "anchor not found")
		return
	}
	n := 0
	for _, fname := range []string{"contract/system.validateForStaking", "contract/system.validateForVote", "contract/system.validateForUnstaking"} {
		f := c.Fn(fname)
		if f == nil {
			continue
		}
		info := f.Info()
		g := f.Graph()
		for _, r := range g.Returns() {
			rs := r.Ast.(*ast.ReturnStmt)
			isLock := false
			for _, res := range rs.Results {
				if an.ObjOf(info, res) == errObj {
					isLock = true
				}
				if sel, isSel := ast.Unparen(res).(*ast.SelectorExpr); isSel && info.Uses[sel.Sel] == errObj {
					isLock = true
				}
			}
			if !isLock {
				continue
			}
			n++
			// the branch conditions that directly lead to this return
			ok := true
			what := ""
			// the innermost branch outcome that leads to this refusal
			var inner ast.Expr
			for _, nd := range g.Nodes {
				if (nd.Kind != an.KTrue && nd.Kind != an.KFalse) || !g.Dominated(r, an.SetOf(nd)) {
					continue
				}
				if cond, isE := nd.Ast.(ast.Expr); isE && (inner == nil || cond.Pos() > inner.Pos()) {
					inner = cond
				}
			}
			if inner != nil {
				cond := inner
				ast.Inspect(cond, func(m ast.Node) bool {
					call, isCall := m.(*ast.CallExpr)
					if !isCall {
						return true
					}
					amountLike := func(e ast.Expr) bool {
						s := an.ExprString(e)
						return strings.Contains(s, "Amount")
					}
					if an.IsBuiltin(info, call, "len") && len(call.Args) == 1 && amountLike(call.Args[0]) {
						ok, what = false, an.ExprString(call)
					}
					nm := an.CalleeName(info, call)
					if (nm == "math/big.(*Int).Sign" || nm == "math/big.(*Int).Cmp") && amountLike(call.Fun) {
						ok, what = false, an.ExprString(call)
					}
					return true
				})
			}
			key := fname + "|lock-refusal"
			c.Check("lock-record", key, rs.Pos(), ok, "whether a stake / vote record exists is decided by nil-ness, not by the length or sign of its amount ("+what+"): a fully unstaked record keeps its time stamp with an empty amount and must still be locked for the delay")
		}
	}
	if n < 3 {
		c.Undecide("lock-record", "contract/system.validateFor*", "fewer lock refusals (ErrLessTimeHasPassed) than on the reference tree")
	}
}
