package props

import (
	"go/ast"
	"go/token"
	"go/types"

	"verif/checker/internal/an"
	"verif/checker/internal/rep"
)

// C11 — Merkle proofs: accept only after comparing with the root; leaf-hash
// domain separation agreement; proof assembly in statedb.
//
// Decided (shape of the code only):
//
//	root-compare     every accepting return of the Verify* functions is
//	                 bytes.Equal(s.Root, recomputed) or follows a Verify* call
//	                 that returned true
//	path-loop        non-inclusion by a foreign leaf also walks every bit of the
//	                 proof path: for b = 0; b < pathLength; b++ comparing
//	                 bitIsSet(key,b) with bitIsSet(proofKey,b)
//	nonincl-branch   the DefaultLeaf arm is taken exactly for an empty proofKey;
//	                 the foreign-leaf arm verifies (proofKey, value), the
//	                 DefaultLeaf arm walks the path of the key asked for
//	nonincl-distinct the foreign leaf's key differs from the key asked for
//	nonincl-width    the prover-supplied foreign key and value are HashLength wide
//	leaf-domain      every three-operand call of the trie hash has the height
//	                 byte as third operand; the verifiers use TrieHeight minus the
//	                 length of the very path they recompute; the key hashed into
//	                 the leaf is the key whose path is walked
//	side-agreement   in the recomputation the running hash is the right operand
//	                 exactly when the key bit is set (generator: interiorHash
//	                 (left,right)); the compressed form takes ap[..] when the
//	                 bitmap bit is set and DefaultLeaf otherwise; recursion
//	                 terminates at keyIndex == path length with the leaf hash
//	proof-sibling    merkleProof descends to the right child when the key bit is
//	                 set and appends the other child (or DefaultLeaf)
//	inclusion-claim  merkleProof claims inclusion only after bytes.Equal(stored
//	                 key, key)
//	proof-passthrough the compressed proof returns merkleProof's included /
//	                 proofKey / proofVal unchanged, height = len(full path), and
//	                 sets a bitmap bit exactly for the non-default nodes it keeps
//	trie-query       TrieQuery routes each MerkleProof* result to its own result
//	proof-assembly   GetAccountAndProof / GetVarAndProof fill every proof field
//	                 from TrieQuery's results unmodified, clear ProofVal only on
//	                 the inclusion arm, load the payload by that key before
//	err-before-use   consumers touch the returned proof only after err == nil
//	key-width        every key handed to the trie's Get / MerkleProof entry
//	                 points is provably HashLength bytes wide

func init() { register("C11", runC11) }

// c11PathLenArg: for the two recomputation helpers and the two inclusion
// verifiers, which argument carries the audit path (its len is the path
// length) or the explicit path length, and which the key / the leaf.
var c11Shape = map[string]struct {
	key, leaf int  // argument index of the key and of the leaf hash / value
	pathArg   int  // argument that determines the path length
	pathIsLen bool // true: len(arg), false: the argument itself
	starts    []int
}{
	"pkg/trie.(*Trie).verifyInclusion":  {key: 2, leaf: 3, pathArg: 0, pathIsLen: true, starts: []int{1}},
	"pkg/trie.(*Trie).verifyInclusionC": {key: 1, leaf: 2, pathArg: 4, pathIsLen: false, starts: []int{5, 6}},
	"pkg/trie.(*Trie).VerifyInclusion":  {key: 1, leaf: 2, pathArg: 0, pathIsLen: true},
	"pkg/trie.(*Trie).VerifyInclusionC": {key: 1, leaf: 2, pathArg: 4, pathIsLen: false},
}

// c11KeyWidthAccepted: functions whose result is a HashLength-wide byte slice.
var c11HashFuncs = map[string]string{
	"internal/common.Hasher": "sha256 digest",
	"types.(HashID).Bytes":   "32-byte id (nil for the all-zero id, which no account or variable hashes to)",
}

func runC11(c *rep.Ctx) {
	c.Explain = "Structural decision of the Merkle proof code: each accepting return of VerifyInclusion/VerifyNonInclusion (plain and compressed) is the comparison of Trie.Root with the recomputed root or follows an accepting Verify call, and the foreign-leaf arm additionally walks every bit of the path; all leaf hashes (generator and verifiers) take the height byte as third operand and the verifiers derive it from the length of the path they recompute; left/right operand order, bitmap use and sibling selection agree between generator and verifier; statedb hands the trie's proof fields through unmodified into AccountProof/ContractVarProof; consumers dereference a proof only when err is nil and hand 32-byte keys to the trie. The shape of the code is decided, not the hash algebra."
	c.NotDecided = []string{
		"soundness/completeness proper (collision resistance, hash algebra)",
		"index arithmetic ap[len(ap)-keyIndex-1], length-keyIndex-1 and TrieHeight-height (numerical agreement of bit positions between generator and verifier)",
		"which []byte parameter is the root and which the key in MerkleProofR/merkleProofCompressed (same type; roles only by name)",
		"proofs against an empty root: TrieQuery treats an empty root as `latest trie of this StateDB`, so GetVarAndProof for a contract with an empty storage root answers from the account trie (see report)",
	}
	c.Assume = []string{
		"types.HashID.Bytes() is 32 bytes wide except for the all-zero id",
		"keys returned by Trie.GetKeys are HashLength wide (they were inserted)",
	}
	p := c.Prog
	if p.Pkg(c10TriePkg) == nil || p.Pkg(c10StatePkg) == nil {
		c.Undecide("anchor", "packages", "pkg/trie or state/statedb not loaded")
		return
	}
	c11Verifiers(c)
	c11LeafDomain(c)
	c11Recompute(c)
	c11Generator(c)
	c11TrieQuery(c)
	c11Assembly(c)
	c11Consumers(c)
	c11KeyWidth(c)
}

// c11CallName names the callee of a call: a function/method, or a
// package-level variable of function type (common.Hasher is one).
func c11CallName(info *types.Info, call *ast.CallExpr) string {
	if n := an.CalleeName(info, call); n != "" {
		return n
	}
	var id *ast.Ident
	switch x := ast.Unparen(call.Fun).(type) {
	case *ast.Ident:
		id = x
	case *ast.SelectorExpr:
		id = x.Sel
	}
	if id == nil {
		return ""
	}
	if v, ok := info.Uses[id].(*types.Var); ok && v.Pkg() != nil && v.Parent() == v.Pkg().Scope() {
		return an.Rel(v.Pkg().Path()) + "." + v.Name()
	}
	return ""
}

func c11IsConstBool(info *types.Info, e ast.Expr, v string) bool {
	tv, ok := info.Types[e]
	return ok && tv.Value != nil && tv.Value.ExactString() == v
}

func c11RecvObj(f *an.Func) types.Object {
	if f.Decl == nil || f.Decl.Recv == nil || len(f.Decl.Recv.List) != 1 || len(f.Decl.Recv.List[0].Names) != 1 {
		return nil
	}
	return f.Info().Defs[f.Decl.Recv.List[0].Names[0]]
}

// c11BoolVerifiers: exported methods of *Trie with result (bool).
func c11BoolVerifiers(c *rep.Ctx) []*an.Func {
	var out []*an.Func
	for _, f := range c.Prog.Funcs() {
		if an.Rel(f.Pkg.PkgPath) != c10TriePkg || f.Obj == nil || !f.Obj.Exported() || f.Body == nil || f.Decl.Recv == nil {
			continue
		}
		sig := f.Obj.Type().(*types.Signature)
		if sig.Results().Len() != 1 {
			continue
		}
		if b, ok := sig.Results().At(0).Type().(*types.Basic); !ok || b.Kind() != types.Bool {
			continue
		}
		// receiver *Trie, and an audit path ([][]byte) among the parameters
		rt := sig.Recv().Type()
		if pt, ok := rt.(*types.Pointer); ok {
			rt = pt.Elem()
		}
		if nt, ok := rt.(*types.Named); !ok || nt.Obj().Name() != "Trie" {
			continue
		}
		hasAP := false
		for i := 0; i < sig.Params().Len(); i++ {
			if types.TypeString(sig.Params().At(i).Type(), nil) == "[][]byte" {
				hasAP = true
			}
		}
		if !hasAP {
			continue
		}
		out = append(out, f)
	}
	return out
}

// c11PathLenMatches: e is the path length of the call `call` of a shaped
// function: len(arg) or the arg itself.
func c11PathLenMatches(info *types.Info, e ast.Expr, call *ast.CallExpr, name string) bool {
	sh, ok := c11Shape[name]
	if !ok || sh.pathArg >= len(call.Args) {
		return false
	}
	want := an.ObjOf(info, call.Args[sh.pathArg])
	if want == nil {
		return false
	}
	e = ast.Unparen(e)
	if sh.pathIsLen {
		lc, ok := e.(*ast.CallExpr)
		return ok && an.IsBuiltin(info, lc, "len") && len(lc.Args) == 1 && an.ObjOf(info, lc.Args[0]) == want
	}
	return an.ObjOf(info, e) == want
}

func c11Verifiers(c *rep.Ctx) {
	p := c.Prog
	rootF := p.LookupField(c10TriePkg, "Trie", "Root")
	defLeaf := p.LookupObj(c10TriePkg, "DefaultLeaf")
	vs := c11BoolVerifiers(c)
	c.CheckTrivial("root-compare", "verifier-count", token.NoPos, len(vs) >= 4, itoa(len(vs))+" exported bool-returning methods of Trie (the proof verifiers; reference tree: 4)")
	if len(vs) < 4 || rootF == nil || defLeaf == nil {
		c.Undecide("root-compare", "anchors", "verifiers, Trie.Root or DefaultLeaf not found")
		return
	}
	isVerifier := map[string]bool{}
	for _, f := range vs {
		isVerifier[f.Name()] = true
	}
	for _, f := range vs {
		g := f.Graph()
		info := f.Info()
		recv := c11RecvObj(f)
		// the recomputations compared with the root in this function
		type rc struct {
			site an.Site
			node *an.Node
		}
		var rootCompares []rc
		var acceptTrue []*an.Node
		k := 0
		for _, r := range g.Returns() {
			rs := r.Ast.(*ast.ReturnStmt)
			if len(rs.Results) != 1 {
				c.Check("root-compare", f.Name()+"|return", rs.Pos(), false, "bare return in a verifier")
				continue
			}
			e := ast.Unparen(rs.Results[0])
			if c11IsConstBool(info, e, "false") {
				continue
			}
			k++
			if c11IsConstBool(info, e, "true") {
				acceptTrue = append(acceptTrue, r)
				continue
			}
			call, isCall := e.(*ast.CallExpr)
			ok := false
			if isCall && an.CalleeName(info, call) == "bytes.Equal" && len(call.Args) == 2 {
				for _, pr := range [][2]ast.Expr{{call.Args[0], call.Args[1]}, {call.Args[1], call.Args[0]}} {
					if an.FieldOf(info, pr[0]) != rootF {
						continue
					}
					if sel, isSel := ast.Unparen(pr[0]).(*ast.SelectorExpr); !isSel || an.ObjOf(info, sel.X) != recv || recv == nil {
						continue
					}
					rcall, isR := ast.Unparen(pr[1]).(*ast.CallExpr)
					if !isR {
						continue
					}
					if _, shaped := c11Shape[an.CalleeName(info, rcall)]; shaped && !isVerifier[an.CalleeName(info, rcall)] {
						ok = true
						rootCompares = append(rootCompares, rc{an.Site{Node: r, Call: rcall, Fn: an.Callee(info, rcall)}, r})
					}
				}
			}
			c.Check("root-compare", f.Name()+"|root-equal", rs.Pos(), ok, "an accepting result is bytes.Equal(s.Root, <root recomputed from the proof>) on the receiver's own Root")
		}
		if k == 0 {
			c.Check("root-compare", f.Name()+"|no-accept", f.Pos(), false, "verifier without any accepting return")
		}
		// `return true`: after an accepting Verify* call, and after the key-path loop
		var innerSites []an.Site
		for _, s := range g.Calls(func(fn *types.Func, _ *ast.CallExpr) bool { return fn != nil && isVerifier[an.FuncName(fn)] }) {
			innerSites = append(innerSites, s)
		}
		for _, r := range acceptTrue {
			rs := r.Ast.(*ast.ReturnStmt)
			okV := false
			var inner an.Site
			for _, s := range innerSites {
				e := g.BoolEdges(s, true)
				if len(e) > 0 && g.Dominated(r, e) {
					okV = true
					inner = s
				}
			}
			c.Check("root-compare", f.Name()+"|accept-after-inclusion", rs.Pos(), okV, "`return true` is reached only on the edge on which a Verify* call (itself ending in the root comparison) returned true")
			if !okV {
				continue
			}
			c11PathLoop(c, f, g, r, inner)
			// the foreign leaf must be a different key of the right width
			ish := c11Shape[an.CalleeName(info, inner.Call)]
			pk := an.ObjOf(info, inner.Call.Args[ish.key])
			val := an.ObjOf(info, inner.Call.Args[ish.leaf])
			var key types.Object
			for _, x := range rootCompares {
				sh := c11Shape[an.CalleeName(info, x.site.Call)]
				if sh.leaf < len(x.site.Call.Args) && an.ObjOf(info, x.site.Call.Args[sh.leaf]) == defLeaf {
					key = an.ObjOf(info, x.site.Call.Args[sh.key])
				}
			}
			distinct := false
			for _, es := range g.CallsTo("bytes.Equal") {
				if len(es.Call.Args) != 2 {
					continue
				}
				a, b := an.ObjOf(info, es.Call.Args[0]), an.ObjOf(info, es.Call.Args[1])
				if key == nil || pk == nil || !((a == key && b == pk) || (a == pk && b == key)) {
					continue
				}
				if ne := g.BoolEdges(es, false); len(ne) > 0 && g.Dominated(r, ne) {
					distinct = true
				}
			}
			c.Check("nonincl-distinct", f.Name(), rs.Pos(), distinct, "non-inclusion by a foreign leaf is accepted only when the proof key is known to differ from the requested key (bytes.Equal(key, proofKey) false): otherwise the key's own leaf, which proves its presence, is accepted as proof of its absence")
			hl, _ := c.Prog.LookupObj(c10TriePkg, "HashLength").(*types.Const)
			widthAt := func(e ast.Expr) (string, bool, bool) {
				be, ok := ast.Unparen(e).(*ast.BinaryExpr)
				if !ok || hl == nil {
					return "", false, false
				}
				lc, isCall := ast.Unparen(be.X).(*ast.CallExpr)
				tv, has := info.Types[be.Y]
				if !isCall || !has || tv.Value == nil || tv.Value.ExactString() != hl.Val().ExactString() || !an.IsBuiltin(info, lc, "len") || len(lc.Args) != 1 {
					return "", false, false
				}
				name := ""
				switch an.ObjOf(info, lc.Args[0]) {
				case pk:
					name = "WK"
				case val:
					name = "WV"
				default:
					return "", false, false
				}
				switch be.Op {
				case token.EQL:
					return name, false, true
				case token.NEQ:
					return name, true, true
				}
				return "", false, false
			}
			wide, _ := g.GuardedAt(r, widthAt, map[string]bool{"WK": true, "WV": true})
			c.Check("nonincl-width", f.Name(), rs.Pos(), wide && pk != nil && val != nil, "the foreign leaf's key and value, both supplied by the prover, are known to be HashLength bytes wide before the proof is accepted: the leaf pre-image key|value|height is told apart from an interior pre-image left|right only by its length")
		}
		// nonincl-branch: the DefaultLeaf arm
		for _, x := range rootCompares {
			name := an.CalleeName(info, x.site.Call)
			sh := c11Shape[name]
			if sh.leaf >= len(x.site.Call.Args) || an.ObjOf(info, x.site.Call.Args[sh.leaf]) != defLeaf {
				continue
			}
			if len(innerSites) == 0 {
				c.Check("nonincl-branch", f.Name()+"|default-leaf-arm", x.site.Call.Pos(), false, "a DefaultLeaf recomputation in a verifier without a foreign-leaf arm")
				continue
			}
			inner := innerSites[0]
			ish := c11Shape[an.CalleeName(info, inner.Call)]
			pk := an.ObjOf(info, inner.Call.Args[ish.key])
			key := an.ObjOf(info, x.site.Call.Args[sh.key])
			// taken exactly when len(proofKey) == 0
			at := func(e ast.Expr) (string, bool, bool) {
				be, ok := ast.Unparen(e).(*ast.BinaryExpr)
				if !ok {
					return "", false, false
				}
				lc, isCall := ast.Unparen(be.X).(*ast.CallExpr)
				cv, isC := c10ConstInt(info, be.Y)
				if !isCall || !isC || !an.IsBuiltin(info, lc, "len") || len(lc.Args) != 1 || an.ObjOf(info, lc.Args[0]) != pk {
					return "", false, false
				}
				switch {
				case cv == 0 && be.Op == token.EQL, cv == 1 && be.Op == token.LSS, cv == 0 && be.Op == token.LEQ:
					return "E", false, true
				case cv == 0 && (be.Op == token.NEQ || be.Op == token.GTR), cv == 1 && be.Op == token.GEQ:
					return "E", true, true
				}
				return "", false, false
			}
			g1, _ := g.GuardedAt(x.node, at, map[string]bool{"E": true})
			g2, _ := g.GuardedAt(inner.Node, at, map[string]bool{"E": false})
			ok := pk != nil && key != nil && pk != key && c10IsParam(f, pk) && c10IsParam(f, key) && g1 && g2
			// the foreign leaf is verified with the caller's value parameter
			val := an.ObjOf(info, inner.Call.Args[ish.leaf])
			ok = ok && val != nil && c10IsParam(f, val) && val != pk && val != key
			// same path for both arms
			ok = ok && an.ObjOf(info, inner.Call.Args[ish.pathArg]) == an.ObjOf(info, x.site.Call.Args[sh.pathArg])
			c.Check("nonincl-branch", f.Name()+"|default-leaf-arm", x.site.Call.Pos(), ok, "the DefaultLeaf recomputation walks the path of the requested key and is taken exactly when len(proofKey) == 0; otherwise (proofKey, value) is verified as an included leaf over the same audit path")
		}
	}
	c.Floor("root-compare", 6)
	c.Floor("path-loop", 2)
	c.Floor("nonincl-branch", 2)
	c.Floor("nonincl-distinct", 2)
	c.Floor("nonincl-width", 2)
}

// c11PathLoop: ret (`return true`) is dominated by the exhausted key-path loop.
func c11PathLoop(c *rep.Ctx, f *an.Func, g *an.Graph, ret *an.Node, inner an.Site) {
	info := f.Info()
	construct := f.Name() + "|key-path"
	iname := an.CalleeName(info, inner.Call)
	ish := c11Shape[iname]
	pk := an.ObjOf(info, inner.Call.Args[ish.key])
	var loops []*ast.ForStmt
	an.InspectShallow(f.Body, func(n ast.Node) bool {
		if fs, ok := n.(*ast.ForStmt); ok {
			loops = append(loops, fs)
		}
		return true
	})
	okAny := false
	why := "no for loop found"
	for _, fs := range loops {
		why = ""
		cond, isBin := ast.Unparen(fs.Cond).(*ast.BinaryExpr)
		if fs.Cond == nil || !isBin || cond.Op != token.LSS {
			why = "loop condition is not `b < pathLength`"
			continue
		}
		b := an.ObjOf(info, cond.X)
		if b == nil || !c11PathLenMatches(info, cond.Y, inner.Call, iname) {
			why = "loop bound is not the length of the audit path that was verified"
			continue
		}
		// init b = 0, post b++
		initOK := false
		if as, ok := fs.Init.(*ast.AssignStmt); ok && len(as.Lhs) == 1 && len(as.Rhs) == 1 && an.ObjOf(info, as.Lhs[0]) == b {
			if v, isC := c10ConstInt(info, as.Rhs[0]); isC && v == 0 {
				initOK = true
			}
		}
		postOK := false
		if id, ok := fs.Post.(*ast.IncDecStmt); ok && id.Tok == token.INC && an.ObjOf(info, id.X) == b {
			postOK = true
		}
		if !initOK || !postOK {
			why = "loop does not run b = 0; ...; b++"
			continue
		}
		// no other assignment of b inside the body
		for _, m := range g.Nodes {
			if m.Kind == an.KStmt && m.Ast != nil && m.Ast.Pos() >= fs.Body.Pos() && m.Ast.End() <= fs.Body.End() && an.Assigns(info, m.Ast, b) {
				why = "loop variable assigned inside the loop"
			}
		}
		// the body rejects when the bits differ
		rejects := false
		var keyObj types.Object
		an.InspectShallow(fs.Body, func(n ast.Node) bool {
			is, ok := n.(*ast.IfStmt)
			if !ok {
				return true
			}
			be, ok := ast.Unparen(is.Cond).(*ast.BinaryExpr)
			if !ok || be.Op != token.NEQ {
				return true
			}
			l, lok := ast.Unparen(be.X).(*ast.CallExpr)
			r, rok := ast.Unparen(be.Y).(*ast.CallExpr)
			if !lok || !rok || an.CalleeName(info, l) != "pkg/trie.bitIsSet" || an.CalleeName(info, r) != "pkg/trie.bitIsSet" || len(l.Args) != 2 || len(r.Args) != 2 {
				return true
			}
			if an.ObjOf(info, l.Args[1]) != b || an.ObjOf(info, r.Args[1]) != b {
				return true
			}
			lo, ro := an.ObjOf(info, l.Args[0]), an.ObjOf(info, r.Args[0])
			if lo == pk {
				lo, ro = ro, lo
			}
			if ro != pk || lo == pk || lo == nil || !c10IsParam(f, lo) {
				return true
			}
			// the if body returns false first thing
			if len(is.Body.List) >= 1 {
				if rs, ok := is.Body.List[0].(*ast.ReturnStmt); ok && len(rs.Results) == 1 && c11IsConstBool(info, rs.Results[0], "false") {
					rejects = true
					keyObj = lo
				}
			}
			return true
		})
		if !rejects {
			if why == "" {
				why = "loop body does not return false when bitIsSet(key,b) != bitIsSet(proofKey,b)"
			}
			continue
		}
		// ret is dominated by the loop's exit edge (condition false)
		cn := g.NodeOf(fs.Cond)
		exit := an.Set{}
		if cn != nil {
			for _, s := range cn.Succs {
				if s.Kind == an.KFalse {
					exit[s] = true
				}
			}
		}
		if len(exit) == 0 || !g.Dominated(ret, exit) {
			why = "`return true` is reachable without exhausting the loop"
			continue
		}
		// the key compared is the key of the DefaultLeaf arm (the key asked for), not the proof key
		_ = keyObj
		if why == "" {
			okAny = true
		}
	}
	msg := "after the foreign leaf was verified, `return true` is reached only when the loop b = 0; b < path length; b++ found bitIsSet(key,b) == bitIsSet(proofKey,b) for every bit of the path"
	if !okAny {
		msg += " — NOT established: " + why
	}
	c.Check("path-loop", construct, ret.Ast.Pos(), okAny, msg)
}

// ---------------------------------------------------------------------------
// leaf-domain

func c11LeafDomain(c *rep.Ctx) {
	p := c.Prog
	hashField := p.LookupField(c10TriePkg, "Trie", "hash")
	heightF := p.LookupField(c10TriePkg, "Trie", "TrieHeight")
	if hashField == nil || heightF == nil {
		c.Undecide("leaf-domain", "Trie.hash/TrieHeight", "not found")
		return
	}
	n3, n2 := 0, 0
	for _, f := range c10AllFuncs(p) {
		info := f.Info()
		var g *an.Graph
		an.InspectShallow(f.Body, func(n ast.Node) bool {
			call, ok := n.(*ast.CallExpr)
			if !ok || !c10HashCall(info, call, hashField) {
				return true
			}
			construct := f.Name() + "|hash/" + itoa(len(call.Args))
			if call.Ellipsis.IsValid() {
				c.Check("leaf-domain", construct, call.Pos(), false, "trie hash called with a spread slice: the operand count (2 = interior, 3 = leaf) is not visible")
				return true
			}
			switch len(call.Args) {
			case 1:
				// NewTrie's probe of the digest size
				if an.Rel(f.Pkg.PkgPath) == c10TriePkg && f.Name() == "pkg/trie.NewTrie" {
					return true
				}
				c.Check("leaf-domain", construct, call.Pos(), false, "one-operand trie hash outside the constructor")
			case 2:
				n2++
				if fl, has := c11NodeFlag(info, f, call); has && fl != 0 {
					c.Check("leaf-domain", construct, call.Pos(), false, "a two-operand (interior) hash is flagged as a shortcut leaf (flag byte 1): a leaf hash must carry the height byte")
					return true
				}
				c.CheckTrivial("leaf-domain", construct, call.Pos(), true, "interior hash: two operands")
			case 3:
				n3++
				if fl, has := c11NodeFlag(info, f, call); has && fl != 1 {
					c.Check("leaf-domain", construct, call.Pos(), false, "a three-operand (leaf) hash is flagged as an interior node (flag byte 0)")
					return true
				}
				// third operand: []byte{byte(E)}
				var E ast.Expr
				if cl, ok := ast.Unparen(call.Args[2]).(*ast.CompositeLit); ok && len(cl.Elts) == 1 {
					if conv, ok := ast.Unparen(cl.Elts[0]).(*ast.CallExpr); ok && len(conv.Args) == 1 {
						if tv, has := info.Types[conv.Fun]; has && tv.IsType() {
							if b, isB := tv.Type.Underlying().(*types.Basic); isB && b.Kind() == types.Uint8 {
								E = ast.Unparen(conv.Args[0])
							}
						}
					}
				}
				if E == nil {
					c.Check("leaf-domain", construct, call.Pos(), false, "leaf hash whose third operand is not the single height byte []byte{byte(height)}")
					return true
				}
				if g == nil {
					g = f.Graph()
				}
				ok, how := false, ""
				// a leaf hash that is fed to a root recomputation belongs to a verifier
				feeds := false
				if hv := c11AssignedVar(info, f, call); hv != nil {
					for _, s := range g.Calls(func(fn *types.Func, _ *ast.CallExpr) bool {
						if fn == nil {
							return false
						}
						_, shaped := c11Shape[an.FuncName(fn)]
						return shaped
					}) {
						sh := c11Shape[an.CalleeName(info, s.Call)]
						if sh.leaf < len(s.Call.Args) && an.ObjOf(info, s.Call.Args[sh.leaf]) == hv {
							feeds = true
						}
					}
				}
				if o := an.ObjOf(info, E); o != nil && c10IsParam(f, o) && !feeds {
					// generator: the height parameter, which is also what decides where the batch is stored
					if b, isB := o.Type().Underlying().(*types.Basic); isB && b.Kind() == types.Int {
						ok, how = true, "generator: height parameter"
					}
				} else if be, isBin := E.(*ast.BinaryExpr); isBin && be.Op == token.SUB && an.FieldOf(info, be.X) == heightF {
					// verifier: TrieHeight - path length of the recomputation this leaf is fed to
					hv := c11AssignedVar(info, f, call)
					for _, s := range g.Calls(func(fn *types.Func, _ *ast.CallExpr) bool {
						if fn == nil {
							return false
						}
						_, shaped := c11Shape[an.FuncName(fn)]
						return shaped
					}) {
						name := an.CalleeName(info, s.Call)
						sh := c11Shape[name]
						if sh.leaf >= len(s.Call.Args) || hv == nil || an.ObjOf(info, s.Call.Args[sh.leaf]) != hv {
							continue
						}
						if !c11PathLenMatches(info, be.Y, s.Call, name) {
							how = "height byte is not TrieHeight minus the length of the path recomputed"
							continue
						}
						// same key hashed and walked; recursion starts at 0
						if c10RootObj(info, call.Args[0]) != an.ObjOf(info, s.Call.Args[sh.key]) {
							how = "the key hashed into the leaf is not the key whose path is recomputed"
							continue
						}
						zero := true
						for _, si := range sh.starts {
							if v, isC := c10ConstInt(info, s.Call.Args[si]); !isC || v != 0 {
								zero = false
							}
						}
						if !zero {
							how = "the recomputation does not start at index 0"
							continue
						}
						ok, how = true, "verifier: TrieHeight - path length of the recomputation it feeds"
					}
					if how == "" {
						how = "the leaf hash is not handed to a root recomputation"
					}
				} else {
					how = "height operand is neither a height parameter nor TrieHeight - path length"
				}
				c.Check("leaf-domain", construct, call.Pos(), ok, "leaf hash = hash(key, value, []byte{byte(height)}): "+how)
			default:
				c.Check("leaf-domain", construct, call.Pos(), false, "trie hash with "+itoa(len(call.Args))+" operands: neither interior (2) nor leaf (3)")
			}
			return true
		})
	}
	if n3 < 4 || n2 < 8 {
		c.Undecide("leaf-domain", "count", "expected at least 4 leaf and 8 interior hash calls, found "+itoa(n3)+"/"+itoa(n2))
	}
}

// c11NodeFlag: the hash result h is extended by append(h, byte(flag)) in the
// same function (1 = shortcut leaf, 0 = interior node).
func c11NodeFlag(info *types.Info, f *an.Func, call *ast.CallExpr) (int64, bool) {
	h := c11AssignedVar(info, f, call)
	if h == nil {
		return 0, false
	}
	var flag int64
	found := false
	an.InspectShallow(f.Body, func(n ast.Node) bool {
		as, ok := n.(*ast.AssignStmt)
		if !ok || len(as.Lhs) != 1 || len(as.Rhs) != 1 || an.ObjOf(info, as.Lhs[0]) != h {
			return true
		}
		ap, ok := ast.Unparen(as.Rhs[0]).(*ast.CallExpr)
		if !ok || !an.IsBuiltin(info, ap, "append") || len(ap.Args) != 2 || an.ObjOf(info, ap.Args[0]) != h {
			return true
		}
		if v, isC := c10ConstInt(info, ap.Args[1]); isC {
			flag, found = v, true
		}
		return true
	})
	return flag, found
}

// c11AssignedVar: v := <call> / v = <call>  -> v.
func c11AssignedVar(info *types.Info, f *an.Func, call *ast.CallExpr) types.Object {
	var out types.Object
	an.InspectShallow(f.Body, func(n ast.Node) bool {
		as, ok := n.(*ast.AssignStmt)
		if !ok || len(as.Lhs) != len(as.Rhs) {
			return true
		}
		for i, r := range as.Rhs {
			if ast.Unparen(r) == ast.Expr(call) {
				out = an.ObjOf(info, as.Lhs[i])
			}
		}
		return true
	})
	return out
}

// ---------------------------------------------------------------------------
// side-agreement: the recomputation helpers

func c11Recompute(c *rep.Ctx) {
	p := c.Prog
	hashField := p.LookupField(c10TriePkg, "Trie", "hash")
	defLeaf := p.LookupObj(c10TriePkg, "DefaultLeaf")
	for _, name := range []string{"pkg/trie.(*Trie).verifyInclusion", "pkg/trie.(*Trie).verifyInclusionC"} {
		f := c.Fn(name)
		if f == nil {
			continue
		}
		sh := c11Shape[name]
		g := f.Graph()
		info := f.Info()
		key := c10ParamAt(f, sh.key)
		leaf := c10ParamAt(f, sh.leaf)
		idx := c10ParamAt(f, sh.starts[0])
		var apObj, apIdx, bitmap types.Object
		if name == "pkg/trie.(*Trie).verifyInclusion" {
			apObj = c10ParamAt(f, 0)
		} else {
			apObj = c10ParamAt(f, 3)
			apIdx = c10ParamAt(f, 6)
			bitmap = c10ParamAt(f, 0)
		}
		atom := func(e ast.Expr) (string, bool, bool) {
			call, ok := ast.Unparen(e).(*ast.CallExpr)
			if !ok || an.CalleeName(info, call) != "pkg/trie.bitIsSet" || len(call.Args) != 2 {
				return "", false, false
			}
			switch an.ObjOf(info, call.Args[0]) {
			case key:
				if an.ObjOf(info, call.Args[1]) == idx {
					return "K", false, true
				}
			case bitmap:
				if bitmap != nil {
					return "B", false, true
				}
			}
			return "", false, false
		}
		nh := 0
		for _, s := range g.Calls(func(_ *types.Func, call *ast.CallExpr) bool { return c10HashCall(info, call, hashField) }) {
			if len(s.Call.Args) != 2 {
				continue
			}
			nh++
			rec := -1
			var recCall *ast.CallExpr
			for i, a := range s.Call.Args {
				if rc, ok := ast.Unparen(a).(*ast.CallExpr); ok && an.CalleeName(info, rc) == name {
					rec = i
					recCall = rc
				}
			}
			construct := name + "|hash#" + itoa(nh)
			if rec < 0 {
				c.Check("side-agreement", construct, s.Call.Pos(), false, "an interior hash of the recomputation without the recursive call as operand")
				continue
			}
			wantBit := rec == 1 // running hash on the right <=> key bit set
			okK, _ := g.GuardedAt(s.Node, atom, map[string]bool{"K": wantBit})
			sib := c10RootObj(info, s.Call.Args[1-rec])
			ok := okK
			// recursion advances the key index by one, keeps key / leaf / path
			adv := false
			if len(recCall.Args) > sh.starts[0] {
				if be, isBin := ast.Unparen(recCall.Args[sh.starts[0]]).(*ast.BinaryExpr); isBin && be.Op == token.ADD && an.ObjOf(info, be.X) == idx {
					if v, isC := c10ConstInt(info, be.Y); isC && v == 1 {
						adv = true
					}
				}
			}
			ok = ok && adv && an.ObjOf(info, recCall.Args[sh.key]) == key && an.ObjOf(info, recCall.Args[sh.leaf]) == leaf
			if bitmap == nil {
				ok = ok && sib == apObj
			} else {
				// sibling from the audit path exactly when the bitmap bit is set
				inAP := sib == apObj
				okB, _ := g.GuardedAt(s.Node, atom, map[string]bool{"B": inAP})
				ok = ok && okB && (inAP || sib == defLeaf)
				// the audit-path cursor advances exactly when an element was consumed
				if len(recCall.Args) > 6 {
					a := ast.Unparen(recCall.Args[6])
					if inAP {
						be, isBin := a.(*ast.BinaryExpr)
						v, isC := int64(0), false
						if isBin {
							v, isC = c10ConstInt(info, be.Y)
						}
						ok = ok && isBin && be.Op == token.ADD && an.ObjOf(info, be.X) == apIdx && isC && v == 1
					} else {
						ok = ok && an.ObjOf(info, a) == apIdx
					}
				}
			}
			c.Check("side-agreement", construct, s.Call.Pos(), ok, "the running hash is the right operand exactly when the key bit at keyIndex is set (as interiorHash hashes (left, right)); the sibling comes from the audit path (compressed: exactly when the bitmap bit is set, DefaultLeaf otherwise); the recursion advances keyIndex by one with the same key and leaf")
		}
		// base case: keyIndex == path length returns the leaf
		okBase := false
		for _, r := range g.Returns() {
			rs := r.Ast.(*ast.ReturnStmt)
			if len(rs.Results) != 1 || an.ObjOf(info, rs.Results[0]) != leaf {
				continue
			}
			for _, ft := range g.FactsAt(r) {
				be, ok := ast.Unparen(ft.Cond).(*ast.BinaryExpr)
				if !ok || !ft.Val || (be.Op != token.EQL && be.Op != token.GEQ) || an.ObjOf(info, be.X) != idx {
					continue
				}
				y := ast.Unparen(be.Y)
				if sh.pathIsLen {
					if lc, ok := y.(*ast.CallExpr); ok && an.IsBuiltin(info, lc, "len") && len(lc.Args) == 1 && an.ObjOf(info, lc.Args[0]) == c10ParamAt(f, sh.pathArg) {
						okBase = true
					}
				} else if an.ObjOf(info, y) == c10ParamAt(f, sh.pathArg) {
					okBase = true
				}
			}
		}
		c.Check("side-agreement", name+"|base", f.Pos(), okBase, "the recursion ends with the leaf hash exactly at keyIndex == path length")
	}
	c.Floor("side-agreement", 7)
}

// ---------------------------------------------------------------------------
// generator: merkleProof / merkleProofCompressed

func c11Generator(c *rep.Ctx) {
	p := c.Prog
	defLeaf := p.LookupObj(c10TriePkg, "DefaultLeaf")
	heightF := p.LookupField(c10TriePkg, "Trie", "TrieHeight")
	if f := c.Fn("pkg/trie.(*Trie).merkleProof"); f != nil {
		g := f.Graph()
		info := f.Info()
		loads := g.CallsTo("pkg/trie.(*Trie).loadChildren")
		key := c10ParamAt(f, 1)
		if len(loads) != 1 || key == nil {
			c.Undecide("proof-sibling", f.Name(), "loadChildren call / key parameter not found")
		} else {
			lnode := g.ResultVarAt(loads[0], 2)
			rnode := g.ResultVarAt(loads[0], 3)
			// inclusion-claim
			eq := c10KeyEqualEdges(f, g, loads[0], key)
			n := 0
			for _, r := range g.Returns() {
				rs := r.Ast.(*ast.ReturnStmt)
				if len(rs.Results) != 5 || !c11IsConstBool(info, rs.Results[1], "true") {
					continue
				}
				n++
				ok := len(eq) > 0 && g.Dominated(r, eq) && c10RootObj(info, rs.Results[3]) == rnode && rnode != nil
				c.Check("inclusion-claim", f.Name()+"|included", rs.Pos(), ok, "merkleProof reports included=true (with the value slot of the leaf) only on the true edge of bytes.Equal(stored key, requested key)")
			}
			if n == 0 {
				c.Undecide("inclusion-claim", f.Name(), "no return with included == true")
			}
			// the foreign-leaf arm returns the stored key and value in that order
			for _, r := range g.Returns() {
				rs := r.Ast.(*ast.ReturnStmt)
				if len(rs.Results) != 5 || !c11IsConstBool(info, rs.Results[1], "false") {
					continue
				}
				isNil := func(e ast.Expr) bool { tv, has := info.Types[e]; return has && tv.IsNil() }
				if isNil(rs.Results[2]) && isNil(rs.Results[3]) {
					continue // (nil, nil): empty subtree or error
				}
				a, b := c10RootObj(info, rs.Results[2]), c10RootObj(info, rs.Results[3])
				c.Check("inclusion-claim", f.Name()+"|foreign-leaf", rs.Pos(), a == lnode && b == rnode && lnode != nil, "the non-inclusion arm returns (stored key, stored value) of the leaf found on the path, in that order")
			}
			// proof-sibling
			atom := func(e ast.Expr) (string, bool, bool) {
				call, ok := ast.Unparen(e).(*ast.CallExpr)
				if !ok || an.CalleeName(info, call) != "pkg/trie.bitIsSet" || len(call.Args) != 2 || an.ObjOf(info, call.Args[0]) != key {
					return "", false, false
				}
				be, ok := ast.Unparen(call.Args[1]).(*ast.BinaryExpr)
				if !ok || be.Op != token.SUB || an.FieldOf(info, be.X) != heightF || an.ObjOf(info, be.Y) != c10ParamAt(f, 3) {
					return "", false, false
				}
				return "K", false, true
			}
			recs := g.CallsTo("pkg/trie.(*Trie).merkleProof")
			for i, s := range recs {
				child := an.ObjOf(info, s.Call.Args[0])
				var other types.Object
				switch child {
				case rnode:
					other = lnode
				case lnode:
					other = rnode
				}
				okK, _ := g.GuardedAt(s.Node, atom, map[string]bool{"K": child == rnode})
				ok := other != nil && okK && an.ObjOf(info, s.Call.Args[1]) == key
				// height decreases by one
				if be, isBin := ast.Unparen(s.Call.Args[3]).(*ast.BinaryExpr); !isBin || be.Op != token.SUB || an.ObjOf(info, be.X) != c10ParamAt(f, 3) {
					ok = false
				} else if v, isC := c10ConstInt(info, be.Y); !isC || v != 1 {
					ok = false
				}
				mp := g.ResultVarAt(s, 0)
				inc := g.ResultVarAt(s, 1)
				pkv := g.ResultVarAt(s, 2)
				pvv := g.ResultVarAt(s, 3)
				nret := 0
				for _, r := range g.Returns() {
					rs := r.Ast.(*ast.ReturnStmt)
					if len(rs.Results) != 5 || !g.Dominated(r, an.SetOf(s.Node)) {
						continue
					}
					ap, isApp := ast.Unparen(rs.Results[0]).(*ast.CallExpr)
					if !isApp || !an.IsBuiltin(info, ap, "append") {
						continue // the error return
					}
					nret++
					sib := c10RootObj(info, ap.Args[1])
					if len(ap.Args) != 2 || an.ObjOf(info, ap.Args[0]) != mp || !(sib == other || sib == defLeaf) {
						ok = false
					}
					if an.ObjOf(info, rs.Results[1]) != inc || an.ObjOf(info, rs.Results[2]) != pkv || an.ObjOf(info, rs.Results[3]) != pvv {
						ok = false
					}
				}
				c.Check("proof-sibling", f.Name()+"|descend#"+itoa(i+1), s.Call.Pos(), ok && nret >= 1, "merkleProof descends into the right child exactly when the key bit at this height is set, appends the other child's hash (or DefaultLeaf) to the child's audit path and returns the child's included/proofKey/proofVal unchanged")
			}
			c.Floor("proof-sibling", 2)
		}
	}
	if f := c.Fn("pkg/trie.(*Trie).merkleProofCompressed"); f != nil {
		g := f.Graph()
		info := f.Info()
		sites := g.CallsTo("pkg/trie.(*Trie).merkleProof")
		ok := len(sites) == 1
		var pos token.Pos = f.Pos()
		if ok {
			s := sites[0]
			pos = s.Call.Pos()
			full := g.ResultVarAt(s, 0)
			nilEdges := g.ErrNilEdges(s)
			nOK := 0
			for _, r := range g.Returns() {
				rs := r.Ast.(*ast.ReturnStmt)
				if len(rs.Results) != 7 {
					continue
				}
				if tv, has := info.Types[rs.Results[6]]; !has || !tv.IsNil() {
					continue // error return
				}
				nOK++
				if !g.Dominated(r, nilEdges) {
					ok = false
				}
				for i, ri := range []int{3, 4, 5} {
					if an.ObjOf(info, rs.Results[ri]) != g.ResultVarAt(s, i+1) || g.ResultVarAt(s, i+1) == nil {
						ok = false
					}
				}
				// height = len(full path)
				h := an.ObjOf(info, rs.Results[2])
				hOK := false
				an.InspectShallow(f.Body, func(n ast.Node) bool {
					as, isAs := n.(*ast.AssignStmt)
					if !isAs || len(as.Lhs) != 1 || len(as.Rhs) != 1 || an.ObjOf(info, as.Lhs[0]) != h || h == nil {
						return true
					}
					if lc, isCall := ast.Unparen(as.Rhs[0]).(*ast.CallExpr); isCall && an.IsBuiltin(info, lc, "len") && an.ObjOf(info, lc.Args[0]) == full {
						hOK = true
					} else {
						hOK = false
					}
					return true
				})
				if !hOK {
					ok = false
				}
			}
			if nOK == 0 {
				ok = false
			}
			// bitmap bit i set and node kept exactly when node != DefaultLeaf, ranging over the full path
			var rng *ast.RangeStmt
			an.InspectShallow(f.Body, func(n ast.Node) bool {
				if r, isR := n.(*ast.RangeStmt); isR && an.ObjOf(info, r.X) == full {
					rng = r
				}
				return true
			})
			bmOK := false
			if rng != nil && rng.Key != nil && rng.Value != nil {
				iobj, nobj := an.ObjOf(info, rng.Key), an.ObjOf(info, rng.Value)
				var sets, apps []*an.Node
				for _, bs := range g.CallsTo("pkg/trie.bitSet") {
					if len(bs.Call.Args) == 2 && an.ObjOf(info, bs.Call.Args[1]) == iobj && an.ObjOf(info, bs.Call.Args[0]) == an.ObjOf(info, func() ast.Expr {
						for _, r := range g.Returns() {
							rs := r.Ast.(*ast.ReturnStmt)
							if len(rs.Results) == 7 {
								if tv, has := info.Types[rs.Results[6]]; has && tv.IsNil() {
									return rs.Results[0]
								}
							}
						}
						return nil
					}()) {
						sets = append(sets, bs.Node)
					}
				}
				for _, m := range g.Nodes {
					as, isAs := m.Ast.(*ast.AssignStmt)
					if m.Kind != an.KStmt || !isAs || len(as.Rhs) != 1 {
						continue
					}
					if ap, isCall := ast.Unparen(as.Rhs[0]).(*ast.CallExpr); isCall && an.IsBuiltin(info, ap, "append") && len(ap.Args) == 2 && an.ObjOf(info, ap.Args[1]) == nobj {
						apps = append(apps, m)
					}
				}
				var eqSites []an.Site
				for _, es := range g.CallsTo("bytes.Equal") {
					a, b := an.ObjOf(info, es.Call.Args[0]), an.ObjOf(info, es.Call.Args[1])
					if (a == nobj && b == p.LookupObj(c10TriePkg, "DefaultLeaf")) || (b == nobj && a == p.LookupObj(c10TriePkg, "DefaultLeaf")) {
						eqSites = append(eqSites, es)
					}
				}
				if len(sets) == 1 && len(apps) == 1 && len(eqSites) == 1 {
					ne := g.BoolEdges(eqSites[0], false)
					bmOK = len(ne) > 0 && g.Dominated(sets[0], ne) && g.Dominated(apps[0], ne)
					// nothing else between the test and the two effects can skip one of them
					bmOK = bmOK && (g.Dominated(apps[0], an.SetOf(sets[0])) || g.Dominated(sets[0], an.SetOf(apps[0])))
				}
			}
			ok = ok && bmOK
		}
		c.Check("proof-passthrough", "pkg/trie.(*Trie).merkleProofCompressed", pos, ok, "the compressed proof is built from one merkleProof call: included/proofKey/proofVal are returned unchanged, height = len(full audit path), and for each node of the full path the bitmap bit is set and the node kept exactly when it differs from DefaultLeaf")
	}
	// the exported generators forward to merkleProof / merkleProofCompressed unchanged
	rootF := p.LookupField(c10TriePkg, "Trie", "Root")
	for _, name := range []string{"pkg/trie.(*Trie).MerkleProof", "pkg/trie.(*Trie).MerkleProofR", "pkg/trie.(*Trie).MerkleProofCompressed", "pkg/trie.(*Trie).MerkleProofCompressedR"} {
		f := c.Fn(name)
		if f == nil {
			continue
		}
		info := f.Info()
		g := f.Graph()
		ok := false
		rets := g.Returns()
		if len(rets) == 1 {
			rs := rets[0].Ast.(*ast.ReturnStmt)
			if len(rs.Results) == 1 {
				if call, isCall := ast.Unparen(rs.Results[0]).(*ast.CallExpr); isCall {
					cn := an.CalleeName(info, call)
					if cn == "pkg/trie.(*Trie).merkleProof" || cn == "pkg/trie.(*Trie).merkleProofCompressed" {
						// every []byte parameter is forwarded, a missing root is the trie's own Root
						fwd := 0
						usesRoot := false
						for _, a := range call.Args {
							if o := an.ObjOf(info, a); o != nil && c10IsParam(f, o) {
								fwd++
							}
							if an.FieldOf(info, a) == rootF {
								usesRoot = true
							}
						}
						np := 0
						for i := 0; c10ParamAt(f, i) != nil; i++ {
							np++
						}
						ok = fwd == np && (np == 2 || usesRoot)
					}
				}
			}
		}
		c.Check("proof-passthrough", name, f.Pos(), ok, "the exported generator returns merkleProof's / merkleProofCompressed's results directly, forwarding its parameters (the trie's own Root when no root is given)")
	}
	c.Floor("proof-passthrough", 4)
}

// ---------------------------------------------------------------------------
// statedb: TrieQuery and the two assemblers

var c11FiveToSeven = []int{1, 3, 4, 5, 6} // (ap, included, proofKey, proofVal, err) -> TrieQuery result slots

func c11TrieQuery(c *rep.Ctx) {
	f := c.Fn("state/statedb.(*StateDB).TrieQuery")
	if f == nil {
		return
	}
	g := f.Graph()
	info := f.Info()
	rets := g.Returns()
	if len(rets) != 1 || len(rets[0].Ast.(*ast.ReturnStmt).Results) != 7 {
		c.Undecide("trie-query", f.Name(), "expected a single 7-result return")
		return
	}
	var R [7]types.Object
	for i, e := range rets[0].Ast.(*ast.ReturnStmt).Results {
		R[i] = an.ObjOf(info, e)
		if R[i] == nil {
			c.Undecide("trie-query", f.Name(), "a result is not a plain variable")
			return
		}
	}
	idParam, rootParam := c10ParamAt(f, 0), c10ParamAt(f, 1)
	rootAtom := func(e ast.Expr) (string, bool, bool) {
		be, ok := ast.Unparen(e).(*ast.BinaryExpr)
		if !ok {
			return "", false, false
		}
		lc, isCall := ast.Unparen(be.X).(*ast.CallExpr)
		v, isC := c10ConstInt(info, be.Y)
		if !isCall || !isC || v != 0 || !an.IsBuiltin(info, lc, "len") || an.ObjOf(info, lc.Args[0]) != rootParam {
			return "", false, false
		}
		switch be.Op {
		case token.NEQ, token.GTR:
			return "R", false, true
		case token.EQL, token.LEQ:
			return "R", true, true
		}
		return "", false, false
	}
	sites := g.Calls(func(fn *types.Func, _ *ast.CallExpr) bool {
		return fn != nil && fn.Pkg() != nil && an.Rel(fn.Pkg().Path()) == c10TriePkg
	})
	assigned := map[types.Object]int{}
	for _, s := range sites {
		as, ok := s.Node.Ast.(*ast.AssignStmt)
		name := an.FuncName(s.Fn)
		construct := f.Name() + "|" + name
		if !ok || len(as.Rhs) != 1 || ast.Unparen(as.Rhs[0]) != ast.Expr(s.Call) {
			c.Check("trie-query", construct, s.Call.Pos(), false, "trie call whose results are not assigned in one statement")
			continue
		}
		var slots []int
		switch len(as.Lhs) {
		case 7:
			slots = []int{0, 1, 2, 3, 4, 5, 6}
		case 5:
			slots = c11FiveToSeven
		default:
			c.Check("trie-query", construct, s.Call.Pos(), false, "unexpected result arity of a proof generator")
			continue
		}
		good := true
		for i, l := range as.Lhs {
			o := an.ObjOf(info, l)
			if o != R[slots[i]] {
				good = false
			}
			assigned[o]++
		}
		// arguments: the id, and the root exactly when one was given
		withRoot := len(s.Call.Args) == 2
		if an.ObjOf(info, s.Call.Args[0]) != idParam || (withRoot && an.ObjOf(info, s.Call.Args[1]) != rootParam) {
			good = false
		}
		gr, _ := g.GuardedAt(s.Node, rootAtom, map[string]bool{"R": withRoot})
		c.Check("trie-query", construct, s.Call.Pos(), good && gr, "each result of the proof generator is stored in the variable returned in the corresponding slot (audit path, included, proofKey, proofVal are not permuted); the root-taking variant is used exactly when a root was given")
	}
	// no other assignment of the result variables
	other := false
	for _, n := range g.Nodes {
		if n.Kind != an.KStmt {
			continue
		}
		isSite := false
		for _, s := range sites {
			if s.Node == n {
				isSite = true
			}
		}
		if isSite {
			continue
		}
		if _, isDecl := n.Ast.(*ast.ValueSpec); isDecl {
			continue
		}
		if _, isDecl := n.Ast.(*ast.DeclStmt); isDecl {
			continue
		}
		for i := 0; i < 6; i++ {
			if an.Assigns(info, n.Ast, R[i]) {
				other = true
			}
		}
	}
	c.Check("trie-query", f.Name()+"|no-rewrite", f.Pos(), !other, "TrieQuery's result variables are assigned by the proof generators only")
	c.Floor("trie-query", 4)
}

func c11Assembly(c *rep.Ctx) {
	p := c.Prog
	for _, spec := range []struct{ fn, typ, payload string }{
		{"state/statedb.(*StateDB).GetAccountAndProof", "AccountProof", "State"},
		{"state/statedb.(*StateDB).GetVarAndProof", "ContractVarProof", "Value"},
	} {
		f := c.Fn(spec.fn)
		if f == nil {
			continue
		}
		st := p.LookupStruct("types", spec.typ)
		if st == nil {
			c.Undecide("proof-assembly", spec.typ, "struct not found")
			continue
		}
		g := f.Graph()
		info := f.Info()
		tq := g.CallsTo("state/statedb.(*StateDB).TrieQuery")
		if len(tq) != 1 {
			c.Undecide("proof-assembly", spec.fn, "expected exactly one TrieQuery call")
			continue
		}
		var R [6]types.Object
		for i := range R {
			R[i] = g.ResultVarAt(tq[0], i)
		}
		nilEdges := g.ErrNilEdges(tq[0])
		// the literal
		var lit *ast.CompositeLit
		an.InspectShallow(f.Body, func(n ast.Node) bool {
			if cl, ok := n.(*ast.CompositeLit); ok {
				if tv, has := info.Types[cl]; has {
					if nt, isN := tv.Type.(*types.Named); isN && nt.Obj().Name() == spec.typ {
						lit = cl
					}
				}
			}
			return true
		})
		if lit == nil {
			c.Undecide("proof-assembly", spec.fn, "composite literal of types."+spec.typ+" not found")
			continue
		}
		ln := g.NodeContaining(lit.Pos())
		want := map[string]int{"Bitmap": 0, "AuditPath": 1, "Height": 2, "Inclusion": 3, "ProofKey": 4, "ProofVal": 5}
		excluded := map[string]string{"Key": "filled by the RPC handler with the address / storage key the client asked for", spec.payload: "the payload, loaded on the inclusion arm (checked separately)"}
		set := map[string]ast.Expr{}
		for _, el := range lit.Elts {
			if kv, ok := el.(*ast.KeyValueExpr); ok {
				if id, ok := kv.Key.(*ast.Ident); ok {
					set[id.Name] = kv.Value
				}
			}
		}
		for i := 0; i < st.NumFields(); i++ {
			fld := st.Field(i)
			if !fld.Exported() {
				continue
			}
			construct := spec.fn + "|" + fld.Name()
			if why, ex := excluded[fld.Name()]; ex {
				c.CheckTrivial("proof-assembly", construct, lit.Pos(), true, "not a proof field of the trie: "+why)
				continue
			}
			slot, known := want[fld.Name()]
			v := set[fld.Name()]
			ok := known && v != nil
			if ok {
				e := ast.Unparen(v)
				if conv, isConv := e.(*ast.CallExpr); isConv && len(conv.Args) == 1 {
					if tv, has := info.Types[conv.Fun]; has && tv.IsType() {
						e = ast.Unparen(conv.Args[0])
					}
				}
				ok = an.ObjOf(info, e) == R[slot] && R[slot] != nil
			}
			// unmodified between TrieQuery and the literal (ProofVal: only cleared on the inclusion arm)
			if ok && ln != nil {
				for m := range g.Between(tq[0].Node, ln) {
					if m.Kind != an.KStmt || !an.Assigns(info, m.Ast, R[slot]) {
						continue
					}
					cleared := false
					if as, isAs := m.Ast.(*ast.AssignStmt); isAs && slot == 5 && len(as.Lhs) == 1 && len(as.Rhs) == 1 && an.ObjOf(info, as.Lhs[0]) == R[5] {
						if tv, has := info.Types[as.Rhs[0]]; has && tv.IsNil() {
							inc := g.EdgesImplying(func(e ast.Expr) (string, bool, bool) {
								if an.ObjOf(info, e) == R[3] {
									return "I", false, true
								}
								return "", false, false
							}, map[string]bool{"I": true})
							cleared = len(inc) > 0 && g.Dominated(m, inc)
						}
					}
					if !cleared {
						ok = false
					}
				}
			}
			ok = ok && ln != nil && len(nilEdges) > 0 && g.Dominated(ln, nilEdges)
			msg := "the proof field is TrieQuery's corresponding result, unmodified"
			if slot == 5 && known {
				msg += " (cleared to nil only on the inclusion arm, where the value itself is returned)"
			}
			if !known {
				msg = "an exported field of the proof message that the assembler table does not know: classify it"
			}
			c.Check("proof-assembly", construct, lit.Pos(), ok, msg)
		}
		// payload: loaded by the trie's value (the data key) on the inclusion arm, before it is cleared
		inc := g.EdgesImplying(func(e ast.Expr) (string, bool, bool) {
			if an.ObjOf(info, e) == R[3] {
				return "I", false, true
			}
			return "", false, false
		}, map[string]bool{"I": true})
		okLoad := false
		for _, s := range g.CallsTo("state/statedb.(*StateDB).loadStateData", "state/statedb.loadData") {
			keyArg := 0
			if an.FuncName(s.Fn) == "state/statedb.loadData" {
				keyArg = 1
			}
			if an.ObjOf(info, s.Call.Args[keyArg]) != R[5] || R[5] == nil {
				continue
			}
			if len(inc) == 0 || !g.Dominated(s.Node, inc) {
				continue
			}
			// not after the clearing
			after := false
			for _, m := range g.Nodes {
				if m.Kind == an.KStmt && m != s.Node && m != tq[0].Node && an.Assigns(info, m.Ast, R[5]) && g.Reachable(m, s.Node) {
					after = true
				}
			}
			if !after {
				okLoad = true
			}
		}
		c.Check("proof-assembly", spec.fn+"|"+spec.payload, f.Pos(), okLoad, "the payload is loaded from the store under the value the trie returned for the key (TrieQuery's proofVal), on the inclusion arm only and before that variable is cleared")
	}
	c.Floor("proof-assembly", 14)
}

// ---------------------------------------------------------------------------
// consumers

func c11Consumers(c *rep.Ctx) {
	p := c.Prog
	sites := p.CallSitesOf(map[string]bool{
		"state/statedb.(*StateDB).GetAccountAndProof": true,
		"state/statedb.(*StateDB).GetVarAndProof":     true,
	})
	for _, cs := range sites {
		if cs.Fn == nil {
			continue
		}
		g := cs.Fn.Graph()
		info := cs.Fn.Info()
		n := g.NodeContaining(cs.Call.Pos())
		construct := cs.Fn.Name() + "|" + cs.Obj.Name()
		if n == nil {
			c.Undecide("err-before-use", construct, "call not found in the control-flow graph")
			continue
		}
		site := an.Site{Node: n, Call: cs.Call, Fn: cs.Obj}
		res := g.ResultVarAt(site, 0)
		if res == nil {
			// returned directly / discarded: nothing dereferenced here
			c.CheckTrivial("err-before-use", construct, cs.Call.Pos(), true, "the proof is not bound to a variable here")
			continue
		}
		nilEdges := g.ErrNilEdges(site)
		bad := token.NoPos
		nUse := 0
		for _, m := range g.Nodes {
			if m.Kind != an.KStmt || m == n {
				continue
			}
			an.InspectShallow(m.Ast, func(x ast.Node) bool {
				sel, ok := x.(*ast.SelectorExpr)
				if !ok || an.ObjOf(info, sel.X) != res {
					return true
				}
				// field access dereferences; the generated getters are nil-safe
				if s := info.Selections[sel]; s == nil || s.Kind() != types.FieldVal {
					return true
				}
				if !g.Reachable(n, m) {
					return true
				}
				nUse++
				if len(nilEdges) == 0 || !g.Dominated(m, nilEdges) {
					bad = sel.Pos()
				}
				return true
			})
		}
		msg := "every field access through the returned proof pointer lies on paths where the call's error is known to be nil (" + itoa(nUse) + " accesses)"
		if bad.IsValid() {
			msg = "a field of the returned proof is accessed (" + p.Pos(bad) + ") on a path where err was not tested: the proof is nil when err != nil (nil pointer dereference)"
		}
		c.Check("err-before-use", construct, cs.Call.Pos(), !bad.IsValid(), msg)
	}
	c.Floor("err-before-use", 3)
}

// ---------------------------------------------------------------------------
// key-width

func c11KeyWidth(c *rep.Ctx) {
	p := c.Prog
	cg := p.BuildCallGraph()
	hl, _ := p.LookupObj(c10TriePkg, "HashLength").(*types.Const)
	if hl == nil {
		c.Undecide("key-width", "trie.HashLength", "not found")
		return
	}
	width := hl.Val().ExactString()
	// common.Hasher is a package-level variable: it must never be reassigned
	if hv, ok := p.LookupObj("internal/common", "Hasher").(*types.Var); ok {
		reassigned := token.NoPos
		for _, f := range c10AllFuncs(p) {
			info := f.Info()
			an.InspectShallow(f.Body, func(n ast.Node) bool {
				switch s := n.(type) {
				case *ast.AssignStmt:
					for _, l := range s.Lhs {
						if id, ok := ast.Unparen(l).(*ast.Ident); ok && info.Uses[id] == hv {
							reassigned = l.Pos()
						}
						if sel, ok := ast.Unparen(l).(*ast.SelectorExpr); ok && info.Uses[sel.Sel] == hv {
							reassigned = l.Pos()
						}
					}
				case *ast.UnaryExpr:
					if s.Op == token.AND {
						if sel, ok := ast.Unparen(s.X).(*ast.SelectorExpr); ok && info.Uses[sel.Sel] == hv {
							reassigned = s.Pos()
						}
					}
				}
				return true
			})
		}
		c.Check("key-width", "internal/common.Hasher|never-reassigned", reassigned, !reassigned.IsValid(), "the trie hash function (a package-level variable) is assigned only by its initialiser, so its results are digests of the trie's hash length")
	} else {
		c.Undecide("key-width", "internal/common.Hasher", "not found as a package-level variable")
	}
	entries := map[string]int{ // function -> index of the key argument
		"pkg/trie.(*Trie).Get":                    0,
		"pkg/trie.(*Trie).MerkleProof":            0,
		"pkg/trie.(*Trie).MerkleProofR":           0,
		"pkg/trie.(*Trie).MerkleProofCompressed":  0,
		"pkg/trie.(*Trie).MerkleProofCompressedR": 0,
	}
	names := map[string]bool{}
	for k := range entries {
		if p.Func(k) == nil {
			c.Undecide("key-width", k, "trie entry point not found")
		}
		names[k] = true
	}
	type ob struct {
		fn    *an.Func
		call  *ast.CallExpr
		arg   ast.Expr
		via   string
		depth int
	}
	var work []ob
	for _, cs := range p.CallSitesOf(names) {
		if cs.Fn == nil || an.Rel(cs.Fn.Pkg.PkgPath) == c10TriePkg {
			continue
		}
		work = append(work, ob{cs.Fn, cs.Call, cs.Call.Args[entries[an.FuncName(cs.Obj)]], an.FuncName(cs.Obj), 0})
	}
	seen := map[*ast.CallExpr]bool{}
	isWide := func(t types.Type) bool {
		if t == nil {
			return false
		}
		if pt, ok := t.Underlying().(*types.Pointer); ok {
			t = pt.Elem()
		}
		a, ok := t.Underlying().(*types.Array)
		return ok && itoa(int(a.Len())) == width
	}
	var decide func(f *an.Func, e ast.Expr, depth int) (ok bool, how string, forward types.Object)
	decide = func(f *an.Func, e ast.Expr, depth int) (bool, string, types.Object) {
		info := f.Info()
		e = ast.Unparen(e)
		switch x := e.(type) {
		case *ast.SliceExpr:
			if x.Low == nil && x.High == nil && isWide(info.Types[x.X].Type) {
				return true, "x[:] of a " + width + "-byte array", nil
			}
			return false, "a slice expression that is not the whole of a " + width + "-byte array", nil
		case *ast.CallExpr:
			if why, ok := c11HashFuncs[c11CallName(info, x)]; ok {
				return true, why, nil
			}
			return false, "result of " + an.ExprString(x.Fun), nil
		case *ast.Ident:
			o := an.ObjOf(info, x)
			if o == nil {
				return false, "unresolved identifier", nil
			}
			// parameter of the enclosing function (or of an enclosing function for a literal): forwarded
			for ff := f; ff != nil; ff = ff.Parent {
				if c10IsParam(ff, o) {
					return true, "", o
				}
			}
			// a local that is defined exactly once ( k := e ) stands for its definition:
			// a hash, an enumerated key, or a copy of a parameter (forwarded like the
			// parameter itself)
			for ff := f; ff != nil && depth < 4; ff = ff.Parent {
				if rhs, _ := ff.Graph().SingleDef(o); rhs != nil {
					if _, isTuple := ff.Info().TypeOf(rhs).(*types.Tuple); !isTuple {
						return decide(ff, rhs, depth+1)
					}
				}
			}
			// range variable over Trie.GetKeys()
			var how string
			okv := false
			nAsg, allAsg := 0, true // a local assigned more than once: every assigned value must be a key of the right width
			for ff := f; ff != nil && !okv; ff = ff.Parent {
				ast.Inspect(ff.Body, func(n ast.Node) bool {
					switch s := n.(type) {
					case *ast.RangeStmt:
						if s.Value != nil && an.ObjOf(ff.Info(), s.Value) == o {
							if rc, isCall := ast.Unparen(s.X).(*ast.CallExpr); isCall && an.CalleeName(ff.Info(), rc) == "pkg/trie.(*Trie).GetKeys" {
								okv, how = true, "a key enumerated by Trie.GetKeys"
							} else {
								how = "range over " + an.ExprString(s.X)
							}
						}
					case *ast.AssignStmt:
						for i, l := range s.Lhs {
							if an.ObjOf(ff.Info(), l) == o && len(s.Lhs) == len(s.Rhs) && depth < 4 {
								nAsg++
								if ok2, h2, fw := decide(ff, s.Rhs[i], depth+1); fw != nil {
									allAsg, how = false, "a copy of a parameter (one of several assignments to the variable)"
								} else if !ok2 {
									allAsg, how = false, h2
								} else if allAsg {
									how = h2
								}
							}
						}
					}
					return true
				})
			}
			return okv || (nAsg > 0 && allAsg), how, nil
		}
		return false, "expression " + an.ExprString(e), nil
	}
	for len(work) > 0 {
		w := work[0]
		work = work[1:]
		if seen[w.call] && w.depth > 0 {
			continue
		}
		seen[w.call] = true
		ok, how, fwd := decide(w.fn, w.arg, 0)
		construct := w.fn.Name() + "|" + w.via
		// a dominating length guard on the very variable decides it locally
		if o := an.ObjOf(w.fn.Info(), w.arg); o != nil && (!ok || fwd != nil) {
			g := w.fn.Graph()
			info := w.fn.Info()
			// the guard may name the variable handed over or, when that is a once-defined
			// copy of a parameter of this very function, the parameter
			isKey := func(e ast.Expr) bool {
				eo := an.ObjOf(info, e)
				return eo != nil && (eo == o || (eo == fwd && c10IsParam(w.fn, fwd)))
			}
			at := func(e ast.Expr) (string, bool, bool) {
				be, isBin := ast.Unparen(e).(*ast.BinaryExpr)
				if !isBin {
					return "", false, false
				}
				lc, isCall := ast.Unparen(be.X).(*ast.CallExpr)
				tv, has := info.Types[be.Y]
				if !isCall || !has || tv.Value == nil || tv.Value.ExactString() != width || !an.IsBuiltin(info, lc, "len") || len(lc.Args) != 1 || !isKey(lc.Args[0]) {
					return "", false, false
				}
				switch be.Op {
				case token.EQL:
					return "W", false, true
				case token.NEQ:
					return "W", true, true
				}
				return "", false, false
			}
			if n := g.NodeContaining(w.arg.Pos()); n != nil {
				if guarded, _ := g.GuardedAt(n, at, map[string]bool{"W": true}); guarded {
					c.Check("key-width", construct, w.arg.Pos(), true, "the key handed (through "+w.via+") to the trie is length-checked: len == "+width+" is known on every path to the call")
					continue
				}
			}
		}
		if fwd == nil {
			msg := "the key handed (through " + w.via + ") to the trie is " + how
			if !ok {
				msg = "the key handed (through " + w.via + ") to the trie is not provably " + width + " bytes wide: " + how + "; Trie.get/merkleProof index key[i/8] for every level they descend (index out of range on a short key)"
			}
			c.Check("key-width", construct, w.arg.Pos(), ok, msg)
			continue
		}
		// forwarded parameter: every call site of the function that owns it
		owner := w.fn
		for owner != nil && !c10IsParam(owner, fwd) {
			owner = owner.Parent
		}
		idx := -1
		for i := 0; owner != nil && c10ParamAt(owner, i) != nil; i++ {
			if c10ParamAt(owner, i) == fwd {
				idx = i
			}
		}
		if owner == nil || idx < 0 || w.depth > 6 {
			c.Check("key-width", construct, w.arg.Pos(), false, "cannot follow the forwarded key parameter")
			continue
		}
		nSites := 0
		if owner.Lit != nil {
			// a literal bound to a local and called in its parent
			par := owner.Parent
			var bound types.Object
			ast.Inspect(par.Body, func(n ast.Node) bool {
				if as, ok := n.(*ast.AssignStmt); ok && len(as.Lhs) == len(as.Rhs) {
					for i, r := range as.Rhs {
						if ast.Unparen(r) == ast.Expr(owner.Lit) {
							bound = an.ObjOf(par.Info(), as.Lhs[i])
						}
					}
				}
				return true
			})
			var walk func(ff *an.Func)
			walk = func(ff *an.Func) {
				an.InspectShallow(ff.Body, func(n ast.Node) bool {
					if call, ok := n.(*ast.CallExpr); ok && bound != nil && an.ObjOf(ff.Info(), call.Fun) == bound && idx < len(call.Args) {
						nSites++
						work = append(work, ob{ff, call, call.Args[idx], owner.Name(), w.depth + 1})
					}
					return true
				})
				for _, l := range ff.Lits {
					walk(l)
				}
			}
			walk(par)
			if bound == nil {
				c.Check("key-width", construct, w.arg.Pos(), false, "key forwarded through a function literal that is not bound to a local variable")
				continue
			}
		} else {
			for _, e := range cg.In[owner] {
				if e.Call == nil || idx >= len(e.Call.Args) {
					continue
				}
				nSites++
				work = append(work, ob{e.Caller, e.Call, e.Call.Args[idx], owner.Name(), w.depth + 1})
			}
		}
		c.CheckTrivial("key-width", construct+"|forwarded", w.arg.Pos(), true, "the key is parameter "+fwd.Name()+" of "+owner.Name()+": decided at its "+itoa(nSites)+" call sites")
	}
	c.Floor("key-width", 8)
}
