package props

import (
	"encoding/json"
	"go/ast"
	"go/token"
	"go/types"
	"os"
	"path/filepath"
	"strings"

	"verif/checker/internal/an"
	"verif/checker/internal/rep"
)

// ---------------------------------------------------------------------------
// sign-flow: how the digests are used by hash / sign / verify.

func c19SignFlow(c *rep.Ctx) {
	c19HeaderSignFlow(c)
	c19TxSignFlow(c)
	c.Floor("sign-flow", 6)
}

// c19ArgIsResult: argument expression is the variable that received result
// idx of the call at site (unchanged in between is not checked here; the
// functions are straight-line and reassignment would change the gate sets).
func c19ArgIsResult(g *an.Graph, info *types.Info, arg ast.Expr, site an.Site, idx int) bool {
	o := g.ResultVarAt(site, idx)
	return o != nil && an.ObjOf(info, arg) == o
}

// c19HeaderSignFlow — shared anchor for C09 item 1: block hash = hash of the
// full header stream; the signature is made and verified over the omit-sign
// stream of the same header; the public key is set before the digest is taken.
func c19HeaderSignFlow(c *rep.Ctx) bool {
	p := c.Prog
	all := true
	chk := func(key string, pos token.Pos, ok bool, msg string) {
		all = c.Check("sign-flow", key, pos, ok, msg) && all
	}
	header := p.LookupField("types", "Block", "Header")
	hash := p.LookupField("types", "Block", "Hash")
	sign := p.LookupField("types", "BlockHeader", "Sign")
	pub := p.LookupField("types", "BlockHeader", "PubKey")
	if header == nil || sign == nil || pub == nil || hash == nil {
		c.Undecide("anchor", "types.Block.Header/BlockHeader.Sign", "fields not found")
		return false
	}
	// calculateBlockHash
	if f := c.Fn("types.(*Block).calculateBlockHash"); f != nil {
		g, info := f.Graph(), f.Info()
		ws := g.CallsTo("types.writeBlockHeader")
		ok := len(ws) == 1 && len(ws[0].Call.Args) == 2 && an.FieldOf(info, ws[0].Call.Args[1]) == header
		if ok {
			d := c19RootObj(info, ws[0].Call.Args[0])
			ok = false
			for _, r := range g.Returns() {
				rs := r.Ast.(*ast.ReturnStmt)
				if len(rs.Results) == 1 {
					if call, isC := ast.Unparen(rs.Results[0]).(*ast.CallExpr); isC && c19RecvOf(info, call) == d && d != nil {
						if fn := an.Callee(info, call); fn != nil && fn.Name() == "Sum" {
							ok = g.Dominated(r, an.SetOf(ws[0].Node))
						}
					}
				}
			}
		}
		chk("types.(*Block).calculateBlockHash", f.Pos(), ok, "the block identifier is the Sum of the hash object the full header stream of block.Header was written to")
	}
	// BlockHash stores the computed value
	if f := c.Fn("types.(*Block).BlockHash"); f != nil {
		g, info := f.Graph(), f.Info()
		ok := false
		for _, s := range g.CallsTo("types.(*Block).calculateBlockHash") {
			if as, isA := s.Node.Ast.(*ast.AssignStmt); isA && len(as.Lhs) == 1 && an.FieldOf(info, as.Lhs[0]) == hash {
				ok = true
			}
		}
		chk("types.(*Block).BlockHash", f.Pos(), ok, "a missing identifier is filled with calculateBlockHash()")
	}
	// bytesForDigest
	if f := c.Fn("types.(*BlockHeader).bytesForDigest"); f != nil {
		g, info := f.Graph(), f.Info()
		ws := g.CallsTo("types.writeBlockHeaderOmitSign")
		ok := len(ws) == 1 && len(ws[0].Call.Args) == 2 && an.ObjOf(info, ws[0].Call.Args[1]) == c19Receiver(f) && c19Receiver(f) != nil
		if ok {
			d := c19RootObj(info, ws[0].Call.Args[0])
			ok = false
			for _, r := range g.Returns() {
				rs := r.Ast.(*ast.ReturnStmt)
				if len(rs.Results) == 2 {
					if call, isC := ast.Unparen(rs.Results[0]).(*ast.CallExpr); isC && c19RecvOf(info, call) == d && d != nil {
						if fn := an.Callee(info, call); fn != nil && fn.Name() == "Bytes" {
							ok = g.Dominated(r, g.ErrNilEdges(ws[0]))
						}
					}
				}
			}
		}
		chk("types.(*BlockHeader).bytesForDigest", f.Pos(), ok, "the signed message is the content of the buffer the omit-sign stream of the receiver was written to, returned only when writing succeeded")
	}
	// Sign
	if f := c.Fn("types.(*Block).Sign"); f != nil {
		g, info := f.Graph(), f.Info()
		ds := g.CallsTo("types.(*BlockHeader).bytesForDigest")
		pk := g.CallsTo("types.(*Block).setPubKey")
		ok := len(ds) == 1 && len(pk) == 1
		why := ""
		if ok {
			sel, _ := ast.Unparen(ds[0].Call.Fun).(*ast.SelectorExpr)
			if sel == nil || an.FieldOf(info, sel.X) != header {
				ok, why = false, "digest not taken from block.Header"
			}
		}
		if ok && !g.Dominated(ds[0].Node, g.ErrNilEdges(pk[0])) {
			ok, why = false, "the public key (part of the signed message) is not set before the digest is taken"
		}
		var signSite *an.Site
		if ok {
			for _, s := range g.Calls(func(fn *types.Func, call *ast.CallExpr) bool {
				return fn != nil && fn.Name() == "Sign" && len(call.Args) == 1 && fn.Pkg() != nil && strings.Contains(fn.Pkg().Path(), "crypto")
			}) {
				s := s
				if c19ArgIsResult(g, info, s.Call.Args[0], ds[0], 0) {
					signSite = &s
				}
			}
			if signSite == nil {
				ok, why = false, "the private key does not sign the message returned by bytesForDigest"
			}
		}
		if ok {
			stored := false
			for _, n := range g.StmtNodes(func(n *an.Node) bool { _, isA := n.Ast.(*ast.AssignStmt); return isA }) {
				as := n.Ast.(*ast.AssignStmt)
				for i, l := range as.Lhs {
					fv := an.FieldOf(info, l)
					if fv == nil || !c19FieldOfStruct(fv, p.LookupStruct("types", "BlockHeader")) {
						continue
					}
					if fv == sign && i < len(as.Rhs) && c19ArgIsResult(g, info, as.Rhs[i], *signSite, 0) && g.Dominated(n, g.ErrNilEdges(*signSite)) {
						stored = true
					} else if g.Reachable(ds[0].Node, n) {
						ok, why = false, "header field "+fv.Name()+" is modified after the digest was taken"
					}
				}
			}
			if ok && !stored {
				ok, why = false, "the signature returned by the key is not stored in Header.Sign"
			}
		}
		chk("types.(*Block).Sign", f.Pos(), ok, "sign: set PubKey, take the omit-sign digest of block.Header, sign exactly that message, store the result in Header.Sign, modify nothing else afterwards ("+why+")")
	}
	// VerifySign
	if f := c.Fn("types.(*Block).VerifySign"); f != nil {
		g, info := f.Graph(), f.Info()
		ds := g.CallsTo("types.(*BlockHeader).bytesForDigest")
		ok := len(ds) == 1
		why := ""
		if ok {
			sel, _ := ast.Unparen(ds[0].Call.Fun).(*ast.SelectorExpr)
			if sel == nil || an.FieldOf(info, sel.X) != header {
				ok, why = false, "digest not taken from block.Header"
			}
		}
		var vs []an.Site
		if ok {
			vs = g.Calls(func(fn *types.Func, call *ast.CallExpr) bool {
				return fn != nil && fn.Name() == "Verify" && len(call.Args) == 2 && fn.Pkg() != nil && strings.Contains(fn.Pkg().Path(), "crypto")
			})
			if len(vs) != 1 || !c19ArgIsResult(g, info, vs[0].Call.Args[0], ds[0], 0) || an.FieldOf(info, vs[0].Call.Args[1]) != sign {
				ok, why = false, "Verify is not called with (message of bytesForDigest, Header.Sign)"
			}
		}
		if ok {
			// key from Header.PubKey
			keyOK := false
			for _, s := range g.Calls(func(fn *types.Func, call *ast.CallExpr) bool {
				return fn != nil && fn.Name() == "UnmarshalPublicKey" && len(call.Args) == 1
			}) {
				if an.FieldOf(info, s.Call.Args[0]) == pub && c19RecvOf(info, vs[0].Call) == g.ResultVarAt(s, 0) && g.ResultVarAt(s, 0) != nil {
					keyOK = true
				}
			}
			if !keyOK {
				ok, why = false, "the verifying key is not the one decoded from Header.PubKey (which is part of the signed message)"
			}
		}
		if ok {
			// the verdict returned is Verify's result
			res := g.ResultVarAt(vs[0], 0)
			for _, r := range g.Returns() {
				if !g.Reachable(vs[0].Node, r) {
					continue
				}
				rs := r.Ast.(*ast.ReturnStmt)
				if len(rs.Results) == 2 && an.ObjOf(info, rs.Results[0]) != res {
					ok, why = false, "a return after Verify does not hand back Verify's verdict"
				}
				if len(rs.Results) == 0 && (res == nil || res.Name() == "_") {
					ok, why = false, "Verify's verdict is dropped"
				}
			}
			// no `return true` without Verify
			for _, r := range g.Returns() {
				rs := r.Ast.(*ast.ReturnStmt)
				if len(rs.Results) == 2 {
					if tv, has := info.Types[rs.Results[0]]; has && tv.Value != nil && tv.Value.ExactString() == "true" {
						ok, why = false, "returns the constant true"
					}
				}
			}
		}
		chk("types.(*Block).VerifySign", f.Pos(), ok, "verify: the verdict is Verify(omit-sign digest of block.Header, Header.Sign) under the key decoded from Header.PubKey ("+why+")")
	}
	return all
}

// c19TxSignFlow — shared anchor for C04: the tx signature is made/verified over
// CalculateHashWithoutSign(tx.Body) and the identifier is computed after the
// signature is stored.
func c19TxSignFlow(c *rep.Ctx) bool {
	p := c.Prog
	all := true
	chk := func(key string, pos token.Pos, ok bool, msg string) {
		all = c.Check("sign-flow", key, pos, ok, msg) && all
	}
	sign := p.LookupField("types", "TxBody", "Sign")
	hashF := p.LookupField("types", "Tx", "Hash")
	body := p.LookupField("types", "Tx", "Body")
	if sign == nil || hashF == nil || body == nil {
		c.Undecide("anchor", "types.TxBody.Sign", "fields not found")
		return false
	}
	if f := c.Fn("account/key.SignTx"); f != nil {
		g, info := f.Graph(), f.Info()
		ds := g.CallsTo("account/key.CalculateHashWithoutSign")
		ok := len(ds) == 1 && len(ds[0].Call.Args) == 1 && an.FieldOf(info, ds[0].Call.Args[0]) == body
		why := ""
		if !ok {
			why = "no digest of tx.Body"
		}
		var signNode, hashNode *an.Node
		if ok {
			signed := false
			for _, s := range g.Calls(func(fn *types.Func, call *ast.CallExpr) bool {
				return fn != nil && fn.Name() == "Sign" && len(call.Args) == 2
			}) {
				if c19ArgIsResult(g, info, s.Call.Args[1], ds[0], 0) {
					signed = true
				}
			}
			if !signed {
				ok, why = false, "the key does not sign the digest returned by CalculateHashWithoutSign"
			}
			for _, n := range g.StmtNodes(func(n *an.Node) bool { _, isA := n.Ast.(*ast.AssignStmt); return isA }) {
				as := n.Ast.(*ast.AssignStmt)
				for _, l := range as.Lhs {
					if an.FieldOf(info, l) == sign {
						signNode = n
					}
					if an.FieldOf(info, l) == hashF {
						hashNode = n
					}
				}
			}
		}
		if ok && (signNode == nil || hashNode == nil || !g.Dominated(hashNode, an.SetOf(signNode))) {
			ok, why = false, "tx.Hash is not recomputed after Body.Sign was stored (the identifier covers the signature)"
		}
		if ok {
			hs := g.CallsTo("types.(*Tx).CalculateTxHash")
			if len(hs) != 1 || hs[0].Node != hashNode {
				ok, why = false, "tx.Hash is not assigned from CalculateTxHash()"
			}
		}
		chk("account/key.SignTx", f.Pos(), ok, "sign tx: digest without Sign of tx.Body is signed, the signature stored in Body.Sign, then the identifier recomputed ("+why+")")
	}
	if f := c.Fn("account/key.VerifyTxWithAddress"); f != nil {
		g, info := f.Graph(), f.Info()
		ds := g.CallsTo("account/key.CalculateHashWithoutSign")
		ok := len(ds) == 1
		why := ""
		var vs []an.Site
		if ok {
			vs = g.Calls(func(fn *types.Func, call *ast.CallExpr) bool {
				return fn != nil && fn.Name() == "Verify" && len(call.Args) == 2
			})
			if len(vs) != 1 || !c19ArgIsResult(g, info, vs[0].Call.Args[0], ds[0], 0) {
				ok, why = false, "Verify is not applied to the digest returned by CalculateHashWithoutSign"
			}
		} else {
			why = "no digest"
		}
		if ok {
			parsed := false
			for _, s := range g.Calls(func(fn *types.Func, call *ast.CallExpr) bool {
				return fn != nil && fn.Name() == "ParseSignature" && len(call.Args) == 1
			}) {
				if an.FieldOf(info, s.Call.Args[0]) == sign && c19RecvOf(info, vs[0].Call) == g.ResultVarAt(s, 0) {
					parsed = true
				}
			}
			if !parsed {
				ok, why = false, "the verified signature is not the one parsed from Body.Sign"
			}
		}
		if ok {
			// success (return nil) only on the edge where Verify is true
			edges := g.BoolEdges(vs[0], true)
			for _, r := range g.Returns() {
				rs := r.Ast.(*ast.ReturnStmt)
				if len(rs.Results) == 1 {
					if tv, has := info.Types[rs.Results[0]]; has && tv.IsNil() {
						if len(edges) == 0 || !g.Dominated(r, edges) {
							ok, why = false, "nil is returned on a path where Verify did not return true"
						}
					}
				}
			}
		}
		chk("account/key.VerifyTxWithAddress", f.Pos(), ok, "verify tx: nil only if Verify(digest without Sign of the body, signature parsed from Body.Sign) is true ("+why+")")
	}
	return all
}

// ---------------------------------------------------------------------------
// chain id

func c19ChainID(c *rep.Ctx) {
	p := c.Prog
	st := p.LookupStruct("types", "ChainID")
	if st == nil {
		c.Undecide("anchor", "types.ChainID", "struct not found")
		return
	}
	// chainid-coverage: Bytes writes and Read stores every field; Equals compares every field
	for _, fn := range []string{"types.(*ChainID).Bytes", "types.(*ChainID).Read", "types.(*ChainID).Equals"} {
		f := c.Fn(fn)
		if f == nil {
			continue
		}
		var seq []c19Group
		switch {
		case strings.HasSuffix(fn, "Bytes"):
			seq = c19WriterSeq(p, f, st)
		case strings.HasSuffix(fn, "Read"):
			seq = c19ReaderSeq(p, f, st)
		default:
			// fields compared with the same field of the other operand
			for _, a := range p.FieldTrace(f, st, nil) {
				if a.Kind == "read" {
					seq = append(seq, c19Group{field: a.Field, must: true, pos: a.Pos})
				}
			}
		}
		for _, fld := range an.StructFields(st, false) {
			n, must := 0, false
			for _, g := range seq {
				if g.field == fld {
					n++
					must = must || g.must
				}
			}
			ok := n >= 1 && must
			if strings.HasSuffix(fn, "Equals") {
				ok = n >= 2 // both operands
			}
			c.Check("chainid-coverage", fn+"|ChainID."+fld.Name(), f.Pos(), ok, "every field of ChainID takes part in "+fn)
		}
	}
	c.Floor("chainid-coverage", 15)
	// Equals: every comparison is field-with-same-field and a difference yields false
	if f := c.Fn("types.(*ChainID).Equals"); f != nil {
		info := f.Info()
		bad := ""
		n := 0
		ast.Inspect(f.Body, func(m ast.Node) bool {
			be, ok := m.(*ast.BinaryExpr)
			if !ok || (be.Op != token.NEQ && be.Op != token.EQL) {
				return true
			}
			fx, fy := an.FieldOf(info, be.X), an.FieldOf(info, be.Y)
			if fx == nil && fy == nil {
				return true
			}
			n++
			if fx != fy {
				bad = "a comparison relates two different fields"
			}
			return true
		})
		c.Check("chainid-coverage", "types.(*ChainID).Equals|same-field", f.Pos(), bad == "" && n >= st.NumFields(), "Equals compares each field with the same field of the other chain id "+bad)
	}

	// chainid-version-prefix: the version occupies the first versionByteSize bytes everywhere
	vbs := p.LookupObj("types", "versionByteSize")
	size := ""
	if cst, ok := vbs.(*types.Const); ok {
		size = cst.Val().ExactString()
	}
	if size == "" {
		c.Undecide("chainid-version-prefix", "types.versionByteSize", "constant not found")
		return
	}
	// ChainIdVersion: make(versionByteSize) + PutUint32 ; DecodeChainIdVersion: Uint32 ; width 4 == versionByteSize
	if f := c.Fn("types.ChainIdVersion"); f != nil {
		info := f.Info()
		ok := false
		var order types.Object
		for _, call := range an.CallsIn(f.Body) {
			if fn := an.Callee(info, call); fn != nil && fn.Pkg() != nil && fn.Pkg().Path() == "encoding/binary" && fn.Name() == "PutUint32" {
				ok = size == "4"
				order = c19ByteOrder(info, an.FieldUse{SinkFn: fn, SinkCall: call})
			}
		}
		mk := false
		for _, call := range an.CallsIn(f.Body) {
			if an.IsBuiltin(info, call, "make") && len(call.Args) == 2 {
				if tv, has := info.Types[call.Args[1]]; has && tv.Value != nil && tv.Value.ExactString() == size {
					mk = true
				}
			}
		}
		var dorder types.Object
		dec := false
		if d := c.Fn("types.DecodeChainIdVersion"); d != nil {
			for _, call := range an.CallsIn(d.Body) {
				if fn := an.Callee(d.Info(), call); fn != nil && fn.Pkg() != nil && fn.Pkg().Path() == "encoding/binary" && fn.Name() == "Uint32" {
					dec = true
					dorder = c19ByteOrder(d.Info(), an.FieldUse{SinkFn: fn, SinkCall: call})
				}
			}
		}
		c.Check("chainid-version-prefix", "types.ChainIdVersion~types.DecodeChainIdVersion", f.Pos(), ok && mk && dec && order != nil && order == dorder,
			"the version prefix is written as a 32-bit integer into versionByteSize(=4) bytes and read back as a 32-bit integer with the same byte order")
	}
	// The instances `chainid-version-prefix|types.MakeChainId` and
	// `|types.ChainIdEqualWithoutVersion` ("every constant slice bound equals
	// versionByteSize") were removed: they accepted a bound of 4 in either
	// position (`cid[:4]` for `cid[4:]` passed) and refused a harmless explicit
	// upper bound (`cid[4:len(cid)]`).  Rule chainid-remainder (c19_gap.go,
	// c19GapChainIDRemainder) decides the same clause exactly: which operand is
	// sliced, on which side, by versionByteSize, and what the slices are used for.
	if f := c.Fn("types.MakeChainId"); f != nil {
		// the new id is: version bytes of v, then the old remainder; same length
		info := f.Info()
		okV := false
		for _, s := range f.Graph().CallsTo("types.ChainIdVersion") {
			if len(s.Call.Args) == 1 && len(f.Type.Params.List) == 2 {
				if o := an.ObjOf(info, s.Call.Args[0]); o != nil && o == info.Defs[f.Type.Params.List[1].Names[0]] {
					okV = true
				}
			}
		}
		c.Check("chainid-version-prefix", "types.MakeChainId|version", f.Pos(), okV, "the prefix is ChainIdVersion of the version parameter")
	}
	c.Floor("chainid-version-prefix", 2)

	// genesis-codec: Bytes and GetGenesisFromBytes use the two halves of one codec on a Genesis value
	gobj := p.LookupObj("types", "Genesis")
	if w, r := c.Fn("types.(Genesis).Bytes"), c.Fn("types.GetGenesisFromBytes"); w != nil && r != nil && gobj != nil {
		isGen := func(info *types.Info, e ast.Expr) bool {
			tv, ok := info.Types[e]
			if !ok {
				return false
			}
			t := tv.Type
			if pt, ok := t.(*types.Pointer); ok {
				t = pt.Elem()
			}
			return types.Identical(t, gobj.Type())
		}
		enc := w.Graph().CallsTo("internal/enc/gob.Encode")
		dec := r.Graph().CallsTo("internal/enc/gob.Decode")
		ok := len(enc) == 1 && len(dec) == 1 && isGen(w.Info(), enc[0].Call.Args[0]) && isGen(r.Info(), dec[0].Call.Args[1])
		c.Check("genesis-codec", "types.(Genesis).Bytes~types.GetGenesisFromBytes", w.Pos(), ok, "genesis is written with gob.Encode(Genesis) and read with gob.Decode into *Genesis (the two halves of internal/enc/gob)")
		// only Balance is blanked before encoding (it is stored through the state, totalBalance separately)
		gst := p.LookupStruct("types", "Genesis")
		if gst != nil {
			var blanked []string
			for _, a := range p.FieldTrace(w, gst, nil) {
				if a.IsWrite() {
					blanked = append(blanked, a.Field.Name())
				}
			}
			c.Check("genesis-codec", "types.(Genesis).Bytes|omitted", w.Pos(), strings.Join(blanked, ",") == "Balance", "only Balance is blanked before encoding (initial balances live in the state trie; their total is stored under its own key): "+strings.Join(blanked, ","))
		}
	}
	c.Floor("genesis-codec", 2)
}

// ---------------------------------------------------------------------------
// hardfork table

type c19ForkJSON struct {
	Version       int
	MainNetHeight uint64
	TestNetHeight uint64
}

func c19Hardfork(c *rep.Ctx) {
	p := c.Prog
	st := p.LookupStruct("config", "HardforkConfig")
	if st == nil {
		c.Undecide("anchor", "config.HardforkConfig", "struct not found")
		return
	}
	blockNo := p.LookupObj("types", "BlockNo")
	first := 2
	// hardfork-fields: the reflective Version()/validate()/FixDbConfig rely on: field i is V<first+i>, unsigned
	nf := st.NumFields()
	for i := 0; i < nf; i++ {
		fld := st.Field(i)
		want := "V" + itoa(first+i)
		okT := false
		if b, ok := fld.Type().Underlying().(*types.Basic); ok && b.Info()&types.IsUnsigned != 0 {
			okT = true
		}
		if blockNo != nil {
			okT = okT && types.Identical(fld.Type(), blockNo.Type())
		}
		c.Check("hardfork-fields", "config.HardforkConfig|"+want, fld.Pos(), fld.Name() == want && okT && fld.Exported(),
			"field "+itoa(i)+" of HardforkConfig is "+want+" of type types.BlockNo (Version() returns index+"+itoa(first)+" and reads the fields with reflect Uint(): order, naming and type are load-bearing); got "+fld.Name())
	}
	if nf < 4 {
		c.Undecide("hardfork-fields", "config.HardforkConfig", "fewer than 4 versions")
	}
	c.Floor("hardfork-fields", 4)

	// isFork operator and Version operator agree (<=), Version offset == first
	var forkOp token.Token
	if f := c.Fn("config.isFork"); f != nil {
		info := f.Info()
		ok := false
		rets := f.Graph().Returns()
		if len(rets) == 1 && len(f.Type.Params.List) >= 1 {
			var params []types.Object
			for _, fl := range f.Type.Params.List {
				for _, nm := range fl.Names {
					params = append(params, info.Defs[nm])
				}
			}
			rs := rets[0].Ast.(*ast.ReturnStmt)
			if be, isB := ast.Unparen(rs.Results[0]).(*ast.BinaryExpr); isB && len(params) == 2 {
				x, y := an.ObjOf(info, be.X), an.ObjOf(info, be.Y)
				switch {
				case x == params[0] && y == params[1]:
					forkOp = be.Op
				case x == params[1] && y == params[0]:
					forkOp = c19Flip(be.Op)
				}
				ok = forkOp == token.LEQ
			}
		}
		c.Check("hardfork-op", "config.isFork", f.Pos(), ok, "isFork(forkHeight, h) is `forkHeight <= h`: a fork is active from its height on, and activity is monotone in h")
	}
	if f := c.Fn("config.(*HardforkConfig).Version"); f != nil {
		info := f.Info()
		var h types.Object
		if len(f.Type.Params.List) == 1 && len(f.Type.Params.List[0].Names) == 1 {
			h = info.Defs[f.Type.Params.List[0].Names[0]]
		}
		opOK, offOK, descOK := false, false, false
		ast.Inspect(f.Body, func(m ast.Node) bool {
			switch x := m.(type) {
			case *ast.ForStmt:
				// i := NumField()-1 ; i >= 0 ; i--
				if as, ok := x.Init.(*ast.AssignStmt); ok && len(as.Rhs) == 1 {
					if be, ok := ast.Unparen(as.Rhs[0]).(*ast.BinaryExpr); ok && be.Op == token.SUB {
						if call, ok := ast.Unparen(be.X).(*ast.CallExpr); ok {
							if fn := an.Callee(info, call); fn != nil && fn.Name() == "NumField" {
								if tv, has := info.Types[be.Y]; has && tv.Value != nil && tv.Value.ExactString() == "1" {
									if post, ok := x.Post.(*ast.IncDecStmt); ok && post.Tok == token.DEC {
										if cb, ok := ast.Unparen(x.Cond).(*ast.BinaryExpr); ok && cb.Op == token.GEQ {
											if tv, has := info.Types[cb.Y]; has && tv.Value != nil && tv.Value.ExactString() == "0" {
												descOK = true
											}
										}
									}
								}
							}
						}
					}
				}
			case *ast.IfStmt:
				if be, ok := ast.Unparen(x.Cond).(*ast.BinaryExpr); ok {
					op := be.Op
					l, r := be.X, be.Y
					if an.ObjOf(info, l) == h && h != nil {
						l, r = r, l
						op = c19Flip(op)
					}
					if an.ObjOf(info, r) == h && h != nil {
						if call, ok := ast.Unparen(l).(*ast.CallExpr); ok {
							if fn := an.Callee(info, call); fn != nil && fn.Name() == "Uint" {
								opOK = op == forkOp && forkOp != token.ILLEGAL
							}
						}
					}
				}
				for _, b := range x.Body.List {
					if rs, ok := b.(*ast.ReturnStmt); ok && len(rs.Results) == 1 {
						e := ast.Unparen(rs.Results[0])
						if cv, ok := e.(*ast.CallExpr); ok && len(cv.Args) == 1 {
							e = ast.Unparen(cv.Args[0])
						}
						if be, ok := e.(*ast.BinaryExpr); ok && be.Op == token.ADD {
							if tv, has := info.Types[be.Y]; has && tv.Value != nil && tv.Value.ExactString() == itoa(first) {
								offOK = true
							}
						}
					}
				}
			}
			return true
		})
		c.Check("hardfork-op", "config.(*HardforkConfig).Version|operator", f.Pos(), opOK, "Version(h) tests `height <= h` with the same operator as isFork: Version(h) >= n exactly when IsVnFork(h) (heights ascending by validate())")
		c.Check("hardfork-op", "config.(*HardforkConfig).Version|scan", f.Pos(), descOK && offOK, "Version scans the fields from the last to the first and returns index+"+itoa(first)+" of the first active one (the highest active version), else 0")
	}
	if f := c.Fn("config.(*HardforkConfig).validate"); f != nil {
		// prev > curr => error : heights must be non-decreasing in the version
		info := f.Info()
		ok := false
		ast.Inspect(f.Body, func(m ast.Node) bool {
			ifs, isIf := m.(*ast.IfStmt)
			if !isIf {
				return true
			}
			be, isB := ast.Unparen(ifs.Cond).(*ast.BinaryExpr)
			if !isB {
				return true
			}
			x, y := an.ObjOf(info, be.X), an.ObjOf(info, be.Y)
			if x == nil || y == nil {
				return true
			}
			// which of the two is assigned from Field(i).Uint() in the loop (curr) ?
			isCurr := func(o types.Object) bool {
				res := false
				ast.Inspect(f.Body, func(k ast.Node) bool {
					if as, ok := k.(*ast.AssignStmt); ok && len(as.Lhs) == 1 && len(as.Rhs) == 1 && an.ObjOf(info, as.Lhs[0]) == o {
						if call, ok := ast.Unparen(as.Rhs[0]).(*ast.CallExpr); ok {
							if fn := an.Callee(info, call); fn != nil && fn.Name() == "Uint" {
								res = true
							}
						}
					}
					return true
				})
				return res
			}
			op := be.Op
			if isCurr(x) && !isCurr(y) {
				op = c19Flip(op) // normalise to  prev OP curr
			} else if !(isCurr(y) && !isCurr(x)) {
				return true
			}
			fails := false
			for _, b := range ifs.Body.List {
				if rs, isR := b.(*ast.ReturnStmt); isR && len(rs.Results) == 1 {
					if tv, has := info.Types[rs.Results[0]]; has && !tv.IsNil() {
						fails = true
					}
				}
			}
			ok = op == token.GTR && fails
			return true
		})
		c.Check("hardfork-op", "config.(*HardforkConfig).validate", f.Pos(), ok, "validate rejects a configuration in which a later version has a strictly lower height than an earlier one (`prev > curr`): the version is monotone in the height")
	}
	c.Floor("hardfork-op", 4)

	// hardfork-isfork: IsVnFork reads exactly field Vn
	for i := 0; i < nf; i++ {
		fld := st.Field(i)
		name := "config.(*HardforkConfig).Is" + fld.Name() + "Fork"
		f := p.Func(name)
		if f == nil || f.Body == nil {
			c.Check("hardfork-isfork", name, fld.Pos(), false, "every version field has its IsVnFork predicate")
			continue
		}
		info := f.Info()
		calls := f.Graph().CallsTo("config.isFork")
		ok := len(calls) == 1 && len(calls[0].Call.Args) == 2 && an.FieldOf(info, calls[0].Call.Args[0]) == fld
		if ok {
			var h types.Object
			if len(f.Type.Params.List) == 1 && len(f.Type.Params.List[0].Names) == 1 {
				h = info.Defs[f.Type.Params.List[0].Names[0]]
			}
			ok = h != nil && an.ObjOf(info, calls[0].Call.Args[1]) == h
			if ok {
				rets := f.Graph().Returns()
				ok = len(rets) == 1 && ast.Unparen(rets[0].Ast.(*ast.ReturnStmt).Results[0]) == ast.Expr(calls[0].Call)
			}
		}
		c.Check("hardfork-isfork", name, f.Pos(), ok, "Is"+fld.Name()+"Fork(h) returns isFork(c."+fld.Name()+", h): its own field, the height parameter, not negated")
	}
	c.Floor("hardfork-isfork", 4)

	// hardfork-compat: CheckCompatibility has, per field, one guard reading that field and dbCfg under the same name
	if f := c.Fn("config.(*HardforkConfig).CheckCompatibility"); f != nil {
		info := f.Info()
		g := f.Graph()
		seen := map[*types.Var]bool{}
		fset := map[*types.Var]bool{}
		for i := 0; i < nf; i++ {
			fset[st.Field(i)] = true
		}
		for _, stmt := range f.Body.List {
			ifs, isIf := stmt.(*ast.IfStmt)
			if !isIf {
				continue
			}
			fields := map[*types.Var]bool{}
			keys := map[string]bool{}
			ops := map[token.Token]int{}
			ast.Inspect(ifs, func(m ast.Node) bool {
				switch x := m.(type) {
				case *ast.SelectorExpr:
					if v := an.FieldOf(info, x); v != nil && fset[v] {
						fields[v] = true
					}
				case *ast.BasicLit:
					if tv, has := info.Types[x]; has && tv.Value != nil && x.Kind == token.STRING {
						keys[strings.Trim(tv.Value.ExactString(), `"`)] = true
					}
				case *ast.BinaryExpr:
					if m == ast.Node(x) && c19InCond(ifs.Cond, x) {
						ops[x.Op]++
					}
				}
				return true
			})
			if len(fields) == 0 {
				continue
			}
			var fld *types.Var
			for v := range fields {
				fld = v
			}
			ok := len(fields) == 1 && len(keys) == 1 && keys[fld.Name()]
			// shape: (isFork(c.Vn,h) || isFork(db[Vn],h)) && c.Vn != db[Vn]  -> return error
			shape := ops[token.LAND] == 1 && ops[token.LOR] == 1 && ops[token.NEQ] == 1 && len(ops) == 3
			nIs := 0
			for _, call := range an.CallsIn(ifs.Cond) {
				if an.CalleeName(info, call) == "config.isFork" {
					nIs++
				}
			}
			fails := false
			for _, b := range ifs.Body.List {
				if rs, isR := b.(*ast.ReturnStmt); isR {
					if nd := g.NodeOf(rs); nd != nil && g.FailureReturns()[nd] {
						fails = true
					}
				}
			}
			if len(fields) == 1 {
				seen[fld] = true
			}
			c.Check("hardfork-compat", "config.(*HardforkConfig).CheckCompatibility|"+fld.Name(), ifs.Pos(), ok && shape && nIs == 2 && fails,
				"one guard per version: (fork active in the node's or the chain's table at the best height) && heights differ => error, reading field "+fld.Name()+" and the stored entry under the same name only")
		}
		for i := 0; i < nf; i++ {
			if !seen[st.Field(i)] {
				c.Check("hardfork-compat", "config.(*HardforkConfig).CheckCompatibility|"+st.Field(i).Name(), f.Pos(), false, "no compatibility guard for version field "+st.Field(i).Name()+": a restart with a different height for it is accepted")
			}
		}
		// validate() first, checkOlderNode(max version) last
		v := g.CallsTo("config.(*HardforkConfig).validate")
		o := g.CallsTo("config.checkOlderNode")
		okTail := len(v) == 1 && len(o) == 1 && len(o[0].Call.Args) == 3
		if okTail {
			tv, has := info.Types[o[0].Call.Args[0]]
			okTail = has && tv.Value != nil && tv.Value.ExactString() == itoa(first+nf-1)
			for _, s := range g.Calls(func(fn *types.Func, _ *ast.CallExpr) bool { return fn != nil && an.FuncName(fn) == "config.isFork" }) {
				if !g.Dominated(s.Node, g.ErrNilEdges(v[0])) {
					okTail = false
				}
			}
		}
		c.Check("hardfork-compat", "config.(*HardforkConfig).CheckCompatibility|frame", f.Pos(), okTail, "the table is validated (ascending heights) before it is compared, and versions unknown to this node are checked by checkOlderNode(max known version = "+itoa(first+nf-1)+")")
	}
	c.Floor("hardfork-compat", 5)

	// hardfork-json: the generated tables agree with hardfork.json
	raw, err := os.ReadFile(filepath.Join(an.RepoDir(), "config", "hardfork.json"))
	if err != nil {
		c.Undecide("hardfork-json", "config/hardfork.json", err.Error())
		return
	}
	var table []c19ForkJSON
	if err := json.Unmarshal(raw, &table); err != nil {
		c.Undecide("hardfork-json", "config/hardfork.json", err.Error())
		return
	}
	okJSON := len(table) == nf
	var prevM, prevT uint64
	for i, e := range table {
		if e.Version != first+i || e.MainNetHeight < prevM || e.TestNetHeight < prevT {
			okJSON = false
		}
		prevM, prevT = e.MainNetHeight, e.TestNetHeight
	}
	c.Check("hardfork-json", "config/hardfork.json|shape", token.NoPos, okJSON, "hardfork.json lists the versions "+itoa(first)+".."+itoa(first+nf-1)+" consecutively, one per field of HardforkConfig, with non-decreasing heights on both networks")
	pk := p.Pkg("config")
	lits := map[string]*ast.CompositeLit{}
	if pk != nil {
		for _, file := range pk.Syntax {
			for _, d := range file.Decls {
				gd, ok := d.(*ast.GenDecl)
				if !ok || gd.Tok != token.VAR {
					continue
				}
				for _, sp := range gd.Specs {
					vs := sp.(*ast.ValueSpec)
					for i, nm := range vs.Names {
						if i < len(vs.Values) {
							e := ast.Unparen(vs.Values[i])
							if u, ok := e.(*ast.UnaryExpr); ok && u.Op == token.AND {
								e = u.X
							}
							if cl, ok := e.(*ast.CompositeLit); ok {
								if tv, has := pk.TypesInfo.Types[cl]; has {
									if s, ok := tv.Type.Underlying().(*types.Struct); ok && s == st {
										lits[nm.Name] = cl
									}
								}
							}
						}
					}
				}
			}
		}
	}
	for _, net := range []struct {
		name string
		get  func(e c19ForkJSON) (uint64, bool)
	}{
		{"MainNetHardforkConfig", func(e c19ForkJSON) (uint64, bool) { return e.MainNetHeight, true }},
		{"TestNetHardforkConfig", func(e c19ForkJSON) (uint64, bool) { return e.TestNetHeight, true }},
		{"AllEnabledHardforkConfig", func(e c19ForkJSON) (uint64, bool) { return 0, true }},
	} {
		cl := lits[net.name]
		if cl == nil {
			c.Undecide("hardfork-json", "config."+net.name, "table literal not found")
			continue
		}
		vals := map[string]string{}
		for i, el := range cl.Elts {
			var key string
			var val ast.Expr
			if kv, ok := el.(*ast.KeyValueExpr); ok {
				key, val = kv.Key.(*ast.Ident).Name, kv.Value
			} else if i < nf {
				key, val = st.Field(i).Name(), el
			}
			if tv, has := pk.TypesInfo.Types[val]; has && tv.Value != nil {
				vals[key] = tv.Value.ExactString()
			}
		}
		for i, e := range table {
			if i >= nf {
				break
			}
			want, _ := net.get(e)
			name := "V" + itoa(e.Version)
			c.Check("hardfork-json", "config."+net.name+"|"+name, cl.Pos(), vals[name] == c19Utoa(want), "compiled-in height of "+name+" equals hardfork.json ("+c19Utoa(want)+"), got "+vals[name])
		}
	}
	c.Floor("hardfork-json", 13)
}

func c19InCond(cond ast.Expr, x ast.Node) bool {
	return cond.Pos() <= x.Pos() && x.End() <= cond.End()
}

func c19Utoa(u uint64) string {
	if u == 0 {
		return "0"
	}
	s := ""
	for u > 0 {
		s = string(rune('0'+u%10)) + s
		u /= 10
	}
	return s
}

func c19Flip(op token.Token) token.Token {
	switch op {
	case token.LSS:
		return token.GTR
	case token.GTR:
		return token.LSS
	case token.LEQ:
		return token.GEQ
	case token.GEQ:
		return token.LEQ
	}
	return op
}

// ---------------------------------------------------------------------------
// merkle-fill: every element, in slice order, becomes a leaf

func c19Merkle(c *rep.Ctx) {
	p := c.Prog
	// --- the tree builder hashes every entry at its own index and returns the last node
	if f := c.Fn("internal/merkle.CalculateMerkleTree"); f != nil {
		info := f.Info()
		var entries types.Object
		if len(f.Type.Params.List) == 1 && len(f.Type.Params.List[0].Names) == 1 {
			entries = info.Defs[f.Type.Params.List[0].Names[0]]
		}
		ok := false
		why := "no fill loop over the entries"
		for _, rf := range an.RangeFills(f) {
			if an.ObjOf(info, rf.Src) != entries || entries == nil {
				continue
			}
			hashes := false
			if call, isC := ast.Unparen(rf.Value).(*ast.CallExpr); isC {
				if fn := an.Callee(info, call); fn != nil && an.FuncName(fn) == "internal/merkle.(MerkleEntry).GetHash" {
					hashes = true
				}
			}
			ok = rf.IndexIsK && rf.UsesValue && rf.TopLevel && rf.NoEscape && hashes
			why = ""
			if !ok {
				why = "shape differs"
			}
		}
		c.Check("merkle-fill", "internal/merkle.CalculateMerkleTree", f.Pos(), ok, "leaf i is entries[i].GetHash() for every i, unconditionally, no early exit ("+why+")")
	}
	if f := c.Fn("internal/merkle.CalculateMerkleRoot"); f != nil {
		info := f.Info()
		g := f.Graph()
		ts := g.CallsTo("internal/merkle.CalculateMerkleTree")
		ok := false
		if len(ts) == 1 && len(f.Type.Params.List) == 1 {
			res := g.ResultVarAt(ts[0], 0)
			argOK := an.ObjOf(info, ts[0].Call.Args[0]) == info.Defs[f.Type.Params.List[0].Names[0]]
			for _, r := range g.Returns() {
				rs := r.Ast.(*ast.ReturnStmt)
				if len(rs.Results) != 1 {
					continue
				}
				ix, isIx := ast.Unparen(rs.Results[0]).(*ast.IndexExpr)
				if !isIx || an.ObjOf(info, ix.X) != res || res == nil {
					continue
				}
				// index == len(res)-1
				if be, isB := ast.Unparen(ix.Index).(*ast.BinaryExpr); isB && be.Op == token.SUB {
					if call, isC := ast.Unparen(be.X).(*ast.CallExpr); isC && an.IsBuiltin(info, call, "len") && an.ObjOf(info, call.Args[0]) == res {
						if tv, has := info.Types[be.Y]; has && tv.Value != nil && tv.Value.ExactString() == "1" {
							ok = argOK
						}
					}
				}
			}
		}
		c.Check("merkle-fill", "internal/merkle.CalculateMerkleRoot", f.Pos(), ok, "the root is the last node of the tree built from all entries")
	}
	// --- the two callers
	type caller struct {
		fn    string
		src   func(f *an.Func, e ast.Expr) bool
		extra bool // one optional extra leaf appended (bloom)
	}
	receipts := p.LookupField("types", "Receipts", "receipts")
	bloom := p.LookupField("types", "Receipts", "bloom")
	for _, cl := range []caller{
		{"types.CalculateTxsRootHash", func(f *an.Func, e ast.Expr) bool {
			return len(f.Type.Params.List) == 1 && an.ObjOf(f.Info(), e) == f.Info().Defs[f.Type.Params.List[0].Names[0]]
		}, false},
		{"types.(*Receipts).MerkleRoot", func(f *an.Func, e ast.Expr) bool {
			return receipts != nil && an.FieldOf(f.Info(), e) == receipts
		}, true},
	} {
		f := c.Fn(cl.fn)
		if f == nil {
			continue
		}
		info := f.Info()
		g := f.Graph()
		why := "no fill loop over the source list"
		ok := false
		var dst types.Object
		var srcExpr ast.Expr
		for _, rf := range an.RangeFills(f) {
			if !cl.src(f, rf.Src) {
				continue
			}
			dst, srcExpr = rf.Dst, rf.Src
			ok = rf.IndexIsK && rf.UsesValue && rf.TopLevel && rf.NoEscape
			why = ""
			if !ok {
				why = "element i is not stored at index i unconditionally"
			}
		}
		if ok {
			// dst = make([]MerkleEntry, N): N == len(src) or a variable initialised with len(src) (+1 under the bloom condition)
			sized := false
			ast.Inspect(f.Body, func(m ast.Node) bool {
				as, isAs := m.(*ast.AssignStmt)
				if !isAs || len(as.Lhs) != 1 || len(as.Rhs) != 1 || an.ObjOf(info, as.Lhs[0]) != dst {
					return true
				}
				mk, isC := ast.Unparen(as.Rhs[0]).(*ast.CallExpr)
				if !isC || !an.IsBuiltin(info, mk, "make") || len(mk.Args) != 2 {
					return true
				}
				isLenSrc := func(e ast.Expr) bool {
					call, isC := ast.Unparen(e).(*ast.CallExpr)
					return isC && an.IsBuiltin(info, call, "len") && an.SameExpr(info, call.Args[0], srcExpr)
				}
				if isLenSrc(mk.Args[1]) {
					sized = true
					return true
				}
				if nobj := an.ObjOf(info, mk.Args[1]); nobj != nil && cl.extra {
					// n := len(src); if bloom != nil { n++ }
					initOK, incs, other := false, 0, 0
					ast.Inspect(f.Body, func(k ast.Node) bool {
						switch x := k.(type) {
						case *ast.AssignStmt:
							for i, l := range x.Lhs {
								if an.ObjOf(info, l) == nobj {
									if x.Tok == token.DEFINE && i < len(x.Rhs) && isLenSrc(x.Rhs[i]) {
										initOK = true
									} else if len(x.Lhs) == 1 && len(x.Rhs) == 1 && c19StepsByOne(info, x) {
										incs++ // `n += 1` / `n = n + 1`: the same step as `n++`
									} else {
										other++
									}
								}
							}
						case *ast.IncDecStmt:
							if an.ObjOf(info, x.X) == nobj {
								if x.Tok == token.INC {
									incs++
								} else {
									other++
								}
							}
						}
						return true
					})
					sized = initOK && incs == 1 && other == 0
				}
				return true
			})
			if !sized {
				ok, why = false, "the leaf slice is not sized by the length of the source list"
			}
		}
		if ok {
			// the filled slice is what CalculateMerkleRoot gets, and its result is returned
			fed := false
			for _, s := range g.CallsTo("internal/merkle.CalculateMerkleRoot") {
				if len(s.Call.Args) == 1 && an.ObjOf(info, s.Call.Args[0]) == dst {
					if rs, isR := s.Node.Ast.(*ast.ReturnStmt); isR && len(rs.Results) == 1 && ast.Unparen(rs.Results[0]) == ast.Expr(s.Call) {
						fed = true
					}
				}
			}
			if !fed {
				ok, why = false, "the filled slice is not what CalculateMerkleRoot is applied to and returned"
			}
		}
		if ok {
			// other element stores: only the optional bloom leaf at the last index, under bloom != nil
			ast.Inspect(f.Body, func(m ast.Node) bool {
				as, isAs := m.(*ast.AssignStmt)
				if !isAs || len(as.Lhs) != 1 {
					return true
				}
				ix, isIx := ast.Unparen(as.Lhs[0]).(*ast.IndexExpr)
				if !isIx || an.ObjOf(info, ix.X) != dst {
					return true
				}
				inLoop := false
				for _, rf := range an.RangeFills(f) {
					if rf.Assign == as {
						inLoop = true
					}
				}
				if inLoop {
					return true
				}
				if !cl.extra || bloom == nil || an.FieldOf(info, as.Rhs[0]) != bloom {
					ok, why = false, "a leaf is overwritten outside the fill loop"
					return true
				}
				// index: size-1
				be, isB := ast.Unparen(ix.Index).(*ast.BinaryExpr)
				lastIdx := false
				if isB && be.Op == token.SUB {
					if tv, has := info.Types[be.Y]; has && tv.Value != nil && tv.Value.ExactString() == "1" {
						lastIdx = true
					}
				}
				node := g.NodeContaining(as.Pos())
				guarded := false
				if node != nil {
					for _, ft := range g.FactsAt(node) {
						if an.CondImplies(info, ft.Cond, ft.Val, c19FieldNilAtom(info, bloom), map[string]bool{"nil": false}) {
							guarded = true
						}
					}
				}
				if !lastIdx || !guarded {
					ok, why = false, "the bloom leaf is not stored at the last index under `bloom != nil`"
				}
				return true
			})
		}
		c.Check("merkle-fill", cl.fn, f.Pos(), ok, "every element of the list, in slice order, becomes leaf i of the tree whose root is returned ("+why+")")
	}
	c.Floor("merkle-fill", 4)
}

// c19StepsByOne: the single assignment `v += 1`, `v = v + 1`, `v = 1 + v`
// (any linear spelling, linOf) of a plain variable: the same step as `v++`.
func c19StepsByOne(info *types.Info, as *ast.AssignStmt) bool {
	if len(as.Lhs) != 1 || len(as.Rhs) != 1 {
		return false
	}
	if _, isID := ast.Unparen(as.Lhs[0]).(*ast.Ident); !isID {
		return false
	}
	r, ok := linOf(info, as.Rhs[0])
	if !ok {
		return false
	}
	switch as.Tok {
	case token.ADD_ASSIGN:
		return len(r) == 1 && r["1"] == 1
	case token.ASSIGN:
		l, ok := linOf(info, as.Lhs[0])
		if !ok || len(l) != 1 {
			return false
		}
		d := r.add(l, -1)
		return len(d) == 1 && d["1"] == 1
	}
	return false
}

// c19FieldNilAtom: atom "nil" for `x.f == nil` / `x.f != nil`.
func c19FieldNilAtom(info *types.Info, fld *types.Var) an.Atomizer {
	return func(e ast.Expr) (string, bool, bool) {
		be, ok := ast.Unparen(e).(*ast.BinaryExpr)
		if !ok || (be.Op != token.EQL && be.Op != token.NEQ) {
			return "", false, false
		}
		for _, pr := range [][2]ast.Expr{{be.X, be.Y}, {be.Y, be.X}} {
			if an.FieldOf(info, pr[0]) == fld {
				if tv, has := info.Types[pr[1]]; has && tv.IsNil() {
					return "nil", be.Op == token.NEQ, true
				}
			}
		}
		return "", false, false
	}
}
