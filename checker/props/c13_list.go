package props

import (
	"go/ast"
	"go/token"
	"go/types"

	"verif/checker/internal/an"
)

// Rules on the per-account list (txList) and on MemPool.put: duplicate and
// nonce gates, the comparison operators the statement fixes, the ready prefix.

// ---------------------------------------------------------------------------
// nonce terms and comparisons

// c13Term classifies an integer expression as  <nonce> + off :
//
//	'N' nonce of a transaction (X.GetBody().GetNonce()), Root = X's root object
//	'S' nonce of an account state (st.Nonce, st.GetNonce())
//	'P' a local that holds either, depending on the path (the predecessor nonce in continuous)
type c13Term struct {
	kind byte
	off  int
	root types.Object
	list bool // an element of txList.list
}

func c13ConstInt(info *types.Info, x ast.Expr) (int, bool) {
	tv, ok := info.Types[x]
	if !ok || tv.Value == nil {
		return 0, false
	}
	s := tv.Value.ExactString()
	n, neg := 0, false
	for i, ch := range s {
		if i == 0 && ch == '-' {
			neg = true
			continue
		}
		if ch < '0' || ch > '9' || n > 1000 {
			return 0, false
		}
		n = n*10 + int(ch-'0')
	}
	if neg {
		n = -n
	}
	return n, true
}

func (e *c13Env) term(f *an.Func, x ast.Expr, depth int) c13Term {
	info := f.Info()
	x = ast.Unparen(x)
	if depth > 4 {
		return c13Term{}
	}
	switch v := x.(type) {
	case *ast.BinaryExpr:
		if v.Op == token.ADD || v.Op == token.SUB {
			if k, ok := c13ConstInt(info, v.Y); ok {
				t := e.term(f, v.X, depth+1)
				if v.Op == token.SUB {
					k = -k
				}
				t.off += k
				return t
			}
			if k, ok := c13ConstInt(info, v.X); ok && v.Op == token.ADD {
				t := e.term(f, v.Y, depth+1)
				t.off += k
				return t
			}
		}
	case *ast.SelectorExpr:
		if an.FieldOf(info, v) == e.stNonce {
			return c13Term{kind: 'S', root: an.RootObj(info, v.X)}
		}
	case *ast.CallExpr:
		switch an.CalleeName(info, v) {
		case "types.(*State).GetNonce":
			if sel, ok := ast.Unparen(v.Fun).(*ast.SelectorExpr); ok {
				return c13Term{kind: 'S', root: an.RootObj(info, sel.X)}
			}
		case "types.(*TxBody).GetNonce":
			// X.GetBody().GetNonce(): walk the receiver chain down to X
			t := c13Term{kind: 'N'}
			var cur ast.Expr = v
			for {
				cur = ast.Unparen(cur)
				if c, ok := cur.(*ast.CallExpr); ok {
					if s, ok := ast.Unparen(c.Fun).(*ast.SelectorExpr); ok {
						cur = s.X
						continue
					}
					return c13Term{}
				}
				break
			}
			ast.Inspect(cur, func(n ast.Node) bool {
				if s, ok := n.(*ast.SelectorExpr); ok && an.FieldOf(info, s) == e.tlList {
					t.list = true
				}
				return true
			})
			t.root = an.RootObj(info, cur)
			return t
		}
	case *ast.Ident:
		obj, ok := an.ObjOf(info, v).(*types.Var)
		if !ok || obj.IsField() {
			return c13Term{}
		}
		// definitions in the function that declares the variable
		df := e.p.EnclosingFunc(f.Pkg, obj.Pos())
		if df == nil {
			return c13Term{}
		}
		defs, _ := c13Defs(df, obj)
		if len(defs) == 0 {
			return c13Term{}
		}
		var res c13Term
		for i, d := range defs {
			if d == nil {
				return c13Term{}
			}
			t := e.term(df, d, depth+1)
			if t.kind == 0 {
				return c13Term{}
			}
			if i == 0 {
				res = t
				continue
			}
			if t.off != res.off {
				return c13Term{}
			}
			if t.kind != res.kind || t.root != res.root {
				res.kind, res.root = 'P', nil
			}
			res.list = res.list || t.list
		}
		return res
	}
	return c13Term{}
}

// c13Cmp normalises a comparison between a transaction nonce N and a
// reference nonce R (state or predecessor) to  N <rel> R + k  with rel in
// "LT","GT","EQ","NE".
func (e *c13Env) cmp(f *an.Func, x ast.Expr) (rel string, k int, n, r c13Term, ok bool) {
	b, isB := ast.Unparen(x).(*ast.BinaryExpr)
	if !isB {
		return
	}
	op := b.Op
	l, rr := e.term(f, b.X, 0), e.term(f, b.Y, 0)
	isRef := func(t c13Term) bool { return t.kind == 'S' || t.kind == 'P' }
	switch {
	case l.kind == 'N' && isRef(rr):
	case rr.kind == 'N' && isRef(l):
		l, rr = rr, l
		switch op {
		case token.LSS:
			op = token.GTR
		case token.GTR:
			op = token.LSS
		case token.LEQ:
			op = token.GEQ
		case token.GEQ:
			op = token.LEQ
		}
	default:
		return
	}
	d := rr.off - l.off
	switch op {
	case token.LSS:
		return "LT", d, l, rr, true
	case token.LEQ:
		return "LT", d + 1, l, rr, true
	case token.GTR:
		return "GT", d, l, rr, true
	case token.GEQ:
		return "GT", d - 1, l, rr, true
	case token.EQL:
		return "EQ", d, l, rr, true
	case token.NEQ:
		return "NE", d, l, rr, true
	}
	return
}

// atomLow: atom LOW  <=>  N <= R  (the nonce is at or below the reference).
func (e *c13Env) atomLow(f *an.Func) an.Atomizer {
	return func(x ast.Expr) (string, bool, bool) {
		rel, k, _, _, ok := e.cmp(f, x)
		switch {
		case ok && rel == "LT" && k == 1:
			return "LOW", false, true
		case ok && rel == "GT" && k == 0:
			return "LOW", true, true
		}
		return "", false, false
	}
}

// atomSucc: atom SUCC  <=>  N == R + 1.
func (e *c13Env) atomSucc(f *an.Func) an.Atomizer {
	return func(x ast.Expr) (string, bool, bool) {
		rel, k, _, _, ok := e.cmp(f, x)
		switch {
		case ok && rel == "EQ" && k == 1:
			return "SUCC", false, true
		case ok && rel == "NE" && k == 1:
			return "SUCC", true, true
		}
		return "", false, false
	}
}

// atomSame: atom SAME <=> the nonces of two different transactions are equal.
func (e *c13Env) atomSame(f *an.Func) an.Atomizer {
	return func(x ast.Expr) (string, bool, bool) {
		b, ok := ast.Unparen(x).(*ast.BinaryExpr)
		if !ok || (b.Op != token.EQL && b.Op != token.NEQ) {
			return "", false, false
		}
		l, r := e.term(f, b.X, 0), e.term(f, b.Y, 0)
		if l.kind == 'N' && r.kind == 'N' && l.off == r.off && l.list != r.list {
			return "SAME", b.Op == token.NEQ, true
		}
		return "", false, false
	}
}

func c13BoolConst(info *types.Info, x ast.Expr) (bool, bool) {
	tv, ok := info.Types[x]
	if !ok || tv.Value == nil {
		return false, false
	}
	switch tv.Value.ExactString() {
	case "true":
		return true, true
	case "false":
		return false, true
	}
	return false, false
}

// c13ReturnsBool decides: every `return true` of f is guarded by atom=true and
// every `return false` by atom=false; any other return form is refused.
func c13ReturnsBool(f *an.Func, at an.Atomizer, atom string) (bool, string) {
	g := f.Graph()
	info := f.Info()
	nT, nF := 0, 0
	for _, r := range g.Returns() {
		rs := r.Ast.(*ast.ReturnStmt)
		if len(rs.Results) != 1 {
			return false, "unexpected return form"
		}
		if v, ok := c13BoolConst(info, rs.Results[0]); ok {
			if ok2, _ := g.GuardedAt(r, at, map[string]bool{atom: v}); !ok2 {
				return false, "a `return " + map[bool]string{true: "true", false: "false"}[v] + "` is reachable when the comparison says otherwise"
			}
			if v {
				nT++
			} else {
				nF++
			}
			continue
		}
		// return <comparison>
		if a, neg, ok := at(ast.Unparen(rs.Results[0])); ok && a == atom && !neg {
			nT++
			nF++
			continue
		}
		return false, "a return value is neither a constant guarded by the comparison nor the comparison itself"
	}
	if nT == 0 || nF == 0 {
		return false, "the function does not return both outcomes"
	}
	return true, ""
}

func c13List(e *c13Env) {
	c13TxListPut(e)
	c13PoolPut(e)
	c13NonceOps(e)
	c13Ready(e)
}

// ---------------------------------------------------------------------------
// put-gate: txList.Put

func c13TxListPut(e *c13Env) {
	c := e.c
	f := c.Fn("mempool.(*txList).Put")
	if f == nil {
		return
	}
	g := f.Graph()
	info := f.Info()
	var txParam types.Object
	if f.Type.Params != nil && len(f.Type.Params.List) == 1 && len(f.Type.Params.List[0].Names) == 1 {
		txParam = info.Defs[f.Type.Params.List[0].Names[0]]
	}
	searches := g.CallsTo("mempool.(*txList).search")
	if len(searches) != 1 || txParam == nil {
		c.Undecide("put-gate", "mempool.(*txList).Put", "expected one parameter and exactly one call of txList.search")
		return
	}
	ss := searches[0]
	idx := g.ResultVarAt(ss, 0)
	searchesTx := len(ss.Call.Args) == 1 && an.ObjOf(info, ss.Call.Args[0]) == txParam && c13Stable(f, txParam)
	notFound := g.BoolEdges(ss, false)
	low := e.atomLow(f)
	// atom INS <=> idx < len(tl.list)
	ins := func(x ast.Expr) (string, bool, bool) {
		b, ok := ast.Unparen(x).(*ast.BinaryExpr)
		if !ok {
			return "", false, false
		}
		isIdx := func(y ast.Expr) bool { return idx != nil && an.ObjOf(info, y) == idx }
		isLen := func(y ast.Expr) bool {
			lc, ok := ast.Unparen(y).(*ast.CallExpr)
			return ok && an.IsBuiltin(info, lc, "len") && len(lc.Args) == 1 && an.FieldOf(info, lc.Args[0]) == e.tlList
		}
		op := b.Op
		switch {
		case isIdx(b.X) && isLen(b.Y):
		case isLen(b.X) && isIdx(b.Y):
			switch op {
			case token.LSS:
				op = token.GTR
			case token.GTR:
				op = token.LSS
			case token.LEQ:
				op = token.GEQ
			case token.GEQ:
				op = token.LEQ
			}
		default:
			return "", false, false
		}
		switch op {
		case token.LSS, token.NEQ:
			return "INS", false, true
		case token.GEQ, token.EQL:
			return "INS", true, true
		}
		return "", false, false
	}
	n := 0
	for _, a := range e.acc {
		if a.Fn != f || a.Field != e.tlList || !a.Write {
			continue
		}
		n++
		w := g.NodeContaining(a.Pos)
		name := "mempool.(*txList).Put|insert"
		okLow, how := g.GuardedAt(w, low, map[string]bool{"LOW": false})
		c.Check("put-gate", name+"|nonce-too-low", a.Pos, okLow, "the insertion is reached only when the guard `nonce <= base.Nonce -> ErrTxNonceTooLow` did not fire (a transaction at or below the account's nonce never enters the list): "+how)
		c.Check("put-gate", name+"|same-nonce", a.Pos, searchesTx && len(notFound) > 0 && g.Dominated(w, notFound), "the insertion is reached only when txList.search(tx) reported no entry with the same nonce (found == false)")
		// provenance of the insertion index, and the inserted element
		as, _ := w.Ast.(*ast.AssignStmt)
		okIdx := as != nil && idx != nil && len(as.Rhs) == 1 && c13Mentions(info, as.Rhs[0], txParam)
		sliced := false
		if as != nil {
			ast.Inspect(as.Rhs[0], func(x ast.Node) bool {
				if se, ok := x.(*ast.SliceExpr); ok && an.FieldOf(info, se.X) == e.tlList {
					sliced = true
					for _, b := range []ast.Expr{se.Low, se.High} {
						if b != nil && an.ObjOf(info, b) != idx {
							okIdx = false
						}
					}
					if (se.Low == nil) == (se.High == nil) {
						okIdx = false
					}
				}
				return true
			})
		}
		for m := range g.Between(ss.Node, w) {
			if m.Kind == an.KStmt && idx != nil && an.Assigns(info, m.Ast, idx) {
				okIdx = false
			}
		}
		if !sliced {
			// plain append at the end: only when the index is the end of the list
			okEnd, _ := g.GuardedAt(w, ins, map[string]bool{"INS": false})
			okIdx = okIdx && okEnd
		}
		c.Check("put-gate", name+"|index", a.Pos, okIdx, "the transaction is inserted at the index returned by txList.search (list[:index] + tx + list[index:]), or appended only when that index is the end of the list")
	}
	if n == 0 {
		c.Undecide("put-gate", "mempool.(*txList).Put", "no write of txList.list")
	}
	// search: found <=> in bounds and equal nonce
	if sf := c.Fn("mempool.(*txList).search"); sf != nil {
		sg := sf.Graph()
		sinfo := sf.Info()
		cmps := sg.CallsTo("mempool.(*txList).compare")
		ok := len(cmps) == 1
		var msg string
		if ok {
			cs := cmps[0]
			at := func(x ast.Expr) (string, bool, bool) {
				if ast.Unparen(x) == ast.Expr(cs.Call) {
					return "CMP", false, true
				}
				if b, isB := ast.Unparen(x).(*ast.BinaryExpr); isB && b.Op == token.LSS {
					if lc, isC := ast.Unparen(b.Y).(*ast.CallExpr); isC && an.IsBuiltin(sinfo, lc, "len") && len(lc.Args) == 1 && an.FieldOf(sinfo, lc.Args[0]) == e.tlList {
						return "INB", false, true
					}
				}
				return "", false, false
			}
			yes := sg.BoolEdges(cs, true)
			no := sg.EdgesRefuting(at, []map[string]bool{{"CMP": true, "INB": true}})
			for _, r := range sg.Returns() {
				rs := r.Ast.(*ast.ReturnStmt)
				if len(rs.Results) != 2 {
					ok = false
					continue
				}
				v, isC := c13BoolConst(sinfo, rs.Results[1])
				switch {
				case !isC:
					ok, msg = false, "found is not a constant at a return"
				case v && !sg.Dominated(r, yes):
					ok, msg = false, "found=true is returned without txList.compare having reported equal nonces"
				case !v && !sg.Dominated(r, no):
					ok, msg = false, "found=false can be returned although the entry at the index has the same nonce"
				}
			}
		}
		c.Check("put-gate", "mempool.(*txList).search|found", sf.Pos(), ok, "search reports found exactly when the entry at the returned index has the same nonce "+msg)
	}
	c.Floor("put-gate", 8)
}

// ---------------------------------------------------------------------------
// put-gate: MemPool.put

func c13PoolPut(e *c13Env) {
	c := e.c
	f := c.Fn("mempool.(*MemPool).put")
	if f == nil {
		return
	}
	g := f.Graph()
	info := f.Info()
	puts := g.CallsTo("mempool.(*txList).Put")
	if len(puts) != 1 {
		c.Undecide("put-gate", "mempool.(*MemPool).put", "expected exactly one call of txList.Put")
		return
	}
	ps := puts[0]
	var tx types.Object
	if len(ps.Call.Args) == 1 {
		tx = an.ObjOf(info, ps.Call.Args[0])
	}
	name := "mempool.(*MemPool).put"
	// duplicate hash: cache.Load(id) hit -> exit
	okHit := false
	for _, op := range c13CacheOps(e, f) {
		if op.method != "Load" || len(op.site.Call.Args) != 1 {
			continue
		}
		miss := g.BoolEdges(op.site, false)
		if len(miss) > 0 && g.Dominated(ps.Node, miss) && c13KeyTx(f, op.site.Call.Args[0]) == tx && tx != nil {
			okHit = true
		}
	}
	c.Check("put-gate", name+"|same-hash", ps.Call.Pos(), okHit, "txList.Put is reached only when the hash index has no entry under the id of this transaction (cache.Load miss)")
	// validateTx: only nil or ErrTxNonceToohigh pass
	tooHigh := e.p.LookupObj("types", "ErrTxNonceToohigh")
	okVal, msg := false, "no call of validateTx"
	for _, vs := range g.CallsTo("mempool.(*MemPool).validateTx") {
		ev := g.ResultVarAt(vs, 0)
		if ev == nil || tooHigh == nil {
			msg = "error result of validateTx not stored in a variable"
			continue
		}
		at := func(x ast.Expr) (string, bool, bool) {
			b, ok := ast.Unparen(x).(*ast.BinaryExpr)
			if !ok || (b.Op != token.EQL && b.Op != token.NEQ) {
				return "", false, false
			}
			for _, pr := range [][2]ast.Expr{{b.X, b.Y}, {b.Y, b.X}} {
				if an.ObjOf(info, pr[0]) != ev {
					continue
				}
				if tv, ok := info.Types[pr[1]]; ok && tv.IsNil() {
					return "NIL", b.Op == token.NEQ, true
				}
				if sel, ok := ast.Unparen(pr[1]).(*ast.SelectorExpr); ok && info.Uses[sel.Sel] == tooHigh {
					return "HIGH", b.Op == token.NEQ, true
				}
			}
			return "", false, false
		}
		gates := an.Set{}
		for en := range g.EdgesRefuting(at, []map[string]bool{{"NIL": false, "HIGH": false}}) {
			clean := g.Dominated(en.Cond, an.SetOf(vs.Node))
			for m := range g.Between(vs.Node, en.Cond) {
				if m.Kind == an.KStmt && an.Assigns(info, m.Ast, ev) {
					clean = false
				}
			}
			if clean {
				gates[en] = true
			}
		}
		sameTx := len(vs.Call.Args) == 2 && an.ObjOf(info, vs.Call.Args[0]) == tx && tx != nil
		okVal = len(gates) > 0 && g.Dominated(ps.Node, gates) && sameTx
		msg = ""
		// the validated account is the account whose list is taken
		okAcc := false
		for _, as := range g.CallsTo("mempool.(*MemPool).acquireMemPoolList") {
			lst := g.ResultVarAt(as, 0)
			if lst != nil && c13RecvObj(info, ps.Call) == lst && g.Dominated(ps.Node, g.ErrNilEdges(as)) &&
				len(as.Call.Args) == 1 && len(vs.Call.Args) == 2 && an.ObjOf(info, as.Call.Args[0]) != nil &&
				an.ObjOf(info, as.Call.Args[0]) == an.ObjOf(info, vs.Call.Args[1]) {
				okAcc = true
				for m := range g.Between(vs.Node, as.Node) {
					if m.Kind == an.KStmt && an.Assigns(info, m.Ast, an.ObjOf(info, as.Call.Args[0])) {
						okAcc = false
					}
				}
			}
		}
		c.Check("put-gate", name+"|list-account", ps.Call.Pos(), okAcc, "the list receiving the transaction was acquired without error for the same, unmodified account that validateTx checked")
	}
	c.Check("put-gate", name+"|validated", ps.Call.Pos(), okVal, "txList.Put is reached only when validateTx(tx, acc) returned nil or ErrTxNonceToohigh (orphans wait in the list) "+msg)
}

// ---------------------------------------------------------------------------
// nonce-ops

func c13NonceOps(e *c13Env) {
	c := e.c
	// continuous: true <=> nonce == predecessor + 1
	if f := c.Fn("mempool.(*txList).continuous"); f != nil {
		ok, msg := c13ReturnsBool(f, e.atomSucc(f), "SUCC")
		c.Check("nonce-ops", "mempool.(*txList).continuous|successor", f.Pos(), ok, "continuous(i) is true exactly when list[i]'s nonce equals the predecessor nonce (account state or last ready entry) plus one "+msg)
	}
	// compare: true <=> equal nonces
	if f := c.Fn("mempool.(*txList).compare"); f != nil {
		ok, msg := c13ReturnsBool(f, e.atomSame(f), "SAME")
		c.Check("nonce-ops", "mempool.(*txList).compare|equal", f.Pos(), ok, "compare(tx, i) is true exactly when tx and list[i] have the same nonce "+msg)
	}
	// search: sort.Search(len(list), func(i) bool { return list[i].nonce >= tx.nonce })
	if f := c.Fn("mempool.(*txList).search"); f != nil {
		g := f.Graph()
		info := f.Info()
		ok, msg := false, "no call of sort.Search with a literal predicate"
		for _, s := range g.CallsTo("sort.Search") {
			if len(s.Call.Args) != 2 {
				continue
			}
			lit, isLit := ast.Unparen(s.Call.Args[1]).(*ast.FuncLit)
			lc, isLen := ast.Unparen(s.Call.Args[0]).(*ast.CallExpr)
			if !isLit || !isLen || !an.IsBuiltin(info, lc, "len") || len(lc.Args) != 1 || an.FieldOf(info, lc.Args[0]) != e.tlList {
				msg = "sort.Search is not called over len(list) with a literal predicate"
				continue
			}
			lf := e.p.LitFunc(lit)
			ok, msg = lf != nil, ""
			if lf == nil {
				break
			}
			for _, r := range lf.Graph().Returns() {
				rs := r.Ast.(*ast.ReturnStmt)
				good := false
				if len(rs.Results) == 1 {
					if b, isB := ast.Unparen(rs.Results[0]).(*ast.BinaryExpr); isB {
						l, rr := e.term(lf, b.X, 0), e.term(lf, b.Y, 0)
						bothN := l.kind == 'N' && rr.kind == 'N' && l.off == rr.off
						good = bothN && ((b.Op == token.GEQ && l.list && !rr.list) || (b.Op == token.LEQ && !l.list && rr.list))
					}
				}
				if !good {
					ok, msg = false, "(the predicate is not `list[i].nonce >= tx.nonce`: with any other operator the returned index is not the first entry at or above the nonce, so an equal nonce is missed or the order breaks)"
				}
			}
		}
		c.Check("nonce-ops", "mempool.(*txList).search|first-at-or-above", f.Pos(), ok, "the insertion index is the first entry whose nonce is >= the new nonce (ascending order, equal nonce found) "+msg)
	}
	// ValidateWithSenderState: anything but an error for nonce <= state nonce is excluded
	if f := c.Fn("types.(*transaction).ValidateWithSenderState"); f != nil {
		g := f.Graph()
		info := f.Info()
		tooLow := e.p.LookupObj("types", "ErrTxNonceTooLow")
		low := e.atomLow(f)
		ok, nLow := tooLow != nil, 0
		msg := ""
		for _, r := range g.Returns() {
			rs := r.Ast.(*ast.ReturnStmt)
			if len(rs.Results) == 1 && tooLow != nil && an.ObjOf(info, rs.Results[0]) == tooLow {
				nLow++
				continue
			}
			if g2, _ := g.GuardedAt(r, low, map[string]bool{"LOW": false}); !g2 {
				ok, msg = false, "(a return other than ErrTxNonceTooLow is reachable with nonce <= state nonce)"
			}
		}
		c.Check("nonce-ops", "types.(*transaction).ValidateWithSenderState|too-low", f.Pos(), ok && nLow > 0, "a transaction whose nonce is at or below the sender state's nonce can only get ErrTxNonceTooLow (FilterByState relies on it to drop confirmed nonces; same bound as txList.Put's guard) "+msg)
	}
	c.Floor("nonce-ops", 4)
}

// ---------------------------------------------------------------------------
// ready

func c13Ready(e *c13Env) {
	c, la := e.c, e.la
	// every ready++ is taken only when continuous() said yes
	for _, a := range e.acc {
		if a.Field != e.tlReady || !a.Write || a.Fn == nil || a.How == "literal" || la.Status[a.Fn.TopDecl()] == "dead" {
			continue
		}
		f := a.Fn
		g := f.Graph()
		info := f.Info()
		n := g.NodeContaining(a.Pos)
		name := f.Name() + "|ready." + a.How
		switch a.How {
		case "inc":
			ok := false
			for _, s := range g.CallsTo("mempool.(*txList).continuous") {
				if yes := g.BoolEdges(s, true); len(yes) > 0 && g.Dominated(n, yes) && c13Paired2(g, s.Node, n) {
					ok = true
				}
			}
			c.Check("ready", name, a.Pos, ok, "ready is incremented only on the edge on which continuous(index) returned true, once per call")
		case "assign":
			as, _ := n.Ast.(*ast.AssignStmt)
			ok := as != nil && len(as.Rhs) == 1 && c13IsZero(info, as.Rhs[0])
			// followed by the recount
			rec := false
			for _, s := range g.CallsTo("mempool.(*txList).continuous") {
				if g.Reachable(n, s.Node) {
					rec = true
				}
			}
			c.Check("ready", name, a.Pos, ok && rec, "ready is overwritten only by 0 followed by the recount loop over continuous()")
		default:
			c.Check("ready", name, a.Pos, false, "unclassified write of ready")
		}
	}
	// every change of the list is followed by a recount of ready
	for _, a := range e.acc {
		if a.Field != e.tlList || !a.Write || a.Fn == nil || a.How == "literal" || la.Status[a.Fn.TopDecl()] == "dead" {
			continue
		}
		f := a.Fn
		g := f.Graph()
		n := g.NodeContaining(a.Pos)
		name := f.Name() + "|list." + a.How
		ups := an.Set{}
		for _, s := range g.CallsTo("mempool.(*txList).updateReady") {
			ups[s.Node] = true
		}
		if len(ups) > 0 {
			c.Check("ready", name+"|recount", a.Pos, g.PostDominated(n, ups), "every path from this change of the list to the function's exit passes updateReady()")
			continue
		}
		// exception: txList.Put extends ready incrementally (entries before the
		// insertion index keep their positions; only continuous(index...) can change)
		cont := false
		for _, s := range g.CallsTo("mempool.(*txList).continuous") {
			if g.Reachable(n, s.Node) {
				cont = true
			}
		}
		c.Check("ready", name+"|recount", a.Pos, f.Name() == "mempool.(*txList).Put" && cont, "exception (Put): after the insertion ready is extended by the continuous() loop starting at the insertion index; any other function must call updateReady()")
	}
	// readers of the ready prefix
	type rd struct {
		fn        string
		low, high bool // bound equals ready
		what      string
	}
	for _, r := range []rd{
		{"mempool.(*txList).Get", false, true, "list[:ready]"},
		{"mempool.(*txList).pooled", false, true, "list[:ready]"},
		{"mempool.(*txList).orphaned", true, false, "list[ready:]"},
	} {
		f := c.Fn(r.fn)
		if f == nil {
			continue
		}
		info := f.Info()
		ok := true
		rets := f.Graph().Returns()
		for _, rn := range rets {
			rs := rn.Ast.(*ast.ReturnStmt)
			se, isS := (ast.Expr)(nil), false
			if len(rs.Results) == 1 {
				se, isS = ast.Unparen(rs.Results[0]).(*ast.SliceExpr)
			}
			if !isS {
				ok = false
				continue
			}
			s := se.(*ast.SliceExpr)
			isReady := func(x ast.Expr) bool { return x != nil && an.FieldOf(info, x) == e.tlReady }
			free := func(x ast.Expr) bool { return x == nil || c13IsZero(info, x) }
			if an.FieldOf(info, s.X) != e.tlList || s.Max != nil {
				ok = false
			}
			if r.high && !(isReady(s.High) && free(s.Low)) {
				ok = false
			}
			if r.low && !(isReady(s.Low) && s.High == nil) {
				ok = false
			}
		}
		c.Check("ready", r.fn+"|prefix", f.Pos(), ok && len(rets) > 0, "returns exactly "+r.what)
	}
	if f := c.Fn("mempool.(*txList).Len"); f != nil {
		ok := true
		for _, rn := range f.Graph().Returns() {
			rs := rn.Ast.(*ast.ReturnStmt)
			if len(rs.Results) != 1 || an.FieldOf(f.Info(), rs.Results[0]) != e.tlReady {
				ok = false
			}
		}
		c.Check("ready", "mempool.(*txList).Len|prefix", f.Pos(), ok, "returns exactly ready")
	}
	// what is handed to block producers / listed comes from Get() only
	for _, fn := range []string{"mempool.(*MemPool).get", "mempool.(*MemPool).listHash"} {
		f := c.Fn(fn)
		if f == nil {
			continue
		}
		var used []string
		for _, s := range f.Graph().Calls(nil) {
			if s.Fn == nil {
				continue
			}
			sig, _ := s.Fn.Type().(*types.Signature)
			if sig == nil || sig.Recv() == nil || sig.Results().Len() != 1 {
				continue
			}
			rt := sig.Recv().Type()
			if pt, ok := rt.(*types.Pointer); ok {
				rt = pt.Elem()
			}
			nt, ok := rt.(*types.Named)
			if !ok || nt.Obj().Name() != "txList" || nt.Obj().Pkg() == nil || an.Rel(nt.Obj().Pkg().Path()) != "mempool" {
				continue
			}
			if _, isSlice := sig.Results().At(0).Type().Underlying().(*types.Slice); isSlice {
				used = append(used, s.Fn.Name())
			}
		}
		ok := len(used) > 0
		for _, u := range used {
			if u != "Get" {
				ok = false
			}
		}
		c.Check("ready", fn+"|source", f.Pos(), ok, "the transactions handed out are taken from txList.Get() (the ready prefix) only")
	}
	c.Floor("ready", 10)
}

// c13Paired2: b is executed at most once per execution of a (a dominates b and
// b cannot repeat without a).
func c13Paired2(g *an.Graph, a, b *an.Node) bool {
	return g.Dominated(b, an.SetOf(a)) && !g.Reach(b.Succs, an.SetOf(a))[b]
}
