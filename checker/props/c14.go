package props

import (
	"fmt"
	"go/ast"
	"go/token"
	"go/types"
	"os"
	"sort"
	"strings"
	"time"

	"verif/checker/internal/an"
	"verif/checker/internal/rep"
)

// C14 — admission totality: untrusted transactions never crash a node.
//
// Decided clause (shape of the code, not run-time behaviour): every operation
// that can panic on an attacker-controlled governance payload — a constant or
// non-loop index into types.CallInfo.Args (or a byte field of the transaction
// body), a slice expression on them, a single-result type assertion on an
// element of Args — is preceded, on every control-flow path and in every
// dispatch arm (transaction type x recipient x command name x system
// operation) that can reach it, by a guard that makes it safe: a length
// comparison that leaves the function, a comma-ok assertion whose failure
// leaves, a range loop that checks every element, or the same operation
// already survived.  Guards executed by validators count only where the call
// order proves they ran first: facts flow from a callee's error-free returns
// to its caller, and into a function only as the meet over all its call sites.

func init() { register("C14", runC14) }

// c14EntryExceptions: call sites that are not counted when the facts known at
// the entry of a callee are computed, one line of reason each.
var c14EntryExceptions = map[string]string{
	"mempool.(*MemPool).loadTxs": "re-reads the node's own dump file of transactions that were admitted through TxVerifier.Receive (tx.Validate passed) before they were dumped; a local file, not a network input",
}

// c14FieldWriteOK: writes of the payload-defining fields outside composite
// literals, one line of reason each (the facts assume the argument list and the
// payload are not modified between validator and consumer).
var c14FieldWriteOK = map[string]string{}

func c14Anchors(c *rep.Ctx, e *c14Eng) bool {
	p := c.Prog
	named := func(pkg, name string) *types.Named {
		tn, _ := p.LookupObj(pkg, name).(*types.TypeName)
		if tn == nil {
			c.Undecide("anchor", pkg+"."+name, "type not found")
			return nil
		}
		n, _ := tn.Type().(*types.Named)
		if n == nil {
			c.Undecide("anchor", pkg+"."+name, "not a named type")
		}
		return n
	}
	e.tCallInfo = named("types", "CallInfo")
	e.tTxBody = named("types", "TxBody")
	e.tTx = named("types", "Tx")
	e.tTxWrap = named("types", "transaction")
	e.tTxIface = named("types", "Transaction")
	e.tOp = named("types", "OpSysTx")
	e.tTxType = named("types", "TxType")
	if e.tCallInfo == nil || e.tTxBody == nil || e.tTx == nil || e.tTxWrap == nil || e.tTxIface == nil || e.tOp == nil || e.tTxType == nil {
		return false
	}
	e.fArgs = p.LookupField("types", "CallInfo", "Args")
	e.fName = p.LookupField("types", "CallInfo", "Name")
	e.fPayload = p.LookupField("types", "TxBody", "Payload")
	e.fRecipient = p.LookupField("types", "TxBody", "Recipient")
	e.fType = p.LookupField("types", "TxBody", "Type")
	if e.fArgs == nil || e.fName == nil || e.fPayload == nil || e.fRecipient == nil || e.fType == nil {
		c.Undecide("anchor", "types.CallInfo.{Args,Name} / types.TxBody.{Payload,Recipient,Type}", "field not found")
		return false
	}
	// byte fields of the transaction body
	e.byteFields = map[*types.Var]string{}
	if st := p.LookupStruct("types", "TxBody"); st != nil {
		for i := 0; i < st.NumFields(); i++ {
			f := st.Field(i)
			if sl, ok := f.Type().Underlying().(*types.Slice); ok && f.Exported() {
				if b, ok := sl.Elem().Underlying().(*types.Basic); ok && b.Kind() == types.Byte {
					e.byteFields[f] = f.Name()
				}
			}
		}
	}
	if len(e.byteFields) < 5 {
		c.Undecide("anchor", "types.TxBody", "byte fields of the transaction body not found")
		return false
	}
	if fo, ok := p.LookupObj("types", "GetOpSysTx").(*types.Func); ok {
		e.fnGetOp = fo
	} else {
		c.Undecide("anchor", "types.GetOpSysTx", "function not found")
		return false
	}
	// wrapper structs of the governance packages: structs that (transitively) hold a carrier
	e.wrappers = map[*types.Named]bool{}
	for changed := true; changed; {
		changed = false
		for _, rel := range []string{"contract/system", "contract/name", "contract/enterprise"} {
			pk := p.Pkg(rel)
			if pk == nil || pk.Types == nil {
				c.Undecide("anchor", rel, "governance package not loaded")
				return false
			}
			sc := pk.Types.Scope()
			for _, nm := range sc.Names() {
				tn, ok := sc.Lookup(nm).(*types.TypeName)
				if !ok || tn.IsAlias() {
					continue
				}
				n, ok := tn.Type().(*types.Named)
				if !ok || e.wrappers[n] {
					continue
				}
				st, ok := n.Underlying().(*types.Struct)
				if !ok {
					continue
				}
				for i := 0; i < st.NumFields(); i++ {
					if e.carrierClass(st.Field(i).Type()) != 0 {
						e.wrappers[n] = true
						changed = true
						break
					}
				}
			}
		}
	}
	return true
}

// c14OpFields: struct fields of type OpSysTx in wrapper structs that are only
// ever written as GetOpSysTx(<call info>.Name) are discriminants themselves.
func c14OpFields(c *rep.Ctx, e *c14Eng) {
	p := c.Prog
	e.opFields = map[*types.Var]bool{}
	cands := map[*types.Var]string{}
	for w := range e.wrappers {
		st := w.Underlying().(*types.Struct)
		for i := 0; i < st.NumFields(); i++ {
			f := st.Field(i)
			if n := c14Named(f.Type()); n != nil && n == e.tOp {
				cands[f] = an.Rel(w.Obj().Pkg().Path()) + "." + w.Obj().Name() + "." + f.Name()
			}
		}
	}
	for f, name := range cands {
		ok := true
		n := 0
		why := ""
		for _, w := range p.FieldWrites(map[*types.Var]bool{f: true}) {
			n++
			if w.How != "literal" || w.Fn == nil {
				ok, why = false, "written by "+w.How
				continue
			}
			// the literal's value must be GetOpSysTx(X.Name)
			val := c14LiteralValueAt(w.Fn, w.Pos)
			tmp := e.newFn(w.Fn)
			if val == nil || tmp == nil {
				ok, why = false, "value not found"
				continue
			}
			call, isCall := ast.Unparen(val).(*ast.CallExpr)
			if !isCall || an.Callee(tmp.info, call) != e.fnGetOp || len(call.Args) != 1 || an.FieldOf(tmp.info, call.Args[0]) != e.fName {
				ok, why = false, "value is not types.GetOpSysTx(<call info>.Name)"
			}
		}
		if n == 0 {
			ok, why = false, "never written"
		}
		if ok {
			e.opFields[f] = true
		}
		c.Check("op-field", name, f.Pos(), ok, "the stored operation of a system context is only ever set to types.GetOpSysTx(<call info>.Name) in its constructor literal, so switching on it is switching on the command of the payload "+why)
	}
	c.Floor("op-field", 1)
}

func c14LiteralValueAt(f *an.Func, pos token.Pos) ast.Expr {
	var out ast.Expr
	ast.Inspect(f.Body, func(n ast.Node) bool {
		if kv, ok := n.(*ast.KeyValueExpr); ok && kv.Pos() == pos {
			out = kv.Value
		}
		return out == nil
	})
	return out
}

// scopeBytes: functions in which index / slice expressions on the byte fields
// of the transaction body are obligations (the property's scope).
func (e *c14Eng) scopeBytes(f *an.Func) bool {
	switch an.Rel(f.Pkg.PkgPath) {
	case "contract/system", "contract/name", "contract/enterprise":
		return true
	case "types":
		return c14FileOf(e.p, f) == "transaction.go"
	case "chain":
		return c14FileOf(e.p, f) == "governance.go"
	case "mempool":
		return f.TopDecl().Name() == "mempool.(*MemPool).validateTx"
	}
	return false
}

func c14FileOf(p *an.Prog, f *an.Func) string {
	s := p.Pos(f.Pos())
	if i := strings.LastIndex(s, ":"); i >= 0 {
		s = s[:i]
	}
	if i := strings.LastIndex(s, "/"); i >= 0 {
		s = s[i+1:]
	}
	return s
}

func (e *c14Eng) newFn(f *an.Func) *c14Fn {
	if a := e.fns[f]; a != nil {
		return a
	}
	save, saveOrder, saveChanged := e.fns, e.order, e.changed
	e.fns = map[*an.Func]*c14Fn{}
	a := e.fnOf(f)
	e.fns, e.order, e.changed = save, saveOrder, saveChanged
	return a
}

func c14AllFuncs(p *an.Prog) []*an.Func {
	var all []*an.Func
	var walk func(f *an.Func)
	walk = func(f *an.Func) {
		all = append(all, f)
		for _, l := range f.Lits {
			walk(l)
		}
	}
	for _, f := range p.Funcs() {
		walk(f)
	}
	return all
}

func (e *c14Eng) carrierParamCount(f *an.Func) int {
	n := 0
	info := f.Info()
	count := func(fl *ast.FieldList) {
		if fl == nil {
			return
		}
		for _, fld := range fl.List {
			for _, nm := range fld.Names {
				if v, ok := info.Defs[nm].(*types.Var); ok && e.carrierClass(v.Type()) != 0 {
					n++
				}
			}
		}
	}
	if f.Decl != nil {
		count(f.Decl.Recv)
	}
	if f.Type != nil {
		count(f.Type.Params)
	}
	return n
}

func runC14(c *rep.Ctx) {
	c.Explain = "Structural decision of admission totality for governance payloads: every index with a constant or non-loop index, every slice expression and every single-result type assertion on a value derived from types.CallInfo.Args (anywhere in the module) or from a byte field of the transaction body (in the validation/execution functions of the governance path) is made safe, on every control-flow path and in every dispatch arm (transaction type x recipient x command name x system operation) that reaches it, by a dominating length guard, comma-ok assertion, all-elements range check or an earlier identical operation. A guard in a validator counts only where the call order proves it ran first: facts enter a function as the meet over all its call sites and leave it only through returns whose error may be nil (an abstract interpretation over go/cfg graphs, dispatch through constant-keyed function tables resolved per key). Decides the shape of the code, not the run-time behaviour of the node."
	c.NotDecided = []string{
		"termination of validation",
		"nil dereferences in general and dereference of map-lookup results",
		"integer conversions / overflow of decoded numbers",
		"panics inside the Lua VM and in C code",
		"index/slice expressions on records derived from the arguments and stored in context structs (EnterpriseContext.Args/ArgsAny, Conf.Values, strings.Split results) and on records read back from the state database (deserializeVote*, deserializeNameMap, deserializeConf, deserializeStaking)",
		"slicing of strings taken from the arguments",
		"values reached from an element of Args through more than one step (map values of a decoded JSON object) are only covered by the syntactic rule derived-assert",
		"non-constant indexes other than the key of a range loop over the same slice are reported, not bounded",
	}
	c.Assume = []string{
		"closed world: functions of the module are called only from the module (tests and other binaries are not callers); functions exported to C (//export) and function literals have unknown callers",
		"a function works on one transaction: all carrier-typed values (Transaction, Tx, TxBody, CallInfo, governance context structs) derived from its carrier parameters denote the same transaction; a carrier variable assigned from anything else starts a new, unknown transaction (all facts are dropped)",
		"json.Unmarshal of the same payload bytes yields the same CallInfo in the validator and in the consumer",
		"CallInfo.Args and the payload are not modified between validator and consumer (rule payload-immutable enumerates every write in the analysed functions; a write drops the facts)",
		"go/cfg control-flow graph; panics and recover are not modelled; a call of a nil function value does not return (rule dispatch-guard requires the found-test)",
		"call sites in the functions of the entry-exception table (mempool.loadTxs: the node's own dump file) are not counted",
		"client and diagnostic binaries under cmd/ and tools/ are out of scope (their input is the operator's command line)",
	}
	e := &c14Eng{p: c.Prog, interned: map[string]*c14Facts{}, fns: map[*an.Func]*c14Fn{}, callees: map[*ast.CallExpr][]*an.Func{},
		dispatch: map[*ast.CallExpr]*c14Dispatch{}, dispOf: map[*an.Func][]*c14Dispatch{}, refCount: map[*an.Func]int{}, refNodes: map[*ast.Ident]*an.Func{},
		witness: map[*types.Var][]bool{}, witnessUsed: map[*types.Var]bool{}, getters: map[*types.Func]*types.Var{}, skipSites: c14EntryExceptions}
	e.debug = os.Getenv("C14_DEBUG") != ""
	e.empty = e.mk(nil, nil, "")
	if !c14Anchors(c, e) {
		return
	}
	c14OpFields(c, e)
	t0 := time.Now()
	lap := func(what string) {
		if e.debug {
			fmt.Fprintf(os.Stderr, "C14 %-30s %6.1fs\n", what, time.Since(t0).Seconds())
		}
	}
	e.cg = c.Prog.BuildCallGraph()
	lap("callgraph")
	all := c14AllFuncs(c.Prog)
	for _, f := range all {
		for _, ed := range e.cg.Out[f] {
			if ed.Call != nil && ed.Callee != nil && ed.Callee.Body != nil {
				dup := false
				for _, x := range e.callees[ed.Call] {
					if x == ed.Callee {
						dup = true
					}
				}
				if !dup {
					e.callees[ed.Call] = append(e.callees[ed.Call], ed.Callee)
				}
			}
		}
	}

	// ---- dispatch through constant-keyed function tables, module wide
	tables := map[*types.Var]*c14MapTable{}
	dispCaller := map[*c14Dispatch]*an.Func{}
	for _, f := range all {
		if f.Body == nil {
			continue
		}
		info := f.Info()
		var cands []*ast.CallExpr
		an.InspectShallow(f.Body, func(n ast.Node) bool {
			if call, ok := n.(*ast.CallExpr); ok {
				if id, ok := ast.Unparen(call.Fun).(*ast.Ident); ok {
					if v, ok := info.Uses[id].(*types.Var); ok && !v.IsField() {
						if _, isSig := v.Type().Underlying().(*types.Signature); isSig && e.callees[call] == nil {
							cands = append(cands, call)
						}
					}
				}
			}
			return true
		})
		if len(cands) == 0 {
			continue
		}
		tmp := e.newFn(f)
		if tmp == nil {
			continue
		}
		for _, call := range cands {
			if d := e.resolveDispatch(tmp, call, tables); d != nil {
				e.dispatch[call] = d
				d.caller = f
				dispCaller[d] = f
				for _, t := range d.all {
					e.dispOf[t] = append(e.dispOf[t], d)
				}
			}
		}
	}

	lap("dispatch scan")
	// ---- the functions that matter: those that touch Args, and everything that
	// can pass a transaction down to them
	relevant := map[*an.Func]bool{}
	var queue []*an.Func
	add := func(f *an.Func) {
		if f != nil && f.Body != nil && !relevant[f] {
			relevant[f] = true
			queue = append(queue, f)
		}
	}
	for _, f := range all {
		if f.Body == nil {
			continue
		}
		if strings.HasPrefix(an.Rel(f.Pkg.PkgPath), "cmd/") || strings.HasPrefix(an.Rel(f.Pkg.PkgPath), "tools/") {
			continue // client and diagnostic binaries: their input is the operator's own command line
		}
		uses := false
		if tmp := e.newFn(f); tmp != nil {
			an.InspectShallow(f.Body, func(n ast.Node) bool {
				switch s := n.(type) {
				case *ast.IndexExpr:
					if k, _, _, ok := tmp.slice(s.X, 0); ok && (k == "Args" || e.scopeBytes(f)) {
						uses = true
					}
				case *ast.SliceExpr:
					if k, _, _, ok := tmp.slice(s.X, 0); ok && (k == "Args" || e.scopeBytes(f)) {
						uses = true
					}
				case *ast.RangeStmt:
					if k, _, _, ok := tmp.slice(s.X, 0); ok && k == "Args" {
						uses = true
					}
				case *ast.CallExpr:
					if an.IsBuiltin(tmp.info, s, "len") && len(s.Args) == 1 {
						if k, _, _, ok := tmp.slice(s.Args[0], 0); ok && k == "Args" {
							uses = true
						}
					}
				case *ast.TypeAssertExpr:
					if _, _, ok := tmp.elem(s.X, 0); ok {
						uses = true
					}
				}
				return !uses
			})
		}
		if uses {
			add(f)
		}
	}
	nSeed := len(queue)
	for len(queue) > 0 {
		f := queue[0]
		queue = queue[1:]
		if e.carrierParamCount(f) == 0 {
			continue // nothing can be known at its entry: callers do not matter
		}
		for _, ed := range e.cg.In[f] {
			add(ed.Caller)
		}
		for _, d := range e.dispOf[f] {
			add(dispCaller[d])
		}
	}
	e.relevant = relevant
	var rel []*an.Func
	for f := range relevant {
		rel = append(rel, f)
	}
	sort.Slice(rel, func(i, j int) bool { return rel[i].Pos() < rel[j].Pos() })
	c.Note("%d functions index, slice, measure, range over or assert elements of CallInfo.Args (or index a byte field of the transaction body on the governance path); %d functions can pass a transaction down to them and are analysed", nSeed, len(rel))

	lap("closure")
	// ---- references of functions as values (callers unknown unless a table resolves them)
	names := map[string]bool{}
	for _, f := range rel {
		if f.Obj != nil {
			names[f.Name()] = true
		}
	}
	for _, r := range c.Prog.FuncRefs(names) {
		if f := c.Prog.FuncOf(r.Obj); f != nil {
			e.refCount[f]++
		}
	}

	lap("funcrefs")
	// ---- the universe of arms
	for d := 0; d < c14NDim; d++ {
		e.dims[d] = c14Dim{idx: map[string]int{}, show: map[string]string{}}
		e.dims[d].add("*", "other")
	}
	c14Universe(e, rel)
	e.initKeys()
	c.Note("dispatch arms: %d transaction types x %d recipients x %d command names x %d system operations (each including \"other\")", len(e.dims[0].vals), len(e.dims[1].vals), len(e.dims[2].vals), len(e.dims[3].vals))

	lap("universe")
	// ---- register the functions, classify their callers
	for _, f := range rel {
		e.fnOf(f)
	}
	e.classifyRoots(c)

	// ---- global fixpoint (function-level worklist)
	users := map[*an.Func]map[*c14Fn]bool{} // callee -> analysed functions that use its summary
	noteUsers := func() {
		for _, a := range e.order {
			if a.usersDone {
				continue
			}
			a.usersDone = true
			an.InspectShallow(a.f.Body, func(n ast.Node) bool {
				call, ok := n.(*ast.CallExpr)
				if !ok {
					return true
				}
				var fs []*an.Func
				fs = append(fs, e.callees[call]...)
				if d := e.dispatch[call]; d != nil {
					fs = append(fs, d.all...)
				}
				for _, f := range fs {
					if users[f] == nil {
						users[f] = map[*c14Fn]bool{}
					}
					users[f][a] = true
				}
				return true
			})
		}
	}
	dirty := map[*c14Fn]bool{}
	for _, a := range e.order {
		dirty[a] = true
	}
	runs := 0
	for len(dirty) > 0 && runs < 20000 {
		noteUsers()
		// deterministic order
		var batch []*c14Fn
		for _, a := range e.order {
			if dirty[a] {
				batch = append(batch, a)
			}
		}
		dirty = map[*c14Fn]bool{}
		nBefore := len(e.order)
		for _, a := range batch {
			runs++
			post, same := a.analyse()
			if !c14SameArms(a.post, post) || same != a.retSame {
				a.post, a.retSame = post, same
				for u := range users[a.f] {
					dirty[u] = true
				}
			}
		}
		if len(e.order) != nBefore {
			e.classifyRoots(c)
			for _, a := range e.order[nBefore:] {
				dirty[a] = true
			}
			noteUsers()
		}
		// entry facts: meet over the call sites of all analysed callers
		contribs := map[*an.Func][][]*c14Facts{}
		for _, a := range e.order {
			if e.skipSites[a.f.TopDecl().Name()] != "" {
				continue
			}
			for _, ct := range a.contrib {
				contribs[ct.callee] = append(contribs[ct.callee], ct.arms)
			}
		}
		for _, a := range e.order {
			entry := make([]*c14Facts, e.K)
			for _, arms := range contribs[a.f] {
				for k, f := range arms {
					entry[k] = e.meet(entry[k], f)
				}
			}
			if !c14SameArms(a.entry, entry) {
				a.entry = entry
				dirty[a] = true
			}
		}
		e.changed = false
		e.updateWitness()
		if e.changed {
			for _, a := range e.order {
				if a.usesWitness {
					dirty[a] = true
				}
			}
		}
		lap(fmt.Sprintf("batch of %d, %d dirty (%d fns)", len(batch), len(dirty), len(e.order)))
	}
	if len(dirty) > 0 {
		c.Undecide("fixpoint", "global", "the inter-procedural fixpoint did not stabilise")
		return
	}
	c.Note("inter-procedural fixpoint reached after %d function analyses over %d functions", runs, len(e.order))

	c14Report(c, e)
	c14Derived(c, e)
	c14Immutable(c, e)
}

func c14SameArms(a, b []*c14Facts) bool {
	if len(a) != len(b) {
		return false
	}
	for i := range a {
		if a[i] != b[i] {
			return false
		}
	}
	return true
}

// classifyRoots decides, for every analysed function, whether its callers are
// known: 0 all call sites are analysed, 1 unknown callers (nothing is known at
// entry), 2 no caller and no reference at all (dead: nothing reaches it).
func (e *c14Eng) classifyRoots(c *rep.Ctx) {
	// references that a resolved dispatch table accounts for (distinct mentions)
	accounted := map[*an.Func]int{}
	for _, f := range e.refNodes {
		accounted[f]++
	}
	for _, d := range e.dispatch {
		if d.why != "" {
			continue
		}
		for _, f := range d.all {
			if f.Lit != nil {
				accounted[f] = 1
			}
		}
	}
	for _, a := range e.order {
		f := a.f
		nm := ""
		if f.Obj != nil {
			nm = f.Obj.Name()
		}
		exported := false
		if f.Decl != nil && f.Decl.Doc != nil {
			for _, cm := range f.Decl.Doc.List {
				if strings.HasPrefix(cm.Text, "//export ") {
					exported = true // called from C
				}
			}
		}
		switch {
		case exported:
			a.root = 1
		case f.Lit != nil:
			if accounted[f] > 0 {
				a.root = 0
			} else {
				a.root = 1
			}
		case len(e.cg.In[f]) == 0 && accounted[f] == 0 && e.refCount[f] == 0 && f.Obj != nil && !f.Obj.Exported() && nm != "init" && nm != "main":
			a.root = 2 // no caller and no reference anywhere in the module
		case len(a.carr) == 0:
			a.root = 1
		case e.refCount[f] > accounted[f]:
			a.root = 1 // referenced as a value somewhere the analysis does not follow
		case len(e.cg.In[f]) == 0 && accounted[f] == 0:
			a.root = 1 // exported, no caller in the module
		default:
			a.root = 0
		}
	}
}

// updateWitness recomputes, for every wrapper field tested against nil, the
// arms in which it can have been set.
func (e *c14Eng) updateWitness() {
	for fv := range e.witnessUsed {
		mask := make([]bool, e.K)
		for _, w := range e.p.FieldWrites(map[*types.Var]bool{fv: true}) {
			var keys []bool
			if w.Fn != nil && w.How != "addr" {
				if a := e.fns[w.Fn]; a != nil {
					if n := a.g.NodeContaining(w.Pos); n != nil {
						if a.in[n.ID] == nil {
							continue // unreachable write
						}
						keys = a.keysAt[n]
					}
				}
			}
			for k := range mask {
				if keys == nil || keys[k] {
					mask[k] = true
				}
			}
		}
		old := e.witness[fv]
		same := old != nil
		if same {
			for k := range mask {
				if mask[k] != old[k] {
					same = false
				}
			}
		}
		if !same {
			e.witness[fv] = mask
			e.changed = true
		}
	}
}

// c14Universe collects the constants the analysed functions compare the
// discriminants with.
func c14Universe(e *c14Eng, rel []*an.Func) {
	addConst := func(a *c14Fn, dim int, x ast.Expr) {
		cv, ok := c14ConstVal(a.info, x)
		if !ok {
			return
		}
		show := cv
		switch y := ast.Unparen(x).(type) {
		case *ast.Ident:
			if dim == c14DimOp || dim == c14DimType {
				show = y.Name
			}
		case *ast.SelectorExpr:
			if dim == c14DimOp || dim == c14DimType {
				show = y.Sel.Name
			}
		}
		e.dims[dim].add(cv, show)
	}
	for _, f := range rel {
		a := e.newFn(f)
		if a == nil {
			continue
		}
		an.InspectShallow(f.Body, func(n ast.Node) bool {
			switch s := n.(type) {
			case *ast.SwitchStmt:
				if s.Tag == nil {
					return true
				}
				if dim, _, ok := a.disc(s.Tag, 0); ok {
					for _, cl := range s.Body.List {
						cc := cl.(*ast.CaseClause)
						if dim == c14DimType && !c14CallsRelevant(e, cc) {
							continue // transaction types under which nothing of interest is called are "other"
						}
						for _, x := range cc.List {
							addConst(a, dim, x)
						}
					}
				}
			case *ast.BinaryExpr:
				if s.Op == token.EQL || s.Op == token.NEQ {
					for _, pr := range [][2]ast.Expr{{s.X, s.Y}, {s.Y, s.X}} {
						if dim, _, ok := a.disc(pr[0], 0); ok && dim != c14DimType {
							addConst(a, dim, pr[1])
						}
					}
				}
			}
			return true
		})
	}
	var ds []*c14Dispatch
	for _, d := range e.dispatch {
		if d.why == "" {
			ds = append(ds, d)
		}
	}
	for _, d := range ds {
		var ks []string
		for k := range d.byVal {
			ks = append(ks, k)
		}
		sort.Strings(ks)
		for _, k := range ks {
			e.dims[d.dim].add(k, k)
		}
	}
	// display names for operation constants
	if sc := e.tOp.Obj().Pkg().Scope(); sc != nil {
		for _, nm := range sc.Names() {
			if k, ok := sc.Lookup(nm).(*types.Const); ok && c14Named(k.Type()) == e.tOp {
				v := k.Val().ExactString()
				if _, has := e.dims[c14DimOp].idx[v]; has {
					e.dims[c14DimOp].show[v] = nm
				}
			}
			if k, ok := sc.Lookup(nm).(*types.Const); ok && c14Named(k.Type()) == e.tTxType {
				v := k.Val().ExactString()
				if _, has := e.dims[c14DimType].idx[v]; has {
					e.dims[c14DimType].show[v] = nm
				}
			}
		}
	}
	for d := 0; d < c14NDim; d++ {
		// deterministic order of values
		vals := append([]string(nil), e.dims[d].vals[1:]...)
		sort.Strings(vals)
		e.dims[d].vals = append([]string{"*"}, vals...)
		for i, v := range e.dims[d].vals {
			e.dims[d].idx[v] = i
		}
	}
}

// c14CallsRelevant: the clause calls a function that takes a transaction and
// can pass it down to a function that touches the argument list.
func c14CallsRelevant(e *c14Eng, cc *ast.CaseClause) bool {
	found := false
	for _, st := range cc.Body {
		an.InspectShallow(st, func(n ast.Node) bool {
			call, ok := n.(*ast.CallExpr)
			if !ok || found {
				return !found
			}
			var fs []*an.Func
			fs = append(fs, e.callees[call]...)
			if d := e.dispatch[call]; d != nil {
				fs = append(fs, d.all...)
			}
			for _, f := range fs {
				if e.relevant[f] && e.carrierParamCount(f) > 0 && (f.Obj == nil || e.getterField(f.Obj) == nil) {
					found = true
				}
			}
			return !found
		})
	}
	return found
}

// ---------------------------------------------------------------------------
// reporting

// clauseCtx: constants of the innermost enclosing case clause of a switch over
// a discriminant (part of the instance key, so that keys survive insertions).
func c14ClauseCtx(a *c14Fn, pos token.Pos) string {
	best := ""
	var bestLen token.Pos
	an.InspectShallow(a.f.Body, func(n ast.Node) bool {
		sw, ok := n.(*ast.SwitchStmt)
		if !ok || sw.Tag == nil || pos < sw.Pos() || pos > sw.End() {
			return true
		}
		dim, _, isDisc := a.disc(sw.Tag, 0)
		if !isDisc {
			return true
		}
		for _, cl := range sw.Body.List {
			cc := cl.(*ast.CaseClause)
			if pos < cc.Pos() || pos > cc.End() {
				continue
			}
			var vs []string
			for _, x := range cc.List {
				if cv, ok := c14ConstVal(a.info, x); ok {
					if s := a.e.dims[dim].show[cv]; s != "" {
						cv = s
					}
					vs = append(vs, cv)
				}
			}
			if len(vs) == 0 {
				vs = []string{"default"}
			}
			if best == "" || cc.End()-cc.Pos() < bestLen {
				best = strings.Join(vs, ",")
				bestLen = cc.End() - cc.Pos()
			}
		}
		return true
	})
	return best
}

func c14Report(c *rep.Ctx, e *c14Eng) {
	var fns []*c14Fn
	for _, a := range e.order {
		fns = append(fns, a)
	}
	sort.Slice(fns, func(i, j int) bool { return fns[i].f.Pos() < fns[j].f.Pos() })
	nSites, nFn := 0, 0
	for _, a := range fns {
		c.Fns[a.f.Name()] = true
		c.Pkgs[an.Rel(a.f.Pkg.PkgPath)] = true
		if len(a.sites) == 0 {
			continue
		}
		nFn++
		sort.Slice(a.sites, func(i, j int) bool { return a.sites[i].pos < a.sites[j].pos })
		for _, s := range a.sites {
			nSites++
			construct := a.f.Name() + "|"
			if ctx := c14ClauseCtx(a, s.pos); ctx != "" {
				construct += ctx + "|"
			}
			construct += s.shape
			if s.byPar != nil && s.reach {
				s.ok, s.msg = e.paramIndexOK(a, s)
			}
			if !s.reach {
				c.CheckTrivial("riskop", construct, s.pos, true, s.msg)
				continue
			}
			c.Check("riskop", construct, s.pos, s.ok, s.msg)
		}
	}
	c.Note("%d risky operations on attacker-controlled values in %d functions", nSites, nFn)
	c.Floor("riskop", 30)

	// dispatch tables
	seen := map[*types.Var]bool{}
	var ds []*c14Dispatch
	for call, d := range e.dispatch {
		_ = call
		if !seen[d.mapVar] {
			seen[d.mapVar] = true
			ds = append(ds, d)
		}
	}
	sort.Slice(ds, func(i, j int) bool { return ds[i].mapVar.Pos() < ds[j].mapVar.Pos() })
	for _, d := range ds {
		used := false
		for _, f := range d.all {
			if e.fns[f] != nil {
				used = true
			}
		}
		if !used && d.why == "" {
			continue
		}
		if d.why != "" {
			// only tables that can hold analysed functions matter
			holds := false
			for _, a := range e.order {
				if a.f.Obj != nil && e.refCount[a.f] > 0 && a.f.Pkg.Types == d.mapVar.Pkg() {
					holds = true
				}
			}
			if !holds {
				continue
			}
		}
		name := d.mapVar.Name()
		if d.mapVar.Pkg() != nil {
			name = an.Rel(d.mapVar.Pkg().Path()) + "." + name
		}
		var ks []string
		for k, fs := range d.byVal {
			var ns []string
			for _, f := range fs {
				ns = append(ns, f.Name())
			}
			ks = append(ks, k+"→"+strings.Join(ns, "/"))
		}
		sort.Strings(ks)
		c.Check("dispatch", name, d.mapVar.Pos(), d.why == "", "calls through this constant-keyed function table are resolved per "+c14DimLabel[d.dim]+" ("+strings.Join(ks, ", ")+") "+d.why)
	}
	c.Floor("dispatch", 2)

	// every call through such a table happens only where the lookup found an entry
	var calls []*ast.CallExpr
	for call, d := range e.dispatch {
		if d.why != "" {
			continue
		}
		used := false
		for _, f := range d.all {
			if e.fns[f] != nil {
				used = true
			}
		}
		if used {
			calls = append(calls, call)
		}
	}
	sort.Slice(calls, func(i, j int) bool { return calls[i].Pos() < calls[j].Pos() })
	for _, call := range calls {
		c14DispatchGuard(c, e, call, e.dispatch[call])
	}
	c.Floor("dispatch-guard", 2)

	// witness fields
	var wf []*types.Var
	for fv := range e.witnessUsed {
		wf = append(wf, fv)
	}
	sort.Slice(wf, func(i, j int) bool { return wf[i].Pos() < wf[j].Pos() })
	for _, fv := range wf {
		m := e.witness[fv]
		if m == nil {
			continue
		}
		c.CheckTrivial("witness", fv.Name(), fv.Pos(), true, "a non-nil "+fv.Name()+" of the context implies the arm it is set in: "+e.describe(m))
	}

	// callers whose call sites are not counted, unknown callers
	for name, why := range e.skipSites {
		f := c.Prog.Func(name)
		if f == nil {
			c.Undecide("entry-exception", name, "function of the exception table not found")
			continue
		}
		if e.fns[f] == nil {
			c.CheckTrivial("entry-exception", name, f.Pos(), true, "not on any path into the analysed functions any more (row can be removed)")
			continue
		}
		c.CheckTrivial("entry-exception", name, f.Pos(), true, "call sites in this function are not counted at the callee's entry: "+why)
	}
	for _, a := range fns {
		if a.multi {
			c.Check("single-tx", a.f.Name(), a.f.Pos(), len(a.sites) == 0, "the function has two carrier parameters of the same kind (two transactions): nothing is assumed at its entry and its calls pass nothing on")
		}
	}
	if want := os.Getenv("C14_DEBUG_FN"); want != "" {
		for _, a := range fns {
			if !strings.Contains(a.f.Name(), want) {
				continue
			}
			for _, pr := range []struct {
				what string
				arms []*c14Facts
			}{{"entry", a.entry}, {"post", a.post}} {
				groups := map[*c14Facts][]bool{}
				for k, f := range pr.arms {
					if f == nil {
						continue
					}
					if groups[f] == nil {
						groups[f] = make([]bool, e.K)
					}
					groups[f][k] = true
				}
				for f, m := range groups {
					fmt.Fprintf(os.Stderr, "C14 facts %s %s root=%d [%s] :: %s\n", a.f.Name(), pr.what, a.root, f.key, e.describe(m))
				}
			}
			for _, ct := range a.contrib {
				fmt.Fprintf(os.Stderr, "C14 contrib %s -> %s : %s\n", a.f.Name(), ct.callee.Name(), e.describe(c14PossibleArms(ct.arms)))
			}
		}
	}
	if e.debug {
		for _, a := range fns {
			fmt.Fprintf(os.Stderr, "C14 fn %-60s root=%d carr=%d sites=%d entry=%s post=%s\n", a.f.Name(), a.root, len(a.carr), len(a.sites), e.describe(c14PossibleArms(a.entry)), e.describe(c14PossibleArms(a.post)))
		}
	}
}

// c14DispatchGuard: f, ok := table[key]; ...; f(x) — the name / recipient in
// the key is attacker-controlled, so a missing entry yields a nil function and
// calling it panics: the call must be dominated by the ok (or f != nil) test.
func c14DispatchGuard(c *rep.Ctx, e *c14Eng, call *ast.CallExpr, d *c14Dispatch) {
	caller := d.caller
	a := e.newFn(caller)
	if a == nil {
		return
	}
	g := a.g
	id := ast.Unparen(call.Fun).(*ast.Ident)
	fv, _ := a.info.Uses[id].(*types.Var)
	node := g.NodeContaining(call.Pos())
	construct := caller.Name() + "|" + d.mapVar.Name()
	if fv == nil || node == nil {
		c.Undecide("dispatch-guard", construct, "cannot locate the call in the control-flow graph")
		return
	}
	var okVar *types.Var
	found := false
	for _, n := range g.Nodes {
		if n.Kind != an.KStmt {
			continue
		}
		if as, isAs := n.Ast.(*ast.AssignStmt); isAs && len(as.Rhs) == 1 && len(as.Lhs) >= 1 && a.varOf(as.Lhs[0]) == fv {
			found = true
			if len(as.Lhs) == 2 {
				okVar = a.varOf(as.Lhs[1])
			}
		}
	}
	if !found {
		c.Undecide("dispatch-guard", construct, "definition of the looked-up function variable not found")
		return
	}
	var ok bool
	var how string
	if okVar != nil && okVar.Name() != "_" {
		if rhs, _ := g.SingleDef(okVar); rhs == nil {
			c.Check("dispatch-guard", construct, call.Pos(), false, "the found-flag of the table lookup is assigned more than once")
			return
		}
		at := func(x ast.Expr) (string, bool, bool) {
			if v := a.varOf(x); v != nil && v == okVar {
				return "found", false, true
			}
			return "", false, false
		}
		ok, how = g.GuardedAt(node, at, map[string]bool{"found": true})
	} else {
		ok, how = g.GuardedAt(node, an.NilAtom(a.info, fv), map[string]bool{"nil": false})
	}
	c.Check("dispatch-guard", construct, call.Pos(), ok, "the function looked up in "+d.mapVar.Name()+" under an attacker-chosen key is called only where the lookup found an entry (a missing entry is a nil function): "+how)
}

func c14PossibleArms(arms []*c14Facts) []bool {
	out := make([]bool, len(arms))
	for k, f := range arms {
		out[k] = f != nil
	}
	return out
}

// c14FreshLocal: the local variable is never assigned from another value (it is
// declared with var, or initialised from a composite literal only).
func c14FreshLocal(a *c14Fn, v *types.Var) bool {
	fresh := true
	an.InspectShallow(a.f.Body, func(n ast.Node) bool {
		switch s := n.(type) {
		case *ast.AssignStmt:
			for i, l := range s.Lhs {
				if a.varOf(l) != v {
					continue
				}
				if len(s.Lhs) != len(s.Rhs) {
					fresh = false
					continue
				}
				if _, isLit := ast.Unparen(s.Rhs[i]).(*ast.CompositeLit); !isLit {
					fresh = false
				}
			}
		case *ast.ValueSpec:
			for i, nm := range s.Names {
				if a.info.Defs[nm] != v || len(s.Values) == 0 {
					continue
				}
				if len(s.Names) != len(s.Values) {
					fresh = false
					continue
				}
				if _, isLit := ast.Unparen(s.Values[i]).(*ast.CompositeLit); !isLit {
					fresh = false
				}
			}
		case *ast.RangeStmt:
			if a.varOf(s.Key) == v || a.varOf(s.Value) == v {
				fresh = false
			}
		}
		return true
	})
	return fresh
}

// ---------------------------------------------------------------------------
// rule payload-immutable: every write of the fields the facts are about, in
// the analysed functions

func c14Immutable(c *rep.Ctx, e *c14Eng) {
	fields := map[*types.Var]bool{e.fArgs: true, e.fName: true, e.fPayload: true, e.fRecipient: true, e.fType: true}
	n := 0
	var fns []*c14Fn
	fns = append(fns, e.order...)
	sort.Slice(fns, func(i, j int) bool { return fns[i].f.Pos() < fns[j].f.Pos() })
	for _, a := range fns {
		params := map[types.Object]bool{}
		for _, fl := range []*ast.FieldList{a.f.Type.Params, a.f.Type.Results} {
			if fl == nil {
				continue
			}
			for _, fld := range fl.List {
				for _, nm := range fld.Names {
					params[a.info.Defs[nm]] = true
				}
			}
		}
		check := func(x ast.Expr, how string) {
			for {
				x = ast.Unparen(x)
				switch y := x.(type) {
				case *ast.IndexExpr:
					x = y.X
					continue
				case *ast.SliceExpr:
					x = y.X
					continue
				case *ast.StarExpr:
					x = y.X
					continue
				}
				break
			}
			fv := an.FieldOf(a.info, x)
			if fv == nil || !fields[fv] {
				return
			}
			n++
			sel := x.(*ast.SelectorExpr)
			fn := a.f.TopDecl().Name()
			// a local variable of struct (not pointer) type that is not a parameter: the function's own fresh value
			if v := a.varOf(sel.X); v != nil && !params[v] && v.Pkg() != nil && v.Parent() != v.Pkg().Scope() && c14FreshLocal(a, v) {
				if _, isPtr := v.Type().Underlying().(*types.Pointer); !isPtr {
					c.CheckTrivial("payload-immutable", fn+"|"+fv.Name(), x.Pos(), true, how+" of "+fv.Name()+" of a local value created in this function (initialisation of a fresh object)")
					return
				}
			}
			why, listed := c14FieldWriteOK[fn]
			msg := how + " of " + fv.Name() + " through a pointer, a parameter or a copy in a function on the governance path"
			if listed {
				msg += ": " + why
			} else {
				msg += " — the argument list / payload a validator checked may not be the one the consumer reads"
			}
			c.CheckTrivial("payload-immutable", fn+"|"+fv.Name(), x.Pos(), listed, msg)
		}
		an.InspectShallow(a.f.Body, func(nd ast.Node) bool {
			switch st := nd.(type) {
			case *ast.AssignStmt:
				for _, l := range st.Lhs {
					check(l, "assignment")
				}
			case *ast.IncDecStmt:
				check(st.X, "increment")
			case *ast.UnaryExpr:
				if st.Op == token.AND {
					check(st.X, "address-of")
				}
			}
			return true
		})
	}
	c.Note("%d writes of CallInfo.{Args,Name} / TxBody.{Payload,Recipient,Type} outside composite literals in the analysed functions", n)
	c.Floor("payload-immutable", 4)
}
