package props

import (
	"go/ast"
	"go/token"
	"go/types"
	"sort"
	"strings"

	"verif/checker/internal/an"
	"verif/checker/internal/rep"
)

// gate is a set of call sites together with the branch edges on which the
// call is known to have succeeded (error result nil / boolean result = want).
type gate struct {
	name  string
	sites []an.Site
	edges an.Set
}

// calleeExists reports whether a FuncName-style callee still exists in the
// loaded program (function, method or interface method).
func calleeExists(p *an.Prog, name string) bool {
	if p.Func(name) != nil {
		return true
	}
	pkgRel, recv, fn := splitName(name)
	return lookupMethodExists(p, pkgRel, recv, fn)
}

// errGate: success = error result nil.
func errGate(c *rep.Ctx, f *an.Func, names ...string) gate {
	g := f.Graph()
	gt := gate{name: shortNames(names), edges: an.Set{}}
	for _, n := range names {
		if !calleeExists(c.Prog, n) {
			c.Undecide("anchor", n, "gate function not found in the loaded program")
		}
	}
	gt.sites = g.CallsTo(names...)
	for _, s := range gt.sites {
		for e := range g.ErrNilEdges(s) {
			gt.edges[e] = true
		}
	}
	return gt
}

// boolGate: success = boolean result equals val.
func boolGate(c *rep.Ctx, f *an.Func, val bool, names ...string) gate {
	g := f.Graph()
	gt := gate{name: shortNames(names), edges: an.Set{}}
	for _, n := range names {
		if !calleeExists(c.Prog, n) {
			c.Undecide("anchor", n, "gate function not found in the loaded program")
		}
	}
	gt.sites = g.CallsTo(names...)
	for _, s := range gt.sites {
		for e := range g.BoolEdges(s, val) {
			gt.edges[e] = true
		}
	}
	return gt
}

// callGate: the gate is simply "the call was executed".
func callGate(c *rep.Ctx, f *an.Func, names ...string) gate {
	g := f.Graph()
	gt := gate{name: shortNames(names), edges: an.Set{}}
	for _, n := range names {
		if !calleeExists(c.Prog, n) {
			c.Undecide("anchor", n, "function not found in the loaded program")
		}
	}
	gt.sites = g.CallsTo(names...)
	for _, s := range gt.sites {
		gt.edges[s.Node] = true
	}
	return gt
}

func shortNames(names []string) string {
	var out []string
	for _, n := range names {
		out = append(out, shortName(n))
	}
	return strings.Join(out, "/")
}

// shortName drops the package path:  chain.(*ChainService).addBlock -> (*ChainService).addBlock
func shortName(n string) string {
	if i := strings.Index(n, ".("); i >= 0 {
		j := strings.LastIndex(n[:i], "/")
		return n[j+1:]
	}
	if j := strings.LastIndex(n, "/"); j >= 0 {
		return n[j+1:]
	}
	return n
}

// mustPrecede records, for every target site, that it is dominated by the
// success edges of the gate (plus extra edges, e.g. infeasible path atoms or
// alternative arms on which the target is legitimately ungated).
func mustPrecede(c *rep.Ctx, rule string, f *an.Func, gt gate, targets []an.Site, extra an.Set, why string) {
	g := f.Graph()
	for _, t := range targets {
		tn := "<func value>"
		if t.Fn != nil {
			tn = shortName(an.FuncName(t.Fn))
		}
		construct := f.Name() + "|" + gt.name + " < " + tn
		if len(gt.sites) == 0 {
			c.Check(rule, construct, t.Call.Pos(), false, "the gate "+gt.name+" is not called in "+f.Name()+" at all ("+why+")")
			continue
		}
		if len(gt.edges) == 0 {
			c.Check(rule, construct, t.Call.Pos(), false, "the result of "+gt.name+" is not tested on any branch ("+why+")")
			continue
		}
		ok := g.Dominated(t.Node, gt.edges.Union(extra))
		c.Check(rule, construct, t.Call.Pos(), ok, why)
	}
}

// sitesOf returns the call sites of the named callees in f, sorted by position.
func sitesOf(f *an.Func, names ...string) []an.Site {
	s := f.Graph().CallsTo(names...)
	sort.Slice(s, func(i, j int) bool { return s[i].Call.Pos() < s[j].Call.Pos() })
	return s
}

// funcValueCalls returns the sites in f that call the function-valued field
// or variable v (e.g. e.validatePost()).
func funcValueCalls(f *an.Func, v *types.Var) []an.Site {
	g := f.Graph()
	info := f.Info()
	return g.Calls(func(fn *types.Func, call *ast.CallExpr) bool {
		return fn == nil && an.CalleeVar(info, call) == v && v != nil
	})
}

// errEdgesOf: union of the error-nil edges of the given sites.
func errEdgesOf(g *an.Graph, sites []an.Site) an.Set {
	out := an.Set{}
	for _, s := range sites {
		for e := range g.ErrNilEdges(s) {
			out[e] = true
		}
	}
	return out
}

func nodesOf(sites []an.Site) an.Set {
	out := an.Set{}
	for _, s := range sites {
		out[s.Node] = true
	}
	return out
}

func posOf(sites []an.Site) token.Pos {
	if len(sites) == 0 {
		return token.NoPos
	}
	return sites[0].Call.Pos()
}

// argIs reports whether argument i of the call denotes object obj (possibly
// through & or a selector path rooted at obj when allowSel).
func argIs(info *types.Info, call *ast.CallExpr, i int, obj types.Object) bool {
	if i >= len(call.Args) || obj == nil {
		return false
	}
	e := ast.Unparen(call.Args[i])
	if u, ok := e.(*ast.UnaryExpr); ok && u.Op == token.AND {
		e = ast.Unparen(u.X)
	}
	return an.ObjOf(info, e) == obj
}

// recvObj returns the object of the receiver expression of a method call
// (x.M() -> x) when it is a plain identifier.
func recvObj(info *types.Info, call *ast.CallExpr) types.Object {
	sel, ok := ast.Unparen(call.Fun).(*ast.SelectorExpr)
	if !ok {
		return nil
	}
	return an.ObjOf(info, sel.X)
}

// mentions reports whether expression e contains a reference to obj.
func mentions(info *types.Info, e ast.Node, obj types.Object) bool {
	found := false
	ast.Inspect(e, func(n ast.Node) bool {
		if id, ok := n.(*ast.Ident); ok && (info.Uses[id] == obj || info.Defs[id] == obj) {
			found = true
		}
		return !found
	})
	return found
}

// containsCallTo reports whether e contains a call of one of the callees.
func containsCallTo(info *types.Info, e ast.Node, names ...string) bool {
	want := map[string]bool{}
	for _, n := range names {
		want[n] = true
	}
	found := false
	ast.Inspect(e, func(n ast.Node) bool {
		if c, ok := n.(*ast.CallExpr); ok {
			if fn := an.Callee(info, c); fn != nil && want[an.FuncName(fn)] {
				found = true
			}
		}
		return !found
	})
	return found
}

// readsField reports whether e contains a read of the struct field.
func readsField(info *types.Info, e ast.Node, field *types.Var) bool {
	found := false
	ast.Inspect(e, func(n ast.Node) bool {
		if x, ok := n.(ast.Expr); ok {
			if f := an.FieldOf(info, x); f != nil && f == field {
				found = true
			}
		}
		return !found
	})
	return found
}
