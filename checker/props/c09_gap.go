package props

import (
	"go/ast"
	"go/constant"
	"go/token"
	"go/types"
	"sort"

	"verif/checker/internal/an"
	"verif/checker/internal/rep"
)

// C09 gap rules (found by applying realistic breaking patches that no rule
// decided):
//
//	owner-operand   the two operands of the slot-ownership test are the slot's
//	                owner function and the *unmodified* producer index; the
//	                modulus of the owner function is the *unmodified* producer
//	                count (both through value-preserving conversions and
//	                once-defined locals only)
//	sign-gate       every ChainConsensus.VerifySign implementation reports a
//	                good signature only after Block.VerifySign returned
//	                (true, nil); implementations that accept by design are table rows
//	local-clock     slot.Now is the slot of time.Now() itself; slot.Time and
//	                slot.NewFromUnixNano hand their argument through unshifted
//	size-agreement  whoever installs a producer map installs its length as the
//	                cluster size (the modulus of the owner function)
//	future-index    IsFuture is "index difference >= 2" decided on linear
//	                forms (return form, branch form, any spelling), and its
//	                verdict depends on the clock only through slot.Now
func init() {
	extend("C09", c09GapOwnerOperands)
	extend("C09", c09GapSignGate)
	extend("C09", c09GapLocalClock)
	extend("C09", c09GapSizeAgreement)
	extend("C09", c09GapFutureIndex)
}

const (
	c09GapSlotPkg = "consensus/impl/dpos/slot"
	c09GapBpPkg   = "consensus/impl/dpos/bp"
)

// c09GapPeel strips parentheses, type conversions and once-defined locals.
// lossless is false when one of the conversions cannot hold every uint16 value
// (producer indexes and counts are 16 bit).
func c09GapPeel(g *an.Graph, e ast.Expr) (inner ast.Expr, lossless bool) {
	info := g.Fn.Info()
	lossless = true
	for depth := 0; depth < 8; depth++ {
		e = ast.Unparen(e)
		if call, ok := e.(*ast.CallExpr); ok && len(call.Args) == 1 {
			if tv, has := info.Types[call.Fun]; has && tv.IsType() {
				if !c09GapHolds16(tv.Type) {
					lossless = false
				}
				e = call.Args[0]
				continue
			}
		}
		if id, ok := e.(*ast.Ident); ok {
			if v, isVar := info.Uses[id].(*types.Var); isVar && !v.IsField() && v.Parent() != nil && v.Pkg() != nil && v.Parent() != v.Pkg().Scope() {
				if rhs, _ := g.SingleDef(v); rhs != nil {
					e = rhs
					continue
				}
			}
		}
		break
	}
	return e, lossless
}

func c09GapHolds16(t types.Type) bool {
	b, ok := t.Underlying().(*types.Basic)
	if !ok {
		return false
	}
	switch b.Kind() {
	case types.Int, types.Int32, types.Int64, types.Uint, types.Uint16, types.Uint32, types.Uint64, types.Uintptr:
		return true
	}
	return false
}

func c09GapIsObj(info *types.Info, e ast.Expr, obj types.Object) bool {
	id, ok := ast.Unparen(e).(*ast.Ident)
	return ok && obj != nil && info.Uses[id] == obj
}

// --- owner-operand ----------------------------------------------------------
//
// IsFor(idx, n) must be  owner(slot, n) == idx  with idx the caller's index as
// it is: the cluster maps a non-member to the sentinel 65535, which is outside
// every owner value only as long as it is compared unreduced (an index taken
// modulo the count, masked or narrowed lands inside 0..n-1 and a stranger owns
// slots).  NextBpIndex(n) must reduce by n itself: any other modulus yields
// owner values without a producer or skips producers.
func c09GapOwnerOperands(c *rep.Ctx) {
	next := c.Prog.LookupField(c09GapSlotPkg, "Slot", "nextIndex")
	if next == nil {
		c.Undecide("owner-operand", c09GapSlotPkg+".Slot.nextIndex", "field not found")
		return
	}
	if f := c.Fn(c09GapSlotPkg + ".(*Slot).IsFor"); f != nil {
		g, info := f.Graph(), f.Info()
		recv := recvParam(f)
		n := 0
		an.InspectShallow(f.Body, func(m ast.Node) bool {
			be, ok := m.(*ast.BinaryExpr)
			if !ok || (be.Op != token.EQL && be.Op != token.NEQ) {
				return true
			}
			isOwner := func(e ast.Expr) bool {
				in, _ := c09GapPeel(g, e)
				call, isCall := in.(*ast.CallExpr)
				return isCall && an.CalleeName(info, call) == c09GapSlotPkg+".(*Slot).NextBpIndex" && recvObj(info, call) == recv && recv != nil
			}
			own, other := be.X, be.Y
			if !isOwner(own) {
				own, other = other, own
			}
			if !isOwner(own) {
				return true
			}
			n++
			in, _ := c09GapPeel(g, own)
			call := in.(*ast.CallExpr)
			cnt, okc := ast.Expr(nil), false
			if len(call.Args) == 1 {
				cnt, okc = c09GapPeel(g, call.Args[0])
			}
			c.Check("owner-operand", f.Name()+"|count", be.Pos(), okc && cnt != nil && c09GapIsObj(info, cnt, f.ParamObj(1)),
				"the owner of the slot is computed for the producer count the caller passed, unmodified")
			idx, oki := c09GapPeel(g, other)
			c.Check("owner-operand", f.Name()+"|index", be.Pos(), oki && c09GapIsObj(info, idx, f.ParamObj(0)),
				"the owner value is compared with the caller's producer index as it is (only value-preserving conversions): the non-member sentinel 65535 must stay outside 0..count-1, so the index may not be reduced, masked or narrowed")
			return true
		})
		if n == 0 {
			c.Undecide("owner-operand", f.Name(), "no (in)equality with NextBpIndex(count) found; ownership test has an unknown shape")
		}
	}
	if f := c.Fn(c09GapSlotPkg + ".(*Slot).NextBpIndex"); f != nil {
		g, info := f.Graph(), f.Info()
		recv := recvParam(f)
		n := 0
		an.InspectShallow(f.Body, func(m ast.Node) bool {
			be, ok := m.(*ast.BinaryExpr)
			if !ok || be.Op != token.REM {
				return true
			}
			x, _ := c09GapPeel(g, be.X)
			sel, isSel := x.(*ast.SelectorExpr)
			if !isSel || an.FieldOf(info, x) != next || !c09GapIsObj(info, sel.X, recv) {
				return true
			}
			n++
			y, oky := c09GapPeel(g, be.Y)
			c.Check("owner-operand", f.Name()+"|modulus", be.Pos(), oky && c09GapIsObj(info, y, f.ParamObj(0)),
				"the slot index is reduced modulo the producer count itself (value-preserving conversions only): every owner value 0..count-1 is a producer index and no other value occurs")
			return true
		})
		if n == 0 {
			c.Undecide("owner-operand", f.Name(), "no `s.nextIndex % ...` found; owner function has an unknown shape")
		}
	}
	c.Floor("owner-operand", 3)
}

// --- sign-gate --------------------------------------------------------------

var c09GapSignGateRows = map[string]string{
	"consensus/impl/sbp.(*SimpleBlockFactory).VerifySign": "single-producer development consensus: blocks carry no signature and every block is accepted by design (listed in NotDecided of C09)",
	"consensus/impl/dpos.(*DPoS).VerifySign":              "decided by the base rule accept-gates|consensus/impl/dpos.(*DPoS).VerifySign|accept",
}

func c09GapSignGate(c *rep.Ctx) {
	p := c.Prog
	var iface *types.Interface
	if o := p.LookupObj("consensus", "ChainConsensus"); o != nil {
		iface, _ = o.Type().Underlying().(*types.Interface)
	}
	if iface == nil {
		c.Undecide("sign-gate", "consensus.ChainConsensus", "interface not found")
		return
	}
	var impls []*an.Func
	for _, f := range p.Funcs() {
		if f.Obj == nil || f.Decl == nil || f.Body == nil || f.Obj.Name() != "VerifySign" {
			continue
		}
		sig, _ := f.Obj.Type().(*types.Signature)
		if sig == nil || sig.Recv() == nil {
			continue
		}
		rt := sig.Recv().Type()
		if !types.Implements(rt, iface) {
			if _, isPtr := rt.(*types.Pointer); isPtr || !types.Implements(types.NewPointer(rt), iface) {
				continue
			}
		}
		impls = append(impls, f)
	}
	sort.Slice(impls, func(i, j int) bool { return impls[i].Name() < impls[j].Name() })
	for _, f := range impls {
		name := f.Name()
		if why, ok := c09GapSignGateRows[name]; ok {
			c.CheckTrivial("sign-gate", name+"|row", f.Pos(), true, why)
			continue
		}
		g, info := f.Graph(), f.Info()
		blk := f.ParamObj(0)
		var sites []an.Site
		for _, s := range g.CallsTo("types.(*Block).VerifySign") {
			if blk != nil && recvObj(info, s.Call) == blk {
				sites = append(sites, s)
			}
		}
		ok := len(sites) > 0
		if ok {
			valid, noErr := an.Set{}, an.Set{}
			for _, s := range sites {
				valid = valid.Union(g.BoolEdges(s, true))
				noErr = noErr.Union(g.ErrNilEdges(s))
			}
			ok = len(valid) > 0 && len(noErr) > 0
			nils := g.NilReturns()
			for _, r := range nils {
				ok = ok && g.Dominated(r, valid) && g.Dominated(r, noErr)
			}
		}
		c.Check("sign-gate", name+"|accept", f.Pos(), ok,
			"a consensus implementation reports a good block signature only after Block.VerifySign of the examined block returned (true, nil)")
	}
	c.Floor("sign-gate", 3)
}

// --- local-clock ------------------------------------------------------------
//
// "Not from the future" is measured against the local clock.  The only place
// the clock enters the comparison is slot.Now(); a tolerance added there (or
// in Time, which Now goes through) silently widens the two-slot window, while
// the block's own slot (NewFromUnixNano) is not moved.

type c09GapOrigin int

const (
	c09GapUnknown c09GapOrigin = iota
	c09GapClock
	c09GapParam
	c09GapShifted
)

func c09GapTrace(f *an.Func, e ast.Expr, depth int) (c09GapOrigin, string) {
	g, info := f.Graph(), f.Info()
	e = ast.Unparen(e)
	if depth > 10 {
		return c09GapUnknown, "too deep"
	}
	switch x := e.(type) {
	case *ast.Ident:
		o := info.Uses[x]
		if o != nil && o == f.ParamObj(0) {
			if g.SingleDefOrParam(o) {
				return c09GapParam, ""
			}
			return c09GapUnknown, "parameter " + x.Name + " is reassigned"
		}
		if rhs, _ := g.SingleDef(o); rhs != nil {
			return c09GapTrace(f, rhs, depth+1)
		}
		return c09GapUnknown, "operand " + x.Name
	case *ast.BinaryExpr, *ast.UnaryExpr:
		return c09GapShifted, "arithmetic on the time value: " + an.ExprString(e)
	case *ast.CallExpr:
		if tv, has := info.Types[x.Fun]; has && tv.IsType() && len(x.Args) == 1 {
			return c09GapTrace(f, x.Args[0], depth+1)
		}
		fn := an.Callee(info, x)
		if fn == nil {
			return c09GapUnknown, "call " + an.ExprString(x.Fun)
		}
		name := an.FuncName(fn)
		recvOf := func() ast.Expr {
			if sel, ok := ast.Unparen(x.Fun).(*ast.SelectorExpr); ok {
				return sel.X
			}
			return nil
		}
		switch name {
		case "time.Now":
			return c09GapClock, ""
		case "time.(Time).UnixNano", "time.(Time).UTC", "time.(Time).Local", "time.(Time).In":
			if r := recvOf(); r != nil {
				return c09GapTrace(f, r, depth+1)
			}
		case c09GapSlotPkg + ".Time", c09GapSlotPkg + ".fromUnixNs", c09GapSlotPkg + ".NewFromUnixNano":
			if len(x.Args) == 1 {
				return c09GapTrace(f, x.Args[0], depth+1)
			}
		case "time.(Time).Add", "time.(Time).AddDate", "time.(Time).Truncate", "time.(Time).Round", "time.(Time).Unix", "time.(Time).UnixMilli", "time.(Time).UnixMicro", "time.Unix", "time.UnixMilli", "time.UnixMicro":
			return c09GapShifted, "the time value goes through " + name
		}
		return c09GapUnknown, "call of " + name
	}
	return c09GapUnknown, an.ExprString(e)
}

func c09GapLocalClock(c *rep.Ctx) {
	rows := []struct {
		fn   string
		want c09GapOrigin
		msg  string
	}{
		{c09GapSlotPkg + ".Now", c09GapClock, "the current slot is the slot of time.Now() itself (no tolerance, rounding or offset): the two-slot future window is measured against the local clock"},
		{c09GapSlotPkg + ".Time", c09GapParam, "the slot of a time value is computed from that value unshifted (slot.Now goes through it)"},
		{c09GapSlotPkg + ".NewFromUnixNano", c09GapParam, "the slot of a block timestamp is computed from that timestamp unshifted"},
	}
	for _, row := range rows {
		f := c.Fn(row.fn)
		if f == nil {
			continue
		}
		rets := f.Graph().Returns()
		if len(rets) == 0 {
			c.Undecide("local-clock", row.fn, "no return statement")
			continue
		}
		ok, und := true, ""
		for _, r := range rets {
			rs, _ := r.Ast.(*ast.ReturnStmt)
			if rs == nil || len(rs.Results) != 1 {
				und = "bare or multi-value return"
				continue
			}
			got, why := c09GapTrace(f, rs.Results[0], 0)
			switch {
			case got == c09GapUnknown:
				und = why
			case got != row.want:
				ok = false
			}
		}
		if ok && und != "" {
			c.Undecide("local-clock", row.fn, "origin of the time value not recognised ("+und+")")
			continue
		}
		c.Check("local-clock", row.fn+"|unshifted", f.Pos(), ok, row.msg)
	}
	c.Floor("local-clock", 3)
}

// --- size-agreement -----------------------------------------------------------
//
// DPoS.IsBlockValid takes the index from Cluster.index and the modulus from
// Cluster.size.  Both describe "the current producer set" only if every
// function that installs a producer map also installs its length.
func c09GapSizeAgreement(c *rep.Ctx) {
	p := c.Prog
	member := p.LookupField(c09GapBpPkg, "Cluster", "member")
	index := p.LookupField(c09GapBpPkg, "Cluster", "index")
	size := p.LookupField(c09GapBpPkg, "Cluster", "size")
	if member == nil || index == nil || size == nil {
		c.Undecide("size-agreement", c09GapBpPkg+".Cluster", "fields member / index / size not found")
		return
	}
	for _, f := range p.Funcs() {
		if f.Body == nil || an.Rel(f.Pkg.PkgPath) != c09GapBpPkg {
			continue
		}
		g, info := f.Graph(), f.Info()
		type asg struct {
			node *an.Node
			lhs  ast.Expr
			rhs  ast.Expr
			pos  token.Pos
		}
		var maps, sizes []asg
		installed := map[types.Object]bool{}
		for _, n := range g.Nodes {
			as, ok := n.Ast.(*ast.AssignStmt)
			if n.Kind != an.KStmt || !ok || len(as.Lhs) != len(as.Rhs) {
				continue
			}
			for i, l := range as.Lhs {
				switch an.FieldOf(info, l) {
				case member, index:
					if _, isIdx := ast.Unparen(l).(*ast.IndexExpr); isIdx {
						continue
					}
					maps = append(maps, asg{n, l, as.Rhs[i], as.Pos()})
					if o := an.ObjOf(info, as.Rhs[i]); o != nil {
						installed[o] = true
					}
				case size:
					sizes = append(sizes, asg{n, l, as.Rhs[i], as.Pos()})
				}
			}
		}
		if len(maps) == 0 {
			continue
		}
		// the list the maps are built from: slice-typed parameters
		for i := 0; ; i++ {
			o := f.ParamObj(i)
			if o == nil {
				break
			}
			if _, isSlice := o.Type().Underlying().(*types.Slice); isSlice {
				installed[o] = true
			}
		}
		name := f.Name()
		if len(sizes) == 0 {
			c.Check("size-agreement", name+"|size", maps[0].pos, false, "a producer map is installed without installing its length as the cluster size: the slot owner is then reduced by a stale producer count")
			continue
		}
		okLen, und := true, ""
		for _, s := range sizes {
			in, _ := c09GapPeel(g, s.rhs)
			call, isCall := in.(*ast.CallExpr)
			if !isCall || !an.IsBuiltin(info, call, "len") || len(call.Args) != 1 {
				und = "size is not assigned from len(...): " + an.ExprString(s.rhs)
				continue
			}
			arg := ast.Unparen(call.Args[0])
			o := an.ObjOf(info, arg)
			fv := an.FieldOf(info, arg)
			switch {
			case o != nil && installed[o]:
			case fv == member || fv == index:
				// the length of the field itself: only after the new map was stored in it
				after := an.Set{}
				for _, m := range maps {
					if an.FieldOf(info, m.lhs) == fv {
						after[m.node] = true
					}
				}
				if len(after) == 0 || !g.Dominated(s.node, after) {
					okLen = false
				}
			default:
				okLen = false
			}
		}
		if okLen && und != "" {
			c.Undecide("size-agreement", name, und)
			continue
		}
		// same paths: each map installation is preceded or followed by a size installation
		szNodes := an.Set{}
		for _, s := range sizes {
			szNodes[s.node] = true
		}
		okPath := true
		for _, m := range maps {
			if !g.Dominated(m.node, szNodes) && !g.PostDominated(m.node, szNodes) {
				okPath = false
			}
		}
		c.Check("size-agreement", name+"|size", sizes[0].pos, okLen && okPath,
			"the cluster size (modulus of the slot owner) is set to the length of the producer list / map that is installed, on every path that installs it")
	}
	c.Floor("size-agreement", 1)
}

// --- future-index -------------------------------------------------------------
//
// IsFuture(s)  <=>  s.nextIndex - Now().nextIndex >= 2, decided on the linear
// form of the comparison, whatever its spelling, for the return form and the
// branch form.  A verdict that reads the clock other than through slot.Now is
// not a function of the two slot indexes (e.g. "remaining milliseconds > two
// intervals" accepts a block exactly two slots ahead when the clock stands on a
// slot boundary).

type c09GapLin struct {
	s, n, k int64
	ok      bool
}

func c09GapFutureIndex(c *rep.Ctx) {
	f := c.Fn(c09GapSlotPkg + ".(*Slot).IsFuture")
	if f == nil {
		return
	}
	next := c.Prog.LookupField(c09GapSlotPkg, "Slot", "nextIndex")
	if next == nil {
		c.Undecide("future-index", c09GapSlotPkg+".Slot.nextIndex", "field not found")
		return
	}
	g, info := f.Graph(), f.Info()
	recv := recvParam(f)
	name := f.Name()

	var lin func(e ast.Expr, depth int) c09GapLin
	lin = func(e ast.Expr, depth int) c09GapLin {
		e = ast.Unparen(e)
		if depth > 8 {
			return c09GapLin{}
		}
		if tv, has := info.Types[e]; has && tv.Value != nil && tv.Value.Kind() == constant.Int {
			if v, exact := constant.Int64Val(tv.Value); exact {
				return c09GapLin{k: v, ok: true}
			}
			return c09GapLin{}
		}
		switch x := e.(type) {
		case *ast.BinaryExpr:
			if x.Op != token.ADD && x.Op != token.SUB {
				return c09GapLin{}
			}
			a, b := lin(x.X, depth+1), lin(x.Y, depth+1)
			if !a.ok || !b.ok {
				return c09GapLin{}
			}
			if x.Op == token.SUB {
				b.s, b.n, b.k = -b.s, -b.n, -b.k
			}
			return c09GapLin{a.s + b.s, a.n + b.n, a.k + b.k, true}
		case *ast.CallExpr:
			if tv, has := info.Types[x.Fun]; has && tv.IsType() && len(x.Args) == 1 {
				if b, isB := tv.Type.Underlying().(*types.Basic); isB && (b.Kind() == types.Int64 || b.Kind() == types.Int || b.Kind() == types.Uint64) {
					return lin(x.Args[0], depth+1)
				}
			}
			return c09GapLin{}
		case *ast.Ident:
			if v, isVar := info.Uses[x].(*types.Var); isVar && !v.IsField() {
				if rhs, _ := g.SingleDef(v); rhs != nil {
					return lin(rhs, depth+1)
				}
			}
			return c09GapLin{}
		case *ast.SelectorExpr:
			if an.FieldOf(info, x) != next {
				return c09GapLin{}
			}
			if c09GapIsObj(info, x.X, recv) && recv != nil && g.SingleDefOrParam(recv) {
				return c09GapLin{s: 1, ok: true}
			}
			base, _ := c09GapPeel(g, x.X)
			if call, isCall := base.(*ast.CallExpr); isCall && an.CalleeName(info, call) == c09GapSlotPkg+".Now" {
				return c09GapLin{n: 1, ok: true}
			}
		}
		return c09GapLin{}
	}

	// 1. the verdict depends on the clock only through slot.Now
	p := c.Prog
	memo := map[*an.Func]bool{}
	var readsClock func(fn *an.Func, depth int) bool
	callReads := func(info *types.Info, call *ast.CallExpr, depth int) bool {
		callee := an.Callee(info, call)
		if callee == nil {
			return false
		}
		switch an.FuncName(callee) {
		case "time.Now", "time.Since", "time.Until":
			return true
		case c09GapSlotPkg + ".Now":
			return false
		}
		if cf := p.FuncOf(callee); cf != nil && cf.Body != nil {
			return readsClock(cf, depth+1)
		}
		return false
	}
	readsClock = func(fn *an.Func, depth int) bool {
		if v, seen := memo[fn]; seen {
			return v
		}
		memo[fn] = false
		if depth > 6 {
			return false
		}
		r := false
		for _, call := range an.CallsIn(fn.Body) {
			if callReads(fn.Info(), call, depth) {
				r = true
			}
		}
		memo[fn] = r
		return r
	}
	var direct []string
	an.InspectShallow(f.Body, func(m ast.Node) bool {
		if _, isExprStmt := m.(*ast.ExprStmt); isExprStmt {
			return false // a statement evaluated for its effect (logging) decides nothing
		}
		if call, isCall := m.(*ast.CallExpr); isCall && callReads(info, call, 0) {
			direct = append(direct, an.ExprString(call.Fun))
		}
		return true
	})
	c.Check("future-index", name+"|clock-through-now", f.Pos(), len(direct) == 0,
		"the future test reads the local clock only as slot.Now(): the verdict is a function of the two slot indexes, not of the milliseconds inside a slot")

	// 2. the comparison
	type cand struct {
		be   *ast.BinaryExpr
		c    int64 // expression value  <=>  (S - N >= c) == pol
		pol  bool
		kind bool // false: equality (never a threshold)
	}
	var cands []cand
	an.InspectShallow(f.Body, func(m ast.Node) bool {
		be, ok := m.(*ast.BinaryExpr)
		if !ok {
			return true
		}
		switch be.Op {
		case token.LSS, token.LEQ, token.GTR, token.GEQ, token.EQL, token.NEQ:
		default:
			return true
		}
		a, b := lin(be.X, 0), lin(be.Y, 0)
		if !a.ok || !b.ok {
			return true
		}
		ds, dn, dk := a.s-b.s, a.n-b.n, a.k-b.k
		op := be.Op
		if ds == -1 && dn == 1 {
			ds, dn, dk = 1, -1, -dk
			switch op {
			case token.LSS:
				op = token.GTR
			case token.GTR:
				op = token.LSS
			case token.LEQ:
				op = token.GEQ
			case token.GEQ:
				op = token.LEQ
			}
		}
		if ds != 1 || dn != -1 {
			return true
		}
		// S - N + dk  op  0
		switch op {
		case token.GEQ:
			cands = append(cands, cand{be, -dk, true, true})
		case token.GTR:
			cands = append(cands, cand{be, -dk + 1, true, true})
		case token.LSS:
			cands = append(cands, cand{be, -dk, false, true})
		case token.LEQ:
			cands = append(cands, cand{be, -dk + 1, false, true})
		default:
			cands = append(cands, cand{be: be})
		}
		return true
	})
	key := name + "|index-difference>=2"
	if len(cands) != 1 {
		if len(cands) == 0 && len(direct) > 0 {
			return // already a violation above; nothing index-based to examine
		}
		c.Undecide("future-index", key, "expected exactly one comparison of s.nextIndex with Now().nextIndex")
		return
	}
	cd := cands[0]
	if !cd.kind {
		c.Check("future-index", key, cd.be.Pos(), false, "the future test is an (in)equality of slot indexes, not a threshold")
		return
	}
	// relation of the verdict to the comparison
	strip := func(e ast.Expr) (ast.Expr, bool) {
		neg := false
		for i := 0; i < 8; i++ {
			e = ast.Unparen(e)
			if u, ok := e.(*ast.UnaryExpr); ok && u.Op == token.NOT {
				neg = !neg
				e = u.X
				continue
			}
			if id, ok := e.(*ast.Ident); ok {
				if v, isVar := info.Uses[id].(*types.Var); isVar && !v.IsField() {
					if rhs, _ := g.SingleDef(v); rhs != nil {
						e = rhs
						continue
					}
				}
			}
			break
		}
		return e, neg
	}
	rets := g.Returns()
	related, same := false, false // same: verdict == comparison value
	if len(rets) == 1 {
		if rs, _ := rets[0].Ast.(*ast.ReturnStmt); rs != nil && len(rs.Results) == 1 {
			if e, neg := strip(rs.Results[0]); e == ast.Expr(cd.be) {
				related, same = true, !neg
			}
		}
	}
	if !related {
		trues, falses := g.BoolReturns(true), g.BoolReturns(false)
		if len(trues)+len(falses) == len(rets) && len(trues) > 0 && len(falses) > 0 {
			for _, n := range g.Nodes {
				if n.Kind != an.KStmt || len(n.Succs) != 2 {
					continue
				}
				cond, isExpr := n.Ast.(ast.Expr)
				if !isExpr {
					continue
				}
				e, neg := strip(cond)
				if e != ast.Expr(cd.be) {
					continue
				}
				var tEdge, fEdge *an.Node
				for _, s := range n.Succs {
					if s.Kind == an.KTrue {
						tEdge = s
					}
					if s.Kind == an.KFalse {
						fEdge = s
					}
				}
				if tEdge == nil || fEdge == nil {
					continue
				}
				tT, tF := g.CanReachAny(tEdge, trues), g.CanReachAny(tEdge, falses)
				fT, fF := g.CanReachAny(fEdge, trues), g.CanReachAny(fEdge, falses)
				switch {
				case tT && !tF && fF && !fT:
					related, same = true, !neg
				case tF && !tT && fT && !fF:
					related, same = true, neg
				}
			}
		}
	}
	if !related {
		c.Undecide("future-index", key, "the verdict is not recognisably the value of the index comparison")
		return
	}
	pol := cd.pol == same
	c.Check("future-index", key, cd.be.Pos(), pol && cd.c == 2,
		"IsFuture(s) holds exactly when s.nextIndex - Now().nextIndex >= 2 (inclusive threshold of two slot indexes)")
}
