package props

import (
	"go/ast"
	"go/constant"
	"go/token"
	"go/types"
	"strings"

	"golang.org/x/tools/go/packages"

	"verif/checker/internal/an"
)

// Guard rules.  A guard is found by the *roles* of the values it compares
// (transaction amount, staking minimum, staked amount, lock end, current block,
// registered owner ...), never by names of locals or by its text.  Its whole
// branch condition is then evaluated in three-valued logic on a few abstract
// cases (e.g. "new stake below / equal to / above the minimum") and the edge
// taken must refuse (no success return reachable) or accept as the property
// statement demands.  This decides direction and strictness of the comparison
// independently of how it is written (a.Cmp(b) > 0, b.Cmp(a) < 0, !(..), De
// Morgan, extracted locals).

type c15Tri int8

const (
	c15F c15Tri = iota
	c15T
	c15U
)

func c15Not(a c15Tri) c15Tri {
	switch a {
	case c15F:
		return c15T
	case c15T:
		return c15F
	}
	return c15U
}
func c15And(a, b c15Tri) c15Tri {
	if a == c15F || b == c15F {
		return c15F
	}
	if a == c15T && b == c15T {
		return c15T
	}
	return c15U
}
func c15Or(a, b c15Tri) c15Tri { return c15Not(c15And(c15Not(a), c15Not(b))) }
func c15Bool(b bool) c15Tri {
	if b {
		return c15T
	}
	return c15F
}

type c15Case struct {
	name  string
	sign  map[string]int  // "A|B" -> sign(A-B)
	isNil map[string]bool // role -> is nil
	eq    map[string]bool // "A|B" -> bytes.Equal(A,B)
	want  string          // "refuse" | "accept" | "noskip"
}

type c15GuardSpec struct {
	fn    string // function holding the guard
	arm   string // optional: constant of package types naming the switch arm the guard must lie in
	id    string // short id of the guard
	atom  string // "A|B": the role pair that identifies the guard's comparison (either order)
	cases []c15Case
	why   string
}

var c15GuardSpecs = []c15GuardSpec{
	{fn: "contract/system.validateForStaking", id: "lock", atom: "LOCKEND:StakingDelay|NOW", why: "staking again is refused within the lock period",
		cases: []c15Case{
			{name: "within", sign: map[string]int{"LOCKEND:StakingDelay|NOW": 1}, isNil: map[string]bool{"STAKEDRAW": false}, want: "refuse"},
			{name: "after", sign: map[string]int{"LOCKEND:StakingDelay|NOW": -1}, isNil: map[string]bool{"STAKEDRAW": false}, want: "accept"},
		}},
	{fn: "contract/system.validateForStaking", id: "minimum", atom: "MIN|SUM", why: "a resulting stake below the minimum is refused, the minimum itself is accepted",
		cases: []c15Case{
			{name: "below", sign: map[string]int{"MIN|SUM": 1}, want: "refuse"},
			{name: "equal", sign: map[string]int{"MIN|SUM": 0}, want: "accept"},
			{name: "above", sign: map[string]int{"MIN|SUM": -1}, want: "accept"},
		}},
	{fn: "contract/system.validateForUnstaking", id: "lock", atom: "LOCKEND:StakingDelay|NOW", why: "unstaking is refused within the lock period",
		cases: []c15Case{
			{name: "within", sign: map[string]int{"LOCKEND:StakingDelay|NOW": 1}, want: "refuse"},
			{name: "after", sign: map[string]int{"LOCKEND:StakingDelay|NOW": -1}, want: "accept"},
		}},
	{fn: "contract/system.validateForUnstaking", id: "exceed", atom: "STAKED|TXAMT", why: "unstaking more than is staked is refused (Staking.Sub would silently clamp: the sender would get less than requested); unstaking everything is accepted",
		cases: []c15Case{
			{name: "more", sign: map[string]int{"STAKED|TXAMT": -1}, want: "refuse"},
			{name: "all", sign: map[string]int{"STAKED|TXAMT": 0}, want: "accept"},
			{name: "part", sign: map[string]int{"STAKED|TXAMT": 1}, want: "accept"},
		}},
	{fn: "contract/system.validateForUnstaking", id: "minimum", atom: "MIN|DIFF", why: "a remaining non-zero stake below the minimum is refused, the minimum itself is accepted",
		cases: []c15Case{
			{name: "below", sign: map[string]int{"MIN|DIFF": 1, "DIFF|ZERO": 1}, want: "refuse"},
			{name: "equal", sign: map[string]int{"MIN|DIFF": 0, "DIFF|ZERO": 1}, want: "accept"},
			{name: "above", sign: map[string]int{"MIN|DIFF": -1, "DIFF|ZERO": 1}, want: "accept"},
		}},
	{fn: "contract/system.validateForVote", id: "lock", atom: "LOCKEND:VotingDelay|NOW", why: "voting again is refused within the lock period",
		cases: []c15Case{
			{name: "within", sign: map[string]int{"LOCKEND:VotingDelay|NOW": 1}, isNil: map[string]bool{"VOTERAW": false}, want: "refuse"},
			{name: "after", sign: map[string]int{"LOCKEND:VotingDelay|NOW": -1}, isNil: map[string]bool{"VOTERAW": false}, want: "accept"},
		}},
	{fn: "contract/system.checkStakingBefore", id: "staked", atom: "STAKED|ZERO", why: "voting and unstaking need a non-zero stake",
		cases: []c15Case{
			{name: "none", sign: map[string]int{"STAKED|ZERO": 0}, want: "refuse"},
			{name: "some", sign: map[string]int{"STAKED|ZERO": 1}, want: "accept"},
		}},
	{fn: "contract/system.refreshAllVote", id: "shrink", atom: "VOTE|STAKED", why: "a recorded vote larger than the remaining stake is never skipped by the refresh (no vote exceeds the stake)",
		cases: []c15Case{
			{name: "vote>stake", sign: map[string]int{"VOTE|STAKED": 1}, isNil: map[string]bool{"VOTERAW": false}, want: "noskip"},
		}},
	{fn: "contract/name.ValidateNameTx", arm: "NameCreate", id: "price", atom: "PRICE|TXAMT", why: "a name is created only for at least the name price",
		cases: []c15Case{
			{name: "less", sign: map[string]int{"PRICE|TXAMT": 1}, want: "refuse"},
			{name: "exact", sign: map[string]int{"PRICE|TXAMT": 0}, want: "accept"},
			{name: "more", sign: map[string]int{"PRICE|TXAMT": -1}, want: "accept"},
		}},
	{fn: "contract/name.ValidateNameTx", arm: "NameCreate", id: "occupied", atom: "OWNER|nil", why: "a name that has an owner cannot be created again",
		cases: []c15Case{
			{name: "occupied", isNil: map[string]bool{"OWNER": false}, want: "refuse"},
			{name: "free", isNil: map[string]bool{"OWNER": true}, want: "accept"},
		}},
	{fn: "contract/name.ValidateNameTx", arm: "NameUpdate", id: "price", atom: "PRICE|TXAMT", why: "a name is updated only for at least the name price",
		cases: []c15Case{
			{name: "less", sign: map[string]int{"PRICE|TXAMT": 1}, want: "refuse"},
			{name: "exact", sign: map[string]int{"PRICE|TXAMT": 0}, want: "accept"},
			{name: "more", sign: map[string]int{"PRICE|TXAMT": -1}, want: "accept"},
		}},
	{fn: "contract/name.ValidateNameTx", arm: "NameUpdate", id: "owner", atom: "ACCOUNT|OWNER", why: "a name is changed only by its owner",
		cases: []c15Case{
			{name: "stranger", eq: map[string]bool{"ACCOUNT|OWNER": false, "ACCOUNT|?": false}, want: "refuse"},
			{name: "owner", eq: map[string]bool{"ACCOUNT|OWNER": true, "ACCOUNT|?": false}, want: "accept"},
		}},
	{fn: "contract/name.ValidateNameTx", arm: "SetContractOwner", id: "owner-set", atom: "OWNER|nil", why: "the owner of the name contract is set at most once",
		cases: []c15Case{
			{name: "set", isNil: map[string]bool{"OWNER": false}, want: "refuse"},
			{name: "unset", isNil: map[string]bool{"OWNER": true}, want: "accept"},
		}},
}

// c15GuardExceptions: conditions that let a path bypass a guarded action and
// are accepted, with the reason.
var c15GuardExceptions = map[string]string{
	"contract/system.refreshAllVote|expired proposal": "votes on a proposal whose voting period is over (Blockto < current block) are not shrunk: the proposal's tally is frozen by design",
	"contract/system.validateForStaking|first stake":  "an account without a staking record (GetAmount()==nil) is not subject to the staking delay",
	"contract/system.validateForVote|first vote":      "an account without a recorded vote is not subject to the voting delay",
	"contract/system.validateForUnstaking|all":        "unstaking the whole stake leaves 0, which is below the minimum but allowed",
}

type c15Roles struct {
	e *c15Env
	f *an.Func
	r *c15Resolver
	// set when the roles are evaluated inside a helper (declared function or
	// local closure) on behalf of a call site: the helper's parameters stand for
	// the arguments of that call, classified in the caller's frame
	up   *c15Roles
	bind map[*types.Var]ast.Expr
}

func (e *c15Env) rolesFor(f *an.Func) *c15Roles { return &c15Roles{e: e, f: f, r: c15ResolverOf(f)} }

// bound: x is (after following locals) a parameter of the helper that is bound
// to an argument of the call being classified.
func (ro *c15Roles) bound(x ast.Expr) (ast.Expr, bool) {
	if ro.up == nil || x == nil {
		return nil, false
	}
	v := ro.r.Resolve(x)
	if pv, ok := v.Obj.(*types.Var); ok {
		if a, has := ro.bind[pv]; has {
			return a, true
		}
	}
	return nil, false
}

// constBool: the expression is a boolean constant (literal, named constant, a
// local assigned once from one, or a helper parameter bound to one).
func (ro *c15Roles) constBool(x ast.Expr, depth int) (val, ok bool) {
	if x == nil || depth > 6 {
		return false, false
	}
	isC := func(y ast.Expr) (bool, bool) {
		tv, has := ro.r.info.Types[y]
		if !has || tv.Value == nil || tv.Value.Kind() != constant.Bool {
			return false, false
		}
		return constant.BoolVal(tv.Value), true
	}
	if v, ok := isC(x); ok {
		return v, true
	}
	if a, ok := ro.bound(x); ok {
		return ro.up.constBool(a, depth+1)
	}
	if v := ro.r.Resolve(x); v.Expr != nil && v.Call == nil {
		return isC(v.Expr)
	}
	return false, false
}

// helperRole: the value is the result of a helper - a function of the two
// governance packages or a closure bound once to a local - that does nothing
// but return a value of one role on every path.  The helper's parameters are
// classified as the arguments of this call.  "" when the callee is not such a
// helper.
func (ro *c15Roles) helperRole(call *ast.CallExpr, depth int) string {
	if depth > 4 || call.Ellipsis.IsValid() {
		return ""
	}
	info := ro.r.info
	var cf *an.Func
	var params *types.Tuple
	if fn := an.Callee(info, call); fn != nil {
		cf = ro.e.p.FuncOf(fn)
		if cf == nil || cf.Body == nil || (cf.Pkg != ro.e.sys && cf.Pkg != ro.e.nm) {
			return ""
		}
		sig, _ := fn.Type().(*types.Signature)
		if sig == nil || sig.Variadic() || sig.Results().Len() != 1 {
			return ""
		}
		params = sig.Params()
	} else if tv, ok := info.Types[call.Fun]; ok && !tv.IsType() {
		v := ro.r.Resolve(call.Fun)
		if v.Expr == nil {
			return ""
		}
		lit, isLit := ast.Unparen(v.Expr).(*ast.FuncLit)
		if !isLit {
			return ""
		}
		cf = ro.e.p.LitFunc(lit)
		sig, _ := info.TypeOf(lit).(*types.Signature)
		if cf == nil || cf.Body == nil || sig == nil || sig.Variadic() || sig.Results().Len() != 1 {
			return ""
		}
		params = sig.Params()
	}
	if cf == nil || params == nil || params.Len() != len(call.Args) {
		return ""
	}
	in := &c15Roles{e: ro.e, f: cf, r: c15ResolverOf(cf), up: ro, bind: map[*types.Var]ast.Expr{}}
	for i := 0; i < params.Len(); i++ {
		in.bind[params.At(i)] = call.Args[i]
	}
	role := ""
	for _, rn := range cf.Graph().Returns() {
		rs, _ := rn.Ast.(*ast.ReturnStmt)
		if rs == nil || len(rs.Results) != 1 {
			return ""
		}
		got := in.roleD(rs.Results[0], depth+1)
		if got == "?" || (role != "" && got != role) {
			return ""
		}
		role = got
	}
	return role
}

func (ro *c15Roles) zeroConst(x ast.Expr) bool {
	i, ok := c15ConstInt(ro.r.info, x)
	return ok && i == 0
}

// role classifies an expression; "?" when it has no role.
func (ro *c15Roles) role(x ast.Expr) string {
	return ro.roleD(x, 0)
}

func (ro *c15Roles) roleD(x ast.Expr, depth int) string {
	if depth > 6 || x == nil {
		return "?"
	}
	info := ro.r.info
	if c15IsNilExpr(info, x) {
		return "nil"
	}
	if a, ok := ro.bound(x); ok {
		return ro.up.roleD(a, depth+1)
	}
	if ro.e.isTxAmount(ro.f, x, 0) {
		return "TXAMT"
	}
	v := ro.r.Resolve(x)
	if v.Call != nil && (v.Expr == nil || ast.Unparen(v.Expr) == v.Call) {
		call := v.Call
		name := c15CalleeName(info, call)
		if v.Idx != 0 {
			return "?"
		}
		switch name {
		case "contract/system.GetStakingMinimum":
			return "MIN"
		case "contract/system.GetNamePrice":
			return "PRICE"
		case "types.(*Staking).GetAmountBigInt":
			return "STAKED"
		case "types.(*Vote).GetAmountBigInt":
			return "VOTE"
		case "types.(*Staking).GetAmount":
			return "STAKEDRAW"
		case "types.(*Vote).GetAmount":
			return "VOTERAW"
		case "types.(*TxBody).GetAccount":
			return "ACCOUNT" // generated getter of the field TxBody.Account
		case "contract/name.getOwner":
			// the owner in the working state of the block, or (useInitial) the owner as
			// of the block start: two different values inside a block
			flag := c15TypedArg(an.Callee(info, call), call, func(t types.Type) bool {
				b, ok := t.Underlying().(*types.Basic)
				return ok && b.Info()&types.IsBoolean != 0
			})
			if initial, ok := ro.constBool(flag, 0); ok {
				if initial {
					return "OWNER0"
				}
				return "OWNER"
			}
			return "?"
		case "types.NewZeroAmount":
			return "ZERO"
		case "math/big.NewInt":
			if len(call.Args) == 1 && ro.zeroConst(call.Args[0]) {
				return "ZERO"
			}
		case "math/big.(*Int).SetUint64", "math/big.(*Int).SetInt64":
			if len(call.Args) == 1 && ro.zeroConst(call.Args[0]) {
				return "ZERO"
			}
		case "math/big.(*Int).SetBytes":
			if len(call.Args) == 1 {
				switch ro.roleD(call.Args[0], depth+1) {
				case "STAKEDRAW":
					return "STAKED"
				case "VOTERAW":
					return "VOTE"
				}
			}
		case "math/big.(*Int).Add":
			if len(call.Args) == 2 {
				a, b := ro.roleD(call.Args[0], depth+1), ro.roleD(call.Args[1], depth+1)
				if (a == "STAKED" && b == "TXAMT") || (a == "TXAMT" && b == "STAKED") {
					return "SUM"
				}
			}
		case "math/big.(*Int).Sub":
			if len(call.Args) == 2 {
				a, b := ro.roleD(call.Args[0], depth+1), ro.roleD(call.Args[1], depth+1)
				if a == "STAKED" && b == "TXAMT" {
					return "DIFF"
				}
			}
		}
		// a helper (extracted function, exported accessor, local closure) that only
		// hands on a value of one role
		if hr := ro.helperRole(call, depth); hr != "" {
			return hr
		}
		return "?"
	}
	if v.Obj != nil {
		if pv, ok := v.Obj.(*types.Var); ok && c15IsParam(ro.f.TopDecl(), pv) {
			if b, ok := pv.Type().Underlying().(*types.Basic); ok && b.Info()&types.IsInteger != 0 {
				return "NOW"
			}
		}
		return "?"
	}
	if v.Expr == nil {
		return "?"
	}
	if fv := an.FieldOf(info, v.Expr); fv != nil {
		switch {
		case fv == ro.e.p.LookupField("types", "Staking", "Amount"):
			return "STAKEDRAW"
		case fv == ro.e.p.LookupField("types", "Vote", "Amount"):
			return "VOTERAW"
		case fv == ro.e.p.LookupField("types", "TxBody", "Account"):
			return "ACCOUNT"
		}
		return "?"
	}
	if be, ok := ast.Unparen(v.Expr).(*ast.BinaryExpr); ok && be.Op == token.ADD {
		for _, pr := range [][2]ast.Expr{{be.X, be.Y}, {be.Y, be.X}} {
			// the time of the last staking action: the getter or the field itself
			w := ro.r.Resolve(pr[0])
			isWhen := w.Call != nil && w.Idx == 0 && c15CalleeName(info, w.Call) == "types.(*Staking).GetWhen"
			if !isWhen && w.Call == nil && w.Expr != nil {
				whenF := ro.e.p.LookupField("types", "Staking", "When")
				isWhen = whenF != nil && an.FieldOf(info, w.Expr) == whenF
			}
			if !isWhen {
				continue
			}
			var id *ast.Ident
			switch y := ast.Unparen(pr[1]).(type) {
			case *ast.Ident:
				id = y
			case *ast.SelectorExpr:
				id = y.Sel
			}
			if id == nil {
				continue
			}
			if co, ok := info.Uses[id].(*types.Const); ok && co.Pkg() == ro.e.sys.Types {
				return "LOCKEND:" + co.Name()
			}
		}
	}
	return "?"
}

func c15CmpOp(s int, op token.Token, k int) (bool, bool) {
	switch op {
	case token.EQL:
		return s == k, true
	case token.NEQ:
		return s != k, true
	case token.LSS:
		return s < k, true
	case token.LEQ:
		return s <= k, true
	case token.GTR:
		return s > k, true
	case token.GEQ:
		return s >= k, true
	}
	return false, false
}

func c15Flip(op token.Token) token.Token {
	switch op {
	case token.LSS:
		return token.GTR
	case token.GTR:
		return token.LSS
	case token.LEQ:
		return token.GEQ
	case token.GEQ:
		return token.LEQ
	}
	return op
}

func (cs *c15Case) signOf(a, b string) (int, bool) {
	if s, ok := cs.sign[a+"|"+b]; ok {
		return s, true
	}
	if s, ok := cs.sign[b+"|"+a]; ok {
		return -s, true
	}
	return 0, false
}

// atomPair returns the role pair compared by a leaf expression ("" if the leaf
// is not a comparison of two roles).
func (ro *c15Roles) atomPair(x ast.Expr) (a, b string) {
	info := ro.r.info
	x = ast.Unparen(x)
	switch y := x.(type) {
	case *ast.BinaryExpr:
		for _, pr := range [][2]ast.Expr{{y.X, y.Y}, {y.Y, y.X}} {
			if call, ok := ast.Unparen(pr[0]).(*ast.CallExpr); ok && c15CalleeName(info, call) == "math/big.(*Int).Cmp" && len(call.Args) == 1 {
				if _, isK := c15ConstInt(info, pr[1]); isK {
					return ro.role(c15Recv(call)), ro.role(call.Args[0])
				}
			}
		}
		switch y.Op {
		case token.EQL, token.NEQ, token.LSS, token.LEQ, token.GTR, token.GEQ:
			return ro.role(y.X), ro.role(y.Y)
		}
	case *ast.CallExpr:
		if c15CalleeName(info, y) == "bytes.Equal" && len(y.Args) == 2 {
			return ro.role(y.Args[0]), ro.role(y.Args[1])
		}
	}
	return "", ""
}

// eval evaluates a branch condition under a case.
func (ro *c15Roles) eval(x ast.Expr, cs *c15Case) c15Tri {
	info := ro.r.info
	x = ast.Unparen(x)
	if tv, ok := info.Types[x]; ok && tv.Value != nil && tv.Value.String() == "true" {
		return c15T
	} else if ok && tv.Value != nil && tv.Value.String() == "false" {
		return c15F
	}
	switch y := x.(type) {
	case *ast.Ident:
		// a boolean local assigned once: evaluate its definition
		v := ro.r.Resolve(y)
		if v.Expr != nil && ast.Unparen(v.Expr) != x {
			return ro.eval(v.Expr, cs)
		}
		return c15U
	case *ast.UnaryExpr:
		if y.Op == token.NOT {
			return c15Not(ro.eval(y.X, cs))
		}
		return c15U
	case *ast.CallExpr:
		if c15CalleeName(info, y) == "bytes.Equal" && len(y.Args) == 2 {
			a, b := ro.role(y.Args[0]), ro.role(y.Args[1])
			if v, ok := cs.eq[a+"|"+b]; ok {
				return c15Bool(v)
			}
			if v, ok := cs.eq[b+"|"+a]; ok {
				return c15Bool(v)
			}
		}
		return c15U
	case *ast.BinaryExpr:
		switch y.Op {
		case token.LAND:
			return c15And(ro.eval(y.X, cs), ro.eval(y.Y, cs))
		case token.LOR:
			return c15Or(ro.eval(y.X, cs), ro.eval(y.Y, cs))
		}
		// A.Cmp(B) op K   /   K op A.Cmp(B)
		for i, pr := range [][2]ast.Expr{{y.X, y.Y}, {y.Y, y.X}} {
			call, ok := ast.Unparen(pr[0]).(*ast.CallExpr)
			if !ok || c15CalleeName(info, call) != "math/big.(*Int).Cmp" || len(call.Args) != 1 {
				continue
			}
			k, isK := c15ConstInt(info, pr[1])
			if !isK {
				continue
			}
			s, known := cs.signOf(ro.role(c15Recv(call)), ro.role(call.Args[0]))
			if !known {
				return c15U
			}
			op := y.Op
			if i == 1 {
				op = c15Flip(op)
			}
			if v, ok := c15CmpOp(s, op, int(k)); ok {
				return c15Bool(v)
			}
			return c15U
		}
		a, b := ro.role(y.X), ro.role(y.Y)
		if (y.Op == token.EQL || y.Op == token.NEQ) && (a == "nil" || b == "nil") {
			other := a
			if a == "nil" {
				other = b
			}
			if v, ok := cs.isNil[other]; ok {
				return c15Bool(v == (y.Op == token.EQL))
			}
			return c15U
		}
		if s, known := cs.signOf(a, b); known {
			if v, ok := c15CmpOp(s, y.Op, 0); ok {
				return c15Bool(v)
			}
		}
	}
	return c15U
}

func c15Leaves(x ast.Expr, fn func(ast.Expr)) {
	x = ast.Unparen(x)
	switch y := x.(type) {
	case *ast.UnaryExpr:
		if y.Op == token.NOT {
			c15Leaves(y.X, fn)
			return
		}
	case *ast.BinaryExpr:
		if y.Op == token.LAND || y.Op == token.LOR {
			c15Leaves(y.X, fn)
			c15Leaves(y.Y, fn)
			return
		}
	}
	fn(x)
}

func (e *c15Env) guards() {
	c, p := e.c, e.p
	subF := p.LookupField("contract/system", "vprCmd", "sub")
	for i := range c15GuardSpecs {
		sp := &c15GuardSpecs[i]
		key := sp.fn + "|" + sp.id
		if sp.arm != "" {
			key = sp.fn + "|" + sp.arm + "|" + sp.id
		}
		f := c.Fn(sp.fn)
		if f == nil {
			continue
		}
		g := f.Graph()
		ro := e.rolesFor(f)
		info := f.Info()
		succ, _ := c15Returns(g)
		var armEdges an.Set
		if sp.arm != "" {
			o := p.LookupObj("types", sp.arm)
			if o == nil {
				c.Undecide("guard", key, "arm constant types."+sp.arm+" not found")
				continue
			}
			armEdges = c15CaseEdges(g, o)
			if len(armEdges) == 0 {
				c.Undecide("guard", key, "no switch arm for types."+sp.arm)
				continue
			}
		}
		want := strings.Split(sp.atom, "|")
		// condition vertices whose expression has a leaf comparing the two roles
		// (boolean locals assigned once stand for their definition)
		findConds := func(w0, w1 string) []*an.Node {
			var out []*an.Node
			seen := map[*an.Node]bool{}
			for _, n := range g.Nodes {
				if n.Kind != an.KTrue || n.Cond == nil || seen[n.Cond] {
					continue
				}
				x, ok := n.Cond.Ast.(ast.Expr)
				if !ok {
					continue
				}
				if tv, has := info.Types[x]; !has || tv.Type == nil {
					continue
				} else if b, isB := tv.Type.Underlying().(*types.Basic); !isB || b.Info()&types.IsBoolean == 0 {
					continue
				}
				seen[n.Cond] = true
				hit := false
				var leaf func(l ast.Expr, depth int)
				leaf = func(l ast.Expr, depth int) {
					if id, isID := l.(*ast.Ident); isID {
						if v := ro.r.Resolve(id); depth < 4 && v.Expr != nil && ast.Unparen(v.Expr) != l {
							c15Leaves(v.Expr, func(l2 ast.Expr) { leaf(l2, depth+1) })
						}
						return
					}
					a, b := ro.atomPair(l)
					if (a == w0 && b == w1) || (a == w1 && b == w0) {
						hit = true
					}
				}
				c15Leaves(x, func(l ast.Expr) { leaf(l, 0) })
				if hit && (armEdges == nil || g.Dominated(n.Cond, armEdges)) {
					out = append(out, n.Cond)
				}
			}
			return out
		}
		conds := findConds(want[0], want[1])
		if len(conds) == 0 {
			// the same comparison against the owner as of the block start is not the guard:
			// say so instead of "missing"
			stale := false
			for i, w := range want {
				if w == "OWNER" {
					alt := []string{want[0], want[1]}
					alt[i] = "OWNER0"
					stale = stale || len(findConds(alt[0], alt[1])) > 0
				}
			}
			if stale {
				c.Check("guard", key, f.Pos(), false, "the only branch condition comparing "+want[0]+" with "+want[1]+" here reads the owner as of the block start (useInitial=true / GetInitialData, e.g. through the exported GetOwner) instead of the working state of the block: after an earlier transaction of the same block changed the name the check decides on the replaced owner ("+sp.why+")")
				continue
			}
			c.Check("guard", key, f.Pos(), false, "no branch condition compares "+want[0]+" with "+want[1]+" here: the guard is missing ("+sp.why+")")
			continue
		}
		// verdict: walk the control-flow graph from the entry (or from the arm's
		// case edge), following at every boolean branch only the edge(s)
		// consistent with the case (unknown conditions: both edges).
		walk := func(starts []*an.Node, cs *c15Case, avoid an.Set) an.Set {
			seenN := an.Set{}
			var stack []*an.Node
			for _, st := range starts {
				if st != nil && !seenN[st] {
					seenN[st] = true
					stack = append(stack, st)
				}
			}
			for len(stack) > 0 {
				n := stack[len(stack)-1]
				stack = stack[:len(stack)-1]
				val := c15U
				if n.Kind == an.KStmt && len(n.Succs) == 2 {
					if x, ok := n.Ast.(ast.Expr); ok {
						if tv, has := info.Types[x]; has && tv.Type != nil {
							if b, isB := tv.Type.Underlying().(*types.Basic); isB && b.Info()&types.IsBoolean != 0 {
								val = ro.eval(x, cs)
							}
						}
					}
				}
				for _, sx := range n.Succs {
					if (val == c15T && sx.Kind == an.KFalse) || (val == c15F && sx.Kind == an.KTrue) {
						continue
					}
					if !seenN[sx] && !avoid[sx] {
						seenN[sx] = true
						stack = append(stack, sx)
					}
				}
			}
			return seenN
		}
		// skip semantics for refresh: the tally update (sub) is reached in the same iteration
		var subNodes, iterStart an.Set
		if sp.cases[0].want == "noskip" {
			subNodes, iterStart = an.Set{}, an.Set{}
			for _, s := range g.Calls(func(_ *types.Func, call *ast.CallExpr) bool { return subF != nil && an.CalleeVar(info, call) == subF }) {
				subNodes[s.Node] = true
			}
			for _, s := range g.CallsTo(c15GetVote, c15GetVoteEx) {
				iterStart[s.Node] = true
			}
			if len(subNodes) == 0 || len(iterStart) == 0 {
				c.Undecide("guard", key, "tally update or vote lookup not found")
				continue
			}
			e.refreshBypass(f, key, conds, subNodes, iterStart)
		}
		for ci := range sp.cases {
			cs := &sp.cases[ci]
			ckey := key + "|" + cs.name
			undecided := false
			for _, cond := range conds {
				if ro.eval(cond.Ast.(ast.Expr), cs) == c15U {
					undecided = true
				}
			}
			pos := conds[0].Ast.Pos()
			if undecided {
				c.Undecide("guard", ckey, "the branch condition holding the comparison depends on something the evaluator does not model")
				continue
			}
			starts := []*an.Node{g.Entry}
			if armEdges != nil {
				starts = nil
				for n := range armEdges {
					starts = append(starts, n)
				}
			}
			switch cs.want {
			case "refuse", "accept":
				reach := walk(starts, cs, nil)
				okSucc := false
				for _, sr := range succ {
					if reach[sr] {
						okSucc = true
					}
				}
				if cs.want == "refuse" {
					c.Check("guard", ckey, pos, !okSucc, sp.why+": in case '"+cs.name+"' no success return may be reachable along branch edges consistent with the case")
				} else {
					c.Check("guard", ckey, pos, okSucc, sp.why+": in case '"+cs.name+"' a success return must stay reachable")
				}
			case "noskip":
				var st []*an.Node
				for n := range iterStart {
					st = append(st, n.Succs...)
				}
				reach := walk(st, cs, iterStart)
				hit := false
				for n := range subNodes {
					if reach[n] {
						hit = true
					}
				}
				c.Check("guard", ckey, pos, hit, sp.why+": in case '"+cs.name+"' the tally update must stay reachable in the same iteration")
			}
		}
	}
	c.Floor("guard", 28)
	for k, why := range c15GuardExceptions {
		c.Note("guard exception %s: %s", k, why)
	}
}

// refreshBypass: closed set of the branch edges that let an iteration of the
// vote refresh continue without updating the tally: the shrink guard itself and
// the expired-proposal exception; every other such edge must abort (reach
// neither a success return nor the next iteration).
func (e *c15Env) refreshBypass(f *an.Func, key string, guardConds []*an.Node, subNodes, iterStart an.Set) {
	c := e.c
	g := f.Graph()
	info := f.Info()
	succ, _ := c15Returns(g)
	blockto := e.p.LookupField("contract/system", "Proposal", "Blockto")
	isGuard := map[*an.Node]bool{}
	for _, n := range guardConds {
		isGuard[n] = true
	}
	reachesSub := func(ed *an.Node) bool {
		r := g.Reach([]*an.Node{ed}, iterStart)
		for n := range subNodes {
			if r[n] {
				return true
			}
		}
		return false
	}
	continues := func(ed *an.Node) bool {
		r := g.Reach([]*an.Node{ed}, nil)
		for _, s := range succ {
			if r[s] {
				return true
			}
		}
		for n := range iterStart {
			if r[n] {
				return true
			}
		}
		return false
	}
	// only branches inside an iteration: reachable from the vote lookup without passing it again
	var st []*an.Node
	for n := range iterStart {
		st = append(st, n.Succs...)
	}
	inIter := g.Reach(st, iterStart)
	n := 0
	for _, cond := range g.Nodes {
		if cond.Kind != an.KStmt || len(cond.Succs) != 2 || !inIter[cond] {
			continue
		}
		x, ok := cond.Ast.(ast.Expr)
		if !ok {
			continue
		}
		if tv, has := info.Types[x]; !has || tv.Type == nil {
			continue
		} else if b, isB := tv.Type.Underlying().(*types.Basic); !isB || b.Info()&types.IsBoolean == 0 {
			continue
		}
		a, b := reachesSub(cond.Succs[0]), reachesSub(cond.Succs[1])
		if a == b {
			continue
		}
		skip := cond.Succs[0]
		if a {
			skip = cond.Succs[1]
		}
		if !continues(skip) {
			continue // aborting edge (error return)
		}
		n++
		class := ""
		switch {
		case isGuard[cond]:
			class = "shrink-guard"
		case blockto != nil && e.readsField(f, x, blockto):
			class = "expired-proposal"
		}
		ckey := class
		if ckey == "" {
			ckey = "unclassified"
		}
		c.Check("refresh-bypass", key+"|"+ckey, x.Pos(), class != "",
			"an iteration of the vote refresh continues without updating the tally only through the shrink guard or the expired-proposal exception ("+c15GuardExceptions["contract/system.refreshAllVote|expired proposal"]+")")
	}
	c.Floor("refresh-bypass", 1)
}

// c15MentionsField: the expression reads the field, directly or through locals
// of the enclosing function that are assigned exactly once (a condition kept in
// a bool local, a field copied into a local).
func c15MentionsField(info *types.Info, x ast.Node, f *types.Var) bool {
	m := &c15Mention{field: f, seen: map[types.Object]bool{}, seenFn: map[*an.Func]bool{}}
	return m.in(info, x, 0)
}

type c15Mention struct {
	p      *an.Prog // non-nil: static callees with a body in pkgs are followed as well
	pkgs   map[*packages.Package]bool
	field  *types.Var
	seen   map[types.Object]bool
	seenFn map[*an.Func]bool
}

// c15SingleDef: the defining expression of a local assigned exactly once, from
// the single-assignment tables built so far (object identity; nil if unknown).
func c15SingleDef(o types.Object) ast.Node {
	for _, r := range c15Resolvers {
		if d, ok := r.defs[o]; ok {
			if r.cnt[o] != 1 {
				return nil
			}
			if d.call != nil {
				return d.call
			}
			if d.expr != nil {
				return d.expr
			}
			return nil
		}
	}
	return nil
}

func (m *c15Mention) in(info *types.Info, x ast.Node, depth int) bool {
	if x == nil || depth > 6 {
		return false
	}
	found := false
	ast.Inspect(x, func(n ast.Node) bool {
		if found {
			return false
		}
		switch y := n.(type) {
		case *ast.SelectorExpr:
			if an.FieldOf(info, y) == m.field {
				found = true
			}
		case *ast.Ident:
			o, ok := info.Uses[y].(*types.Var)
			if !ok || o.IsField() || m.seen[o] {
				return true
			}
			m.seen[o] = true
			if d := c15SingleDef(o); d != nil && m.in(info, d, depth+1) {
				found = true
			}
		case *ast.CallExpr:
			if m.p == nil {
				return true
			}
			var cf *an.Func
			if fn := an.Callee(info, y); fn != nil {
				cf = m.p.FuncOf(fn)
			} else if id, isID := ast.Unparen(y.Fun).(*ast.Ident); isID {
				// a closure bound once to a local
				if d, _ := c15SingleDef(info.Uses[id]).(ast.Expr); d != nil {
					if lit, isLit := ast.Unparen(d).(*ast.FuncLit); isLit {
						cf = m.p.LitFunc(lit)
					}
				}
			}
			if cf == nil || cf.Body == nil || !m.pkgs[cf.Pkg] || m.seenFn[cf] {
				return true
			}
			m.seenFn[cf] = true
			c15ResolverOf(cf)
			if m.in(cf.Info(), cf.Body, depth+1) {
				found = true
			}
		}
		return !found
	})
	return found
}

// readsField: c15MentionsField that also follows helpers of the two governance
// packages (an extracted predicate, a local closure).
func (e *c15Env) readsField(f *an.Func, x ast.Node, field *types.Var) bool {
	c15ResolverOf(f)
	m := &c15Mention{p: e.p, pkgs: map[*packages.Package]bool{e.sys: true, e.nm: true}, field: field,
		seen: map[types.Object]bool{}, seenFn: map[*an.Func]bool{}}
	return m.in(f.Info(), x, 0)
}
