package props

import (
	"go/ast"
	"go/token"
	"go/types"
	"sort"
	"strings"

	"verif/checker/internal/an"
	"verif/checker/internal/rep"
)

// C12, gap review.  Clauses of "reverting restores exactly the earlier visible
// state" that the first rules did not decide:
//
//   stack-lifo        push, peek and pop of the index stack address the same end
//   buffer-fresh      every undo log / storage cache installed in a StateDB or a
//                     buffered storage is made for it (never shared)
//   snapshot-fresh    the revision map of a cache snapshot is made in the call
//   open-staged       a contract is opened on the buffer staged in the block when
//                     there is one; a fresh buffer only on the cache miss
//   ctrstate-once     a call state is given its contract state only while it has none
//   committed-read    who may read the committed (trie) value of an account or a
//                     storage key without consulting the buffer
//   export-complete   every key with a surviving entry is exported / staged
//   snapshot-first    the snapshot precedes the work whose failure triggers the revert
//   recovery-chain    recovery points are linked, numbered upwards, reverted one
//                     by one down to the requested one, and unlinked after a revert
//   recovery-fields   what a recovery point records is used by the revert
//   recovery-object   the recovery point of a call holds the call state the callee writes

func init() {
	extend("C12", c12GapStackLifo)
	extend("C12", c12GapBufferFresh)
	extend("C12", c12GapSnapshotFresh)
	extend("C12", c12GapOpenStaged)
	extend("C12", c12GapCtrStateOnce)
	extend("C12", c12GapCommittedRead)
	extend("C12", c12GapExportComplete)
	extend("C12", c12GapSnapshotFirst)
	extend("C12", c12GapRecoveryChain)
	extend("C12", c12GapRecoveryFields)
	extend("C12", c12GapRecoveryObject)
	extend("C12", c12GapNotes)
}

func c12GapNotes(c *rep.Ctx) {
	c.Explain += " Gap review: the index stack is LIFO at one end (push, top reader, pop agree); undo logs, storage caches and snapshot maps are made for their holder, never shared; a contract is opened on the buffer staged in the block and a call state is given its contract state once; who may read the committed value behind the buffer; every key with a surviving entry is exported and staged; a local snapshot precedes the call whose failure triggers the revert; the recovery-point list of the VM is linked, numbered upwards, walked and reverted point by point and unlinked after a revert; what a point records is used by the revert, and the point of a call holds the call state the callee writes through."
	c.NotDecided = append(c.NotDecided,
		"whether every failing VM call site (contract.call, delegatecall, send, deploy, governance) passes isError=true to clearRecoveryPoint itself: the error is raised in the calling Lua state, so an enclosing pcall reverts the still-linked point, and without one the transaction fails as a whole (its storage effects: known finding F12 / C03 arm-storage)",
		"in-place mutation of a *types.State after it was put (AccountState.PutState stores newState itself; StateDB.updateStorage writes StorageRoot into the buffered object): harmless as long as an AccountState is not used after its PutState and Update runs after the last revert of the block",
		"that the second loop of stateBuffer.export fills keys[i] and vals[i] for every collected entry",
	)
}

// ---------------------------------------------------------------------------
// small helpers

// c12GapResolve follows once-defined locals (not parameters) to their defining
// expression, a few steps.
func c12GapResolve(g *an.Graph, e ast.Expr) ast.Expr {
	info := g.Fn.Info()
	for i := 0; i < 4; i++ {
		e = ast.Unparen(e)
		id, ok := e.(*ast.Ident)
		if !ok {
			return e
		}
		o, isVar := an.ObjOf(info, id).(*types.Var)
		if !isVar || o.IsField() || c12IsParam(g.Fn, o) {
			return e
		}
		d := c12DefOf(g, o)
		if d.count != 1 || d.rhs == nil || d.idx != 0 {
			return e
		}
		if _, isCall := ast.Unparen(d.rhs).(*ast.CallExpr); isCall && d.rhs != nil {
			// multi-value call results are not an alias of the call
			if tv, has := info.Types[d.rhs]; has {
				if _, isTuple := tv.Type.(*types.Tuple); isTuple {
					return e
				}
			}
		}
		e = d.rhs
	}
	return e
}

// c12GapFreshExpr: e (locals resolved) is a composite literal, &literal,
// make(...), new(...) or a call of a constructor: a function all of whose
// returns hand out a literal made in the call.
func c12GapFreshExpr(p *an.Prog, g *an.Graph, info *types.Info, e ast.Expr) (bool, string) {
	if g != nil {
		e = c12GapResolve(g, e)
	}
	e = ast.Unparen(e)
	if u, ok := e.(*ast.UnaryExpr); ok && u.Op == token.AND {
		e = ast.Unparen(u.X)
	}
	switch x := e.(type) {
	case *ast.CompositeLit:
		return true, "literal"
	case *ast.CallExpr:
		if an.IsBuiltin(info, x, "make") || an.IsBuiltin(info, x, "new") {
			return true, "make"
		}
		if fn := an.Callee(info, x); fn != nil {
			if f := p.FuncOf(fn); f != nil && f.Body != nil && c12GapIsConstructor(p, f) {
				return true, "constructor " + f.Name()
			}
		}
	}
	return false, an.ExprString(e)
}

func c12GapIsConstructor(p *an.Prog, f *an.Func) bool {
	g := f.Graph()
	rets := 0
	ok := true
	an.InspectShallow(f.Body, func(n ast.Node) bool {
		r, is := n.(*ast.ReturnStmt)
		if !is {
			return true
		}
		rets++
		if len(r.Results) != 1 {
			ok = false
			return true
		}
		x := ast.Unparen(c12GapResolve(g, r.Results[0]))
		if u, isU := x.(*ast.UnaryExpr); isU && u.Op == token.AND {
			x = ast.Unparen(u.X)
		}
		if _, isLit := x.(*ast.CompositeLit); !isLit {
			ok = false
		}
		return true
	})
	return ok && rets > 0
}

// c12GapPathAtom recognises  <path> == nil / <path> != nil  for an access path
// (atom "nil", true when the path is nil).
func c12GapPathAtom(info *types.Info, path c12Path) an.Atomizer {
	return func(e ast.Expr) (string, bool, bool) {
		be, ok := ast.Unparen(e).(*ast.BinaryExpr)
		if !ok || (be.Op != token.EQL && be.Op != token.NEQ) {
			return "", false, false
		}
		for _, pr := range [][2]ast.Expr{{be.X, be.Y}, {be.Y, be.X}} {
			p, is := c12PathOf(info, pr[0])
			if !is || !p.eq(path) {
				continue
			}
			if tv, has := info.Types[pr[1]]; has && tv.IsNil() {
				return "nil", be.Op == token.NEQ, true
			}
		}
		return "", false, false
	}
}

// c12GapSameExpr: an.SameExpr extended to calls of the same package-level
// function with the same arguments (a key derivation spelled twice).
func c12GapSameExpr(info *types.Info, a, b ast.Expr) bool {
	a, b = ast.Unparen(a), ast.Unparen(b)
	if an.SameExpr(info, a, b) {
		return true
	}
	x, ok1 := a.(*ast.CallExpr)
	y, ok2 := b.(*ast.CallExpr)
	if !ok1 || !ok2 || len(x.Args) != len(y.Args) {
		return false
	}
	fx, fy := an.Callee(info, x), an.Callee(info, y)
	if fx == nil || fx != fy {
		return false
	}
	if sig, ok := fx.Type().(*types.Signature); !ok || sig.Recv() != nil {
		return false
	}
	for i := range x.Args {
		if !c12GapSameExpr(info, x.Args[i], y.Args[i]) {
			return false
		}
	}
	return true
}

func c12GapNamed(t types.Type) *types.Named {
	if p, ok := t.(*types.Pointer); ok {
		t = p.Elem()
	}
	n, _ := t.(*types.Named)
	return n
}

// ---------------------------------------------------------------------------
// rule stack-lifo
//
// stateBuffer.put pushes the position of the new entry on the key's index
// stack, get/export/stage read the top and rollback pops it.  "Top" must be the
// element pushed last: push, the top reader and pop have to work on the same
// end of the slice, and pop has to remove exactly the element it returns.

type c12GapLin struct {
	l, k int64 // l*len(receiver) + k
}

// c12GapStackLin evaluates an int expression of a stack method to l*len(recv)+k
// (helpers of the same type without parameters are inlined).
func c12GapStackLin(p *an.Prog, f *an.Func, e ast.Expr, depth int) (c12GapLin, bool) {
	info := f.Info()
	g := f.Graph()
	recv := c12Receiver(f)
	e = ast.Unparen(e)
	if v, ok := c12ConstInt(info, e); ok {
		return c12GapLin{0, v}, true
	}
	if depth > 4 {
		return c12GapLin{}, false
	}
	isRecv := func(x ast.Expr) bool {
		x = ast.Unparen(x)
		if s, ok := x.(*ast.StarExpr); ok {
			x = ast.Unparen(s.X)
		}
		return recv != nil && an.ObjOf(info, x) == recv
	}
	switch x := e.(type) {
	case *ast.Ident:
		o, isVar := an.ObjOf(info, x).(*types.Var)
		if !isVar || c12IsParam(f, o) || o == recv {
			return c12GapLin{}, false
		}
		d := c12DefOf(g, o)
		if d.count != 1 || d.rhs == nil || d.idx != 0 {
			return c12GapLin{}, false
		}
		return c12GapStackLin(p, f, d.rhs, depth+1)
	case *ast.BinaryExpr:
		if x.Op != token.ADD && x.Op != token.SUB {
			return c12GapLin{}, false
		}
		a, ok1 := c12GapStackLin(p, f, x.X, depth+1)
		b, ok2 := c12GapStackLin(p, f, x.Y, depth+1)
		if !ok1 || !ok2 {
			return c12GapLin{}, false
		}
		if x.Op == token.SUB {
			return c12GapLin{a.l - b.l, a.k - b.k}, true
		}
		return c12GapLin{a.l + b.l, a.k + b.k}, true
	case *ast.CallExpr:
		if tv, ok := info.Types[x.Fun]; ok && tv.IsType() && len(x.Args) == 1 {
			return c12GapStackLin(p, f, x.Args[0], depth+1)
		}
		if an.IsBuiltin(info, x, "len") && len(x.Args) == 1 && isRecv(x.Args[0]) {
			return c12GapLin{1, 0}, true
		}
		// helper method of the same receiver without parameters and a single return
		sel, isSel := ast.Unparen(x.Fun).(*ast.SelectorExpr)
		if !isSel || len(x.Args) != 0 || !isRecv(sel.X) {
			return c12GapLin{}, false
		}
		h := p.FuncOf(an.Callee(info, x))
		if h == nil || h.Body == nil {
			return c12GapLin{}, false
		}
		var rets []*ast.ReturnStmt
		an.InspectShallow(h.Body, func(n ast.Node) bool {
			if r, ok := n.(*ast.ReturnStmt); ok {
				rets = append(rets, r)
			}
			return true
		})
		if len(rets) != 1 || len(rets[0].Results) != 1 || len(h.Body.List) != 1 {
			return c12GapLin{}, false
		}
		return c12GapStackLin(p, h, rets[0].Results[0], depth+1)
	}
	return c12GapLin{}, false
}

const (
	c12GapEndBack  = "back"
	c12GapEndFront = "front"
	c12GapEndBad   = "neither"
)

func c12GapStackLifo(c *rep.Ctx) {
	p := c.Prog
	idxF := p.LookupField(c12Pkg, "stateBuffer", "indexes")
	if idxF == nil {
		c.Undecide("stack-lifo", "state/statedb.stateBuffer.indexes", "field not found")
		return
	}
	var stk *types.Named
	if in := c12GapNamed(idxF.Type()); in != nil {
		if m, ok := in.Underlying().(*types.Map); ok {
			stk = c12GapNamed(m.Elem())
		}
	}
	if stk == nil {
		c.Undecide("stack-lifo", "state/statedb.stack", "index stack type not found by role")
		return
	}
	if _, isSlice := stk.Underlying().(*types.Slice); !isSlice {
		c.Undecide("stack-lifo", "state/statedb.stack", "the index stack is not a slice any more: representation not recognised")
		return
	}
	isRecvExpr := func(f *an.Func, x ast.Expr) bool {
		recv := c12Receiver(f)
		x = ast.Unparen(x)
		if s, ok := x.(*ast.StarExpr); ok {
			x = ast.Unparen(s.X)
		}
		return recv != nil && an.ObjOf(f.Info(), x) == recv
	}
	// classification of an element read (*recv)[I]
	elemEnd := func(f *an.Func, ix *ast.IndexExpr) (string, bool) {
		if !isRecvExpr(f, ix.X) {
			return "", false
		}
		v, ok := c12GapStackLin(p, f, ix.Index, 0)
		if !ok {
			return "", false
		}
		switch {
		case v.l == 1 && v.k == -1:
			return c12GapEndBack, true
		case v.l == 0 && v.k == 0:
			return c12GapEndFront, true
		}
		return c12GapEndBad, true
	}
	// value returned by a top reader / pop: (*recv)[I], possibly through a local
	// or a call of an already classified top reader on the same receiver
	peekEnd := map[string]string{}
	var valueEnd func(f *an.Func, e ast.Expr) (string, *an.Node, bool)
	valueEnd = func(f *an.Func, e ast.Expr) (string, *an.Node, bool) {
		g := f.Graph()
		info := f.Info()
		var at *an.Node
		e = ast.Unparen(e)
		if id, isID := e.(*ast.Ident); isID {
			if o, isVar := an.ObjOf(info, id).(*types.Var); isVar && !c12IsParam(f, o) {
				d := c12DefOf(g, o)
				if d.count == 1 && d.rhs != nil && d.idx == 0 {
					at = d.node
					e = ast.Unparen(d.rhs)
				}
			}
		}
		if at == nil {
			at = g.NodeContaining(e.Pos())
		}
		switch x := e.(type) {
		case *ast.IndexExpr:
			end, ok := elemEnd(f, x)
			return end, at, ok
		case *ast.CallExpr:
			if sel, ok := ast.Unparen(x.Fun).(*ast.SelectorExpr); ok && isRecvExpr(f, sel.X) {
				if end, known := peekEnd[an.CalleeName(info, x)]; known {
					return end, at, true
				}
			}
		}
		return "", nil, false
	}
	var push, peek, pop []*an.Func
	for i := 0; i < stk.NumMethods(); i++ {
		f := p.FuncOf(stk.Method(i))
		if f == nil || f.Body == nil {
			continue
		}
		sig := f.Obj.Type().(*types.Signature)
		intRes := sig.Results().Len() == 1 && types.Identical(sig.Results().At(0).Type(), types.Typ[types.Int])
		writes := false
		an.InspectShallow(f.Body, func(n ast.Node) bool {
			if as, ok := n.(*ast.AssignStmt); ok {
				for _, l := range as.Lhs {
					if _, isStar := ast.Unparen(l).(*ast.StarExpr); isStar && isRecvExpr(f, l) {
						writes = true
					}
				}
			}
			return true
		})
		hasConst := false
		an.InspectShallow(f.Body, func(n ast.Node) bool {
			if r, ok := n.(*ast.ReturnStmt); ok && len(r.Results) == 1 {
				if _, isC := c12ConstInt(f.Info(), r.Results[0]); isC {
					hasConst = true
				}
			}
			return true
		})
		switch {
		case sig.Variadic() && writes:
			push = append(push, f)
		case sig.Params().Len() == 0 && intRes && hasConst && !writes:
			peek = append(peek, f)
		case sig.Params().Len() == 0 && intRes && hasConst && writes:
			pop = append(pop, f)
		}
	}
	if len(push) != 1 || len(peek) != 1 || len(pop) != 1 {
		c.Undecide("stack-lifo", "state/statedb.stack", "expected exactly one pusher, one top reader and one pop among the methods of the index stack (by signature and effect)")
		return
	}
	// --- push: *recv = append(*recv, args...)  (back)  or  append(<fresh copy of args>, *recv...)  (front)
	pushEnd, pushDecided := "", false
	{
		f := push[0]
		info := f.Info()
		sig := f.Obj.Type().(*types.Signature)
		var vparam types.Object
		if f.Decl != nil && f.Decl.Type.Params != nil {
			fl := f.Decl.Type.Params.List
			if len(fl) > 0 && len(fl[len(fl)-1].Names) > 0 {
				vparam = info.Defs[fl[len(fl)-1].Names[len(fl[len(fl)-1].Names)-1]]
			}
		}
		_ = sig
		nApp := 0
		an.InspectShallow(f.Body, func(n ast.Node) bool {
			as, ok := n.(*ast.AssignStmt)
			if !ok || len(as.Lhs) != 1 || len(as.Rhs) != 1 || !isRecvExpr(f, as.Lhs[0]) {
				return true
			}
			if _, isStar := ast.Unparen(as.Lhs[0]).(*ast.StarExpr); !isStar {
				return true
			}
			call, isCall := ast.Unparen(as.Rhs[0]).(*ast.CallExpr)
			if !isCall || !an.IsBuiltin(info, call, "append") || len(call.Args) != 2 || !call.Ellipsis.IsValid() {
				nApp += 2
				return true
			}
			nApp++
			first, second := call.Args[0], call.Args[1]
			switch {
			case isRecvExpr(f, first) && vparam != nil && an.ObjOf(info, second) == vparam:
				pushEnd, pushDecided = c12GapEndBack, true
			case isRecvExpr(f, second):
				pushEnd, pushDecided = c12GapEndFront, true
			}
			return true
		})
		if nApp != 1 {
			pushDecided = false
		}
		if !pushDecided {
			c.Undecide("stack-lifo", f.Name(), "push is not a single `*s = append(*s, args...)` (or its mirror image): idiom not recognised")
			return
		}
	}
	// --- top reader
	{
		f := peek[0]
		end, decided := "", true
		an.InspectShallow(f.Body, func(n ast.Node) bool {
			r, ok := n.(*ast.ReturnStmt)
			if !ok || len(r.Results) != 1 {
				return true
			}
			if _, isC := c12ConstInt(f.Info(), r.Results[0]); isC {
				return true
			}
			e, _, ok2 := valueEnd(f, r.Results[0])
			switch {
			case !ok2:
				decided = false
			case end == "":
				end = e
			case end != e:
				end = c12GapEndBad
			}
			return true
		})
		if !decided || end == "" {
			c.Undecide("stack-lifo", f.Name(), "the top reader does not return an element (*s)[i] with i linear in len(*s): idiom not recognised")
			return
		}
		peekEnd[f.Name()] = end
		c.Check("stack-lifo", "top-reader|"+f.Name(), f.Pos(), end == pushEnd,
			"the top reader returns the element at the end push adds to (push: "+pushEnd+", reader: "+end+"): get/export/stage see the latest surviving entry of a key only if the top of its index stack is the position pushed last")
	}
	// --- pop: returns the top and removes exactly that element
	{
		f := pop[0]
		g := f.Graph()
		info := f.Info()
		end, decided := "", true
		var readAt []*an.Node
		an.InspectShallow(f.Body, func(n ast.Node) bool {
			r, ok := n.(*ast.ReturnStmt)
			if !ok || len(r.Results) != 1 {
				return true
			}
			if _, isC := c12ConstInt(info, r.Results[0]); isC {
				return true
			}
			e, at, ok2 := valueEnd(f, r.Results[0])
			switch {
			case !ok2:
				decided = false
			case end == "":
				end = e
			case end != e:
				end = c12GapEndBad
			}
			if at != nil {
				readAt = append(readAt, at)
			}
			return true
		})
		if !decided || end == "" {
			c.Undecide("stack-lifo", f.Name(), "pop does not return an element (*s)[i] with i linear in len(*s): idiom not recognised")
			return
		}
		c.Check("stack-lifo", "pop-value|"+f.Name(), f.Pos(), end == pushEnd,
			"pop returns the element at the end push adds to (push: "+pushEnd+", pop: "+end+")")
		// the shrink
		cut, cutDecided, nCut := "", true, 0
		var cutNode *an.Node
		an.InspectShallow(f.Body, func(n ast.Node) bool {
			as, ok := n.(*ast.AssignStmt)
			if !ok || len(as.Lhs) != 1 || len(as.Rhs) != 1 || !isRecvExpr(f, as.Lhs[0]) {
				return true
			}
			if _, isStar := ast.Unparen(as.Lhs[0]).(*ast.StarExpr); !isStar {
				return true
			}
			nCut++
			cutNode = g.NodeOf(as)
			sl, isSl := ast.Unparen(as.Rhs[0]).(*ast.SliceExpr)
			if !isSl || sl.Slice3 || !isRecvExpr(f, sl.X) {
				cutDecided = false
				return true
			}
			lo, hi := c12GapLin{0, 0}, c12GapLin{1, 0}
			okLo, okHi := true, true
			if sl.Low != nil {
				lo, okLo = c12GapStackLin(p, f, sl.Low, 0)
			}
			if sl.High != nil {
				hi, okHi = c12GapStackLin(p, f, sl.High, 0)
			}
			if !okLo || !okHi {
				cutDecided = false
				return true
			}
			switch {
			case lo == (c12GapLin{0, 0}) && hi == (c12GapLin{1, -1}):
				cut = c12GapEndBack
			case lo == (c12GapLin{0, 1}) && hi == (c12GapLin{1, 0}):
				cut = c12GapEndFront
			default:
				cut = c12GapEndBad
			}
			return true
		})
		if nCut != 1 || !cutDecided {
			c.Undecide("stack-lifo", f.Name(), "pop does not shrink the stack by one re-slice of *s: idiom not recognised")
			return
		}
		c.Check("stack-lifo", "pop-removes|"+f.Name(), cutNode.Ast.Pos(), cut == pushEnd && cut == end,
			"pop removes exactly one element, the one it returns, at the end push adds to (push: "+pushEnd+", returned: "+end+", removed: "+cut+"): rollback pops once per discarded entry and expects the previous position of the key to become the top")
		before := len(readAt) > 0
		for _, r := range readAt {
			if r == nil || cutNode == nil || !(r == cutNode || g.Dominated(cutNode, an.SetOf(r))) {
				before = false
			}
		}
		c.Check("stack-lifo", "pop-reads-before-cut|"+f.Name(), cutNode.Ast.Pos(), before, "the returned element is read before the stack is shortened")
	}
	c.Floor("stack-lifo", 4)
}

// ---------------------------------------------------------------------------
// rule buffer-fresh
//
// Revisions are positions in one undo log.  Two StateDB values (Clone, the
// per-block state) or two buffered storages that share a stateBuffer, a storage
// cache or its map invalidate each other's revisions and see each other's
// uncommitted writes.  Every installation of such a container in its holder is
// a container made for it.

func c12GapBufferFresh(c *rep.Ctx) {
	p := c.Prog
	bufT, _ := p.LookupObj(c12Pkg, "stateBuffer").(*types.TypeName)
	cacheT, _ := p.LookupObj(c12Pkg, "storageCache").(*types.TypeName)
	if bufT == nil || cacheT == nil {
		c.Undecide("buffer-fresh", "state/statedb.{stateBuffer,storageCache}", "types not found")
		return
	}
	pk := p.Pkg(c12Pkg)
	fields := map[*types.Var]string{}
	for _, name := range pk.Types.Scope().Names() {
		tn, ok := pk.Types.Scope().Lookup(name).(*types.TypeName)
		if !ok {
			continue
		}
		st, ok := tn.Type().Underlying().(*types.Struct)
		if !ok {
			continue
		}
		for i := 0; i < st.NumFields(); i++ {
			f := st.Field(i)
			if n := c12GapNamed(f.Type()); n != nil && (n.Obj() == bufT || n.Obj() == cacheT) {
				fields[f] = tn.Name() + "." + f.Name()
			}
		}
	}
	if sf := p.LookupField(c12Pkg, "storageCache", "storages"); sf != nil {
		fields[sf] = "storageCache.storages"
	} else {
		c.Undecide("buffer-fresh", "state/statedb.storageCache.storages", "field not found")
	}
	if len(fields) < 4 {
		c.Undecide("buffer-fresh", "state/statedb", "expected the container fields StateDB.Buffer, StateDB.Cache, bufferedStorage.Buffer, storageCache.storages")
		return
	}
	n := 0
	seen := map[string]int{}
	for _, mp := range p.ModulePkgs() {
		if mp.TypesInfo == nil {
			continue
		}
		info := mp.TypesInfo
		for _, file := range mp.Syntax {
			ast.Inspect(file, func(nd ast.Node) bool {
				type wr struct {
					f   *types.Var
					rhs ast.Expr
					pos token.Pos
				}
				var ws []wr
				switch s := nd.(type) {
				case *ast.AssignStmt:
					for i, l := range s.Lhs {
						if fv := an.FieldOf(info, l); fv != nil && fields[fv] != "" {
							if _, isSel := ast.Unparen(l).(*ast.SelectorExpr); !isSel {
								continue // element write m[k] = v: not an installation
							}
							var rhs ast.Expr
							if len(s.Rhs) == len(s.Lhs) {
								rhs = s.Rhs[i]
							}
							ws = append(ws, wr{fv, rhs, l.Pos()})
						}
					}
				case *ast.CompositeLit:
					tv, has := info.Types[s]
					if !has {
						return true
					}
					st := c12StructOf(tv.Type)
					if st == nil {
						return true
					}
					for i, el := range s.Elts {
						if kv, isKV := el.(*ast.KeyValueExpr); isKV {
							if id, isID := kv.Key.(*ast.Ident); isID {
								if fv, _ := info.Uses[id].(*types.Var); fv != nil && fields[fv] != "" {
									ws = append(ws, wr{fv, kv.Value, kv.Pos()})
								}
							}
						} else if i < st.NumFields() && fields[st.Field(i)] != "" {
							ws = append(ws, wr{st.Field(i), el, el.Pos()})
						}
					}
				}
				for _, w := range ws {
					fn := p.EnclosingFunc(mp, w.pos)
					name := "<package level>"
					var g *an.Graph
					if fn != nil {
						name = fn.TopDecl().Name()
						g = fn.Graph()
					}
					key := fields[w.f] + "|" + name
					seen[key]++
					if seen[key] > 1 {
						key += "#" + itoa(seen[key])
					}
					n++
					ok, what := false, "not a single-value assignment"
					if w.rhs != nil {
						if tv, has := info.Types[w.rhs]; has && tv.IsNil() {
							ok, what = true, "nil (the holder is unusable until a container is installed)"
						} else {
							ok, what = c12GapFreshExpr(p, g, info, w.rhs)
						}
					}
					c.Check("buffer-fresh", key, w.pos, ok, fields[w.f]+" is given a container made for it (literal, make or constructor), never one that another state / storage already uses: revisions and uncommitted writes of one holder must not be visible through another ("+what+")")
				}
				return true
			})
		}
	}
	if n < 4 {
		c.Undecide("buffer-fresh", "state/statedb", "fewer container installations than on the reference tree")
	}
	c.Floor("buffer-fresh", 4)
}

// ---------------------------------------------------------------------------
// rule snapshot-fresh
//
// A snapshot must not change after it was taken.  The revision map returned by
// storageCache.Snapshot is kept by the caller across later snapshots (nested
// snapshots): it is a map made in that call.

func c12GapSnapshotFresh(c *rep.Ctx) {
	f := c.Fn(c12FnCacheSnap)
	if f == nil {
		return
	}
	g := f.Graph()
	info := f.Info()
	n := 0
	for _, r := range g.Returns() {
		rs, ok := r.Ast.(*ast.ReturnStmt)
		if !ok || len(rs.Results) != 1 {
			continue
		}
		n++
		okF, what := false, ""
		x := ast.Unparen(rs.Results[0])
		if id, isID := x.(*ast.Ident); isID {
			o := an.ObjOf(info, id)
			if v, isVar := o.(*types.Var); isVar && !v.IsField() && !c12IsParam(f, o) {
				d := c12DefOf(g, o)
				if d.count == 1 && d.rhs != nil {
					okF, what = c12GapFreshExpr(c.Prog, g, info, d.rhs)
					if okF && !g.Dominated(r, an.SetOf(d.node)) {
						okF, what = false, "not made on every path"
					}
				} else {
					what = "the returned variable is assigned more than once"
				}
			} else {
				what = an.ExprString(x)
			}
		} else {
			okF, what = c12GapFreshExpr(c.Prog, nil, info, x)
		}
		key := f.Name()
		if n > 1 {
			key += "#" + itoa(n)
		}
		c.Check("snapshot-fresh", key, rs.Pos(), okF, "the revision map of a storage-cache snapshot is a map made in this call: a map kept in the cache and refilled would rewrite the snapshots taken earlier (nested snapshots) ("+what+")")
	}
	if n == 0 {
		c.Undecide("snapshot-fresh", f.Name(), "no return statement with one result")
	}
	c.Floor("snapshot-fresh", 1)
}

// ---------------------------------------------------------------------------
// rule open-staged
//
// StageContractState parks the buffer of a contract in the block's storage
// cache; the next transaction that opens the contract must continue on that
// buffer (its writes are part of the block state and of later snapshots).  A
// fresh buffer is made only when the cache has none for the account, and the
// key the cache is asked with is the key the contract will be staged under.

func c12GapOpenStaged(c *rep.Ctx) {
	p := c.Prog
	storF := p.LookupField(c12Pkg, "ContractState", "storage")
	accF := p.LookupField(c12Pkg, "ContractState", "account")
	cacheF := p.LookupField(c12Pkg, "StateDB", "Cache")
	const fnGet = "state/statedb.(*storageCache).get"
	const fnPut = "state/statedb.(*storageCache).put"
	if storF == nil || accF == nil || cacheF == nil || p.Func(fnGet) == nil || p.Func(fnPut) == nil {
		c.Undecide("open-staged", "state/statedb.ContractState.{storage,account}", "fields or cache accessors not found")
		return
	}
	pk := p.Pkg(c12Pkg)
	info := pk.TypesInfo
	nOpen := 0
	for _, file := range pk.Syntax {
		ast.Inspect(file, func(nd ast.Node) bool {
			cl, ok := nd.(*ast.CompositeLit)
			if !ok {
				return true
			}
			tv, has := info.Types[cl]
			if !has {
				return true
			}
			st := c12StructOf(tv.Type)
			if st == nil || st.NumFields() == 0 {
				return true
			}
			isCS := false
			for i := 0; i < st.NumFields(); i++ {
				if st.Field(i) == storF {
					isCS = true
				}
			}
			if !isCS {
				return true
			}
			var storVal, accVal ast.Expr
			for i, el := range cl.Elts {
				if kv, isKV := el.(*ast.KeyValueExpr); isKV {
					if id, isID := kv.Key.(*ast.Ident); isID {
						switch info.Uses[id] {
						case types.Object(storF):
							storVal = kv.Value
						case types.Object(accF):
							accVal = kv.Value
						}
					}
				} else if i < st.NumFields() {
					switch st.Field(i) {
					case storF:
						storVal = el
					case accF:
						accVal = el
					}
				}
			}
			if storVal == nil {
				return true // a contract state without storage (multicall): nothing to stage
			}
			if tvv, h := info.Types[storVal]; h && tvv.IsNil() {
				return true
			}
			fn := p.EnclosingFunc(pk, cl.Pos())
			if fn == nil {
				c.Undecide("open-staged", "package level", "ContractState literal outside a function")
				return true
			}
			nOpen++
			name := fn.TopDecl().Name()
			g := fn.Graph()
			litNode := g.NodeContaining(cl.Pos())
			// the cache lookup of this function
			gets := g.CallsTo(fnGet)
			if len(gets) != 1 || litNode == nil {
				c.Check("open-staged", name+"|cache-consulted", cl.Pos(), false, "a contract state with a storage buffer is built after exactly one lookup of the block's storage cache (found "+itoa(len(gets))+"): a buffer staged earlier in the block holds writes that the new view must see")
				c.Check("open-staged", name+"|cache-key", cl.Pos(), false, "the cache is asked with the account id that is stored in the contract state (no single lookup found)")
				return true
			}
			get := gets[0]
			rp, rpOK := c12RecvPath(info, get.Call)
			onCache := rpOK && len(rp.fields) >= 1 && rp.fields[len(rp.fields)-1] == cacheF
			res := g.ResultVarAt(get, 0)
			sv, _ := an.ObjOf(info, ast.Unparen(storVal)).(*types.Var)
			okShape, why := true, ""
			switch {
			case !onCache:
				okShape, why = false, "the lookup is not made on the Cache of a StateDB"
			case res == nil || sv == nil:
				okShape, why = false, "the lookup result or the storage value is not a local variable"
			case !g.Dominated(litNode, an.SetOf(get.Node)):
				okShape, why = false, "the cache is not consulted on every path to the literal"
			}
			if okShape {
				// every definition of the storage variable: the lookup itself, a copy
				// of its result, or a fresh buffer on the miss edge
				nDefs := 0
				for _, n := range g.Nodes {
					if n.Kind != an.KStmt || n.Ast == nil || !c12WritesVar(info, n.Ast, sv) {
						continue
					}
					nDefs++
					if n == get.Node && sv == res {
						continue
					}
					as, isAs := n.Ast.(*ast.AssignStmt)
					var rhs ast.Expr
					if isAs && len(as.Lhs) == len(as.Rhs) {
						for i, l := range as.Lhs {
							if an.ObjOf(info, l) == types.Object(sv) {
								rhs = as.Rhs[i]
							}
						}
					}
					if vs, isVS := n.Ast.(*ast.ValueSpec); isVS && len(vs.Values) == 0 {
						continue // var storage *bufferedStorage
					}
					if rhs == nil {
						okShape, why = false, "unrecognised definition of the storage variable"
						continue
					}
					if an.ObjOf(info, ast.Unparen(rhs)) == res && res != types.Object(sv) {
						continue
					}
					fresh, _ := c12GapFreshExpr(p, nil, info, rhs)
					guarded, how := g.GuardedAt(n, an.NilAtom(info, res), map[string]bool{"nil": true})
					if !fresh || !guarded {
						okShape, why = false, "the storage variable is also set to `"+an.ExprString(rhs)+"` where the cache is not known to have no buffer for the account ("+how+")"
					}
				}
				if nDefs == 0 {
					okShape, why = false, "the storage variable is never defined here"
				}
				if sv != res {
					// the copy must exist: some definition takes the lookup result
					found := false
					for _, n := range g.Nodes {
						if as, isAs := n.Ast.(*ast.AssignStmt); isAs && n.Kind == an.KStmt && len(as.Lhs) == len(as.Rhs) {
							for i, l := range as.Lhs {
								if an.ObjOf(info, l) == types.Object(sv) && an.ObjOf(info, ast.Unparen(as.Rhs[i])) == res {
									found = true
								}
							}
						}
					}
					if !found && okShape {
						okShape, why = false, "the result of the cache lookup never reaches the storage field"
					}
				}
			}
			c.Check("open-staged", name+"|cache-consulted", cl.Pos(), okShape, "the storage of a contract state is the buffer staged in the block's cache when there is one, and a fresh buffer only on the miss edge"+c12Why(why))
			// key agreement: the account id stored in the state is the id the cache was asked with
			sameKey := false
			if accVal != nil && len(get.Call.Args) == 1 {
				a, b := an.ObjOf(info, ast.Unparen(accVal)), an.ObjOf(info, ast.Unparen(get.Call.Args[0]))
				sameKey = a != nil && a == b && c12DefOf(g, a).count <= 1
				if a == nil && b == nil {
					// the same derivation spelled twice
					sameKey = c12GapSameExpr(info, c12GapResolve(g, accVal), c12GapResolve(g, get.Call.Args[0]))
				} else if !sameKey {
					sameKey = c12GapSameExpr(info, c12GapResolve(g, accVal), c12GapResolve(g, get.Call.Args[0]))
				}
			}
			c.Check("open-staged", name+"|cache-key", cl.Pos(), sameKey, "the cache is asked with the account id that is stored in the contract state (the id StageContractState files the buffer under)")
			return true
		})
	}
	// the stage side: put(<st>.account, <st>.storage) of one state
	nPut := 0
	for _, s := range p.CallSitesOf(map[string]bool{fnPut: true}) {
		if s.Fn == nil || len(s.Call.Args) != 2 {
			continue
		}
		nPut++
		si := s.Fn.Info()
		va, okV := c12PathOf(si, s.Call.Args[1])
		ok := okV && va.root != nil && len(va.fields) == 1 && va.fields[0] == storF
		// the key is derived from the same contract state only (its account id, or a
		// conversion of its address)
		nRoots := 0
		ast.Inspect(s.Call.Args[0], func(m ast.Node) bool {
			if se, isSel := m.(*ast.SelectorExpr); isSel {
				if kp, is := c12PathOf(si, se); is && kp.root != nil {
					if _, isVar := kp.root.(*types.Var); isVar {
						nRoots++
						if kp.root != va.root {
							ok = false
						}
						return false
					}
				}
			}
			if id, isID := m.(*ast.Ident); isID {
				if v, isVar := an.ObjOf(si, id).(*types.Var); isVar && !v.IsField() {
					nRoots++
					if types.Object(v) != va.root {
						ok = false
					}
				}
			}
			return true
		})
		ok = ok && nRoots >= 1
		rp, rpOK := c12RecvPath(si, s.Call)
		ok = ok && rpOK && len(rp.fields) >= 1 && rp.fields[len(rp.fields)-1] == cacheF
		c.Check("open-staged", s.Fn.TopDecl().Name()+"|stage-key", s.Call.Pos(), ok, "a contract's buffer is filed in the block's storage cache under the account id of the same contract state")
	}
	if nOpen < 1 || nPut < 1 {
		c.Undecide("open-staged", "state/statedb.OpenContractState", "expected a storage-carrying ContractState literal and a storageCache.put site")
	}
	c.Floor("open-staged", 3)
}

// ---------------------------------------------------------------------------
// rule ctrstate-once
//
// A call state keeps the contract state (and with it the not yet staged
// buffer) of an account for the whole transaction.  Opening the contract a
// second time yields a new buffer when the contract is not in the block cache
// yet: the writes made so far, and the revisions held by recovery points, would
// belong to an abandoned buffer.  An assignment of callState.ctrState is
// therefore made only where the field is known to be nil.

func c12GapCtrStateOnce(c *rep.Ctx) {
	p := c.Prog
	fv := p.LookupField("contract", "callState", "ctrState")
	if fv == nil {
		c.Undecide("ctrstate-once", "contract.callState.ctrState", "field not found")
		return
	}
	n, lits := 0, 0
	seen := map[string]int{}
	for _, w := range p.FieldWrites(map[*types.Var]bool{fv: true}) {
		if w.Fn == nil {
			continue
		}
		if w.How == "literal" {
			lits++
			continue
		}
		name := w.Fn.TopDecl().Name()
		seen[name]++
		key := name
		if seen[name] > 1 {
			key += "#" + itoa(seen[name])
		}
		n++
		g := w.Fn.Graph()
		info := w.Fn.Info()
		node := g.NodeContaining(w.Pos)
		ok, why := false, ""
		var lhs ast.Expr
		if node != nil {
			if as, isAs := node.Ast.(*ast.AssignStmt); isAs {
				for _, l := range as.Lhs {
					if an.FieldOf(info, l) == fv {
						lhs = l
					}
				}
			}
		}
		switch {
		case w.How != "assign" || lhs == nil:
			why = "unrecognised write (" + w.How + ")"
		default:
			lp, is := c12PathOf(info, lhs)
			if !is {
				why = "the holder is not an access path"
				break
			}
			guarded, how := g.GuardedAt(node, c12GapPathAtom(info, lp), map[string]bool{"nil": true})
			ok, why = guarded, how
			if !guarded && len(lp.fields) == 1 && !c12IsParam(w.Fn, lp.root) {
				// a call state made in this function: it has no contract state yet
				if d := c12DefOf(g, lp.root); d.count == 1 && d.rhs != nil && g.Dominated(node, an.SetOf(d.node)) {
					x := ast.Unparen(d.rhs)
					if u, isU := x.(*ast.UnaryExpr); isU && u.Op == token.AND {
						x = ast.Unparen(u.X)
					}
					if _, isLit := x.(*ast.CompositeLit); isLit {
						ok, why = true, "the call state is made in this function"
					}
				}
			}
			if guarded && c12DefOf(g, lp.root).count > 1 {
				ok, why = false, "the call state variable is reassigned between the test and the assignment"
			}
		}
		c.Check("ctrstate-once", key, w.Pos, ok, "callState.ctrState is assigned only where it is known to be nil: re-opening a contract inside a transaction would abandon the buffer that holds its writes and that the recovery points refer to ("+why+")")
	}
	if n < 1 || lits < 2 {
		c.Undecide("ctrstate-once", "contract.callState.ctrState", "expected the lazy open in getContractState and the call-state literals")
	}
	c.Floor("ctrstate-once", 2)
}

// ---------------------------------------------------------------------------
// rule committed-read
//
// "Reads always see the most recent non-reverted write": the value committed
// in the trie is the answer only when the buffer has nothing for the key (rule
// read-through decides that for the functions that consult both).  A function
// that reads the trie without looking at the buffer returns the value from
// before the block; every such function, and every caller of one, is listed
// here with the reason why the committed value is what it wants.

// forwarders: their callers are enumerated in turn
var c12GapCommittedForwarders = map[string]string{
	"state/statedb.(*StateDB).getTrieState":         "the trie half of getState (called on the buffer-miss edge: rule read-through)",
	"state/statedb.(*ContractState).getInitialData": "the trie half of GetData (called on the buffer-miss edge: rule read-through)",
	"state/statedb.(*ContractState).GetInitialData": "API by contract: the value at the start of the block, whatever was written since (every caller is listed)",
}

// boundaries: functions that want the committed value; their callers are not followed
var c12GapCommittedBoundaries = map[string]string{
	"state/statedb.(*bufferedStorage).has": "existence test, consults the buffer first (value-awareness: rule delete-visible)",
	"state/statedb.(*StateDB).RawDump":     "dump of the committed state of a root (debug API)",
	"state/statedb.(*StateDB).RawDumpWith": "dump of the committed state of a root (debug API)",
	"contract/name.getNameMap":             "name ownership as of the start of the block when useInitial is set (name resolution for the current block); the other arm reads through the buffer",
	"contract/system.getParamFromState":    "chain parameters take effect from the next block: read as committed, by design",
}

func c12GapCommittedRead(c *rep.Ctx) {
	p := c.Prog
	pk := p.Pkg(c12Pkg)
	if pk == nil || p.Func(c12FnGet) == nil {
		c.Undecide("committed-read", c12Pkg, "package or stateBuffer.get not found")
		return
	}
	// functions that look into a buffer directly (decided by read-through)
	through := map[string]bool{}
	for _, f := range p.Funcs() {
		if f.Pkg != pk || f.Body == nil {
			continue
		}
		if len(f.Graph().CallsTo(c12FnGet, c12FnStorageGet)) > 0 {
			through[f.Name()] = true
		}
	}
	// U: readers of the committed value = callers (transitively) of Trie.Get on
	// a state / storage trie that do not look into a buffer themselves
	stTrie := p.LookupField(c12Pkg, "StateDB", "Trie")
	bsTrie := p.LookupField(c12Pkg, "bufferedStorage", "Trie")
	if stTrie == nil || bsTrie == nil {
		c.Undecide("committed-read", "state/statedb.{StateDB,bufferedStorage}.Trie", "trie fields not found")
		return
	}
	isStateTrieGet := func(f *an.Func, call *ast.CallExpr) bool {
		if an.CalleeName(f.Info(), call) != c12FnTrieGet {
			return false
		}
		rp, ok := c12RecvPath(f.Info(), call)
		if !ok || len(rp.fields) == 0 {
			return f.Pkg == pk // a trie held in a local of the package: treated as a state trie
		}
		last := rp.fields[len(rp.fields)-1]
		return last == stTrie || last == bsTrie
	}
	U := map[string]bool{}
	type site struct {
		caller *an.Func
		callee string
		pos    token.Pos
	}
	class := func(f *an.Func) string {
		name := f.Name()
		switch {
		case through[name]:
			return "through"
		case c12GapCommittedForwarders[name] != "":
			return "forwarder"
		case c12GapCommittedBoundaries[name] != "":
			return "boundary"
		case f.Pkg == pk && f.Obj != nil && !f.Obj.Exported():
			return "helper"
		}
		return ""
	}
	var sites []site
	via := map[string]string{}
	chain := func(callee string) string {
		out := callee
		for i := 0; i < 8 && via[callee] != ""; i++ {
			callee = via[callee]
			out += " -> " + callee
		}
		return out
	}
	for changed := true; changed; {
		changed = false
		sites = sites[:0]
		for _, f := range p.Funcs() {
			if f.Body == nil || c01OffNodePkg(f) {
				continue
			}
			top := f.TopDecl()
			for _, call := range an.CallsIn(f.Body) {
				cn := an.CalleeName(f.Info(), call)
				if !(isStateTrieGet(f, call) || U[cn]) {
					continue
				}
				sites = append(sites, site{top, cn, call.Pos()})
				if k := class(top); (k == "forwarder" || k == "helper") && !U[top.Name()] {
					U[top.Name()] = true
					via[top.Name()] = cn
					changed = true
				}
			}
		}
	}
	n := 0
	seen := map[string]int{}
	used := map[string]bool{}
	sort.Slice(sites, func(i, j int) bool { return sites[i].pos < sites[j].pos })
	for _, s := range sites {
		name := s.caller.Name()
		key := name + "|" + s.callee
		seen[key]++
		if seen[key] > 1 {
			key += "#" + itoa(seen[key])
		}
		n++
		used[name] = true
		msg := name + " reads the committed value of an account / storage key (" + chain(s.callee) + ") without consulting the buffer: "
		switch class(s.caller) {
		case "through":
			c.CheckTrivial("committed-read", key, s.pos, true, "consults the buffer first (the guard of this call is decided by read-through)")
		case "forwarder":
			c.Check("committed-read", key, s.pos, true, msg+c12GapCommittedForwarders[name])
		case "boundary":
			c.Check("committed-read", key, s.pos, true, msg+c12GapCommittedBoundaries[name])
		case "helper":
			c.CheckTrivial("committed-read", key, s.pos, true, "unexported helper of the package: its callers are enumerated in turn")
		default:
			c.Check("committed-read", key, s.pos, false, msg+"not one of the listed readers of the pre-block value; a write buffered earlier in the block or transaction (also a value restored by a revert) is invisible to it")
		}
	}
	var stale []string
	for _, tab := range []map[string]string{c12GapCommittedForwarders, c12GapCommittedBoundaries} {
		for k := range tab {
			if !used[k] {
				stale = append(stale, k)
			}
		}
	}
	sort.Strings(stale)
	if len(stale) > 0 {
		c.Undecide("committed-read", strings.Join(stale, ", "), "listed reader of the committed value no longer reads the trie: table out of date")
	}
	if n < 6 {
		c.Undecide("committed-read", c12Pkg, "fewer readers of the committed value than on the reference tree")
	}
	c.Floor("committed-read", 6)
}

// ---------------------------------------------------------------------------
// rule export-complete
//
// "Only the latest surviving entry per key is exported" has a second half:
// every key that has a surviving entry IS exported (to the trie update) and
// staged (to the store), whatever its value, a delete included.  An iteration
// of the per-key loop may skip its key only on the empty-stack edge, on a
// meta-entry type test, or by leaving with an error.

func c12GapExportComplete(c *rep.Ctx) {
	p := c.Prog
	idxF := p.LookupField(c12Pkg, "stateBuffer", "indexes")
	entF := p.LookupField(c12Pkg, "stateBuffer", "entries")
	metaT, _ := p.LookupObj(c12Pkg, "metaEntry").(*types.TypeName)
	if idxF == nil || entF == nil {
		c.Undecide("export-complete", "state/statedb.stateBuffer", "fields not found")
		return
	}
	for _, spec := range []string{c12FnExport, c12FnStage} {
		f := c.Fn(spec)
		if f == nil {
			continue
		}
		g := f.Graph()
		info := f.Info()
		var loop *ast.RangeStmt
		nLoops := 0
		an.InspectShallow(f.Body, func(n ast.Node) bool {
			if r, ok := n.(*ast.RangeStmt); ok && an.FieldOf(info, r.X) == idxF {
				loop = r
				nLoops++
			}
			return true
		})
		if nLoops != 1 {
			c.Undecide("export-complete", spec, "expected one range over the index map")
			continue
		}
		head, body := c12LoopHead(g, loop)
		if head == nil || body == nil {
			c.Undecide("export-complete", spec, "loop head not found in the graph")
			continue
		}
		// the entry variable(s): locals defined from <buf>.entries[...]
		entryVars := map[types.Object]bool{}
		ast.Inspect(loop.Body, func(n ast.Node) bool {
			as, ok := n.(*ast.AssignStmt)
			if !ok || len(as.Lhs) != len(as.Rhs) {
				return true
			}
			for i, r := range as.Rhs {
				if ix, isIx := ast.Unparen(r).(*ast.IndexExpr); isIx && an.FieldOf(info, ix.X) == entF {
					if o := an.ObjOf(info, as.Lhs[i]); o != nil {
						entryVars[o] = true
					}
				}
			}
			return true
		})
		mentionsEntry := func(n ast.Node) bool {
			found := false
			ast.Inspect(n, func(m ast.Node) bool {
				if id, ok := m.(*ast.Ident); ok && entryVars[an.ObjOf(info, id)] {
					found = true
				}
				if ix, ok := m.(*ast.IndexExpr); ok && an.FieldOf(info, ix.X) == entF {
					found = true
				}
				return true
			})
			return found
		}
		must := an.Set{}
		nSinks := 0
		for _, n := range g.Nodes {
			if n.Kind != an.KStmt || n.Ast == nil || !c12Inside(loop.Body, n.Ast) {
				continue
			}
			switch s := n.Ast.(type) {
			case *ast.AssignStmt:
				// collected := append(collected, entry)
				for _, r := range s.Rhs {
					if call, ok := ast.Unparen(r).(*ast.CallExpr); ok && an.IsBuiltin(info, call, "append") && len(call.Args) >= 2 && mentionsEntry(call.Args[1]) {
						must[n] = true
						nSinks++
					}
				}
			case *ast.ExprStmt:
				// <parameter>.Method(... entry ...)
				if call, ok := ast.Unparen(s.X).(*ast.CallExpr); ok {
					if sel, isSel := ast.Unparen(call.Fun).(*ast.SelectorExpr); isSel {
						if o := an.ObjOf(info, sel.X); o != nil && c12IsParam(f, o) && o != c12Receiver(f) && mentionsEntry(call) {
							must[n] = true
							nSinks++
						}
					}
				}
			}
		}
		if nSinks == 0 {
			c.Undecide("export-complete", spec, "no statement of the loop hands the entry on (append to the collected set / call on the store parameter): idiom not recognised")
			continue
		}
		// allowed skips: edges on which the stack is known empty or the entry is
		// known to be a meta entry
		skipAtom := func(x ast.Expr) (string, bool, bool) {
			x = ast.Unparen(x)
			// (1) empty-stack sentinel: <peek result> op const
			if be, isBE := x.(*ast.BinaryExpr); isBE {
				if k, isC := c12ConstInt(info, be.Y); isC && c12GapIsPeekValue(p, g, be.X) {
					switch c12SentinelVerdict(be.Op, k) {
					case 1:
						return "SKIP", false, true
					case -1:
						return "SKIP", true, true
					}
				}
				return "", false, false
			}
			// (2) ok of `_, ok := entry.(metaEntry)` / `.(*metaEntry)`
			if id, isID := x.(*ast.Ident); isID && metaT != nil {
				if o := an.ObjOf(info, id); o != nil {
					d := c12DefOf(g, o)
					if d.count == 1 && d.rhs != nil && d.idx == 1 {
						if ta, isTA := ast.Unparen(d.rhs).(*ast.TypeAssertExpr); isTA && ta.Type != nil {
							if nt := c12GapNamed(info.TypeOf(ta.Type)); nt != nil && nt.Obj() == metaT {
								return "SKIP", false, true
							}
						}
					}
				}
			}
			return "", false, false
		}
		for e := range g.EdgesImplying(skipAtom, map[string]bool{"SKIP": true}) {
			if e.Cond != nil && e.Cond.Ast != nil && c12Inside(loop, e.Cond.Ast) {
				must[e] = true
			}
		}
		for e := range c12ErrExitEdges(g) {
			must[e] = true
		}
		ok := c12EveryIteration(g, head, body, must)
		c.Check("export-complete", spec, loop.Pos(), ok, "every key with a surviving entry is handed on by "+spec+": an iteration skips its key only on the empty-stack edge, on the meta-entry type test or with an error; a key skipped for another reason (its value, a delete) keeps its committed value after the commit")
	}
	c.Floor("export-complete", 2)
}

// c12GapIsPeekValue: x is (a once-defined local holding) the result of a
// parameterless int method with a constant -1 result (the top reader), called
// on something.
func c12GapIsPeekValue(p *an.Prog, g *an.Graph, x ast.Expr) bool {
	info := g.Fn.Info()
	x = ast.Unparen(c12GapResolve(g, x))
	call, ok := x.(*ast.CallExpr)
	if !ok {
		return false
	}
	fn := an.Callee(info, call)
	if fn == nil {
		return false
	}
	f := p.FuncOf(fn)
	if f == nil || f.Body == nil {
		return false
	}
	has := false
	an.InspectShallow(f.Body, func(n ast.Node) bool {
		if r, isR := n.(*ast.ReturnStmt); isR && len(r.Results) == 1 {
			if v, isC := c12ConstInt(f.Info(), r.Results[0]); isC && v == -1 {
				has = true
			}
			// forwarder: return (*idxs)[key].peek()
			if c2, isCall := ast.Unparen(r.Results[0]).(*ast.CallExpr); isCall {
				if f2 := p.FuncOf(an.Callee(f.Info(), c2)); f2 != nil && f2 != f && f2.Body != nil {
					an.InspectShallow(f2.Body, func(m ast.Node) bool {
						if r2, isR2 := m.(*ast.ReturnStmt); isR2 && len(r2.Results) == 1 {
							if v, isC := c12ConstInt(f2.Info(), r2.Results[0]); isC && v == -1 {
								has = true
							}
						}
						return true
					})
				}
			}
		}
		return true
	})
	return has
}

// ---------------------------------------------------------------------------
// rule snapshot-first
//
// api-pairing decides that the revision handed to a Rollback is the Snapshot
// of the same object taken on every path before it.  The snapshot must also be
// older than the work it is supposed to undo: the call whose failure sends
// control to the Rollback runs after the snapshot was taken.

func c12GapSnapshotFirst(c *rep.Ctx) {
	p := c.Prog
	pairs := map[string]string{
		"state/statedb.(*ContractState).Rollback": "state/statedb.(*ContractState).Snapshot",
		"state/statedb.(*StateDB).Rollback":       "state/statedb.(*StateDB).Snapshot",
		c12FnCacheRoll:                            c12FnCacheSnap,
		c12FnBlockRoll:                            c12FnBlockSnap,
	}
	n := 0
	errT := types.Universe.Lookup("error").Type()
	for roll, snap := range pairs {
		for _, s := range p.CallSitesOf(map[string]bool{roll: true}) {
			if s.Fn == nil || s.Fn.Body == nil || len(s.Call.Args) != 1 || c12TopName(s.Fn) == c12FnBlockRoll {
				continue
			}
			g := s.Fn.Graph()
			info := s.Fn.Info()
			id, isID := ast.Unparen(s.Call.Args[0]).(*ast.Ident)
			if !isID {
				continue // stored revision (recovery point): rule recovery-chain / api-pairing
			}
			d := c12DefOf(g, an.ObjOf(info, id))
			call, isCall := ast.Unparen(d.rhs).(*ast.CallExpr)
			if d.count != 1 || d.rhs == nil || !isCall || an.CalleeName(info, call) != snap {
				continue // reported by api-pairing
			}
			node := g.NodeContaining(s.Call.Pos())
			if node == nil {
				continue
			}
			n++
			key := c12TopName(s.Fn) + "|" + roll
			// error variables known non-nil at the rollback
			var late []string
			nTriggers := 0
			seenVar := map[types.Object]bool{}
			ast.Inspect(s.Fn.Body, func(m ast.Node) bool {
				idn, ok := m.(*ast.Ident)
				if !ok {
					return true
				}
				o, _ := an.ObjOf(info, idn).(*types.Var)
				if o == nil || o.IsField() || seenVar[o] || !types.Identical(o.Type(), errT) {
					return true
				}
				seenVar[o] = true
				nonNil := g.EdgesImplying(an.NilAtom(info, o), map[string]bool{"nil": false})
				if len(nonNil) == 0 || !g.Dominated(node, nonNil) {
					return true
				}
				for _, w := range g.Nodes {
					if w.Kind != an.KStmt || w.Ast == nil || !c12WritesVar(info, w.Ast, o) || !g.Reachable(w, node) {
						continue
					}
					if len(an.CallsIn(w.Ast)) == 0 {
						continue // var err error / err = nil
					}
					nTriggers++
					if !g.Dominated(w, an.SetOf(d.node)) {
						late = append(late, p.Pos(w.Ast.Pos()))
					}
				}
				return true
			})
			if nTriggers == 0 {
				c.CheckTrivial("snapshot-first", key, s.Call.Pos(), true, "the rollback is not the error arm of a call made in this function")
				continue
			}
			c.Check("snapshot-first", key, s.Call.Pos(), len(late) == 0, "the snapshot "+id.Name+" is taken before every call whose failure leads to Rollback("+id.Name+"): a snapshot taken afterwards already contains the writes of the failed work"+c12Why(strings.Join(late, ", ")))
		}
	}
	if n < 1 {
		c.Undecide("snapshot-first", "state.(*BlockState).Rollback", "no caller that rolls back to a local snapshot found")
	}
	c.Floor("snapshot-first", 1)
}

// ---------------------------------------------------------------------------
// rule recovery-chain
//
// Nested reverts inside a transaction (pcall, contract.call, send, deploy,
// governance) are a linked list of recovery points hanging off the VM context.
//   link        every recovery point that is created is linked in: its prev is
//               the list head read before, and it becomes the head on every exit
//   seq         a point created on top of another gets a strictly larger number
//   walk        clearRecoveryPoint walks head, head.prev, ... and stops at the
//               point whose number equals the requested one
//   every-reverted   on an error, every point visited is reverted (a nested call
//               that succeeded inside a failing pcall has its own point)
//   unlinked    after a revert the reverted points leave the list (a second
//               revert would refund the recorded amount twice)

func c12GapRecoveryChain(c *rep.Ctx) {
	p := c.Prog
	lastF := p.LookupField("contract", "vmContext", "lastRecoveryPoint")
	prevF := p.LookupField("contract", "recoveryPoint", "prev")
	seqF := p.LookupField("contract", "recoveryPoint", "seq")
	rpS := p.LookupStruct("contract", "recoveryPoint")
	fc := c.Fn("contract.createRecoveryPoint")
	fk := c.Fn("contract.clearRecoveryPoint")
	if lastF == nil || prevF == nil || seqF == nil || rpS == nil || fc == nil || fk == nil {
		c.Undecide("recovery-chain", "contract.recoveryPoint", "fields / functions of the recovery list not found")
		return
	}
	fieldIdx := func(fv *types.Var) int {
		for i := 0; i < rpS.NumFields(); i++ {
			if rpS.Field(i) == fv {
				return i
			}
		}
		return -1
	}
	litVal := func(info *types.Info, cl *ast.CompositeLit, fv *types.Var) ast.Expr {
		for i, el := range cl.Elts {
			if kv, isKV := el.(*ast.KeyValueExpr); isKV {
				if id, isID := kv.Key.(*ast.Ident); isID && info.Uses[id] == types.Object(fv) {
					return kv.Value
				}
			} else if i == fieldIdx(fv) {
				return el
			}
		}
		return nil
	}
	// ---- create
	{
		g := fc.Graph()
		info := fc.Info()
		var lit *ast.CompositeLit
		nLit := 0
		an.InspectShallow(fc.Body, func(n ast.Node) bool {
			if cl, ok := n.(*ast.CompositeLit); ok {
				if tv, has := info.Types[cl]; has && c12StructOf(tv.Type) == rpS {
					lit = cl
					nLit++
				}
			}
			return true
		})
		if nLit != 1 {
			c.Undecide("recovery-chain", fc.Name(), "expected one recoveryPoint literal")
			return
		}
		litNode := g.NodeContaining(lit.Pos())
		var rpVar types.Object
		if litNode != nil {
			if as, ok := litNode.Ast.(*ast.AssignStmt); ok && len(as.Lhs) == 1 {
				rpVar = an.ObjOf(info, as.Lhs[0])
			}
		}
		// prev value: a read of <ctx>.lastRecoveryPoint (directly or a once-defined local)
		pv := litVal(info, lit, prevF)
		var prevObj types.Object
		var prevRead *an.Node
		okPrev, whyPrev := false, ""
		if pv != nil {
			x := ast.Unparen(pv)
			if id, isID := x.(*ast.Ident); isID {
				prevObj = an.ObjOf(info, id)
				d := c12DefOf(g, prevObj)
				if d.count == 1 && d.rhs != nil {
					x = ast.Unparen(d.rhs)
					prevRead = d.node
				}
			} else {
				prevRead = litNode
			}
			if an.FieldOf(info, x) == lastF {
				if pp, is := c12PathOf(info, x); is && len(pp.fields) == 1 && c12IsParam(fc, pp.root) {
					okPrev = true
				}
			}
			if !okPrev {
				whyPrev = "prev is `" + an.ExprString(x) + "`"
			}
		} else {
			whyPrev = "the literal does not set prev"
		}
		// the link write
		var link *an.Node
		nLink := 0
		for _, n := range g.Nodes {
			as, ok := n.Ast.(*ast.AssignStmt)
			if !ok || n.Kind != an.KStmt || len(as.Lhs) != len(as.Rhs) {
				continue
			}
			for i, l := range as.Lhs {
				if an.FieldOf(info, l) == lastF {
					nLink++
					if rpVar != nil && an.ObjOf(info, ast.Unparen(as.Rhs[i])) == rpVar {
						link = n
					}
				}
			}
		}
		okLink := link != nil && nLink == 1 && rpVar != nil && c12DefOf(g, rpVar).count == 1 && g.Dominated(g.Exit, an.SetOf(link))
		okOrder := okPrev && link != nil && prevRead != nil && g.Dominated(link, an.SetOf(prevRead))
		c.Check("recovery-chain", "create|prev", lit.Pos(), okPrev && okOrder, "a new recovery point records as prev the head of the context's list, read before the point becomes the head"+c12Why(whyPrev))
		c.Check("recovery-chain", "create|linked-on-every-exit", lit.Pos(), okLink, "every exit of createRecoveryPoint has made the new point the head of the list: a point that is not linked (a transfer-only point) is never reverted, the transfer stays after the enclosing pcall or call failed")
		// seq
		sv := litVal(info, lit, seqF)
		okSeq, whySeq, first := false, "", int64(-1)
		if id, isID := ast.Unparen(sv).(*ast.Ident); isID && sv != nil {
			so := an.ObjOf(info, id)
			okSeq = true
			nInc := 0
			for _, n := range g.Nodes {
				if n.Kind != an.KStmt || n.Ast == nil || !c12WritesVar(info, n.Ast, so) {
					continue
				}
				as, isAs := n.Ast.(*ast.AssignStmt)
				if !isAs {
					continue // var seq int
				}
				for i, l := range as.Lhs {
					if an.ObjOf(info, l) != so || len(as.Lhs) != len(as.Rhs) {
						continue
					}
					if v, isC := c12ConstInt(info, as.Rhs[i]); isC {
						// the first point of a list: the head is known to be nil
						if prevObj != nil {
							if gd, _ := g.GuardedAt(n, an.NilAtom(info, prevObj), map[string]bool{"nil": true}); !gd {
								okSeq, whySeq = false, "a constant number is given where a previous point may exist"
							}
						}
						first = v
						continue
					}
					lf, isLin := linOf(info, as.Rhs[i])
					if !isLin {
						okSeq, whySeq = false, "`"+an.ExprString(as.Rhs[i])+"` is not a linear expression"
						continue
					}
					konst := lf["1"]
					var terms []string
					for t := range lf {
						if t != "1" {
							terms = append(terms, t)
						}
					}
					// the single non-constant term: <prev>.seq with coefficient 1
					okTerm := false
					if len(terms) == 1 && lf[terms[0]] == 1 {
						ast.Inspect(as.Rhs[i], func(m ast.Node) bool {
							if se, isSel := m.(*ast.SelectorExpr); isSel && an.FieldOf(info, se) == seqF && an.ExprString(se) == terms[0] {
								if an.ObjOf(info, se.X) == prevObj && prevObj != nil {
									okTerm = true
								}
							}
							return true
						})
					}
					nInc++
					if !okTerm || konst < 1 {
						okSeq, whySeq = false, "`"+an.ExprString(as.Rhs[i])+"` is not <prev>.seq plus a positive constant"
					}
				}
			}
			if nInc == 0 && okSeq {
				okSeq, whySeq = false, "no definition derives the number from the previous point"
			}
		} else {
			whySeq = "the number of the new point is not a local variable"
		}
		c.Check("recovery-chain", "create|seq-increases", lit.Pos(), okSeq, "a recovery point created on top of another one gets a strictly larger number (<prev>.seq + k, k >= 1): clearRecoveryPoint stops at the first point whose number equals the requested one, equal numbers end the walk before the requested point is reverted"+c12Why(whySeq))
		// callers that compare the returned number with a constant mean "the first point"
		nCmp, okCmp := 0, true
		for _, s := range p.CallSitesOf(map[string]bool{fc.Name(): true}) {
			if s.Fn == nil || c01OffNodePkg(s.Fn) {
				continue
			}
			sg := s.Fn.Graph()
			si := s.Fn.Info()
			site := an.Site{Node: sg.NodeContaining(s.Call.Pos()), Call: s.Call}
			if site.Node == nil {
				continue
			}
			ro := sg.ResultVarAt(site, 0)
			if ro == nil {
				continue
			}
			ast.Inspect(s.Fn.Body, func(m ast.Node) bool {
				be, ok := m.(*ast.BinaryExpr)
				if !ok || (be.Op != token.EQL && be.Op != token.NEQ) {
					return true
				}
				for _, pr := range [][2]ast.Expr{{be.X, be.Y}, {be.Y, be.X}} {
					if an.ObjOf(si, ast.Unparen(pr[0])) == ro {
						if v, isC := c12ConstInt(si, pr[1]); isC {
							nCmp++
							if v != first {
								okCmp = false
							}
						}
					}
				}
				return true
			})
		}
		if nCmp > 0 {
			c.Check("recovery-chain", "create|first-number", lit.Pos(), okCmp, "callers that test the returned number against a constant (\"the outermost point: drop the list on success\") use the number createRecoveryPoint gives to the first point of a list ("+itoa(int(first))+")")
		}
	}
	// ---- clear
	{
		g := fk.Graph()
		info := fk.Info()
		var ctxP, startP, errP types.Object
		for i := 0; ; i++ {
			o := fk.ParamObj(i)
			if o == nil {
				break
			}
			switch t := o.Type().(type) {
			case *types.Basic:
				if t.Kind() == types.Int {
					startP = o
				}
				if t.Kind() == types.Bool {
					errP = o
				}
			case *types.Pointer:
				if nt := c12GapNamed(t); nt != nil && nt.Obj().Name() == "vmContext" {
					ctxP = o
				}
			}
		}
		if ctxP == nil || startP == nil || errP == nil {
			c.Undecide("recovery-chain", fk.Name(), "parameters (context, start number, error flag) not recognised by type")
			return
		}
		// the walk variable: defined from <ctx>.lastRecoveryPoint
		var item types.Object
		var defs []*an.Node
		for _, n := range g.Nodes {
			as, ok := n.Ast.(*ast.AssignStmt)
			if !ok || n.Kind != an.KStmt || len(as.Lhs) != len(as.Rhs) {
				continue
			}
			for i, r := range as.Rhs {
				if an.FieldOf(info, r) == lastF {
					if pp, is := c12PathOf(info, r); is && pp.root == ctxP && len(pp.fields) == 1 {
						item = an.ObjOf(info, as.Lhs[i])
					}
				}
			}
		}
		if item == nil {
			c.Undecide("recovery-chain", fk.Name(), "the walk does not start at <ctx>.lastRecoveryPoint")
			return
		}
		okWalk, whyWalk := true, ""
		var adv []*an.Node
		for _, n := range g.Nodes {
			if n.Kind != an.KStmt || n.Ast == nil || !c12WritesVar(info, n.Ast, item) {
				continue
			}
			defs = append(defs, n)
			as, ok := n.Ast.(*ast.AssignStmt)
			if !ok || len(as.Lhs) != len(as.Rhs) {
				okWalk, whyWalk = false, "unrecognised definition of the walk variable"
				continue
			}
			for i, l := range as.Lhs {
				if an.ObjOf(info, l) != item {
					continue
				}
				r := ast.Unparen(as.Rhs[i])
				switch {
				case an.FieldOf(info, r) == lastF:
				case an.FieldOf(info, r) == prevF:
					if se, isSel := r.(*ast.SelectorExpr); isSel && an.ObjOf(info, se.X) == item {
						adv = append(adv, n)
					} else {
						okWalk, whyWalk = false, "the walk variable is advanced to the prev of something else"
					}
				default:
					okWalk, whyWalk = false, "the walk variable is set to `"+an.ExprString(r)+"`"
				}
			}
		}
		for _, l := range fk.Lits {
			_ = l
			okWalk, whyWalk = false, "nested function literal: idiom not recognised"
		}
		c.Check("recovery-chain", "clear|walk", fk.Pos(), okWalk && len(adv) >= 1, "clearRecoveryPoint visits the head of the list and then prev, prev, ... of the visited point, nothing else"+c12Why(whyWalk))
		errAtom := func(e ast.Expr) (string, bool, bool) {
			e = ast.Unparen(e)
			if an.ObjOf(info, e) == errP {
				return "ERR", false, true
			}
			if be, ok := e.(*ast.BinaryExpr); ok && (be.Op == token.EQL || be.Op == token.NEQ) {
				for _, pr := range [][2]ast.Expr{{be.X, be.Y}, {be.Y, be.X}} {
					if an.ObjOf(info, ast.Unparen(pr[0])) == errP {
						if tv, has := info.Types[pr[1]]; has && tv.Value != nil {
							isTrue := tv.Value.ExactString() == "true"
							return "ERR", (be.Op == token.EQL) != isTrue, true
						}
					}
				}
			}
			return "", false, false
		}
		notErr := g.EdgesImplying(errAtom, map[string]bool{"ERR": false})
		if c12DefOf(g, errP).count > 0 || c12DefOf(g, startP).count > 0 {
			c.Undecide("recovery-chain", fk.Name(), "the error flag or the start number is reassigned")
			return
		}
		// every-reverted
		must := an.Set{}
		nRev := 0
		for _, s := range g.CallsTo("contract.(*recoveryPoint).revertState") {
			if recvObj(info, s.Call) == item {
				must[s.Node] = true
				nRev++
			}
		}
		for e := range notErr {
			must[e] = true
		}
		okRev := nRev > 0
		if okRev {
			var from []*an.Node
			for _, d := range defs {
				from = append(from, d.Succs...)
			}
			r := g.Reach(from, must)
			for _, a := range adv {
				if r[a] {
					okRev = false
				}
			}
			for _, ret := range g.NilReturns() {
				if r[ret] {
					okRev = false
				}
			}
		}
		c.Check("recovery-chain", "clear|every-reverted", fk.Pos(), okRev, "on an error every visited recovery point is reverted before the walk moves on or ends: the points between the head and the requested one belong to nested calls that succeeded inside the failing pcall / call, their contracts keep the writes otherwise")
		// stop test and unlink
		stopAtom := func(x ast.Expr) (string, bool, bool) {
			be, ok := ast.Unparen(x).(*ast.BinaryExpr)
			if !ok || (be.Op != token.EQL && be.Op != token.NEQ) {
				return "", false, false
			}
			for _, pr := range [][2]ast.Expr{{be.X, be.Y}, {be.Y, be.X}} {
				se, isSel := ast.Unparen(pr[0]).(*ast.SelectorExpr)
				if isSel && an.FieldOf(info, se) == seqF && an.ObjOf(info, se.X) == item && an.ObjOf(info, ast.Unparen(pr[1])) == startP {
					return "STOP", be.Op == token.NEQ, true
				}
			}
			return "", false, false
		}
		stop := g.EdgesImplying(stopAtom, map[string]bool{"STOP": true})
		unlink := an.Set{}
		for _, n := range g.Nodes {
			as, ok := n.Ast.(*ast.AssignStmt)
			if !ok || n.Kind != an.KStmt || len(as.Lhs) != len(as.Rhs) {
				continue
			}
			for i, l := range as.Lhs {
				if an.FieldOf(info, l) != lastF {
					continue
				}
				r := ast.Unparen(as.Rhs[i])
				if se, isSel := r.(*ast.SelectorExpr); isSel && an.FieldOf(info, r) == prevF && an.ObjOf(info, se.X) == item {
					unlink[n] = true
				}
			}
		}
		var okRets []*an.Node
		for _, r := range g.NilReturns() {
			okRets = append(okRets, r)
		}
		okStop, okUnlink := len(okRets) > 0 && len(stop) > 0, len(okRets) > 0 && len(unlink) > 0
		gates := an.Set{}
		for n := range unlink {
			gates[n] = true
		}
		for n := range notErr {
			gates[n] = true
		}
		for _, r := range okRets {
			if !g.Dominated(r, stop) {
				okStop = false
			}
			if !g.Dominated(r, gates) {
				okUnlink = false
			}
		}
		c.Check("recovery-chain", "clear|stops-at-requested", fk.Pos(), okStop, "the walk ends successfully only at the point whose number equals the requested one")
		c.Check("recovery-chain", "clear|unlinked-after-revert", fk.Pos(), okUnlink, "a successful return after a revert has set the head of the list to the prev of the requested point: points left in the list are reverted again by the next failure (the recorded amount is refunded twice, the buffer is rolled back to a revision taken in an abandoned future)")
	}
	c.Floor("recovery-chain", 7)
}

// ---------------------------------------------------------------------------
// rule recovery-fields
//
// What createRecoveryPoint records is what revertState / clearRecoveryPoint
// use: a field that is recorded but never read by them is a part of the
// earlier state that is no longer restored.  The transfer recorded by a
// transfer-only point (onlySend) is refunded: the refund is not behind the
// onlySend early exit.  The sender's nonce is restored on the sender it was
// read from.

var c12GapRecoveryFieldExceptions = map[string]string{}

func c12GapRecoveryFields(c *rep.Ctx) {
	p := c.Prog
	rpS := p.LookupStruct("contract", "recoveryPoint")
	fr := c.Fn("contract.(*recoveryPoint).revertState")
	fk := c.Fn("contract.clearRecoveryPoint")
	if rpS == nil || fr == nil || fk == nil {
		c.Undecide("recovery-fields", "contract.recoveryPoint", "struct or revert functions not found")
		return
	}
	reads := map[*types.Var]bool{}
	// revertState, clearRecoveryPoint and the functions of the package they call
	closure := []*an.Func{fr, fk}
	inClosure := map[*an.Func]bool{fr: true, fk: true}
	for i := 0; i < len(closure) && len(closure) < 40; i++ {
		for _, call := range an.CallsIn(closure[i].Body) {
			if fn := an.Callee(closure[i].Info(), call); fn != nil {
				if h := p.FuncOf(fn); h != nil && h.Body != nil && h.Pkg == fr.Pkg && !inClosure[h] {
					inClosure[h] = true
					closure = append(closure, h)
				}
			}
		}
	}
	for _, f := range closure {
		info := f.Info()
		lhs := map[ast.Expr]bool{}
		ast.Inspect(f.Body, func(n ast.Node) bool {
			if as, ok := n.(*ast.AssignStmt); ok {
				for _, l := range as.Lhs {
					lhs[ast.Unparen(l)] = true
				}
			}
			return true
		})
		ast.Inspect(f.Body, func(n ast.Node) bool {
			if se, ok := n.(*ast.SelectorExpr); ok && !lhs[se] {
				if fv := an.FieldOf(info, se); fv != nil {
					reads[fv] = true
				}
			}
			return true
		})
	}
	for i := 0; i < rpS.NumFields(); i++ {
		fv := rpS.Field(i)
		if why, ex := c12GapRecoveryFieldExceptions[fv.Name()]; ex {
			c.CheckTrivial("recovery-fields", "used|"+fv.Name(), fv.Pos(), true, "exception: "+why)
			continue
		}
		c.Check("recovery-fields", "used|"+fv.Name(), fv.Pos(), reads[fv], "recoveryPoint."+fv.Name()+" is read by revertState / clearRecoveryPoint: a recorded value that the revert never looks at is a piece of the earlier state that is not restored")
	}
	// refund not behind the onlySend exit
	g := fr.Graph()
	info := fr.Info()
	osF := p.LookupField("contract", "recoveryPoint", "onlySend")
	if osF == nil {
		c.Undecide("recovery-fields", "contract.recoveryPoint.onlySend", "field not found")
		return
	}
	notOnly := g.EdgesImplying(an.FieldAtom(info, osF, "OS"), map[string]bool{"OS": false})
	moves := sitesOf(fr, c01Add, c01Sub)
	okRefund := true
	for _, m := range moves {
		if len(notOnly) > 0 && g.Dominated(m.Node, notOnly) {
			okRefund = false
		}
	}
	if len(moves) < 2 {
		c.Undecide("recovery-fields", "refund-for-transfer-only", "the refund (AddBalance / SubBalance) is not made in revertState itself: idiom not recognised")
		return
	}
	c.Check("recovery-fields", "refund-for-transfer-only", fr.Pos(), okRefund, "the refund of the recorded amount is reachable for a transfer-only recovery point (it is not behind the onlySend exit): such a point exists only to undo a transfer")
	// nonce pairing
	nonceF := p.LookupField("contract", "recoveryPoint", "senderNonce")
	sndF := p.LookupField("contract", "recoveryPoint", "senderState")
	okNonce := false
	if nonceF != nil && sndF != nil {
		for _, f := range closure {
			fi := f.Info()
			for _, s := range f.Graph().CallsTo("state.(*AccountState).SetNonce") {
				rp, okR := c12RecvPath(fi, s.Call)
				if !okR || len(s.Call.Args) != 1 || len(rp.fields) != 1 || rp.fields[0] != sndF {
					continue
				}
				ap, okA := c12PathOf(fi, s.Call.Args[0])
				if okA && len(ap.fields) == 1 && ap.fields[0] == nonceF && ap.root == rp.root {
					okNonce = true
				}
			}
		}
	}
	c.Check("recovery-fields", "nonce-restored", fr.Pos(), okNonce, "revertState sets the nonce recorded in the point on the sender recorded in the same point")
	c.Floor("recovery-fields", 10)
}

// ---------------------------------------------------------------------------
// rule recovery-object
//
// Contract code writes through ctx.curContract.callState.ctrState.  A recovery
// point that is to undo the writes of a call must hold exactly that call
// state: the one the function makes current for the callee, or, when the
// current contract is not switched (pcall, delegate call), the current one.

func c12GapRecoveryObject(c *rep.Ctx) {
	p := c.Prog
	curF := p.LookupField("contract", "vmContext", "curContract")
	csF := p.LookupField("contract", "contractInfo", "callState")
	ctrF := p.LookupField("contract", "callState", "ctrState")
	if curF == nil || csF == nil || ctrF == nil || p.Func("contract.createRecoveryPoint") == nil {
		c.Undecide("recovery-object", "contract.vmContext.curContract", "fields not found")
		return
	}
	n := 0
	seen := map[string]int{}
	for _, s := range p.CallSitesOf(map[string]bool{"contract.createRecoveryPoint": true}) {
		if s.Fn == nil || c01OffNodePkg(s.Fn) || len(s.Call.Args) != 7 {
			continue
		}
		info := s.Fn.Info()
		tv, has := info.Types[s.Call.Args[5]]
		if !has || tv.Value == nil {
			c.Undecide("recovery-object", c12TopName(s.Fn), "the onlySend argument is not a constant")
			continue
		}
		if tv.Value.ExactString() == "true" {
			continue // transfer-only point: no storage revision is taken
		}
		top := s.Fn.TopDecl()
		name := top.Name()
		seen[name]++
		key := name
		if seen[name] > 1 {
			key += "#" + itoa(seen[name])
		}
		n++
		g := s.Fn.Graph()
		arg := ast.Unparen(s.Call.Args[3])
		argObj := an.ObjOf(info, arg)
		// assignments ctx.curContract = newContractInfo(X, ...) in this function (not in deferred literals)
		var made []ast.Expr
		for _, nd := range g.Nodes {
			as, ok := nd.Ast.(*ast.AssignStmt)
			if !ok || nd.Kind != an.KStmt || len(as.Lhs) != len(as.Rhs) {
				continue
			}
			for i, l := range as.Lhs {
				if an.FieldOf(info, l) != curF {
					continue
				}
				call, isCall := ast.Unparen(as.Rhs[i]).(*ast.CallExpr)
				if isCall && an.CalleeName(info, call) == "contract.newContractInfo" && len(call.Args) >= 1 {
					made = append(made, call.Args[0])
				} else {
					made = append(made, nil)
				}
			}
		}
		ok, why := false, ""
		switch {
		case len(made) > 0:
			ok = argObj != nil
			for _, m := range made {
				if m == nil || an.ObjOf(info, ast.Unparen(m)) != argObj || argObj == nil {
					ok, why = false, "the call state made current for the callee is not the one recorded in the recovery point"
				}
			}
			if ok && c12DefOf(g, argObj).count > 1 {
				ok, why = false, "the call state variable is reassigned"
			}
		default:
			// the current contract is not switched: the point must hold <ctx>.curContract.callState
			x := arg
			pp, is := c12PathOf(info, x)
			if is && len(pp.fields) >= 1 {
				if d := c12DefOf(g, pp.root); d.count == 1 && d.rhs != nil && !c12IsParam(s.Fn, pp.root) {
					if bp, isB := c12PathOf(info, d.rhs); isB {
						pp = c12Path{bp.root, append(append([]*types.Var{}, bp.fields...), pp.fields...)}
					}
				}
			}
			if is && len(pp.fields) == 2 && pp.fields[0] == curF && pp.fields[1] == csF {
				ok = true
			} else {
				// the written state is handed over explicitly: some call of the function
				// receives <arg>.ctrState and the recovery point holds <arg>
				for _, call := range an.CallsIn(s.Fn.Body) {
					if call == s.Call {
						continue
					}
					for _, a := range call.Args {
						ap, isP := c12PathOf(info, a)
						if isP && argObj != nil && ap.root == argObj && len(ap.fields) == 1 && ap.fields[0] == ctrF {
							if fn := an.Callee(info, call); fn != nil && fn.Pkg() != nil && fn.Pkg() != s.Fn.Pkg.Types {
								ok = true
							}
						}
					}
				}
				if !ok {
					why = "the function does not switch the current contract and records `" + an.ExprString(arg) + "`, which is neither <ctx>.curContract.callState nor the state handed to the executed code"
				}
			}
		}
		c.Check("recovery-object", key, s.Call.Pos(), ok, "the recovery point of a call holds the call state the called code writes through (the one made current for it, or the current one when it is not switched)"+c12Why(why))
	}
	if n < 5 {
		c.Undecide("recovery-object", "contract.createRecoveryPoint", "fewer state-recording recovery points than on the reference tree")
	}
	c.Floor("recovery-object", 5)
}
