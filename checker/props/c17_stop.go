package props

import (
	"go/ast"
	"go/token"
	"go/types"

	"verif/checker/internal/an"
	"verif/checker/internal/rep"
)

// c17QuitErrors: sentinel errors that mean "the syncer itself asked this
// goroutine to quit" — a goroutine leaving on one of them does not have to
// request the stop again.
var c17QuitErrors = map[string]string{
	"ErrQuitBlockFetcher": "returned by BlockFetcher.searchCandidateTask when quitCh was closed by BlockFetcher.stop (called from Syncer.Reset)",
	"ErrQuitHashFetcher":  "returned by HashFetcher.processHashSet when quitCh was closed by HashFetcher.stop (called from Syncer.Reset)",
}

// c17ResetExempt: handlers of handleMessage whose error does not have to reset the syncer.
var c17ResetExempt = map[string]string{
	"syncer.(*Syncer).handleSyncStart": "fails before a session exists (isRunning is still false): there is nothing to reset; the error is logged",
}

// c17IsRunningWriters: who may write Syncer.isRunning and which constant.
var c17IsRunningWriters = map[string]string{
	"syncer.(*Syncer).handleSyncStart": "true",
	"syncer.(*Syncer).Reset":           "false",
}

// c17BoolResultEdges: the branch edges on which result number idx (a bool) of
// the call at site is known to equal val; the result must be stored in a
// variable that is not reassigned between the call and the test.
func c17BoolResultEdges(g *an.Graph, site an.Site, idx int, val bool) an.Set {
	out := an.Set{}
	info := g.Fn.Info()
	v := g.ResultVarAt(site, idx)
	if v == nil {
		return out
	}
	at := func(x ast.Expr) (string, bool, bool) {
		if id, ok := ast.Unparen(x).(*ast.Ident); ok && info.Uses[id] == v {
			return "res", false, true
		}
		return "", false, false
	}
	for en := range g.EdgesImplying(at, map[string]bool{"res": val}) {
		if !g.Reachable(site.Node, en.Cond) || !g.Dominated(en.Cond, an.SetOf(site.Node)) {
			continue
		}
		clean := true
		for m := range g.Between(site.Node, en.Cond) {
			if m.Kind == an.KStmt && an.Assigns(info, m.Ast, v) {
				clean = false
			}
		}
		if clean {
			out[en] = true
		}
	}
	return out
}

func c17Stop(c *rep.Ctx) {
	p := c.Prog
	stop := c.Fn("syncer.stopSyncer")
	reset := c.Fn("syncer.(*Syncer).Reset")
	handle := c.Fn("syncer.(*Syncer).handleMessage")
	if stop == nil || reset == nil || handle == nil {
		return
	}
	syncerPkg := p.Pkg("syncer")

	// ---- the sync goroutines: literals that install RecoverSyncer
	var routines []*an.Func
	for _, f := range p.Funcs() {
		if f.Pkg != syncerPkg {
			continue
		}
		for _, l := range c17Lits(f) {
			if l.Lit == nil || l.Body == nil {
				continue
			}
			g := l.Graph()
			for _, d := range g.Defers {
				if an.CalleeName(l.Info(), d.Call) == "syncer.RecoverSyncer" {
					routines = append(routines, l)
				}
			}
		}
	}
	c.CheckTrivial("err-stops", "syncer|routines", token.NoPos, len(routines) >= 3, itoa(len(routines))+" sync goroutines (function literals that defer RecoverSyncer) found (reference tree: finder, hash fetcher, block fetcher)")
	if len(routines) < 3 {
		c.Undecide("err-stops", "syncer", "fewer sync goroutines than on the reference tree: discovery lost its anchor")
	}
	for _, r := range routines {
		g := r.Graph()
		info := r.Info()
		// the panic path reports too: RecoverSyncer is given the session's sequence
		stopNodes := an.Set{}
		for _, s := range g.CallsTo(stop.Name()) {
			if len(s.Call.Args) == 4 && !c17IsNil(info, s.Call.Args[3]) {
				stopNodes[s.Node] = true
			}
		}
		for _, s := range g.Calls(nil) {
			if s.Fn == nil || s.Fn.Pkg() == nil || s.Fn.Pkg() != syncerPkg.Types {
				continue
			}
			ei := c17ErrIdx(s.Fn)
			if ei < 0 {
				continue
			}
			construct := r.Name() + "|" + c17Short(an.FuncName(s.Fn))
			errVar := g.ResultVarAt(s, ei)
			if errVar == nil {
				c.Check("err-stops", construct, s.Call.Pos(), false, "the error result of a fetch/scan step is discarded inside a sync goroutine")
				continue
			}
			isErr := func(x ast.Expr) bool { return an.ObjOf(info, x) == errVar }
			quit := func(x ast.Expr) bool {
				id, ok := ast.Unparen(x).(*ast.Ident)
				if !ok {
					return false
				}
				v, ok := info.Uses[id].(*types.Var)
				if !ok || v.Pkg() == nil || v.Parent() != v.Pkg().Scope() {
					return false
				}
				_, is := c17QuitErrors[v.Name()]
				return is && v.Pkg() == syncerPkg.Types
			}
			at := c17Atoms(
				c17NilCmpAtom(info, "ERRNIL", isErr),
				c17EqAtom(info, "QUIT", false, isErr, quit),
			)
			failed := an.Set{}
			for en := range g.EdgesImplying(at, map[string]bool{"ERRNIL": false}) {
				if g.Reachable(s.Node, en) {
					failed[en] = true
				}
			}
			// on a path that starts at a failed test, a later outcome "err == nil" of
			// the same (not reassigned) variable is infeasible; reaching a
			// reassignment first means the error was overwritten unreported
			avoid := stopNodes.Union(g.EdgesImplying(at, map[string]bool{"QUIT": true})).Union(g.EdgesImplying(at, map[string]bool{"ERRNIL": true}))
			ok := len(failed) > 0
			why := "the error is never tested"
			for en := range failed {
				reach := g.Reach([]*an.Node{en}, avoid)
				over := false
				for _, asn := range c17AssignNodes(g, errVar) {
					if reach[asn] {
						over = true
					}
				}
				if reach[g.Exit] || over {
					ok = false
					why = "a path from `err != nil` leaves the goroutine (or overwrites the error) without stopSyncer(err)"
				}
			}
			msg := "when this step of a sync goroutine fails, every path from the failed test reaches stopSyncer with a non-nil error before the goroutine returns or loops (quit sentinels excepted): the failure is reported and the session stopped"
			if !ok {
				msg += ": " + why
			}
			c.Check("err-stops", construct, s.Call.Pos(), ok, msg)
		}
	}
	c.Floor("err-stops", 8)

	c17ErrPropagates(c, routines)
	c.Floor("err-propagates", 13)

	// ---- handleMessage: a failing handler resets the syncer with that error
	hg := handle.Graph()
	hinfo := handle.Info()
	nH := 0
	for _, s := range hg.Calls(nil) {
		if s.Fn == nil || s.Fn.Pkg() != syncerPkg.Types {
			continue
		}
		ei := c17ErrIdx(s.Fn)
		if ei < 0 {
			continue
		}
		name := an.FuncName(s.Fn)
		construct := handle.Name() + "|" + c17Short(name)
		if why, ex := c17ResetExempt[name]; ex {
			c.CheckTrivial("err-resets", construct+"|exempt", s.Call.Pos(), true, why)
			continue
		}
		nH++
		errVar := hg.ResultVarAt(s, ei)
		if errVar == nil {
			c.Check("err-resets", construct, s.Call.Pos(), false, "the error of a message handler is discarded")
			continue
		}
		resetNodes := an.Set{}
		for _, rs := range hg.CallsTo(reset.Name()) {
			if len(rs.Call.Args) == 1 && an.ObjOf(hinfo, rs.Call.Args[0]) == errVar {
				resetNodes[rs.Node] = true
			}
		}
		at := c17NilCmpAtom(hinfo, "ERRNIL", func(x ast.Expr) bool { return an.ObjOf(hinfo, x) == errVar })
		failed := an.Set{}
		for en := range hg.EdgesImplying(at, map[string]bool{"ERRNIL": false}) {
			if hg.Reachable(s.Node, en) && hg.Dominated(en, an.SetOf(s.Node)) {
				failed[en] = true
			}
		}
		ok := len(failed) > 0
		for en := range failed {
			if hg.Reach([]*an.Node{en}, resetNodes.Union(hg.EdgesImplying(at, map[string]bool{"ERRNIL": true})))[hg.Exit] {
				ok = false
			}
		}
		c.Check("err-resets", construct, s.Call.Pos(), ok, "when a message handler fails, every path from the failed test calls Syncer.Reset with that error: the session ends and the requester is notified")
	}
	// a stop request resets with the carried error
	stopErr := p.LookupField(c17Msg, "SyncStop", "Err")
	tss := c17TypeSwitches(handle)
	if len(tss) == 1 {
		cls, _ := c17Clauses(hinfo, tss[0])
		for _, cl := range cls {
			if cl.Key != c17Msg+".SyncStop" || len(cl.Clause.Body) == 0 {
				continue
			}
			nH++
			resetNodes := an.Set{}
			for _, rs := range hg.CallsTo(reset.Name()) {
				if c17In(cl.Clause, rs.Call.Pos()) && len(rs.Call.Args) == 1 && an.FieldOf(hinfo, rs.Call.Args[0]) == stopErr {
					resetNodes[rs.Node] = true
				}
			}
			first := hg.NodeContaining(cl.Clause.Body[0].Pos())
			if is, ok := cl.Clause.Body[0].(*ast.IfStmt); ok {
				first = hg.NodeOf(is.Cond)
			}
			c.Check("err-resets", handle.Name()+"|SyncStop", cl.Clause.Pos(), first != nil && len(resetNodes) > 0 && hg.PostDominated(first, resetNodes), "a SyncStop of the current session always ends in Syncer.Reset(msg.Err): the workers' stop requests (success and failure) take effect")
		}
	}
	c.Floor("err-resets", 4)

	// ---- Reset re-arms the syncer and notifies
	isRunning := p.LookupField("syncer", "Syncer", "isRunning")
	ctxFld := p.LookupField("syncer", "Syncer", "ctx")
	rg := reset.Graph()
	rinfo := reset.Info()
	var offNode *an.Node
	for _, w := range p.FieldWrites(map[*types.Var]bool{isRunning: true}) {
		fn := c17Top(w.Fn)
		want, allowed := c17IsRunningWriters[fn]
		val := ""
		if w.Fn != nil {
			if n := w.Fn.Graph().NodeContaining(w.Pos); n != nil {
				if rhs, ok := c17FieldAssign(w.Fn.Info(), n, isRunning); ok {
					val = c17Const(w.Fn.Info(), rhs)
				}
				if w.Fn == reset {
					offNode = n
				}
			}
		}
		c.Check("reset-shape", fn+"|isRunning", w.Pos, allowed && val == want, "Syncer.isRunning is set to true only by handleSyncStart and to false only by Reset")
	}
	runAt := func(x ast.Expr) (string, bool, bool) {
		if an.FieldOf(rinfo, x) == isRunning {
			return "RUN", false, true
		}
		return "", false, false
	}
	running := rg.EdgesImplying(runAt, map[string]bool{"RUN": true})
	var errPar types.Object
	if pl := reset.Type.Params; pl != nil && len(pl.List) == 1 && len(pl.List[0].Names) == 1 {
		errPar = rinfo.Defs[pl.List[0].Names[0]]
	}
	notes := an.Set{}
	for _, s := range rg.CallsTo("syncer.(*Syncer).notifyStop") {
		if len(s.Call.Args) == 1 && errPar != nil && an.ObjOf(rinfo, s.Call.Args[0]) == errPar {
			notes[s.Node] = true
		}
	}
	ok := offNode != nil && len(running) > 0 && len(notes) > 0
	for en := range running {
		if !rg.PostDominated(en, an.SetOf(offNode)) || !rg.PostDominated(en, notes) {
			ok = false
		}
	}
	c.Check("reset-shape", reset.Name()+"|rearm", reset.Pos(), ok, "whenever Reset finds the syncer running, every path clears isRunning (a later SyncStart is accepted) and calls notifyStop with Reset's error argument (the result is reported)")
	// the notification needs the context: it is dropped only afterwards
	for _, w := range p.FieldWrites(map[*types.Var]bool{ctxFld: true}) {
		if w.Fn != reset {
			continue
		}
		n := rg.NodeContaining(w.Pos)
		c.Check("reset-shape", reset.Name()+"|ctx-after-notify", w.Pos, n != nil && len(notes) > 0 && rg.Dominated(n, notes), "Reset drops the sync context only after notifyStop used its notification channel")
	}
	// the children are stopped
	for _, child := range []string{"syncer.(*Finder).stop", "syncer.(*HashFetcher).stop", "syncer.(*BlockFetcher).stop"} {
		sites := rg.CallsTo(child)
		okc := len(sites) > 0
		for en := range running {
			set := an.Set{}
			for _, s := range sites {
				set[s.Node] = true
			}
			if !rg.PostDominated(en, set) {
				okc = false
			}
		}
		c.Check("reset-shape", reset.Name()+"|"+c17Short(child), reset.Pos(), okc && len(running) > 0, "Reset stops this worker on every path on which the syncer was running (no worker of an old session keeps submitting)")
	}
	// notifyStop delivers the error it was given
	if ns := c.Fn("syncer.(*Syncer).notifyStop"); ns != nil {
		ninfo := ns.Info()
		var par types.Object
		if pl := ns.Type.Params; pl != nil && len(pl.List) == 1 && len(pl.List[0].Names) == 1 {
			par = ninfo.Defs[pl.List[0].Names[0]]
		}
		sent := false
		ast.Inspect(ns.Body, func(x ast.Node) bool {
			if s, ok := x.(*ast.SendStmt); ok && par != nil && an.ObjOf(ninfo, s.Value) == par {
				sent = true
			}
			return true
		})
		c.Check("reset-shape", ns.Name()+"|sends-err", ns.Pos(), sent, "notifyStop sends its error argument on the requester's notification channel")
	}
	c.Floor("reset-shape", 8)
}

// c17SwallowOK: (function|callee) pairs where a failed step deliberately does
// not fail the caller.
var c17SwallowOK = map[string]string{
	"syncer.(*BlockProcessor).GetBlockChunkRsp|syncer.(*BlockFetcher).findFinished":      "a well-formed chunk that matches no running fetch task (late answer of a task that timed out and was re-queued) is dropped, not queued: nothing failed",
	"syncer.(*BlockProcessor).GetBlockChunkRspError|syncer.(*BlockFetcher).findFinished": "an error answer from a peer that has no running task (already timed out) is dropped: the task is in the retry queue already",
}

// c17ErrPropagates (floor set by the caller): inside the error-returning functions of package syncer
// (the helpers between the goroutine loops / message handlers and the leaves)
// a failed same-package step makes the function itself fail: every path from
// the failed test returns a non-nil error (or requests the stop directly).
func c17ErrPropagates(c *rep.Ctx, routines []*an.Func) {
	p := c.Prog
	syncerPkg := p.Pkg("syncer")
	isRoutine := map[*an.Func]bool{}
	for _, r := range routines {
		isRoutine[r] = true
	}
	for _, f := range p.Funcs() {
		if f.Pkg != syncerPkg || f.Body == nil || f.Obj == nil || c17ErrIdx(f.Obj) < 0 {
			continue
		}
		g := f.Graph()
		info := f.Info()
		rej := c17NonNilReturns(g, -1)
		for _, s := range g.CallsTo("syncer.stopSyncer") {
			rej[s.Node] = true
		}
		for _, s := range g.Calls(nil) {
			if s.Fn == nil || s.Fn.Pkg() != syncerPkg.Types || c17ErrIdx(s.Fn) < 0 {
				continue
			}
			construct := f.Name() + "|" + c17Short(an.FuncName(s.Fn))
			if why, ex := c17SwallowOK[construct]; ex {
				c.CheckTrivial("err-propagates", construct+"|exempt", s.Call.Pos(), true, why)
				continue
			}
			if _, isRet := s.Node.Ast.(*ast.ReturnStmt); isRet {
				c.CheckTrivial("err-propagates", construct, s.Call.Pos(), true, "the step's result is returned directly")
				continue
			}
			errVar := g.ResultVarAt(s, c17ErrIdx(s.Fn))
			if errVar == nil {
				c.Check("err-propagates", construct, s.Call.Pos(), false, "the error result of a sync step is discarded")
				continue
			}
			at := c17NilCmpAtom(info, "ERRNIL", func(x ast.Expr) bool { return an.ObjOf(info, x) == errVar })
			failed := an.Set{}
			for en := range g.EdgesImplying(at, map[string]bool{"ERRNIL": false}) {
				if g.Reachable(s.Node, en) {
					failed[en] = true
				}
			}
			avoid := rej.Union(g.EdgesImplying(at, map[string]bool{"ERRNIL": true}))
			ok := len(failed) > 0
			for en := range failed {
				if g.Reach([]*an.Node{en}, avoid)[g.Exit] {
					ok = false
				}
			}
			if len(failed) == 0 {
				// never tested: fine if it is handed to the caller untouched on every path
				handed := an.Set{}
				for _, r := range g.Returns() {
					rs := r.Ast.(*ast.ReturnStmt)
					if len(rs.Results) > 0 && an.ObjOf(info, rs.Results[len(rs.Results)-1]) == errVar {
						handed[r] = true
					}
				}
				for _, asn := range c17AssignNodes(g, errVar) {
					if asn != s.Node {
						delete(handed, asn)
					}
				}
				reach := g.Reach(s.Node.Succs, rej.Union(handed))
				ok = len(handed) > 0 && !reach[g.Exit]
				for _, asn := range c17AssignNodes(g, errVar) {
					if asn != s.Node && reach[asn] {
						ok = false
					}
				}
			}
			c.Check("err-propagates", construct, s.Call.Pos(), ok, "when this step fails, every path from the failed test makes the enclosing function return a non-nil error (or request the stop): the failure reaches the goroutine loop / handler that stops the session")
		}
	}
}
