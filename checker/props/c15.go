package props

import (
	"go/ast"
	"go/token"
	"go/types"
	"sort"

	"golang.org/x/tools/go/packages"

	"verif/checker/internal/an"
	"verif/checker/internal/rep"
)

// C15 — governance accounting: stakes, votes, rankings and names stay consistent.
//
// Decided (shape of the code, not the sums): the amount that moves between the
// sender and the staking account is the same value that is added to / taken
// from the staking record and the staking total (stake-flow); a re-vote takes
// the old vote out of the tally before the new one goes in and writes the
// tally back (vote-order, vote-pair); commands are only built from a validated
// context and the validators contain the lock-period / minimum / ownership
// guards with the right direction and strictness (gate, guard); the governance
// storage keys are written by their accessor functions only (key-owner); the
// ranking comparator is a total order on distinct candidates (rank-total); the
// fixed-stride candidate encoding has a length check on the writer side
// (stride).

func init() { register("C15", runC15) }

type c15Env struct {
	c   *rep.Ctx
	p   *an.Prog
	sys *packages.Package
	nm  *packages.Package

	fSender, fReceiver, fStaked, fVote, fTxBody, fOp, fProposal *types.Var
}

func runC15(c *rep.Ctx) {
	c.Explain = "Structural decision of the governance bookkeeping in contract/system, contract/name and types/vote.go. (1) stake-flow: in every function of contract/system that moves coins with state.SendBalance the moved value is the transaction amount (stake) or the value returned by Staked.Sub (unstake), the same value goes to addTotal/subTotal, the staking record is credited/written, and every success return is dominated by the success of each step; (2) vote-order/vote-pair/issue-agreement/codec-agreement: wherever the tally is changed, sub(old) dominates add(new), the record written is the vote added, its amount is the current stake, the tally is synced, and old vote, record and tally use the same issue key and the same encoding selector; (3) gate/guard: commands are built only from a context returned by ValidateSystemTx / ValidateNameTx, and the lock-period, minimum, exceed, price and ownership guards are found by the roles of the compared values and evaluated on abstract cases (three-valued logic, walk over the control-flow graph) for direction and strictness; (4) key-owner/key-callers: every storage write of the two packages takes its key from a types/dbkey constructor owned by one accessor with a closed caller set; (5) rank-total: VoteList.Less orders any two distinct candidates on equal amounts; (6) stride: the fixed-stride candidate list has a length guard where it is written. This decides the shape of the code, not the run-time sums."
	c.NotDecided = []string{
		"the sums themselves (total == sum of stakes == balance of the staking account; tally == sum of recorded votes)",
		"equality of the in-memory voting-power rank with the one rebuilt from state (vprt.go), including the in-place mutation of a red-black-tree key in topVoters.addVotingPower",
		"lock-period arithmetic at the boundary block (when+delay == blockNo is not fixed by the statement)",
		"writes to governance storage that bypass types/dbkey (a literal prefix), go through reflection, or come from another package holding the system account's ContractState",
		"ownership semantics of UpdateName for the account==name case, and of the proposal catalogue (votes cast under different spellings of the same number)",
		"whether ignored error results (votingPowerRank.apply in VoteResult.Sync, PutState in ExecuteNameTx) can be non-nil at run time",
		"a command whose steps are split over several helper functions: the pairing rules look at one function at a time and report such a split as a violation to be re-anchored",
	}
	c.Assume = []string{
		"tests are not loaded; only the default build configuration is analysed",
		"a local variable assigned exactly once denotes the value of its defining expression everywhere it is read",
		"big.Int.Cmp, bytes.Equal, bytes.Compare and nil comparisons have their library meaning",
		"conditions the guard evaluator cannot interpret are followed on both edges (a guard hidden behind such a condition is reported, not assumed)",
	}
	p := c.Prog
	e := &c15Env{c: c, p: p, sys: p.Pkg("contract/system"), nm: p.Pkg("contract/name")}
	if e.sys == nil || e.nm == nil {
		c.Undecide("anchor", "contract/system, contract/name", "governance packages not loaded")
		return
	}
	c.Pkgs["contract/system"] = true
	c.Pkgs["contract/name"] = true
	fld := func(name string) *types.Var {
		v := p.LookupField("contract/system", "SystemContext", name)
		if v == nil {
			c.Undecide("anchor", "contract/system.SystemContext."+name, "field not found")
		}
		return v
	}
	e.fSender, e.fReceiver, e.fStaked, e.fVote = fld("Sender"), fld("Receiver"), fld("Staked"), fld("Vote")
	e.fTxBody, e.fOp, e.fProposal = fld("txBody"), fld("op"), fld("Proposal")
	if e.fSender == nil || e.fReceiver == nil || e.fStaked == nil || e.fVote == nil || e.fTxBody == nil || e.fOp == nil || e.fProposal == nil {
		return
	}
	e.stakeFlow()
	e.voteOrder()
	e.gates()
	e.guards()
	e.keys()
	e.rank()
	e.stride()
	e.issueAgreement()
	e.codecAgreement()
	e.nameFlow()
}

// ---------------------------------------------------------------------------
// value classes

const (
	c15GetAmountBigInt = "types.(*TxBody).GetAmountBigInt"
	c15StakingAdd      = "types.(*Staking).Add"
	c15StakingSub      = "types.(*Staking).Sub"
	c15SendBalance     = "state.SendBalance"
	c15AddTotal        = "contract/system.addTotal"
	c15SubTotal        = "contract/system.subTotal"
	c15UpdateStaking   = "contract/system.(*SystemContext).updateStaking"
	c15RefreshAllVote  = "contract/system.refreshAllVote"
)

type c15FWEntry struct {
	p        *an.Prog
	vals     []c15Write
	complete bool
}

var c15FWCache = map[*types.Var]c15FWEntry{}

type c15Write struct {
	fn   *an.Func
	expr ast.Expr
	pos  token.Pos
}

// fieldWriteValues lists the values written to a struct field anywhere in the
// module.  complete=false when some write cannot be expressed as a value
// (positional literal, op-assignment, address taken).
func (e *c15Env) fieldWriteValues(field *types.Var) (vals []c15Write, complete bool) {
	if m, ok := c15FWCache[field]; ok && m.p == e.p {
		return m.vals, m.complete
	}
	defer func() { c15FWCache[field] = c15FWEntry{e.p, vals, complete} }()
	complete = true
	for _, pk := range e.p.ModulePkgs() {
		info := pk.TypesInfo
		if info == nil {
			continue
		}
		for _, file := range pk.Syntax {
			ast.Inspect(file, func(n ast.Node) bool {
				switch s := n.(type) {
				case *ast.AssignStmt:
					for i, l := range s.Lhs {
						if an.FieldOf(info, l) != field {
							continue
						}
						if (s.Tok == token.ASSIGN || s.Tok == token.DEFINE) && len(s.Lhs) == len(s.Rhs) {
							vals = append(vals, c15Write{e.p.EnclosingFunc(pk, l.Pos()), s.Rhs[i], l.Pos()})
						} else if (s.Tok == token.ASSIGN || s.Tok == token.DEFINE) && len(s.Rhs) == 1 {
							// a, x.f = call(): record the call, index-insensitive
							vals = append(vals, c15Write{e.p.EnclosingFunc(pk, l.Pos()), nil, l.Pos()})
							complete = false
						} else {
							complete = false
						}
					}
				case *ast.IncDecStmt:
					if an.FieldOf(info, s.X) == field {
						complete = false
					}
				case *ast.UnaryExpr:
					if s.Op == token.AND && an.FieldOf(info, s.X) == field {
						complete = false
					}
				case *ast.CompositeLit:
					tv, ok := info.Types[s]
					if !ok {
						return true
					}
					st, ok := tv.Type.Underlying().(*types.Struct)
					if !ok {
						return true
					}
					for i, el := range s.Elts {
						if kv, ok := el.(*ast.KeyValueExpr); ok {
							if id, ok := kv.Key.(*ast.Ident); ok && info.Uses[id] == field {
								vals = append(vals, c15Write{e.p.EnclosingFunc(pk, kv.Pos()), kv.Value, kv.Pos()})
							}
						} else if i < st.NumFields() && st.Field(i) == field {
							vals = append(vals, c15Write{e.p.EnclosingFunc(pk, el.Pos()), el, el.Pos()})
						}
					}
				}
				return true
			})
		}
	}
	return
}

// isTxAmount: the expression denotes the amount of the transaction being
// executed: txBody.GetAmountBigInt() on the context's transaction body (or on
// a *types.TxBody parameter), or a field every write of which is such a value.
func (e *c15Env) isTxAmount(f *an.Func, x ast.Expr, depth int) bool {
	if depth > 3 || f == nil {
		return false
	}
	r := c15ResolverOf(f)
	v := r.Resolve(x)
	if v.Call != nil {
		if v.Idx != 0 || c15CalleeName(r.info, v.Call) != c15GetAmountBigInt {
			return false
		}
		rv := r.Resolve(c15Recv(v.Call))
		if rv.Expr != nil && an.FieldOf(r.info, rv.Expr) == e.fTxBody {
			return true
		}
		if pv, ok := rv.Obj.(*types.Var); ok && c15IsParam(f.TopDecl(), pv) {
			return true
		}
		return false
	}
	if pv, ok := v.Obj.(*types.Var); ok && c15IsParam(f.TopDecl(), pv) && f.TopDecl().Pkg == e.sys {
		// a parameter of a package function: the transaction amount if every caller passes it
		top := f.TopDecl()
		sig := top.Obj.Type().(*types.Signature)
		idx := -1
		for i := 0; i < sig.Params().Len(); i++ {
			if sig.Params().At(i) == pv {
				idx = i
			}
		}
		sites := e.p.CallSitesOf(map[string]bool{top.Name(): true})
		if idx < 0 || len(sites) == 0 || sig.Variadic() || len(e.p.FuncRefs(map[string]bool{top.Name(): true})) > 0 {
			return false
		}
		for _, cs := range sites {
			if cs.Fn == nil || idx >= len(cs.Call.Args) || !e.isTxAmount(cs.Fn, cs.Call.Args[idx], depth+1) {
				return false
			}
		}
		return true
	}
	if v.Expr == nil {
		return false
	}
	fv := an.FieldOf(r.info, v.Expr)
	if fv == nil || fv.Pkg() == nil || fv.Pkg() != e.sys.Types {
		return false
	}
	ws, complete := e.fieldWriteValues(fv)
	if !complete || len(ws) == 0 {
		return false
	}
	for _, w := range ws {
		if w.fn == nil || w.expr == nil || !e.isTxAmount(w.fn, w.expr, depth+1) {
			return false
		}
	}
	return true
}

func c15IsParam(f *an.Func, v *types.Var) bool {
	if f == nil || f.Obj == nil {
		return false
	}
	sig := f.Obj.Type().(*types.Signature)
	for i := 0; i < sig.Params().Len(); i++ {
		if sig.Params().At(i) == v {
			return true
		}
	}
	return false
}

// recvIsField: the receiver of the method call resolves to the given field.
func (e *c15Env) recvIsField(r *c15Resolver, call *ast.CallExpr, field *types.Var) bool {
	rx := c15Recv(call)
	if rx == nil {
		return false
	}
	return r.Field(rx) == field
}

// ---------------------------------------------------------------------------
// rule stake-flow

func (e *c15Env) stakeFlow() {
	c, p := e.c, e.p
	sites := p.CallSitesOf(map[string]bool{c15SendBalance: true})
	flowFns := map[*an.Func]string{} // function -> direction
	for _, cs := range sites {
		if cs.Fn == nil || cs.Fn.Pkg != e.sys {
			continue
		}
		f := cs.Fn
		if f.Lit != nil {
			c.Check("stake-flow", f.Name()+"|"+c15SendBalance, cs.Call.Pos(), false, "coins are moved inside a function literal: the pairing cannot be decided")
			continue
		}
		c.Fns[f.Name()] = true
		g := f.Graph()
		r := c15ResolverOf(f)
		key := f.Name()
		if len(cs.Call.Args) != 3 {
			c.Undecide("stake-flow", key, "state.SendBalance no longer takes (from, to, amount)")
			continue
		}
		from, to := r.Field(cs.Call.Args[0]), r.Field(cs.Call.Args[1])
		dir := ""
		switch {
		case from == e.fSender && to == e.fReceiver:
			dir = "deposit"
		case from == e.fReceiver && to == e.fSender:
			dir = "withdraw"
		}
		if !c.Check("stake-flow", key+"|direction", cs.Call.Pos(), dir != "", "state.SendBalance moves coins between the context's Sender and Receiver (sender→staking account: deposit; staking account→sender: withdrawal)") {
			continue
		}
		flowFns[f] = dir
		sendNode := g.NodeContaining(cs.Call.Pos())
		amount := cs.Call.Args[2]
		callsOf := func(name string) []an.Site { return g.CallsTo(name) }
		one := func(name string) (an.Site, bool) {
			s := callsOf(name)
			if len(s) != 1 || g.InLoop(s[0].Node) {
				return an.Site{}, false
			}
			return s[0], true
		}
		adds, subs := callsOf(c15StakingAdd), callsOf(c15StakingSub)
		totalName, otherTotal := c15AddTotal, c15SubTotal
		if dir == "withdraw" {
			totalName, otherTotal = c15SubTotal, c15AddTotal
		}
		// (a) source of the moved amount
		switch dir {
		case "deposit":
			c.Check("stake-flow", key+"|amount-source", amount.Pos(), e.isTxAmount(f, amount, 0) && len(subs) == 0,
				"the amount sent to the staking account is the transaction amount (txBody.GetAmountBigInt(), directly or through a field only ever set from it)")
		case "withdraw":
			v := r.Resolve(amount)
			ok := v.Call != nil && v.Idx == 0 && c15CalleeName(r.info, v.Call) == c15StakingSub &&
				e.recvIsField(r, v.Call, e.fStaked) && len(v.Call.Args) == 1 && e.isTxAmount(f, v.Call.Args[0], 0) &&
				len(subs) == 1 && !g.InLoop(subs[0].Node) && len(adds) == 0
			c.Check("stake-flow", key+"|amount-source", amount.Pos(), ok,
				"the amount paid back is the value returned by the single call Staked.Sub(transaction amount) of the context's staking record")
		}
		// (b) the total is adjusted once, by the same value, in the same direction
		tot, okTot := one(totalName)
		var totAmt ast.Expr
		if okTot {
			// the amount argument of addTotal / subTotal: its only *big.Int parameter, wherever it stands
			totAmt = c15TypedArg(tot.Fn, tot.Call, c15IsPtrTo("math/big", "Int"))
		}
		okPair := okTot && len(callsOf(otherTotal)) == 0 && totAmt != nil && !g.InLoop(sendNode)
		if okPair {
			if dir == "deposit" {
				okPair = e.isTxAmount(f, totAmt, 0)
			} else {
				okPair = r.SameValue(totAmt, amount)
			}
		}
		c.Check("stake-flow", key+"|total-pair", cs.Call.Pos(), okPair,
			"exactly one "+totalName+" (and no "+otherTotal+") in this function, outside loops, with the same value as the coins moved")
		// (c) every step must have succeeded before a success return
		must := []string{c15UpdateStaking, totalName, c15SendBalance}
		if dir == "withdraw" {
			must = append(must, c15RefreshAllVote)
		}
		for _, name := range must {
			s, ok := one(name)
			if !ok {
				c.Check("stake-flow", key+"|must-succeed|"+name, cs.Call.Pos(), false, "expected exactly one call of "+name+" outside loops")
				continue
			}
			ok, how := c15MustSucceed(g, s)
			c.Check("stake-flow", key+"|must-succeed|"+name, s.Call.Pos(), ok, name+" must have returned nil on every path to a success return: "+how)
		}
		// (d) the staking record is changed by the same amount
		switch dir {
		case "deposit":
			e.depositCredit(f, key)
		case "withdraw":
			if len(subs) == 1 {
				subNode := subs[0].Node
				for _, name := range []string{c15UpdateStaking, c15RefreshAllVote} {
					if s, ok := one(name); ok {
						c.Check("stake-flow", key+"|sub-before|"+name, s.Call.Pos(), g.Dominated(s.Node, an.SetOf(subNode)),
							"Staked.Sub dominates "+name+": the record written and the votes refreshed see the reduced stake")
					}
				}
				if rf, ok := one(c15RefreshAllVote); ok && okTot {
					c.Check("stake-flow", key+"|refresh-before-total", tot.Call.Pos(), g.Dominated(tot.Node, g.ErrNilEdges(rf)),
						"refreshAllVote has succeeded before the total is reduced (VoteResult.Sync's threshold reads the staking total: the order is consensus-relevant)")
				}
			}
		}
	}
	c.Floor("stake-flow", 14)

	// closed sets: the total and the staking amount are changed only by the functions checked above
	for _, cs := range p.CallSitesOf(map[string]bool{c15AddTotal: true, c15SubTotal: true, c15StakingAdd: true, c15StakingSub: true}) {
		fn := "<package level>"
		var top *an.Func
		if cs.Fn != nil {
			top = cs.Fn.TopDecl()
			fn = top.Name()
		}
		name := an.FuncName(cs.Obj)
		ok := false
		switch name {
		case c15AddTotal:
			ok = flowFns[top] == "deposit"
		case c15SubTotal, c15StakingSub:
			ok = flowFns[top] == "withdraw"
		case c15StakingAdd:
			ok = top != nil && c15DepositCtors[top]
		}
		c.Check("stake-closed", fn+"|"+name, cs.Call.Pos(), ok, name+" is called only from a function whose coin movement was paired by stake-flow")
	}
	c.Floor("stake-closed", 3)
}

// c15DepositCtors: constructors of deposit commands discovered by depositCredit.
var c15DepositCtors = map[*an.Func]bool{}

// depositCredit: the command type of a deposit `run` is built by exactly one
// function of the package, and that constructor credits the staking record of
// the context with the transaction amount exactly once.
func (e *c15Env) depositCredit(run *an.Func, key string) {
	c := e.c
	if run.Obj == nil {
		return
	}
	sig := run.Obj.Type().(*types.Signature)
	if sig.Recv() == nil {
		c.Check("stake-flow", key+"|staked-credit", run.Pos(), false, "deposit is not a method of a command type: cannot find its constructor")
		return
	}
	rt := sig.Recv().Type()
	if pt, ok := rt.(*types.Pointer); ok {
		rt = pt.Elem()
	}
	var ctors []*an.Func
	for _, f := range e.p.Funcs() {
		if f.Pkg != e.sys || f.Body == nil {
			continue
		}
		found := false
		ast.Inspect(f.Body, func(n ast.Node) bool {
			if cl, ok := n.(*ast.CompositeLit); ok {
				if tv, ok := f.Info().Types[cl]; ok && types.Identical(tv.Type, rt) {
					found = true
				}
			}
			return !found
		})
		if found {
			ctors = append(ctors, f)
		}
	}
	if len(ctors) != 1 {
		c.Check("stake-flow", key+"|staked-credit", run.Pos(), false, "expected exactly one function building the command type, found "+itoa(len(ctors)))
		return
	}
	ctor := ctors[0]
	c15DepositCtors[ctor] = true
	c.Fns[ctor.Name()] = true
	g := ctor.Graph()
	r := c15ResolverOf(ctor)
	adds := g.CallsTo(c15StakingAdd)
	ok := len(adds) == 1 && len(g.CallsTo(c15StakingSub)) == 0 && len(run.Graph().CallsTo(c15StakingAdd)) == 0
	pos := ctor.Pos()
	how := "expected exactly one Staking.Add in the constructor and none in run"
	if ok {
		a := adds[0]
		pos = a.Call.Pos()
		switch {
		case g.InLoop(a.Node):
			ok, how = false, "Staking.Add is inside a loop"
		case !e.recvIsField(r, a.Call, e.fStaked):
			ok, how = false, "Staking.Add is not applied to the context's Staked record"
		case len(a.Call.Args) != 1 || !e.isTxAmount(ctor, a.Call.Args[0], 0):
			ok, how = false, "Staking.Add is not given the transaction amount"
		default:
			succ, _ := c15Returns(g)
			for _, s := range succ {
				if !g.Dominated(s, an.SetOf(a.Node)) {
					ok, how = false, "a success return of the constructor bypasses Staking.Add"
				}
			}
			if ok {
				how = "Staked.Add(transaction amount) once, on every path to the constructor's success return"
			}
		}
	}
	c.Check("stake-flow", key+"|staked-credit", pos, ok, "constructor "+ctor.Name()+" credits the staking record with the same amount that run sends and adds to the total: "+how)
}

func c15SortedKeys(m map[string]bool) []string {
	var out []string
	for k := range m {
		out = append(out, k)
	}
	sort.Strings(out)
	return out
}
