package props

import (
	"fmt"
	"go/ast"
	"go/token"
	"go/types"
	"os"
	"sort"
	"strings"
	"time"

	"verif/checker/internal/an"
	"verif/checker/internal/rep"
)

// C19 — canonical, binding encodings of blocks, transactions, receipts, chain
// id and the hardfork table.
//
// Decided (shape of the code, engine E4 "fields" + E8 "switchcov"):
//   digest-*      the digest writers of BlockHeader and TxBody feed every field
//                 of the struct, once, unconditionally, in declaration order, to
//                 the hash; the signing digests are the same sequence minus Sign
//                 with the same encoder per field; the set of digest writers is closed
//   clone-*       literals that copy a TxBody/BlockHeader copy every field
//   sign-flow     hash/sign/verify use exactly these digests, in the right order
//   receipt-coverage, receipt-v1-v2, codec-agreement, codec-width, put-write,
//   status-table, ret-condition, codec-wiring, events-loop, receipts-loop,
//   v2-select, merkle-entry-ctor, reader-version-set, cursor, memory-restore
//                 hand written receipt/event/chain id codecs: field coverage,
//                 writer/reader field-sequence and width agreement, V1 ⊂ V2,
//                 version selection by one predicate, decoder cursor discipline
//   chainid-*, genesis-codec   chain id codec, version prefix, genesis gob pair
//   hardfork-*    the generated hardfork table agrees with hardfork.json and
//                 with the reflective Version(): naming, order, operators
//   merkle-fill, root-binding   the merkle roots are fed every element in slice
//                 order and NewBlock binds them to the lists it stores
//
// Shared anchors exported for other properties (the lead wires them):
//   c19HeaderDigestCoverage(c)  — C09 item 1 (block signature covers the header)
//   c19TxDigestCoverage(c)      — C04 item 3 (chain id hash is in the tx digests)
//   c19HeaderSignFlow(c), c19TxSignFlow(c) — sign/verify use the omit-sign digest

func init() { register("C19", runC19) }

// c19Digests: the closed set of digest writers (discovered by role, frozen
// here after reading each): function -> struct, excluded fields.
type c19DigestSpec struct {
	fn      string
	pkg     string // package of the struct
	typ     string
	omit    map[string]string // excluded field -> reason
	partner string            // the full digest this one must agree with ("" for the full digest itself)
}

var c19Digests = []c19DigestSpec{
	{fn: "types.writeBlockHeader", pkg: "types", typ: "BlockHeader"},
	{fn: "types.writeBlockHeaderOmitSign", pkg: "types", typ: "BlockHeader", partner: "types.writeBlockHeader",
		omit: map[string]string{"Sign": "the signed message cannot contain the signature itself"}},
	{fn: "types.(*Tx).CalculateTxHash", pkg: "types", typ: "TxBody"},
	{fn: "account/key.CalculateHashWithoutSign", pkg: "types", typ: "TxBody", partner: "types.(*Tx).CalculateTxHash",
		omit: map[string]string{"Sign": "the signed message cannot contain the signature itself"}},
}

// c19ByteSink classifies the call consuming a field value: does it append the
// value to a byte stream / hash?  Returns the encoder kind.
func c19ByteSink(a an.FieldUse) (string, bool) {
	fn := a.SinkFn
	if fn == nil || fn.Pkg() == nil {
		return "", false
	}
	pkg := fn.Pkg().Path()
	switch {
	case pkg == "encoding/binary" && fn.Name() == "Write" && a.SinkArg == 2:
		return "binary.Write", true
	case pkg == "encoding/binary" && strings.HasPrefix(fn.Name(), "PutUint") && a.SinkArg == 1:
		return "binary." + fn.Name(), true
	case (pkg == "io" || pkg == "bytes" || pkg == "hash") && a.SinkArg == 0:
		switch fn.Name() {
		case "Write", "WriteString", "WriteByte":
			return fn.Name(), true
		}
	}
	return "", false
}

// c19SinkDest: the object the sink writes into (binary.Write's first
// argument, the receiver of Write).
func c19SinkDest(info *types.Info, a an.FieldUse) types.Object {
	if a.SinkCall == nil {
		return nil
	}
	if a.SinkFn != nil && a.SinkFn.Pkg() != nil && a.SinkFn.Pkg().Path() == "encoding/binary" && a.SinkFn.Name() == "Write" {
		return c19RootObj(info, a.SinkCall.Args[0])
	}
	if sel, ok := ast.Unparen(a.SinkCall.Fun).(*ast.SelectorExpr); ok {
		return c19RootObj(info, sel.X)
	}
	return nil
}

func c19RootObj(info *types.Info, e ast.Expr) types.Object {
	e = ast.Unparen(e)
	if u, ok := e.(*ast.UnaryExpr); ok && u.Op == token.AND {
		e = ast.Unparen(u.X)
	}
	return an.ObjOf(info, e)
}

// c19ByteOrder: the byte-order argument of a binary.Write / the receiver of PutUintN.
func c19ByteOrder(info *types.Info, a an.FieldUse) types.Object {
	if a.SinkCall == nil || a.SinkFn == nil || a.SinkFn.Pkg() == nil || a.SinkFn.Pkg().Path() != "encoding/binary" {
		return nil
	}
	var e ast.Expr
	if a.SinkFn.Name() == "Write" && len(a.SinkCall.Args) == 3 {
		e = a.SinkCall.Args[1]
	} else if sel, ok := ast.Unparen(a.SinkCall.Fun).(*ast.SelectorExpr); ok {
		e = sel.X
	}
	if e == nil {
		return nil
	}
	if sel, ok := ast.Unparen(e).(*ast.SelectorExpr); ok {
		return info.Uses[sel.Sel]
	}
	return an.ObjOf(info, e)
}

type c19Fed struct {
	acc  an.FieldUse
	kind string
}

// c19DigestSeq: the ordered sequence of struct fields that function fn feeds to
// a byte sink.
func c19DigestSeq(p *an.Prog, f *an.Func, st *types.Struct) []c19Fed {
	var out []c19Fed
	for _, a := range p.FieldTrace(f, st, nil) {
		if a.Kind != "read" || a.ViaLen || a.Sliced {
			continue // a length or a part of the value does not bind the value
		}
		if k, ok := c19ByteSink(a); ok {
			out = append(out, c19Fed{a, k})
		}
	}
	return out
}

// c19FedUnlessEmpty: the feed of a byte-slice / string field is skipped only on
// branch outcomes that say the very value is empty (`if len(x.F) > 0 { w.Write(x.F) }`,
// `if x.F != nil {..}`, any spelling CondImplies can decide).  Writing an empty
// value adds no byte to the stream, so the guarded write binds the field exactly
// as the unguarded one does.  Decided for feeds written in the root function.
func c19FedUnlessEmpty(a an.FieldUse) bool {
	f := a.Fn
	if f == nil || f.Body == nil || a.Depth != 0 || a.Field == nil {
		return false
	}
	switch t := a.Field.Type().Underlying().(type) {
	case *types.Slice:
		if b, ok := t.Elem().Underlying().(*types.Basic); !ok || b.Kind() != types.Byte && b.Kind() != types.Uint8 {
			return false
		}
	case *types.Basic:
		if t.Info()&types.IsString == 0 {
			return false
		}
	default:
		return false
	}
	info := f.Info()
	var fed *ast.SelectorExpr
	ast.Inspect(f.Body, func(n ast.Node) bool {
		if sel, ok := n.(*ast.SelectorExpr); ok && fed == nil && sel.Sel.Pos() == a.Pos {
			fed = sel
		}
		return fed == nil
	})
	if fed == nil {
		return false
	}
	g := f.Graph()
	node := g.NodeContaining(a.Pos)
	if node == nil {
		return false
	}
	same := func(e ast.Expr) bool {
		e = ast.Unparen(e)
		return an.FieldOf(info, e) == a.Field && an.SameExpr(info, e, fed)
	}
	// atom EMPTY: len(v) == 0 / v == nil / v == "" and their negations, orderings against 0 and 1
	at := func(e ast.Expr) (string, bool, bool) {
		be, ok := ast.Unparen(e).(*ast.BinaryExpr)
		if !ok {
			return "", false, false
		}
		lenOf := func(x ast.Expr) bool {
			call, ok := ast.Unparen(x).(*ast.CallExpr)
			return ok && an.IsBuiltin(info, call, "len") && len(call.Args) == 1 && same(call.Args[0])
		}
		cst := func(x ast.Expr) string {
			if tv, ok := info.Types[ast.Unparen(x)]; ok && tv.Value != nil {
				return tv.Value.ExactString()
			}
			return ""
		}
		isNil := func(x ast.Expr) bool {
			tv, ok := info.Types[ast.Unparen(x)]
			return ok && tv.IsNil()
		}
		x, y, op := be.X, be.Y, be.Op
		if !lenOf(x) && !same(x) {
			x, y = y, x
			switch op {
			case token.LSS:
				op = token.GTR
			case token.GTR:
				op = token.LSS
			case token.LEQ:
				op = token.GEQ
			case token.GEQ:
				op = token.LEQ
			}
		}
		switch {
		case lenOf(x):
			switch k := cst(y); {
			case k == "0" && op == token.EQL, k == "0" && op == token.LEQ, k == "1" && op == token.LSS:
				return "EMPTY", false, true
			case k == "0" && op == token.NEQ, k == "0" && op == token.GTR, k == "1" && op == token.GEQ:
				return "EMPTY", true, true
			}
		case same(x):
			if isNil(y) || cst(y) == `""` {
				if op == token.EQL {
					return "EMPTY", false, true
				}
				if op == token.NEQ {
					return "EMPTY", true, true
				}
			}
		}
		return "", false, false
	}
	empty := g.EdgesImplying(at, map[string]bool{"EMPTY": true})
	if len(empty) == 0 {
		return false
	}
	// the value must not change between the test and the write: the field is only read here
	for _, n := range g.Nodes {
		if n.Kind != an.KStmt {
			continue
		}
		switch st := n.Ast.(type) {
		case *ast.AssignStmt:
			for _, l := range st.Lhs {
				if an.FieldOf(info, l) == a.Field {
					return false
				}
			}
		}
	}
	return g.MustExecOnSuccess(node, empty)
}

func c19FieldNames(seq []c19Fed) string {
	var s []string
	for _, x := range seq {
		s = append(s, x.acc.Field.Name())
	}
	return strings.Join(s, ",")
}

type c19DigestResult struct {
	spec c19DigestSpec
	fn   *an.Func
	st   *types.Struct
	seq  []c19Fed
}

func c19LoadDigest(c *rep.Ctx, spec c19DigestSpec) *c19DigestResult {
	f := c.Fn(spec.fn)
	st := c.Prog.LookupStruct(spec.pkg, spec.typ)
	if f == nil {
		return nil
	}
	if st == nil {
		c.Undecide("anchor", spec.pkg+"."+spec.typ, "struct not found")
		return nil
	}
	return &c19DigestResult{spec, f, st, c19DigestSeq(c.Prog, f, st)}
}

// c19CheckDigestCoverage: rule digest-coverage for one digest writer; returns
// false when a field is missing.  only != "" restricts the check to one field.
func c19CheckDigestCoverage(c *rep.Ctx, d *c19DigestResult, only string) bool {
	all := true
	for _, fld := range an.StructFields(d.st, true) {
		if only != "" && fld.Name() != only {
			continue
		}
		n, must := 0, false
		pos := d.fn.Pos()
		for _, x := range d.seq {
			if x.acc.Field == fld {
				n++
				must = must || x.acc.Must || c19FedUnlessEmpty(x.acc)
				pos = x.acc.Pos
			}
		}
		key := d.spec.fn + "|" + d.spec.typ + "." + fld.Name()
		if why, omitted := d.spec.omit[fld.Name()]; omitted {
			ok := c.Check("digest-coverage", key+"(omitted)", pos, n == 0, "field is deliberately outside this digest ("+why+") and is indeed not fed to it")
			all = all && ok
			continue
		}
		msg := "field is fed to the digest unconditionally"
		switch {
		case n == 0:
			msg = "field " + d.spec.typ + "." + fld.Name() + " is never fed to the digest: two values differing only in this field get the same digest"
		case !must:
			msg = "field " + d.spec.typ + "." + fld.Name() + " is fed to the digest only on some paths"
		}
		ok := c.Check("digest-coverage", key, pos, n >= 1 && must, msg)
		all = all && ok
	}
	return all
}

// c19HeaderDigestCoverage — shared anchor for C09 item 1: the block hash and
// the signed message cover every header field (the latter all but Sign).
func c19HeaderDigestCoverage(c *rep.Ctx) bool {
	ok := true
	for _, spec := range c19Digests {
		if spec.typ != "BlockHeader" {
			continue
		}
		d := c19LoadDigest(c, spec)
		if d == nil {
			return false
		}
		ok = c19CheckDigestCoverage(c, d, "") && ok
	}
	return ok
}

// c19TxDigestCoverage — shared anchor for C04 item 3: field (e.g.
// "ChainIdHash") is part of both the tx hash and the signed tx digest.
// field == "" checks all fields.
func c19TxDigestCoverage(c *rep.Ctx, field string) bool {
	ok := true
	for _, spec := range c19Digests {
		if spec.typ != "TxBody" {
			continue
		}
		d := c19LoadDigest(c, spec)
		if d == nil {
			return false
		}
		ok = c19CheckDigestCoverage(c, d, field) && ok
	}
	return ok
}

func runC19(c *rep.Ctx) {
	c.Explain = "Structural decision of encoding agreement (engine E4 field coverage + E8 table agreement + a byte-cursor audit): (1) the hand-written digest writers of BlockHeader and TxBody feed every field of the struct once, unconditionally and in declaration order to one hash, the signing digests are the same sequence minus Sign with the same encoder and byte order per field, sign/verify use exactly these digests, and the set of functions that serialise these structs is closed; (2) for the receipt, event, receipt-list and chain-id codecs the ordered sequence of fields the writer emits equals the sequence the reader stores, with the same width class per field, V2 = V1 + {GasUsed, FeeDelegation}, every caller selects the V2 codec by hardForkConfig.IsV2Fork(blockNo) with the right polarity, status tables are mutually inverse, the return value is skipped only for merkle-mode ERROR receipts, loops handle every element in order, and decoders move their cursor exactly over what they decoded; (3) the hardfork table (field naming/order/type assumed by the reflective Version(), IsVnFork, CheckCompatibility guards, comparison operators, hardfork.json) and the merkle-root fill loops. The shape of the code is decided, not run-time values: no hash is computed and nothing is round-tripped."
	c.NotDecided = []string{
		"collision resistance of SHA-256 and injectivity of the concatenation (variable-length fields of BlockHeader/TxBody are hashed without length prefixes)",
		"round-trip equality for concrete values (e.g. a ChainID whose Magic contains '/' is written by Bytes but rejected by Read; fixed-size assumptions 33/32/256 bytes for addresses, hashes and bloom filters)",
		"gob / protobuf library encodings (Genesis, the gob envelope around Receipts, willf/bloom's 24-byte header)",
		"HardforkConfig.Version/validate/Height/FixDbConfig are reflective: only their structural preconditions (field naming, order, type) and comparison operators are decided",
		"that the blockNo given to SetHardFork by the writers (chain, block factories) is the number of the block the receipts are stored under",
		"that Block.Hash / Tx.Hash carried in a message equal the recomputed digest (C18/C04)",
	}
	c.Assume = []string{
		"reflection and unsafe writes to the structs are out of scope",
		"a field counts as fed to a digest when its value is an argument of binary.Write / Write / WriteString / PutUintN on every path to a non-error exit (directly, through a ranged slice literal, one local variable, a getter, or a same-package helper)",
		"writers emit no padding: every byte written is a field, a length prefix or a flag (read off the writers)",
		"failure returns are recognised by shape: last result of type error that is a call/composite literal or a variable known non-nil by a dominating test",
	}
	for _, st := range []struct {
		name string
		run  func(*rep.Ctx)
	}{{"digest", c19Digest}, {"clone", c19Clone}, {"sign", c19SignFlow}, {"receipts", c19Receipts}, {"chainid", c19ChainID}, {"hardfork", c19Hardfork}, {"merkle", c19Merkle}} {
		t0 := time.Now()
		st.run(c)
		if os.Getenv("C19_TIMING") != "" {
			fmt.Fprintf(os.Stderr, "c19 %-10s %.1fs\n", st.name, time.Since(t0).Seconds())
		}
	}
	if os.Getenv("C19_DUMP") != "" {
		for _, o := range c.Obs {
			fmt.Fprintf(os.Stderr, "%v %s %s :: %s\n", o.OK, o.Key, o.Pos, o.Msg)
		}
	}
}

// ---------------------------------------------------------------------------
// digest rules

func c19Digest(c *rep.Ctx) {
	p := c.Prog
	res := map[string]*c19DigestResult{}
	for _, spec := range c19Digests {
		d := c19LoadDigest(c, spec)
		if d == nil {
			continue
		}
		res[spec.fn] = d
		c19CheckDigestCoverage(c, d, "")

		// digest-order: declaration order, each field once
		var want []string
		for _, fld := range an.StructFields(d.st, true) {
			if _, om := spec.omit[fld.Name()]; !om {
				want = append(want, fld.Name())
			}
		}
		got := c19FieldNames(d.seq)
		c.Check("digest-order", spec.fn, d.fn.Pos(), got == strings.Join(want, ","),
			"fields are fed once each in the declaration (protobuf field number) order of "+spec.typ+"; fed: "+got)

		// digest-dest: every write goes into one and the same stream
		info := d.fn.Info()
		dests := map[types.Object]bool{}
		for _, x := range d.seq {
			dests[c19SinkDest(info, x.acc)] = true
		}
		okDest := len(dests) == 1 && !dests[nil]
		if okDest {
			// the stream is the writer handed in by the caller, or the hash whose Sum is returned
			var dest types.Object
			for o := range dests {
				dest = o
			}
			isParam := false
			for _, fl := range d.fn.Type.Params.List {
				for _, nm := range fl.Names {
					if info.Defs[nm] == dest {
						isParam = true
					}
				}
			}
			summed := false
			for _, r := range d.fn.Graph().Returns() {
				rs := r.Ast.(*ast.ReturnStmt)
				if len(rs.Results) == 1 {
					if call, isC := ast.Unparen(rs.Results[0]).(*ast.CallExpr); isC {
						if fn := an.Callee(info, call); fn != nil && fn.Name() == "Sum" && c19RecvOf(info, call) == dest {
							summed = true
						}
					}
				}
			}
			okDest = isParam || summed
		}
		c.Check("digest-dest", spec.fn, d.fn.Pos(), okDest, "all fields are written into one stream object: the writer handed in by the caller, or the hash whose Sum is returned")
	}
	c.Floor("digest-coverage", 40)
	c.Floor("digest-order", 4)
	c.Floor("digest-dest", 4)

	// digest-agreement: signed digest == full digest minus the omitted fields, same encoder
	for _, spec := range c19Digests {
		if spec.partner == "" || res[spec.fn] == nil || res[spec.partner] == nil {
			continue
		}
		d, full := res[spec.fn], res[spec.partner]
		var fseq []c19Fed
		for _, x := range full.seq {
			if _, om := spec.omit[x.acc.Field.Name()]; !om {
				fseq = append(fseq, x)
			}
		}
		find := func(seq []c19Fed, f *types.Var) *c19Fed {
			for i := range seq {
				if seq[i].acc.Field == f {
					return &seq[i]
				}
			}
			return nil
		}
		for _, b := range fseq {
			a := find(d.seq, b.acc.Field)
			ok := a != nil && a.kind == b.kind && c19ByteOrder(d.fn.Info(), a.acc) == c19ByteOrder(full.fn.Info(), b.acc)
			pos, got := d.fn.Pos(), "absent"
			if a != nil {
				pos, got = a.acc.Pos, a.kind
			}
			c.Check("digest-agreement", spec.fn+"~"+spec.partner+"|"+spec.typ+"."+b.acc.Field.Name(), pos, ok,
				"the field is fed to the signed digest with the same encoder ("+b.kind+") and byte order as to the identifier digest (got "+got+")")
		}
		c.Check("digest-agreement", spec.fn+"~"+spec.partner+"|order", d.fn.Pos(), c19FieldNames(d.seq) == c19FieldNames(fseq),
			"the signed digest is the identifier digest minus the omitted fields, in the same order: "+c19FieldNames(d.seq)+" vs "+c19FieldNames(fseq))
	}
	c.Floor("digest-agreement", 18)

	// digest-closed: discovery by role of every function that hashes these structs
	known := map[string]bool{}
	for _, s := range c19Digests {
		known[s.fn] = true
	}
	for _, tn := range []string{"BlockHeader", "TxBody"} {
		st := p.LookupStruct("types", tn)
		if st == nil {
			continue
		}
		fset := map[*types.Var]bool{}
		for _, f := range an.StructFields(st, true) {
			fset[f] = true
		}
		found := 0
		for _, f := range p.Funcs() {
			if f.Body == nil {
				continue
			}
			distinct := map[*types.Var]bool{}
			ast.Inspect(f.Body, func(n ast.Node) bool {
				if sel, ok := n.(*ast.SelectorExpr); ok {
					if v := an.FieldOf(f.Info(), sel); v != nil && fset[v] {
						distinct[v] = true
					}
				}
				return true
			})
			if len(distinct) < 3 {
				continue
			}
			fed := map[*types.Var]bool{}
			for _, x := range c19DigestSeq(p, f, st) {
				fed[x.acc.Field] = true
			}
			if len(fed) < 3 {
				continue
			}
			found++
			c.Check("digest-closed", tn+"|"+f.Name(), f.Pos(), known[f.Name()],
				"a function that serialises fields of "+tn+" into a byte stream must be one of the audited digest writers (otherwise: audit it and add it to c19Digests)")
		}
		if found < 2 {
			c.Undecide("digest-closed", tn, "role discovery found fewer than the two digest writers of the reference tree")
		}
	}
	c.Floor("digest-closed", 4)
}

// ---------------------------------------------------------------------------
// clone-coverage: a composite literal of TxBody/BlockHeader that copies fields
// from another value of the same struct copies all of them.

// c19CloneExempt: literals that copy some fields on purpose.
var c19CloneExempt = map[string]string{}

func c19Clone(c *rep.Ctx) {
	p := c.Prog
	n := 0
	for _, tn := range []string{"TxBody", "BlockHeader"} {
		st := p.LookupStruct("types", tn)
		if st == nil {
			c.Undecide("anchor", "types."+tn, "struct not found")
			continue
		}
		exported := an.StructFields(st, true)
		for _, f := range p.Funcs() {
			if f.Body == nil {
				continue
			}
			// quick filter: a composite literal of the struct type
			has := false
			ast.Inspect(f.Body, func(m ast.Node) bool {
				if cl, ok := m.(*ast.CompositeLit); ok {
					if tv, ok := f.Info().Types[cl]; ok {
						if s, ok := tv.Type.Underlying().(*types.Struct); ok && s == st {
							has = true
						}
					}
				}
				return !has
			})
			if !has {
				continue
			}
			// same-field copies per literal
			copied := map[*ast.CompositeLit]map[*types.Var]bool{}
			for _, a := range p.FieldTrace(f, st, c19RecvFollow(st)) {
				if a.CopyTo != nil && a.CopyLit != nil && a.CopyTo == a.Field && a.Kind == "read" {
					if copied[a.CopyLit] == nil {
						copied[a.CopyLit] = map[*types.Var]bool{}
					}
					copied[a.CopyLit][a.Field] = true
				}
			}
			var lits []*ast.CompositeLit
			for l := range copied {
				lits = append(lits, l)
			}
			sort.Slice(lits, func(i, j int) bool { return lits[i].Pos() < lits[j].Pos() })
			for _, l := range lits {
				if len(copied[l]) < 3 {
					continue // not a clone: a constructor that happens to reuse a field or two
				}
				n++
				var missing []string
				for _, fld := range exported {
					if !copied[l][fld] {
						missing = append(missing, fld.Name())
					}
				}
				key := f.Name() + "|" + tn
				if why, ex := c19CloneExempt[key]; ex {
					c.CheckTrivial("clone-coverage", key, l.Pos(), true, "exempt: "+why)
					continue
				}
				c.Check("clone-coverage", key, l.Pos(), len(missing) == 0,
					"a literal that copies a "+tn+" field by field copies every field (a dropped field changes the identifier of the copy); missing: "+strings.Join(missing, ","))
			}
		}
	}
	c.Floor("clone-coverage", 2)
	_ = n
}

// c19RecvFollow follows methods whose receiver is the traced struct (getters), in any package.
func c19RecvFollow(st *types.Struct) func(_, callee *an.Func) bool {
	return func(_, callee *an.Func) bool {
		if callee.Obj == nil {
			return false
		}
		sig, _ := callee.Obj.Type().(*types.Signature)
		if sig == nil || sig.Recv() == nil {
			return false
		}
		t := sig.Recv().Type()
		if pt, ok := t.(*types.Pointer); ok {
			t = pt.Elem()
		}
		s, ok := t.Underlying().(*types.Struct)
		return ok && s == st
	}
}
