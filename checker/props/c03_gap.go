package props

import (
	"go/ast"
	"go/token"
	"go/types"
	"sort"
	"strings"

	"verif/checker/internal/an"
	"verif/checker/internal/rep"
)

// C03 gap rules (second review of transaction atomicity).
//
// The first rules decide the bracket of the executor and the shape of the
// run-time-error arm.  These rules decide what the bracket and the arm rely on:
//
//	block-rollback     BlockState.Rollback reverts both components on every
//	                   non-failing path (no fast path around the storage cache)
//	cache-rollback     storageCache.Rollback rolls back or drops every cached
//	                   storage in every iteration
//	late-effects       effects of executeTx that lie outside the snapshot
//	                   (BpReward, internal operations, receipt) are followed by
//	                   no failing return
//	events-dropped     a failed transaction's events do not reach the receipt
//	runtime-class      which errors may take the fee+nonce arm: a system error is
//	                   never wrapped as a run-time error, NewGovEntErr wraps only
//	                   the enterprise result, the set of Runtime() types is closed
//	gov-write-last     ExecuteEnterpriseTx (run-time class, not rolled back) has
//	                   no failing return after a storage write
//	commit-last        once a contract execution committed (called contracts
//	                   staged, touched accounts put) no run-time error follows
//	arm-storage        the fee+nonce arm leaves no contract-storage writes behind
//	vm-error-rollback  Call/Create undo the SQL savepoint on every failing return
//	blockstate-fresh   every BlockState is built on a StateDB opened for it
//	reset-source       AccountState.Reset restores the working state from oldState

func init() {
	extend("C03", c03GapBlockRollback)
	extend("C03", c03GapCacheRollback)
	extend("C03", c03GapLateEffects)
	extend("C03", c03GapEventsDropped)
	extend("C03", c03GapRuntimeClass)
	extend("C03", c03GapGovWriteLast)
	extend("C03", c03GapCommitLast)
	extend("C03", c03GapVMErrorRollback)
	extend("C03", c03GapFreshBlockState)
	extend("C03", c03GapResetSource)
}

const (
	c03GapCacheRb   = "state/statedb.(*storageCache).Rollback"
	c03GapCacheSnap = "state/statedb.(*storageCache).Snapshot"
	c03GapSdbRb     = "state/statedb.(*StateDB).Rollback"
	c03GapSdbSnap   = "state/statedb.(*StateDB).Snapshot"
	c03GapBufRb     = "state/statedb.(*stateBuffer).rollback"
	c03GapCtrRb     = "state/statedb.(*ContractState).Rollback"
	c03GapStage     = "state/statedb.StageContractState"
	c03GapNewVmErr  = "contract.newVmError"
	c03GapNewGovErr = "contract.NewGovEntErr"
)

// ---------------------------------------------------------------------------
// helpers

// c03GapReaching: the module functions from which one of the named functions
// is reachable in the call graph (the named functions included).
func c03GapReaching(c *rep.Ctx, rule string, names ...string) map[*an.Func]bool {
	seeds := map[*an.Func]bool{}
	for _, n := range names {
		if f := c.Prog.Func(n); f != nil {
			seeds[f] = true
		} else {
			c.Undecide(rule, n, "anchor function not found in the loaded program")
		}
	}
	return c.Prog.BuildCallGraphCached().MayReach(seeds, nil)
}

// c03GapSitesReaching: call sites of f whose static callee lies in set.
func c03GapSitesReaching(f *an.Func, set map[*an.Func]bool) []an.Site {
	p := f.Prog
	s := f.Graph().Calls(func(fn *types.Func, call *ast.CallExpr) bool {
		if fn == nil {
			return false
		}
		cf := p.FuncOf(fn)
		return cf != nil && set[cf]
	})
	sort.Slice(s, func(i, j int) bool { return s[i].Call.Pos() < s[j].Call.Pos() })
	return s
}

// c03GapErrResult: the named error result of f (last result), or nil.
func c03GapErrResult(f *an.Func) types.Object {
	if f.Type == nil || f.Type.Results == nil || len(f.Type.Results.List) == 0 {
		return nil
	}
	last := f.Type.Results.List[len(f.Type.Results.List)-1]
	if len(last.Names) == 0 {
		return nil
	}
	return f.Info().Defs[last.Names[len(last.Names)-1]]
}

// c03GapSrc is one possible origin of the error value a return hands back.
type c03GapSrc struct {
	kind   string // "nil", "call", "error", "unknown"
	callee string // kind "call": FuncName of the callee ("" when unresolved)
	call   *ast.CallExpr
}

func (s c03GapSrc) String() string {
	switch s.kind {
	case "call":
		if s.callee == "" {
			return "call of a function value"
		}
		return s.callee
	case "error":
		return "a fresh error value"
	}
	return s.kind
}

func c03GapExprSrc(info *types.Info, e ast.Expr) c03GapSrc {
	e = ast.Unparen(e)
	if tv, ok := info.Types[e]; ok && tv.IsNil() {
		return c03GapSrc{kind: "nil"}
	}
	if call, ok := e.(*ast.CallExpr); ok {
		name := an.CalleeName(info, call)
		if name == "errors.New" || name == "fmt.Errorf" {
			return c03GapSrc{kind: "error"}
		}
		return c03GapSrc{kind: "call", callee: name, call: call}
	}
	if an.NonNilErrorExpr(info, e) {
		return c03GapSrc{kind: "error"}
	}
	return c03GapSrc{kind: "unknown"}
}

// c03GapErrSources: where the error returned at r can come from.  A returned
// variable is followed to its reaching definitions (assignments from which r
// is reachable without another assignment of the variable in between); a
// named result that is never assigned on some path to r contributes "nil".
func c03GapErrSources(g *an.Graph, r *an.Node) []c03GapSrc {
	info := g.Fn.Info()
	rs, ok := r.Ast.(*ast.ReturnStmt)
	if !ok {
		return []c03GapSrc{{kind: "unknown"}}
	}
	var obj types.Object
	if len(rs.Results) == 0 {
		obj = c03GapErrResult(g.Fn)
		if obj == nil {
			return []c03GapSrc{{kind: "nil"}}
		}
	} else {
		last := ast.Unparen(rs.Results[len(rs.Results)-1])
		id, isID := last.(*ast.Ident)
		if !isID || info.Uses[id] == nil {
			return []c03GapSrc{c03GapExprSrc(info, last)}
		}
		if _, isVar := info.Uses[id].(*types.Var); !isVar || an.NonNilErrorExpr(info, last) {
			return []c03GapSrc{c03GapExprSrc(info, last)}
		}
		obj = info.Uses[id]
	}
	defs := an.Set{}
	for _, n := range g.Nodes {
		if n.Kind == an.KStmt && n.Ast != nil && an.Assigns(info, n.Ast, obj) {
			defs[n] = true
		}
	}
	var out []c03GapSrc
	if g.Reach([]*an.Node{g.Entry}, defs)[r] {
		if obj == c03GapErrResult(g.Fn) {
			out = append(out, c03GapSrc{kind: "nil"})
		} else {
			out = append(out, c03GapSrc{kind: "unknown"})
		}
	}
	for d := range defs {
		if d != r && !g.Reach(d.Succs, defs)[r] {
			continue
		}
		src := c03GapSrc{kind: "unknown"}
		var lhs, rhs []ast.Expr
		switch s := d.Ast.(type) {
		case *ast.AssignStmt:
			lhs, rhs = s.Lhs, s.Rhs
		case *ast.ValueSpec:
			for _, nm := range s.Names {
				lhs = append(lhs, nm)
			}
			rhs = s.Values
			if len(rhs) == 0 {
				src = c03GapSrc{kind: "nil"}
			}
		}
		for i, l := range lhs {
			id, isID := ast.Unparen(l).(*ast.Ident)
			if !isID || (info.Defs[id] != obj && info.Uses[id] != obj) {
				continue
			}
			switch {
			case len(rhs) == len(lhs):
				src = c03GapExprSrc(info, rhs[i])
			case len(rhs) == 1:
				src = c03GapExprSrc(info, rhs[0])
			}
		}
		out = append(out, src)
	}
	sort.Slice(out, func(i, j int) bool { return out[i].String() < out[j].String() })
	return out
}

// c03GapReturnsAfter: the return vertices reachable from the successors of n.
func c03GapReturnsAfter(g *an.Graph, n *an.Node) []*an.Node {
	reach := g.Reach(n.Succs, nil)
	var out []*an.Node
	for _, r := range g.Returns() {
		if reach[r] {
			out = append(out, r)
		}
	}
	sort.Slice(out, func(i, j int) bool { return out[i].Ast.Pos() < out[j].Ast.Pos() })
	return out
}

// c03GapDomOrIs: n is one of the vertices, or every entry path to n passes one.
func c03GapDomOrIs(g *an.Graph, n *an.Node, set an.Set) bool {
	return len(set) > 0 && (set[n] || g.Dominated(n, set))
}

// c03GapResolve follows locals that are assigned exactly once to their definition.
func c03GapResolve(g *an.Graph, e ast.Expr, depth int) ast.Expr {
	e = ast.Unparen(e)
	if id, ok := e.(*ast.Ident); ok && depth < 3 {
		if o, isVar := g.Fn.Info().Uses[id].(*types.Var); isVar && o.Parent() != nil && (o.Pkg() == nil || o.Parent() != o.Pkg().Scope()) {
			if rhs, idx := g.SingleDef(o); rhs != nil && idx == 0 {
				if _, isCallTuple := ast.Unparen(rhs).(*ast.CallExpr); !isCallTuple || true {
					return c03GapResolve(g, rhs, depth+1)
				}
			}
		}
	}
	return e
}

// c03GapReadsFieldOf: e reads field fld of the object obj (obj.fld), or is obj.
func c03GapReadsFieldOf(info *types.Info, e ast.Node, obj types.Object, fld *types.Var) bool {
	found := false
	ast.Inspect(e, func(n ast.Node) bool {
		switch x := n.(type) {
		case *ast.SelectorExpr:
			if an.FieldOf(info, x) == fld && fld != nil && an.ObjOf(info, x.X) == obj {
				found = true
			}
		}
		return !found
	})
	return found
}

// ---------------------------------------------------------------------------
// block-rollback: BlockState.Rollback / Snapshot cover both components

func c03GapBlockRollback(c *rep.Ctx) {
	p := c.Prog
	const rule = "block-rollback"
	stF := p.LookupField("state", "BlockSnapshot", "state")
	soF := p.LookupField("state", "BlockSnapshot", "storage")
	if stF == nil || soF == nil {
		c.Undecide(rule, "state.BlockSnapshot", "snapshot fields not found")
		return
	}
	if f := c.Fn("state.(*BlockState).Rollback"); f != nil {
		g := f.Graph()
		info := f.Info()
		snap := f.ParamObj(0)
		storSites := c03GapSitesReaching(f, c03GapReaching(c, rule, c03GapCacheRb))
		acctSites := c03GapSitesReaching(f, c03GapReaching(c, rule, c03GapSdbRb))
		if len(storSites) == 0 || len(acctSites) == 0 {
			c.Check(rule, f.Name()+"|components", f.Pos(), false, "BlockState.Rollback calls both the storage-cache rollback and the account-buffer rollback")
		} else {
			bind := true
			argOK := func(s an.Site, fld *types.Var) bool {
				for _, a := range s.Call.Args {
					a = c03GapResolve(g, a, 0)
					if c03GapReadsFieldOf(info, a, snap, fld) || an.ObjOf(info, a) == snap {
						return true
					}
				}
				return false
			}
			for _, s := range storSites {
				bind = bind && argOK(s, soF)
			}
			for _, s := range acctSites {
				bind = bind && argOK(s, stF)
			}
			c.Check(rule, f.Name()+"|snapshot-fields", storSites[0].Call.Pos(), bind, "each component is rolled back to its own revision of the snapshot handed in (storage cache: .storage, account buffer: .state)")
			nilRet := an.Set{}
			for _, r := range g.NilReturns() {
				nilRet[r] = true
			}
			stor, acct := nodesOf(storSites), nodesOf(acctSites)
			for _, r := range g.Returns() {
				a, b := c03GapDomOrIs(g, r, stor), c03GapDomOrIs(g, r, acct)
				ok := (a && b) || (!nilRet[r] && (a || b))
				c.Check(rule, f.Name()+"|every-return", r.Ast.Pos(), ok, "every return of BlockState.Rollback that can report success lies behind the rollback of the storage cache AND of the account buffer: a shortcut that looks at one component only leaves the other one as the failed transaction wrote it")
			}
		}
	}
	if f := c.Fn("state.(*BlockState).Snapshot"); f != nil {
		g := f.Graph()
		info := f.Info()
		storSet := c03GapReaching(c, rule, c03GapCacheSnap)
		acctSet := c03GapReaching(c, rule, c03GapSdbSnap)
		reachesIn := func(e ast.Expr, set map[*an.Func]bool) bool {
			found := false
			ast.Inspect(e, func(n ast.Node) bool {
				if call, ok := n.(*ast.CallExpr); ok {
					if fn := an.Callee(info, call); fn != nil {
						if cf := p.FuncOf(fn); cf != nil && set[cf] {
							found = true
						}
					}
				}
				return !found
			})
			return found
		}
		var resolve func(e ast.Expr, depth int) ast.Expr
		resolve = func(e ast.Expr, depth int) ast.Expr {
			e = ast.Unparen(e)
			if id, ok := e.(*ast.Ident); ok && depth < 3 {
				if o := info.Uses[id]; o != nil {
					if rhs, _ := g.SingleDef(o); rhs != nil {
						return resolve(rhs, depth+1)
					}
				}
			}
			return e
		}
		n := 0
		for _, r := range g.Returns() {
			rs := r.Ast.(*ast.ReturnStmt)
			if len(rs.Results) != 1 {
				continue
			}
			n++
			lit, _ := resolve(rs.Results[0], 0).(*ast.CompositeLit)
			okS, okA := false, false
			if lit != nil {
				for _, el := range lit.Elts {
					kv, ok := el.(*ast.KeyValueExpr)
					if !ok {
						continue
					}
					k, _ := kv.Key.(*ast.Ident)
					if k == nil {
						continue
					}
					v := resolve(kv.Value, 0)
					if info.Uses[k] == soF && reachesIn(v, storSet) {
						okS = true
					}
					if info.Uses[k] == stF && reachesIn(v, acctSet) {
						okA = true
					}
				}
			}
			c.Check(rule, f.Name()+"|both-revisions", r.Ast.Pos(), okS && okA, "the block snapshot records the revision of the account buffer and the revisions of the storage cache")
		}
		if n == 0 {
			c.Undecide(rule, f.Name(), "no result found")
		}
	}
	c.Floor(rule, 3)
}

// ---------------------------------------------------------------------------
// cache-rollback: every cached storage is rolled back or dropped

func c03GapCacheRollback(c *rep.Ctx) {
	const rule = "cache-rollback"
	p := c.Prog
	f := c.Fn(c03GapCacheRb)
	if f == nil {
		return
	}
	g := f.Graph()
	info := f.Info()
	storF := p.LookupField("state/statedb", "storageCache", "storages")
	if storF == nil {
		c.Undecide(rule, "state/statedb.storageCache.storages", "field not found")
		return
	}
	bufRb := c03GapReaching(c, rule, c03GapBufRb)
	n := 0
	ast.Inspect(f.Body, func(nd ast.Node) bool {
		rs, ok := nd.(*ast.RangeStmt)
		if !ok || an.FieldOf(info, rs.X) != storF {
			return true
		}
		n++
		head, body := c12LoopHead(g, rs)
		var keyObj, valObj types.Object
		if rs.Key != nil {
			keyObj = an.ObjOf(info, rs.Key)
		}
		if rs.Value != nil {
			valObj = an.ObjOf(info, rs.Value)
		}
		must := an.Set{}
		snapParam := f.ParamObj(0)
		fromSnap := func(e ast.Expr) bool {
			// snap[key] of this iteration, possibly through `rev, ok := snap[key]`
			e = ast.Unparen(e)
			if id, ok := e.(*ast.Ident); ok {
				if o := info.Uses[id]; o != nil {
					if rhs, idx := g.SingleDefInLoop(o); rhs != nil && idx == 0 {
						e = ast.Unparen(rhs)
					}
				}
			}
			ix, ok := e.(*ast.IndexExpr)
			return ok && snapParam != nil && an.ObjOf(info, ix.X) == snapParam && keyObj != nil && an.ObjOf(info, ix.Index) == keyObj
		}
		for _, s := range g.Calls(nil) {
			if !c12Inside(rs.Body, s.Call) {
				continue
			}
			if an.IsBuiltin(info, s.Call, "delete") && len(s.Call.Args) == 2 && an.FieldOf(info, s.Call.Args[0]) == storF && keyObj != nil && an.ObjOf(info, s.Call.Args[1]) == keyObj {
				must[s.Node] = true
			}
			if s.Fn != nil {
				if cf := p.FuncOf(s.Fn); cf != nil && bufRb[cf] {
					if sel, ok := ast.Unparen(s.Call.Fun).(*ast.SelectorExpr); ok && valObj != nil && mentions(info, sel.X, valObj) {
						// the revision is the one the snapshot recorded for this very storage
						okRev := false
						for _, a := range s.Call.Args {
							if fromSnap(a) {
								okRev = true
							}
						}
						if okRev {
							must[s.Node] = true
						}
					}
				}
			}
		}
		ok = c12EveryIteration(g, head, body, must)
		c.Check(rule, f.Name()+"|every-iteration", rs.Pos(), ok, "in every iteration the visited storage is either rolled back to the revision the snapshot holds for it (snap[key]) or removed from the cache (a storage the snapshot does not know was first staged by the failed transaction); no iteration is skipped")
		return true
	})
	if n == 0 {
		c.Undecide(rule, f.Name(), "no loop over the cached storages found")
	}
}

// ---------------------------------------------------------------------------
// late-effects: what Rollback cannot undo happens after the last failing return

// c03GapBlockMutators: methods of BlockState that change block-level results
// which BlockState.Snapshot does not cover.
var c03GapBlockMutators = map[string]string{
	"state.(*BlockState).AddInternalOps": "appends to internalOps",
	"state.(*BlockState).AddReceipt":     "appends to receipts / merges the bloom filter",
}

// c03GapBlockReaders: methods of BlockState that executeTx may call freely.
var c03GapBlockReaders = map[string]string{
	"state.(*BlockState).Receipts":      "getter",
	"state.(*BlockState).PrevBlockHash": "getter",
	"state.(*BlockState).TimeoutTx":     "getter",
	"state.(*BlockState).Consensus":     "getter",
	"state.(*BlockState).InternalOps":   "getter",
	"state.(*BlockState).GetCode":       "code cache lookup",
	"state.(*BlockState).GetABI":        "abi cache lookup",
	"state.(*BlockState).Snapshot":      "the snapshot mechanism itself",
	"state.(*BlockState).Rollback":      "the snapshot mechanism itself (undoes, never adds)",
}

// c03GapLateExempt: calls whose error may be returned after such an effect.
var c03GapLateExempt = map[string]string{
	"state.(*BlockState).AddReceipt": "fails only when two bloom filters built from the same two constants differ in size; it is the last step and appends the receipt after that merge",
}

func c03GapLateEffects(c *rep.Ctx) {
	const rule = "late-effects"
	f := c.Fn("chain.executeTx")
	if f == nil {
		return
	}
	g := f.Graph()
	info := f.Info()
	type eff struct {
		site an.Site
		what string
	}
	var effs []eff
	for _, s := range c01BpRewardAdd(f) {
		effs = append(effs, eff{s, "BpReward.Add"})
	}
	if len(effs) == 0 {
		c.Undecide(rule, f.Name(), "the fee credit to BlockState.BpReward was not found")
	}
	bsNamed := func(fn *types.Func) bool {
		sig, _ := fn.Type().(*types.Signature)
		if sig == nil || sig.Recv() == nil {
			return false
		}
		t := sig.Recv().Type()
		if pt, ok := t.(*types.Pointer); ok {
			t = pt.Elem()
		}
		nt, ok := t.(*types.Named)
		return ok && nt.Obj().Name() == "BlockState" && nt.Obj().Pkg() != nil && an.Rel(nt.Obj().Pkg().Path()) == "state"
	}
	for _, s := range g.Calls(func(fn *types.Func, call *ast.CallExpr) bool { return fn != nil && bsNamed(fn) }) {
		name := an.FuncName(s.Fn)
		if _, ok := c03GapBlockMutators[name]; ok {
			effs = append(effs, eff{s, shortName(name)})
			continue
		}
		if _, ok := c03GapBlockReaders[name]; !ok {
			c.Undecide(rule, f.Name()+"|"+name, "executeTx calls a BlockState method that is neither a recorded mutator nor a recorded reader: decide whether Rollback undoes it")
		}
	}
	// direct writes of BlockState fields other than through the calls above
	bsStruct := c.Prog.LookupStruct("state", "BlockState")
	if bsStruct != nil {
		fields := map[*types.Var]bool{}
		for i := 0; i < bsStruct.NumFields(); i++ {
			fields[bsStruct.Field(i)] = true
		}
		for _, w := range c.Prog.FieldWrites(fields) {
			if w.Fn != nil && w.Fn.TopDecl() == f && w.How != "addr" {
				c.Undecide(rule, f.Name()+"|write "+w.Field.Name(), "executeTx writes a BlockState field directly: decide whether Rollback undoes it")
			}
		}
	}
	for _, e := range effs {
		ok, why := true, ""
		for _, r := range c03GapReturnsAfter(g, e.site.Node) {
			for _, src := range c03GapErrSources(g, r) {
				if src.kind == "nil" {
					continue
				}
				if src.kind == "call" {
					if _, ex := c03GapLateExempt[src.callee]; ex {
						continue
					}
				}
				ok = false
				why = "return at " + c.Prog.Pos(r.Ast.Pos()) + " can hand back an error from " + src.String()
			}
		}
		_ = info
		c.Check(rule, f.Name()+"|"+e.what+"-final", e.site.Call.Pos(), ok, "BlockState.Snapshot/Rollback cover the account buffer and the storage cache only: the fee credit to BpReward, the internal-operation log and the receipt list are not undone, so no return that can carry an error may follow them (a rejected transaction would otherwise leave its fee / its log / its receipt in the block) "+why)
	}
	// the exempted last step keeps its promise: it appends after its only failing step
	if af := c.Fn("state.(*BlockState).AddReceipt"); af != nil {
		ag := af.Graph()
		sets := sitesOf(af, "types.(*Receipts).Set")
		if len(sets) == 0 {
			c.Undecide(rule, af.Name(), "the append to the receipt list was not found")
		}
		for _, s := range sets {
			ok, why := true, ""
			for _, r := range c03GapReturnsAfter(ag, s.Node) {
				for _, src := range c03GapErrSources(ag, r) {
					if src.kind != "nil" {
						ok, why = false, "return at "+c.Prog.Pos(r.Ast.Pos())+" can hand back an error from "+src.String()
					}
				}
			}
			c.Check(rule, af.Name()+"|append-final", s.Call.Pos(), ok, "AddReceipt appends the receipt only after its last failing step: a transaction whose receipt cannot be merged is rejected without leaving a receipt "+why)
		}
	}
	c.Floor(rule, 4)
}

// ---------------------------------------------------------------------------
// events-dropped: the receipt of a failed transaction carries no events

func c03GapEventsDropped(c *rep.Ctx) {
	const rule = "events-dropped"
	p := c.Prog
	f := c.Fn("chain.executeTx")
	if f == nil {
		return
	}
	g := f.Graph()
	info := f.Info()
	evF := p.LookupField("types", "Receipt", "Events")
	fvF := p.LookupField("types", "BlockHeaderInfo", "ForkVersion")
	if evF == nil || fvF == nil {
		c.Undecide(rule, "types.Receipt.Events", "field not found")
		return
	}
	// the statement that puts the events into the receipt, and the variable it takes them from
	var target *an.Node
	var evObj types.Object
	for _, n := range g.StmtNodes(func(n *an.Node) bool { _, ok := n.Ast.(*ast.AssignStmt); return ok }) {
		as := n.Ast.(*ast.AssignStmt)
		for i, l := range as.Lhs {
			if an.FieldOf(info, l) == evF && i < len(as.Rhs) {
				target, evObj = n, an.ObjOf(info, as.Rhs[i])
			}
		}
	}
	if target == nil || evObj == nil {
		c.Undecide(rule, f.Name(), "the assignment of the events to the receipt was not found")
		return
	}
	// the pending-error variable and the arm on which it is known non-nil
	var errObj types.Object
	for _, s := range g.CallsTo("contract.IsRuntimeError") {
		if len(s.Call.Args) == 1 {
			errObj = an.ObjOf(info, s.Call.Args[0])
		}
	}
	if errObj == nil {
		c.Undecide(rule, f.Name(), "cannot identify the pending-error variable")
		return
	}
	resets := nodesOf(sitesOf(f, "chain.resetAccount"))
	var arm []*an.Node
	for e := range g.EdgesImplying(an.NilAtom(info, errObj), map[string]bool{"nil": false}) {
		for rs := range resets {
			if g.Dominated(rs, an.SetOf(e)) {
				arm = append(arm, e)
				break
			}
		}
	}
	if len(arm) == 0 {
		c.Undecide(rule, f.Name(), "run-time error arm not found")
		return
	}
	// clearing assignments
	clear := an.Set{}
	for _, n := range g.StmtNodes(func(n *an.Node) bool { _, ok := n.Ast.(*ast.AssignStmt); return ok }) {
		as := n.Ast.(*ast.AssignStmt)
		for i, l := range as.Lhs {
			if an.ObjOf(info, l) == evObj && i < len(as.Rhs) {
				if tv, ok := info.Types[as.Rhs[i]]; ok && tv.IsNil() {
					clear[n] = true
				}
			}
		}
	}
	// a branch that tests nothing but the fork version: the side that does not lead to the clearing is the historical behaviour
	depth := 0
	var versionOnly func(e ast.Expr) bool
	versionOnly = func(e ast.Expr) bool {
		sawVersion, other := false, false
		ast.Inspect(e, func(n ast.Node) bool {
			switch x := n.(type) {
			case *ast.SelectorExpr:
				if an.FieldOf(info, x) == fvF {
					sawVersion = true
					return false
				}
				if tv, ok := info.Types[x]; ok && tv.Value != nil {
					return false // a constant
				}
				other = true
			case *ast.Ident:
				if tv, ok := info.Types[x]; !ok || tv.Value == nil {
					if r := c03GapResolve(g, x, 0); r != ast.Expr(x) && depth < 3 {
						depth++
						if !versionOnly(r) {
							other = true
						}
						depth--
						sawVersion = sawVersion || !other
					} else {
						other = true
					}
				}
			case *ast.CallExpr:
				if tv, ok := info.Types[x]; !ok || !tv.IsType() {
					if tv2, ok2 := info.Types[x.Fun]; !ok2 || !tv2.IsType() {
						other = true
					}
				}
			}
			return true
		})
		return sawVersion && !other
	}
	gates := an.Set{}
	for n := range clear {
		gates[n] = true
	}
	for _, n := range g.Nodes {
		if (n.Kind == an.KTrue || n.Kind == an.KFalse) && n.Cond != nil {
			ce, ok := n.Cond.Ast.(ast.Expr)
			if !ok || !versionOnly(ce) {
				continue
			}
			leads := false
			for cl := range clear {
				if g.Dominated(cl, an.SetOf(n)) {
					leads = true
				}
			}
			if !leads {
				gates[n] = true
			}
		}
	}
	ok := len(clear) > 0
	for _, e := range arm {
		if g.Reach([]*an.Node{e}, gates)[target] {
			ok = false
		}
	}
	c.Check(rule, f.Name()+"|error-arm", target.Ast.Pos(), ok, "every path from the pending-error test to the receipt passes `events = nil` (or the legacy side of a pure fork-version test): the events a contract emitted before it failed are not published with the ERROR receipt")
}

// ---------------------------------------------------------------------------
// runtime-class: which errors may take the fee+nonce arm

// c03GapRuntimeTypes: the error types that answer Runtime().
var c03GapRuntimeTypes = map[string]string{
	"contract.(*vmError).Runtime":   "contract execution failed inside the VM or in Execute's own checks",
	"contract.(*GovEntErr).Runtime": "enterprise governance transaction refused",
}

func c03GapRuntimeClass(c *rep.Ctx) {
	const rule = "runtime-class"
	p := c.Prog
	// (1) closed set of Runtime() implementations
	n := 0
	for _, f := range p.Funcs() {
		if f.Obj == nil || f.Obj.Name() != "Runtime" || f.Decl == nil || f.Decl.Recv == nil || c01OffNodePkg(f) {
			continue
		}
		sig, _ := f.Obj.Type().(*types.Signature)
		if sig == nil || sig.Params().Len() != 0 || sig.Results().Len() != 1 {
			continue
		}
		if b, ok := sig.Results().At(0).Type().Underlying().(*types.Basic); !ok || b.Kind() != types.Bool {
			continue
		}
		n++
		_, known := c03GapRuntimeTypes[f.Name()]
		c.Check(rule, f.Name()+"|recorded", f.Pos(), known, "the error types that contract.IsRuntimeError accepts are the two recorded ones; a further type sends its errors down the fee+nonce arm, which does not roll the block state back")
	}
	if n < 2 {
		c.Undecide(rule, "Runtime()", "fewer run-time error types than on the reference tree")
	}
	// (2) a system error is never wrapped as a run-time error in Execute
	if f := c.Fn("contract.Execute"); f != nil {
		g := f.Graph()
		info := f.Info()
		k := 0
		for _, s := range sitesOf(f, c03GapNewVmErr) {
			if len(s.Call.Args) != 1 {
				continue
			}
			obj := an.ObjOf(info, s.Call.Args[0])
			v, isVar := obj.(*types.Var)
			if !isVar || v.Parent() == nil || (v.Pkg() != nil && v.Parent() == v.Pkg().Scope()) {
				continue // a fixed error value
			}
			k++
			gates := an.Set{}
			for _, t := range sitesOf(f, "contract.isSystemError") {
				if argIs(info, t.Call, 0, obj) {
					for e := range g.BoolEdges(t, false) {
						// still about the same value: no assignment of the variable between test and wrap
						clean := true
						for m := range g.Between(e, s.Node) {
							if m.Kind == an.KStmt && an.Assigns(info, m.Ast, obj) {
								clean = false
							}
						}
						if clean {
							gates[e] = true
						}
					}
				}
			}
			ok := len(gates) > 0 && g.Dominated(s.Node, gates)
			c.Check(rule, f.Name()+"|not-system<newVmError", s.Call.Pos(), ok, "an error value coming out of the VM is wrapped as a run-time error only after isSystemError refused it: a system error (timeout, database, VM start) must reject the transaction, not charge the fee and record ERROR")
		}
		if k == 0 {
			c.Undecide(rule, f.Name(), "no wrap of a variable error found")
		}
	}
	// (3) NewGovEntErr wraps only what ExecuteEnterpriseTx returned
	k := 0
	for _, s := range p.CallSitesOf(map[string]bool{c03GapNewGovErr: true}) {
		if s.Fn == nil || c01OffNodePkg(s.Fn) || strings.HasSuffix(p.Pos(s.Call.Pos()), "_test.go") {
			continue
		}
		k++
		g := s.Fn.Graph()
		info := s.Fn.Info()
		node := g.NodeContaining(s.Call.Pos())
		ok, why := false, "argument is not a variable"
		if len(s.Call.Args) == 1 && node != nil {
			if obj := an.ObjOf(info, s.Call.Args[0]); obj != nil {
				ok, why = true, ""
				defs := an.Set{}
				for _, m := range g.Nodes {
					if m != node && m.Kind == an.KStmt && m.Ast != nil && an.Assigns(info, m.Ast, obj) {
						defs[m] = true
					}
				}
				if g.Reach([]*an.Node{g.Entry}, defs)[node] {
					ok, why = false, "reached without any assignment of the wrapped variable"
				}
				for d := range defs {
					if !g.Reach(d.Succs, defs)[node] {
						continue
					}
					if !containsCallTo(info, d.Ast, "contract/enterprise.ExecuteEnterpriseTx") {
						ok, why = false, "the wrapped value can come from "+an.ExprString(c03GapRhsOf(d.Ast))
					}
				}
			}
		}
		c.Check(rule, s.Fn.TopDecl().Name()+"|NewGovEntErr-enterprise-result", s.Call.Pos(), ok, "only the error of ExecuteEnterpriseTx is given the run-time class: every other governance failure rejects the transaction and is rolled back by the executor "+why)
	}
	if k == 0 {
		c.Undecide(rule, c03GapNewGovErr, "no call site found")
	}
}

func c03GapRhsOf(n ast.Node) ast.Expr {
	if as, ok := n.(*ast.AssignStmt); ok && len(as.Rhs) > 0 {
		return as.Rhs[0]
	}
	return ast.NewIdent("<statement>")
}

// ---------------------------------------------------------------------------
// gov-write-last: the run-time-class governance execution fails before it writes

// c03GapGovExempt: calls whose error may be returned after a storage write in
// ExecuteEnterpriseTx.
var c03GapGovExempt = map[string]string{
	"encoding/json.Marshal":              "marshals a value that was itself decoded from the JSON payload (string / call argument): cannot fail",
	"contract/enterprise.createSetEvent": "fails only through json.Marshal of a []string: cannot fail",
	"contract/enterprise.setAdmins":      "the write itself",
	"contract/enterprise.setConf":        "the write itself",
}

func c03GapGovWriteLast(c *rep.Ctx) {
	const rule = "gov-write-last"
	p := c.Prog
	f := c.Fn("contract/enterprise.ExecuteEnterpriseTx")
	if f == nil {
		return
	}
	g := f.Graph()
	info := f.Info()
	writers := c03GapReaching(c, rule, "state/statedb.(*ContractState).SetData", "state/statedb.(*ContractState).DeleteData")
	type wsite struct {
		node *an.Node
		pos  token.Pos
		what string
	}
	var ws []wsite
	for _, s := range c03GapSitesReaching(f, writers) {
		ws = append(ws, wsite{s.Node, s.Call.Pos(), shortName(an.FuncName(s.Fn))})
	}
	ccF := p.LookupField("state", "BlockState", "CCProposal")
	for _, n := range g.StmtNodes(func(n *an.Node) bool { _, ok := n.Ast.(*ast.AssignStmt); return ok }) {
		for _, l := range n.Ast.(*ast.AssignStmt).Lhs {
			if ccF != nil && an.FieldOf(info, l) == ccF {
				ws = append(ws, wsite{n, l.Pos(), "CCProposal="})
			}
		}
	}
	for _, w := range ws {
		ok, why := true, ""
		for _, r := range c03GapReturnsAfter(g, w.node) {
			for _, src := range c03GapErrSources(g, r) {
				if src.kind == "nil" {
					continue
				}
				if src.kind == "call" {
					if _, ex := c03GapGovExempt[src.callee]; ex {
						continue
					}
				}
				ok = false
				why = "return at " + p.Pos(r.Ast.Pos()) + " can hand back an error from " + src.String()
			}
		}
		c.Check(rule, f.Name()+"|"+w.what+"-final", w.pos, ok, "an enterprise transaction that fails is a run-time error: the executor keeps fee and nonce and does NOT roll the storage buffer back, so nothing that can fail may follow a write to the enterprise storage or to the block's cluster proposal "+why)
	}
	if len(ws) < 4 {
		c.Undecide(rule, f.Name(), "fewer storage writes than on the reference tree")
	}
}

// ---------------------------------------------------------------------------
// commit-last / arm-storage: nothing written survives the fee+nonce arm

// c03GapRuntimeCtor: constructors of run-time-class errors.
var c03GapRuntimeCtor = map[string]bool{c03GapNewVmErr: true, c03GapNewGovErr: true}

func c03GapCommitLast(c *rep.Ctx) {
	p := c.Prog
	cg := p.BuildCallGraphCached()
	_ = cg
	// does the fee+nonce arm of executeTx undo the block state itself?
	armFull, armStorage := false, false
	if f := c.Fn("chain.executeTx"); f != nil {
		g := f.Graph()
		info := f.Info()
		var errObj types.Object
		for _, s := range g.CallsTo("contract.IsRuntimeError") {
			if len(s.Call.Args) == 1 {
				errObj = an.ObjOf(info, s.Call.Args[0])
			}
		}
		resets := sitesOf(f, "chain.resetAccount")
		rtEdges := an.Set{}
		for _, s := range g.CallsTo("contract.IsRuntimeError") {
			for e := range g.BoolEdges(s, true) {
				rtEdges[e] = true
			}
		}
		if errObj != nil && len(resets) > 0 && len(rtEdges) > 0 {
			stor := c03GapReaching(c, "arm-storage", c03GapCacheRb)
			acct := c03GapReaching(c, "arm-storage", c03GapSdbRb)
			ctr := c03GapReaching(c, "arm-storage", c03GapCacheRb, c03GapCtrRb)
			var sNodes, aNodes, cNodes = an.Set{}, an.Set{}, an.Set{}
			for _, s := range c03GapSitesReaching(f, stor) {
				sNodes[s.Node] = true
			}
			for _, s := range c03GapSitesReaching(f, acct) {
				aNodes[s.Node] = true
			}
			for _, s := range c03GapSitesReaching(f, ctr) {
				cNodes[s.Node] = true
			}
			armFull, armStorage = true, true
			for _, rs := range resets {
				for e := range rtEdges {
					if !g.Reach([]*an.Node{e}, nil)[rs.Node] {
						continue
					}
					if len(sNodes) == 0 || len(aNodes) == 0 || g.Reach([]*an.Node{e}, sNodes)[rs.Node] || g.Reach([]*an.Node{e}, aNodes)[rs.Node] {
						armFull = false
					}
					if len(cNodes) == 0 || g.Reach([]*an.Node{e}, cNodes)[rs.Node] {
						armStorage = false
					}
				}
			}
		} else {
			c.Undecide("arm-storage", f.Name(), "run-time error arm not found")
		}
		// arm-storage
		vmUndo := c03GapVMUndoesStorage(c)
		ok := armFull || armStorage || vmUndo
		c.Check("arm-storage", f.Name()+"|storage-undone", posOf(resets), ok, "a contract writes its variables straight into the buffered storage it was opened on, and OpenContractState hands out the storage object held by the block's storage cache when the contract was already staged in this block; on a run-time error neither contract.Call/Create (they undo the SQL savepoint only) nor the fee+nonce arm of executeTx (it resets the two accounts only; the executor's Rollback is not reached because executeTx returns nil) rolls that buffer back: the writes a failing call made before it failed stay in the block state")
	}
	// commit-last
	const rule = "commit-last"
	full := "the fee+nonce arm rolls the block state back first"
	if f := c.Fn("contract.Execute"); f != nil {
		g := f.Graph()
		info := f.Info()
		execs := sitesOf(f, "contract.Call", "contract.Create")
		if len(execs) < 2 {
			c.Undecide(rule, f.Name(), "Call/Create sites not found")
		}
		errObj := c03GapErrResult(f)
		for _, s := range execs {
			if o := g.ResultVarAt(s, 4); o != nil {
				errObj = o
			}
		}
		// the edges after the execution on which its error is known nil
		okEdges := an.Set{}
		if errObj != nil {
			after := an.Set{}
			for _, s := range execs {
				for n := range g.Reach(s.Node.Succs, nil) {
					after[n] = true
				}
			}
			for e := range g.EdgesImplying(an.NilAtom(info, errObj), map[string]bool{"nil": true}) {
				if !after[e] {
					continue
				}
				// the fact is about the execution's error: no other assignment between the execution and the test
				clean := true
				for _, s := range execs {
					for m := range g.Between(s.Node, e) {
						if m.Kind == an.KStmt && m != s.Node && !nodesOf(execs)[m] && an.Assigns(info, m.Ast, errObj) {
							clean = false
						}
					}
				}
				if clean {
					okEdges[e] = true
				}
			}
		}
		if len(okEdges) == 0 {
			c.Undecide(rule, f.Name(), "success edge of Call/Create not found")
		}
		runtimeReturn := func(r *an.Node) (bool, string) {
			for _, src := range c03GapErrSources(g, r) {
				if c03GapRuntimeSrc(p, src, 0) {
					return true, src.callee
				}
			}
			return false, ""
		}
		seen := map[*an.Node]bool{}
		for e := range okEdges {
			for _, r := range c03GapReturnsAfter(g, e) {
				if seen[r] {
					continue
				}
				seen[r] = true
				if rt, _ := runtimeReturn(r); rt {
					c.Check(rule, f.Name()+"|runtime-error-after-exec-success", r.Ast.Pos(), armFull, "Call/Create end with commitCalledContract: the storage of every called contract is staged in the block's cache and every account they touched is put into the account buffer. A run-time error returned after that sends the transaction down the fee+nonce arm, which undoes neither: the transaction is recorded as ERROR while the transfers and writes of its nested calls stay ("+full+": "+c12Bool(armFull)+")")
				}
			}
		}
		for _, s := range sitesOf(f, c03GapStage) {
			for _, r := range c03GapReturnsAfter(g, s.Node) {
				if rt, _ := runtimeReturn(r); rt {
					c.Check(rule, f.Name()+"|runtime-error-after-stage", r.Ast.Pos(), armFull, "the contract's own storage is published to the block's cache only when nothing can fail any more with a run-time error ("+full+": "+c12Bool(armFull)+")")
				}
			}
		}
		c.CheckTrivial(rule, f.Name()+"|examined", f.Pos(), true, "returns after the execution were classified")
	}
	if f := c.Fn("contract.(*executor).commitCalledContract"); f != nil {
		g := f.Graph()
		commits := append(sitesOf(f, c03GapStage), sitesOf(f, "state.(*AccountState).PutState")...)
		if len(commits) < 2 {
			c.Undecide(rule, f.Name(), "stage/put sites not found")
		}
		for _, r := range g.Returns() {
			rt := false
			for _, src := range c03GapErrSources(g, r) {
				if c03GapRuntimeSrc(p, src, 0) {
					rt = true
				}
			}
			if !rt {
				continue
			}
			after := false
			for _, s := range commits {
				if g.Reach(s.Node.Succs, nil)[r] {
					after = true
				}
			}
			if after {
				c.Check(rule, f.Name()+"|runtime-error-in-commit-loop", r.Ast.Pos(), armFull, "the loop stages one called contract after the other (map order); a run-time error returned from a later iteration leaves the earlier ones staged while the transaction takes the fee+nonce arm ("+full+": "+c12Bool(armFull)+")")
			}
		}
	}
}

// c03GapRuntimeSrc: the source is a constructor of a run-time-class error, or a
// helper of the module one of whose returns hands back such an error.
func c03GapRuntimeSrc(p *an.Prog, src c03GapSrc, depth int) bool {
	if src.kind != "call" {
		return false
	}
	if c03GapRuntimeCtor[src.callee] {
		return true
	}
	if depth >= 2 || src.callee == "contract.Call" || src.callee == "contract.Create" {
		return false
	}
	f := p.Func(src.callee)
	if f == nil || f.Body == nil {
		return false
	}
	g := f.Graph()
	for _, r := range g.Returns() {
		for _, s2 := range c03GapErrSources(g, r) {
			if c03GapRuntimeSrc(p, s2, depth+1) {
				return true
			}
		}
	}
	return false
}

// c03GapVMUndoesStorage: do contract.Call and contract.Create roll the
// key-value storage back on every failing return after the execution?
func c03GapVMUndoesStorage(c *rep.Ctx) bool {
	undo := c03GapReaching(c, "arm-storage", c03GapCtrRb, c03GapCacheRb)
	all := true
	for _, name := range []string{"contract.Call", "contract.Create"} {
		f := c.Prog.Func(name)
		if f == nil {
			return false
		}
		g := f.Graph()
		starts := sitesOf(f, "contract.newExecutor")
		commits := nodesOf(sitesOf(f, "contract.(*executor).commitCalledContract"))
		undos := nodesOf(c03GapSitesReaching(f, undo))
		if len(starts) == 0 {
			return false
		}
		for _, r := range c03GapReturnsAfter(g, starts[0].Node) {
			if c03GapDomOrIs(g, r, commits) {
				continue
			}
			if !c03GapDomOrIs(g, r, undos) {
				all = false
			}
		}
	}
	return all
}

// ---------------------------------------------------------------------------
// vm-error-rollback: a failed execution undoes its SQL savepoint

func c03GapVMErrorRollback(c *rep.Ctx) {
	const rule = "vm-error-rollback"
	n := 0
	for _, f := range c.Prog.Funcs() {
		if f.Pkg == nil || an.Rel(f.Pkg.PkgPath) != "contract" || f.Body == nil || strings.HasSuffix(c.Prog.Pos(f.Pos()), "_test.go") {
			continue
		}
		commits := sitesOf(f, "contract.(*executor).commitCalledContract")
		starts := sitesOf(f, "contract.newExecutor")
		if len(commits) == 0 || len(starts) == 0 {
			continue
		}
		n++
		g := f.Graph()
		rbs := nodesOf(sitesOf(f, "contract.(*executor).rollbackToSavepoint"))
		cm := nodesOf(commits)
		ok := len(rbs) > 0
		var bad token.Pos
		for _, r := range c03GapReturnsAfter(g, starts[0].Node) {
			if c03GapDomOrIs(g, r, cm) || c03GapDomOrIs(g, r, rbs) {
				continue
			}
			ok, bad = false, r.Ast.Pos()
		}
		pos := f.Pos()
		if bad != token.NoPos {
			pos = bad
		}
		c.Check(rule, f.Name()+"|failed-execution-undone", pos, ok, "every return after the executor was created lies behind commitCalledContract (success) or behind rollbackToSavepoint: the SQL savepoints of the contracts a failed call touched are rolled back before the transaction takes the fee+nonce arm")
	}
	c.Floor(rule, 2)
	if n < 2 {
		c.Undecide(rule, "contract", "Call/Create not recognised")
	}
}

// ---------------------------------------------------------------------------
// blockstate-fresh: a block state never works on the shared chain StateDB

var c03GapFreshStateDB = map[string]string{
	"state.(*ChainStateDB).OpenNewStateDB": "opens a StateDB of its own on the given root",
	"state/statedb.NewStateDB":             "constructor",
}

func c03GapFreshBlockState(c *rep.Ctx) {
	const rule = "blockstate-fresh"
	p := c.Prog
	if f := c.Fn("state.(*ChainStateDB).OpenNewStateDB"); f != nil {
		ok := true
		for _, r := range f.Graph().Returns() {
			rs := r.Ast.(*ast.ReturnStmt)
			if len(rs.Results) != 1 || !containsCallTo(f.Info(), rs.Results[0], "state/statedb.NewStateDB") {
				ok = false
			}
		}
		c.Check(rule, f.Name()+"|constructs", f.Pos(), ok, "OpenNewStateDB returns a newly constructed StateDB (own buffer, own storage cache)")
	}
	var fresh func(fn *an.Func, e ast.Expr, depth int) (bool, string)
	fresh = func(fn *an.Func, e ast.Expr, depth int) (bool, string) {
		info := fn.Info()
		e = ast.Unparen(e)
		if call, ok := e.(*ast.CallExpr); ok {
			name := an.CalleeName(info, call)
			if _, ok := c03GapFreshStateDB[name]; ok {
				return true, shortName(name)
			}
			return false, name
		}
		if id, ok := e.(*ast.Ident); ok && depth < 3 {
			obj := info.Uses[id]
			v, isVar := obj.(*types.Var)
			if !isVar || v.Parent() == nil || (v.Pkg() != nil && v.Parent() == v.Pkg().Scope()) {
				return false, an.ExprString(e)
			}
			top := fn.TopDecl()
			// every assignment of the local, anywhere in the declaring function, is fresh
			n, all, what := 0, true, ""
			var visit func(f *an.Func)
			visit = func(f *an.Func) {
				an.InspectShallow(f.Body, func(nd ast.Node) bool {
					var lhs, rhs []ast.Expr
					switch s := nd.(type) {
					case *ast.AssignStmt:
						lhs, rhs = s.Lhs, s.Rhs
					case *ast.ValueSpec:
						for _, nm := range s.Names {
							lhs = append(lhs, nm)
						}
						rhs = s.Values
					}
					for i, l := range lhs {
						lid, ok := ast.Unparen(l).(*ast.Ident)
						if !ok || (info.Defs[lid] != obj && info.Uses[lid] != obj) {
							continue
						}
						if len(rhs) != len(lhs) {
							if len(rhs) != 0 {
								all, what = false, "multi-value assignment"
							}
							continue
						}
						n++
						if ok2, w := fresh(f, rhs[i], depth+1); !ok2 {
							all, what = false, w
						}
					}
					return true
				})
				for _, l := range f.Lits {
					visit(l)
				}
			}
			visit(top)
			if n == 0 {
				return false, "parameter or never assigned: " + an.ExprString(e)
			}
			if all {
				return true, "local assigned only from OpenNewStateDB/NewStateDB"
			}
			return false, what
		}
		return false, an.ExprString(e)
	}
	n := 0
	for _, s := range p.CallSitesOf(map[string]bool{"state.NewBlockState": true}) {
		if s.Fn == nil || c01OffNodePkg(s.Fn) || strings.HasSuffix(p.Pos(s.Call.Pos()), "_test.go") || len(s.Call.Args) == 0 {
			continue
		}
		n++
		ok, what := fresh(s.Fn, s.Call.Args[0], 0)
		c.Check(rule, s.Fn.TopDecl().Name()+"|NewBlockState-own-StateDB", s.Call.Pos(), ok, "the working state of a block (or of a query) is a StateDB opened for it, never the chain's shared StateDB: a block that fails is dropped with its buffer, and nothing it wrote can be seen by the next block or by a query ("+what+")")
	}
	if n < 3 {
		c.Undecide(rule, "state.NewBlockState", "fewer call sites than on the reference tree")
	}
}

// ---------------------------------------------------------------------------
// reset-source: Reset goes back to the state the account had before the transaction

func c03GapResetSource(c *rep.Ctx) {
	const rule = "reset-source"
	p := c.Prog
	f := c.Fn("state.(*AccountState).Reset")
	if f == nil {
		return
	}
	g := f.Graph()
	info := f.Info()
	newF := p.LookupField("state", "AccountState", "newState")
	oldF := p.LookupField("state", "AccountState", "oldState")
	if newF == nil || oldF == nil || f.Decl == nil || f.Decl.Recv == nil || len(f.Decl.Recv.List) == 0 || len(f.Decl.Recv.List[0].Names) == 0 {
		c.Undecide(rule, f.Name(), "fields or receiver not found")
		return
	}
	recv := info.Defs[f.Decl.Recv.List[0].Names[0]]
	n := 0
	var wr an.Set = an.Set{}
	for _, nd := range g.StmtNodes(func(n *an.Node) bool { _, ok := n.Ast.(*ast.AssignStmt); return ok }) {
		as := nd.Ast.(*ast.AssignStmt)
		for i, l := range as.Lhs {
			sel, isSel := ast.Unparen(l).(*ast.SelectorExpr)
			if !isSel || an.FieldOf(info, l) != newF || an.ObjOf(info, sel.X) != recv || i >= len(as.Rhs) || len(as.Rhs) != len(as.Lhs) {
				continue
			}
			n++
			wr[nd] = true
			ok := false
			if call, isCall := c03GapResolve(g, as.Rhs[i], 0).(*ast.CallExpr); isCall && an.CalleeName(info, call) == "types.(*State).Clone" {
				if csel, ok2 := ast.Unparen(call.Fun).(*ast.SelectorExpr); ok2 {
					src := c03GapResolve(g, csel.X, 0)
					if ssel, ok3 := src.(*ast.SelectorExpr); ok3 && an.FieldOf(info, ssel) == oldF && an.ObjOf(info, ssel.X) == recv {
						ok = true
					}
				}
			}
			c.Check(rule, f.Name()+"|from-oldState", l.Pos(), ok, "Reset replaces the working state by a copy of the state the account had when it was loaded (oldState of the same account): the fee+nonce arm builds the failed transaction's only effects on top of it")
		}
	}
	if n == 0 {
		c.Check(rule, f.Name()+"|writes newState", f.Pos(), false, "Reset assigns the working state")
		return
	}
	// unconditional
	okAll := true
	for _, r := range append(g.Returns(), g.Exit) {
		if r != nil && !g.Dominated(r, wr) {
			okAll = false
		}
	}
	c.Check(rule, f.Name()+"|unconditional", f.Pos(), okAll, "every path through Reset performs the assignment")
}
