package props

import (
	"go/ast"
	"go/token"
	"go/types"

	"verif/checker/internal/an"
)

const (
	c16Raftlib = "github.com/aergoio/etcd/raft"
	c16WalDB   = c16RaftPkg + ".(*WalDB)"
	c16RS      = c16RaftPkg + ".(*raftServer)"
)

func c16Raft(e *c16Env) {
	c16SaveEntry(e)
	c16NonEmpty(e)
	c16Converters(e)
	c16ReadAll(e)
	c16ServeChannels(e)
	c16Snapshot(e)
	c16Replay(e)
	c16Identity(e)
}

// failEdges: the sibling edges of the success edges of a call site.
func c16FailEdges(g *an.Graph, okEdges an.Set) []*an.Node {
	var out []*an.Node
	for ed := range okEdges {
		if ed.Cond == nil {
			continue
		}
		for _, s := range ed.Cond.Succs {
			if s != ed && (s.Kind == an.KTrue || s.Kind == an.KFalse) {
				out = append(out, s)
			}
		}
	}
	return out
}

// c16FailureReported: from the failure edges of site no successful exit is reachable.
func c16FailureReported(g *an.Graph, site an.Site) (bool, string) {
	okE := g.ErrNilEdges(site)
	if len(okE) == 0 {
		if c16ErrorHandedBack(g, site) {
			return true, ""
		}
		return false, "the error result is not tested"
	}
	r := g.Reach(c16FailEdges(g, okE), nil)
	for _, pr := range g.Exit.Preds {
		if !r[pr] {
			continue
		}
		if _, isRet := pr.Ast.(*ast.ReturnStmt); isRet && pr.Kind == an.KStmt && c16SureErr(g, pr) {
			continue
		}
		return false, "a failure can reach a normal exit"
	}
	return true, ""
}

// c16ErrorHandedBack: the error result of the call at site is not tested
// because it is the error result of the enclosing function: the call is the
// operand of a return statement ( return f(x) ), or its error is stored in a
// variable that every path from the call to an exit returns unchanged
// ( err := f(x); ...; return err ).  A failure of the call is then a failure
// of the function, exactly as with  if err != nil { return err }.
func c16ErrorHandedBack(g *an.Graph, site an.Site) bool {
	info := g.Fn.Info()
	isErr := func(t types.Type) bool {
		return t != nil && types.Identical(t, types.Universe.Lookup("error").Type())
	}
	ft := g.Fn.Type
	if ft == nil || ft.Results == nil || ft.Results.NumFields() == 0 {
		return false
	}
	nRes := ft.Results.NumFields()
	if !isErr(info.TypeOf(ft.Results.List[len(ft.Results.List)-1].Type)) {
		return false
	}
	// position of the error among the results of the call
	errIdx := -1
	switch t := info.TypeOf(site.Call).(type) {
	case *types.Tuple:
		if t.Len() > 0 && isErr(t.At(t.Len()-1).Type()) {
			errIdx = t.Len() - 1
		}
	default:
		if isErr(t) {
			errIdx = 0
		}
	}
	if errIdx < 0 {
		return false
	}
	if ret, ok := site.Node.Ast.(*ast.ReturnStmt); ok && site.Node.Kind == an.KStmt {
		// return f(x)  /  return a, f(x): the call supplies the function's last result
		if len(ret.Results) == 1 && ast.Unparen(ret.Results[0]) == ast.Expr(site.Call) {
			return errIdx == nRes-1
		}
		return errIdx == 0 && len(ret.Results) == nRes && ast.Unparen(ret.Results[nRes-1]) == ast.Expr(site.Call)
	}
	v := g.ResultVarAt(site, errIdx)
	if v == nil || g.InLoop(site.Node) {
		return false // in a loop a later iteration would overwrite the stored error
	}
	n := 0
	for _, pr := range g.Exit.Preds {
		if !g.Reachable(site.Node, pr) {
			continue
		}
		ret, ok := pr.Ast.(*ast.ReturnStmt)
		if !ok || pr.Kind != an.KStmt || len(ret.Results) != nRes || an.ObjOf(info, ret.Results[nRes-1]) != v {
			return false
		}
		for m := range g.Between(site.Node, pr) {
			if m.Kind == an.KStmt && an.Assigns(info, m.Ast, v) {
				return false
			}
		}
		n++
	}
	return n > 0
}

// ---------------------------------------------------------------------------
// WalDB.SaveEntry: entries before hard state

func c16SaveEntry(e *c16Env) {
	c := e.c
	f := c.Fn(c16WalDB + ".SaveEntry")
	if f == nil {
		return
	}
	g, info := f.Graph(), f.Info()
	name := f.Name()
	wre := g.CallsTo("consensus.(ChainWAL).WriteRaftEntry", "chain.(*ChainDB).WriteRaftEntry")
	hs := g.CallsTo("consensus.(ChainWAL).WriteHardState", "chain.(*ChainDB).WriteHardState")
	if len(wre) != 1 || len(hs) != 1 {
		c.Undecide("save-order", name, "expected one WriteRaftEntry and one WriteHardState site")
		return
	}
	okE := g.ErrNilEdges(wre[0])
	ok := len(okE) > 0 && !g.Reachable(hs[0].Node, wre[0].Node) && g.Reachable(wre[0].Node, hs[0].Node) && !g.Reach(wre[0].Node.Succs, okE)[hs[0].Node]
	c.Check("save-order", name+"|entries<hardstate", hs[0].Call.Pos(), ok, "the hard state is written after the entries and only when writing them succeeded (the commit index it carries may cover entries of the same batch)")
	for _, s := range []an.Site{wre[0], hs[0]} {
		okF, why := c16FailureReported(g, s)
		c.Check("save-order", name+"|"+s.Fn.Name()+"-failure", s.Call.Pos(), okF, "a failed "+s.Fn.Name()+" makes SaveEntry return an error "+why)
	}
	// arguments: the three slices come from one conversion of the entries parameter; the hard state is the parameter
	var state, entries types.Object
	for i := 0; i < 4; i++ {
		po := c16Param(f, i)
		if po == nil {
			continue
		}
		if c16IsNamed(po.Type(), c16Raftpb, "HardState") {
			state = po
		}
		if sl, ok := po.Type().(*types.Slice); ok && c16IsNamed(sl.Elem(), c16Raftpb, "Entry") {
			entries = po
		}
	}
	conv := g.CallsTo(c16WalDB + ".convertFromRaft")
	okA := len(conv) == 1 && state != nil && entries != nil && len(wre[0].Call.Args) == 3
	if okA {
		okA = len(conv[0].Call.Args) == 1 && an.ObjOf(info, conv[0].Call.Args[0]) == entries
		for i := 0; i < 3 && okA; i++ {
			r := g.ResultVarAt(conv[0], i)
			if r == nil || an.ObjOf(info, wre[0].Call.Args[i]) != r || len(c16AssignNodes(g, r)) != 1 {
				okA = false
			}
		}
	}
	c.Check("save-args", name+"|entries", wre[0].Call.Pos(), okA, "the wal entries, blocks and conf changes written are the three results, in order, of one convertFromRaft of the entries parameter")
	okS := false
	if len(hs[0].Call.Args) == 1 {
		if u, ok := ast.Unparen(hs[0].Call.Args[0]).(*ast.UnaryExpr); ok && u.Op == token.AND && an.ObjOf(info, u.X) == state && state != nil {
			okS = true
			for _, n := range c16AssignNodes(g, state) { // taking the address for the call itself is not a modification
				if n != hs[0].Node {
					okS = false
				}
			}
		}
	}
	c.Check("save-args", name+"|hardstate", hs[0].Call.Pos(), okS, "the hard state written is the (unmodified) hard state parameter")
}

// len-atomizer: atom "empty:<obj>" for  len(x) == 0 / != 0 / > 0 / >= 1 / < 1
func c16LenAtom(info *types.Info, x types.Object) an.Atomizer {
	return func(ex ast.Expr) (string, bool, bool) {
		be, ok := ast.Unparen(ex).(*ast.BinaryExpr)
		if !ok {
			return "", false, false
		}
		l, r, op := be.X, be.Y, be.Op
		isLen := func(y ast.Expr) bool {
			call, ok := ast.Unparen(y).(*ast.CallExpr)
			return ok && an.IsBuiltin(info, call, "len") && len(call.Args) == 1 && an.ObjOf(info, call.Args[0]) == x
		}
		if isLen(r) {
			l, r = r, l
			switch op {
			case token.LSS:
				op = token.GTR
			case token.GTR:
				op = token.LSS
			case token.LEQ:
				op = token.GEQ
			case token.GEQ:
				op = token.LEQ
			}
		}
		if !isLen(l) {
			return "", false, false
		}
		v, ok := c16IntConst(info, r)
		if !ok {
			return "", false, false
		}
		switch {
		case v == 0 && (op == token.EQL || op == token.LEQ):
			return "empty", false, true
		case v == 0 && (op == token.NEQ || op == token.GTR):
			return "empty", true, true
		case v == 1 && op == token.LSS:
			return "empty", false, true
		case v == 1 && op == token.GEQ:
			return "empty", true, true
		}
		return "", false, false
	}
}

// c16NonEmpty: WriteRaftEntry reads ents[0] unconditionally: every caller passes a non-empty batch.
func c16NonEmpty(e *c16Env) {
	c, p := e.c, e.p
	sites := p.CallSitesOf(map[string]bool{"consensus.(ChainWAL).WriteRaftEntry": true, "chain.(*ChainDB).WriteRaftEntry": true})
	for _, cs := range sites {
		if cs.Fn == nil || len(cs.Call.Args) == 0 {
			continue
		}
		f := cs.Fn
		g, info := f.Graph(), f.Info()
		n := g.NodeContaining(cs.Call.Pos())
		if n == nil {
			c.Undecide("nonempty", f.Name(), "call not located in the control-flow graph")
			continue
		}
		// the object whose length matters: the argument itself, or the operand of the conversion producing it
		cands := []types.Object{}
		if a := an.ObjOf(info, cs.Call.Args[0]); a != nil {
			cands = append(cands, a)
			rhs, _, _ := c16ValueAssigns(g, a)
			for _, r := range rhs {
				if call, ok := ast.Unparen(r).(*ast.CallExpr); ok {
					for _, ca := range call.Args {
						if o := an.ObjOf(info, ca); o != nil {
							if _, isSl := o.Type().Underlying().(*types.Slice); isSl {
								cands = append(cands, o)
							}
						}
					}
				}
			}
		}
		ok, how := false, "no dominating length test of the batch"
		for _, x := range cands {
			if okG, h := g.GuardedAt(n, c16LenAtom(info, x), map[string]bool{"empty": false}); okG {
				ok, how = true, h
			}
		}
		c.Check("nonempty", f.Name(), cs.Call.Pos(), ok, "WriteRaftEntry indexes the first entry of the batch: the caller passes it only when the batch is known to be non-empty ("+how+")")
	}
	c.Floor("nonempty", 1)
}

// ---------------------------------------------------------------------------
// converters

func c16Converters(e *c16Env) {
	c, p := e.c, e.p
	consPkg := p.Pkg("consensus")
	// constants of consensus.EntryType
	var etConsts []*types.Const
	if consPkg != nil && consPkg.Types != nil {
		sc := consPkg.Types.Scope()
		for _, nm := range sc.Names() {
			if k, ok := sc.Lookup(nm).(*types.Const); ok && c16IsNamed(k.Type(), an.Module+"/consensus", "EntryType") {
				etConsts = append(etConsts, k)
			}
		}
	}
	if len(etConsts) < 3 {
		c.Undecide("conv-types", "consensus.EntryType", "constants not found")
		return
	}
	walType := p.LookupField("consensus", "WalEntry", "Type")

	// ---- raft -> wal
	if f := c.Fn(c16WalDB + ".convertFromRaft"); f != nil {
		g, info := f.Graph(), f.Info()
		name := f.Name()
		entries := c16Param(f, 0)
		loops := c16RangeOver(g, entries)
		if len(loops) != 1 || loops[0].val == nil || loops[0].key == nil {
			c.Undecide("conv-fields", name, "expected one `for i, entry := range entries` loop")
		} else {
			rl := loops[0]
			// the WalEntry literal
			n := 0
			an.InspectShallow(f.Body, func(nd ast.Node) bool {
				cl, ok := nd.(*ast.CompositeLit)
				if !ok || !c16IsNamed(info.TypeOf(cl), an.Module+"/consensus", "WalEntry") {
					return true
				}
				n++
				got := map[string]ast.Expr{}
				for _, el := range cl.Elts {
					if kv, ok := el.(*ast.KeyValueExpr); ok {
						if id, ok := kv.Key.(*ast.Ident); ok {
							got[id.Name] = kv.Value
						}
					}
				}
				same := func(fld string) bool {
					v, ok := got[fld]
					if !ok {
						return false
					}
					base, fv := c16FieldSel(info, v, fld)
					return fv != nil && an.ObjOf(info, base) == rl.val
				}
				_, hasT := got["Type"]
				_, hasD := got["Data"]
				c.Check("conv-fields", name+"|WalEntry", cl.Pos(), same("Term") && same("Index") && hasT && hasD && len(got) == 4, "the wal entry copies Term and Index from the same raft entry of the loop and sets Type and Data (all four fields)")
				return true
			})
			if n == 0 {
				c.Undecide("conv-fields", name, "WalEntry literal not found")
			}
			// parallel slices
			var ret *ast.ReturnStmt
			for _, r := range g.Returns() {
				rs := r.Ast.(*ast.ReturnStmt)
				if len(rs.Results) == 3 {
					if tv, ok := info.Types[rs.Results[0]]; ok && !tv.IsNil() {
						ret = rs
					}
				}
			}
			okP, why := ret != nil, ""
			if okP {
				var lenObj types.Object
				for i, r := range ret.Results {
					o := an.ObjOf(info, r)
					if o == nil {
						okP, why = false, "result is not a variable"
						break
					}
					rhs, _, other := c16ValueAssigns(g, o)
					if len(rhs) != 1 || other != 0 {
						okP, why = false, o.Name()+" is assigned more than once"
						break
					}
					call, ok := ast.Unparen(rhs[0]).(*ast.CallExpr)
					if !ok || !an.IsBuiltin(info, call, "make") || len(call.Args) != 2 {
						okP, why = false, o.Name()+" is not make(T, n)"
						break
					}
					lo := an.ObjOf(info, call.Args[1])
					if i == 0 {
						lenObj = lo
					}
					if lo == nil || lo != lenObj {
						okP, why = false, "different lengths"
						break
					}
					// written at the loop index
					wr := false
					for _, an_ := range g.StmtNodes(func(n *an.Node) bool { return rl.contains(g, n) }) {
						as, ok := an_.Ast.(*ast.AssignStmt)
						if !ok {
							continue
						}
						for _, l := range as.Lhs {
							if ix, ok := ast.Unparen(l).(*ast.IndexExpr); ok && an.ObjOf(info, ix.X) == o && an.ObjOf(info, ix.Index) == rl.key {
								wr = true
							}
						}
					}
					if !wr {
						okP, why = false, o.Name()+" is not filled at the loop index"
						break
					}
				}
				if okP {
					rhs, _, other := c16ValueAssigns(g, lenObj)
					okP = len(rhs) == 1 && other == 0
					if okP {
						call, ok := ast.Unparen(rhs[0]).(*ast.CallExpr)
						okP = ok && an.IsBuiltin(info, call, "len") && len(call.Args) == 1 && an.ObjOf(info, call.Args[0]) == entries
					}
					if !okP {
						why = "the common length is not len(entries)"
					}
				}
			}
			c.Check("parallel-slices", name, f.Pos(), okP, "the three result slices have the length of the entries and are filled at the same loop index (WriteRaftEntry indexes blocks[i] and ccProposes[i] with the index of ents) "+why)
		}
		// type mapping: the literal whose result type is EntryType returns every constant
		var lit *an.Func
		for _, l := range f.Lits {
			if l.Type.Results != nil && len(l.Type.Results.List) == 1 && c16IsNamed(info.TypeOf(l.Type.Results.List[0].Type), an.Module+"/consensus", "EntryType") {
				lit = l
			}
		}
		if lit == nil {
			c.Undecide("conv-types", name, "no nested function returning consensus.EntryType")
		} else {
			returned := map[*types.Const]bool{}
			ccPair := false
			ast.Inspect(lit.Body, func(nd ast.Node) bool {
				if cc, ok := nd.(*ast.CaseClause); ok {
					isCC := false
					for _, x := range cc.List {
						if c16IsConst(info, x, c16Raftpb, "EntryConfChange") {
							isCC = true
						}
					}
					for _, st := range cc.Body {
						ast.Inspect(st, func(m ast.Node) bool {
							if rs, ok := m.(*ast.ReturnStmt); ok && len(rs.Results) == 1 {
								if k := c16ConstObj(info, rs.Results[0]); k != nil && k.Name() == "EntryConfChange" && k.Pkg().Path() == an.Module+"/consensus" {
									if isCC && len(cc.List) == 1 {
										ccPair = true
									} else {
										ccPair = false
									}
								}
							}
							return true
						})
					}
				}
				if rs, ok := nd.(*ast.ReturnStmt); ok && len(rs.Results) == 1 {
					if k := c16ConstObj(info, rs.Results[0]); k != nil {
						returned[k] = true
					}
				}
				return true
			})
			for _, k := range etConsts {
				c.Check("conv-types", lit.Name()+"|"+k.Name(), lit.Pos(), returned[k], "the raft-to-wal type mapping produces consensus."+k.Name())
			}
			c.Check("conv-types", lit.Name()+"|confchange-pair", lit.Pos(), ccPair, "raftpb.EntryConfChange (and only it) is stored as consensus.EntryConfChange")
		}
	}

	// ---- wal -> raft
	if f := c.Fn(c16WalDB + ".convertWalToRaft"); f != nil {
		info := f.Info()
		name := f.Name()
		P := c16Param(f, 0)
		n := 0
		an.InspectShallow(f.Body, func(nd ast.Node) bool {
			cl, ok := nd.(*ast.CompositeLit)
			if !ok || !c16IsNamed(info.TypeOf(cl), c16Raftpb, "Entry") {
				return true
			}
			n++
			got := map[string]ast.Expr{}
			for _, el := range cl.Elts {
				if kv, ok := el.(*ast.KeyValueExpr); ok {
					if id, ok := kv.Key.(*ast.Ident); ok {
						got[id.Name] = kv.Value
					}
				}
			}
			same := func(fld string) bool {
				v, ok := got[fld]
				if !ok {
					return false
				}
				base, fv := c16FieldSel(info, v, fld)
				return fv != nil && an.ObjOf(info, base) == P
			}
			c.Check("conv-fields", name+"|raftpb.Entry", cl.Pos(), same("Term") && same("Index"), "the raft entry handed back to the library copies Term and Index from the same stored wal entry")
			return true
		})
		if n == 0 {
			c.Undecide("conv-fields", name, "raftpb.Entry literal not found")
		}
		// switch on walEntry.Type covers every EntryType constant, default is an error
		var sw *ast.SwitchStmt
		an.InspectShallow(f.Body, func(nd ast.Node) bool {
			if s, ok := nd.(*ast.SwitchStmt); ok && s.Tag != nil {
				if base, fv := c16FieldSel(info, s.Tag, "Type"); fv == walType && an.ObjOf(info, base) == P {
					sw = s
				}
			}
			return true
		})
		if sw == nil {
			c.Undecide("conv-types", name, "no switch on the wal entry's Type")
			return
		}
		covered := map[*types.Const]bool{}
		ccPair, ccElse := false, false
		defaultErr := false
		for _, st := range sw.Body.List {
			cc, ok := st.(*ast.CaseClause)
			if !ok {
				continue
			}
			isCC := false
			for _, x := range cc.List {
				if k := c16ConstObj(info, x); k != nil {
					covered[k] = true
					if k.Name() == "EntryConfChange" {
						isCC = true
					}
				}
			}
			setsCC := false
			for _, b := range cc.Body {
				ast.Inspect(b, func(m ast.Node) bool {
					if as, ok := m.(*ast.AssignStmt); ok && len(as.Lhs) == 1 && len(as.Rhs) == 1 {
						if _, fv := c16FieldSel(info, as.Lhs[0], "Type"); fv != nil && c16IsConst(info, as.Rhs[0], c16Raftpb, "EntryConfChange") {
							setsCC = true
						}
					}
					if rs, ok := m.(*ast.ReturnStmt); ok && cc.List == nil && len(rs.Results) == 2 && an.NonNilErrorExpr(info, rs.Results[1]) {
						defaultErr = true
					}
					return true
				})
			}
			if setsCC && isCC && len(cc.List) == 1 {
				ccPair = true
			}
			if setsCC && !isCC {
				ccElse = true
			}
		}
		for _, k := range etConsts {
			c.Check("conv-types", name+"|"+k.Name(), sw.Pos(), covered[k], "the wal-to-raft conversion has a case for consensus."+k.Name())
		}
		c.Check("conv-types", name+"|confchange-pair", sw.Pos(), ccPair && !ccElse, "consensus.EntryConfChange (and only it) is handed back as raftpb.EntryConfChange")
		c.Check("conv-types", name+"|default", sw.Pos(), defaultErr, "an unknown stored entry type is an error, not an empty entry")
	}
	c.Floor("conv-fields", 2)
	c.Floor("conv-types", 8)
}

// c16Resolve follows single-assignment locals: e = base + off.
func c16Resolve(g *an.Graph, x ast.Expr, depth int) (ast.Expr, int64) {
	info := g.Fn.Info()
	base, off := c16SplitOff(info, x)
	if depth <= 0 {
		return base, off
	}
	if o := an.ObjOf(info, base); o != nil {
		if _, isVar := o.(*types.Var); isVar {
			rhs, _, other := c16ValueAssigns(g, o)
			if len(rhs) == 1 && other == 0 {
				b2, o2 := c16Resolve(g, rhs[0], depth-1)
				return b2, off + o2
			}
		}
	}
	return base, off
}

// ---------------------------------------------------------------------------
// ReadAll

func c16ReadAll(e *c16Env) {
	c := e.c
	f := c.Fn(c16WalDB + ".ReadAll")
	if f == nil {
		return
	}
	g, info := f.Graph(), f.Info()
	name := f.Name()
	lastS := g.CallsTo("consensus.(ChainWAL).GetRaftEntryLastIdx", "chain.(*ChainDB).GetRaftEntryLastIdx")
	getS := g.CallsTo("consensus.(ChainWAL).GetRaftEntry", "chain.(*ChainDB).GetRaftEntry")
	convS := g.CallsTo(c16WalDB + ".convertWalToRaft")
	if len(lastS) != 1 || len(getS) != 1 || len(convS) != 1 || len(getS[0].Call.Args) != 1 {
		c.Undecide("readall-range", name, "expected one site each of GetRaftEntryLastIdx, GetRaftEntry and convertWalToRaft")
		return
	}
	L := g.ResultVarAt(lastS[0], 0)
	I := an.ObjOf(info, getS[0].Call.Args[0])
	if L == nil || I == nil || len(c16AssignNodes(g, L)) != 1 {
		c.Undecide("readall-range", name, "last index / loop variable not recognised")
		return
	}
	gn := getS[0].Node
	c.Check("readall-range", name+"|last-read", lastS[0].Call.Pos(), g.Dominated(gn, g.ErrNilEdges(lastS[0])), "entries are read only after the stored last index was read successfully")
	// loop variable: start at snapshot index + 1, step one
	snapParam := c16Param(f, 0)
	initOK, stepOK := false, false
	nInit, nStep := 0, 0
	for _, an_ := range c16AssignNodes(g, I) {
		switch s := an_.Ast.(type) {
		case *ast.IncDecStmt:
			nStep++
			stepOK = s.Tok == token.INC && g.Reachable(gn, an_) && g.Reachable(an_, gn)
		case *ast.AssignStmt:
			nInit++
			if len(s.Lhs) == 1 && len(s.Rhs) == 1 && !g.InLoop(an_) {
				base, off := c16Resolve(g, s.Rhs[0], 4)
				// base: a local whose only value is snapshot.Metadata.Index (guarded by snapshot != nil), zero otherwise
				okBase := false
				if o := an.ObjOf(info, base); o != nil {
					rhs, _, other := c16ValueAssigns(g, o)
					if len(rhs) == 1 && other == 0 {
						b1, fv := c16FieldSel(info, rhs[0], "Index")
						if fv != nil {
							b2, fm := c16FieldSel(info, b1, "Metadata")
							okBase = fm != nil && an.ObjOf(info, b2) == snapParam
						}
					}
				} else {
					b1, fv := c16FieldSel(info, base, "Index")
					if fv != nil {
						b2, fm := c16FieldSel(info, b1, "Metadata")
						okBase = fm != nil && an.ObjOf(info, b2) == snapParam
					}
				}
				initOK = okBase && off == 1
			}
		default:
			nInit += 10
		}
	}
	c.Check("readall-range", name+"|start", getS[0].Call.Pos(), initOK && nInit == 1, "reading starts at the index after the snapshot (snapshot.Metadata.Index + 1; 1 without snapshot)")
	c.Check("readall-range", name+"|step", getS[0].Call.Pos(), stepOK && nStep == 1, "every index is read (increment by one inside the loop)")
	roleA := func(x ast.Expr) bool { return an.ObjOf(info, x) == I }
	roleB := func(x ast.Expr) bool { return an.ObjOf(info, x) == L }
	cmps, und := g.OrdCmps(roleA, roleB, 0)
	for _, u := range und {
		c.Undecide("readall-range", name, "comparison "+an.ExprString(u)+" cannot be normalised")
	}
	nLoop := 0
	for _, cmp := range cmps {
		if !g.Reachable(cmp.Node, gn) || !g.Reachable(gn, cmp.Node) {
			continue
		}
		var res [3]bool
		dec := true
		for i, s := range []int{-1, 0, 1} {
			ed := g.EdgeFor(cmp, s)
			if ed == nil {
				dec = false
				break
			}
			res[i] = g.Reach([]*an.Node{ed}, an.SetOf(cmp.Node))[gn]
		}
		if !dec {
			c.Undecide("readall-range", name, "loop condition "+an.ExprString(cmp.Expr)+" is part of a compound condition")
			continue
		}
		nLoop++
		c.Check("readall-range", name+"|loop-bound", cmp.Expr.Pos(), res[0] && res[1] && !res[2], "the loop reads index i for i < last and i == last (the last entry written is returned) and stops for i > last; condition: "+an.ExprString(cmp.Expr))
	}
	if nLoop == 0 {
		c.Undecide("readall-range", name+"|loop-bound", "no loop condition comparing the index with the stored last index")
	}
	// no skipping: the append is dominated by both successes, a failure leaves the loop for good
	var appendNode *an.Node
	var appendCall *ast.CallExpr
	for _, n := range g.StmtNodes(func(n *an.Node) bool { _, ok := n.Ast.(*ast.AssignStmt); return ok }) {
		as := n.Ast.(*ast.AssignStmt)
		if len(as.Rhs) != 1 {
			continue
		}
		if call, ok := ast.Unparen(as.Rhs[0]).(*ast.CallExpr); ok && an.IsBuiltin(info, call, "append") && len(call.Args) == 2 {
			if t := info.TypeOf(call); t != nil {
				if sl, ok := t.(*types.Slice); ok && c16IsNamed(sl.Elem(), c16Raftpb, "Entry") {
					appendNode, appendCall = n, call
				}
			}
		}
	}
	if appendNode == nil {
		c.Undecide("readall-noskip", name, "append of the converted entry not found")
		return
	}
	for _, s := range []an.Site{getS[0], convS[0]} {
		okE := g.ErrNilEdges(s)
		ok := len(okE) > 0 && g.Dominated(appendNode, okE)
		if ok {
			r := g.Reach(c16FailEdges(g, okE), nil)
			if r[gn] || r[appendNode] {
				ok = false
			}
		}
		okF, _ := c16FailureReported(g, s)
		c.Check("readall-noskip", name+"|"+s.Fn.Name(), s.Call.Pos(), ok && okF, "an entry is appended only after "+s.Fn.Name()+" succeeded; a failure ends the read with an error (no index is skipped)")
	}
	// pairing: convert(result of GetRaftEntry), append(*result of convert)
	we := g.ResultVarAt(getS[0], 0)
	re := g.ResultVarAt(convS[0], 0)
	okP := we != nil && re != nil && len(convS[0].Call.Args) == 1 && an.ObjOf(info, convS[0].Call.Args[0]) == we
	if okP {
		x := ast.Unparen(appendCall.Args[1])
		if st, ok := x.(*ast.StarExpr); ok {
			x = st.X
		}
		okP = an.ObjOf(info, x) == re
	}
	c.Check("readall-noskip", name+"|pairing", appendCall.Pos(), okP, "the entry appended is the conversion of the wal entry read at this index")
	c.Floor("readall-range", 4)
	c.Floor("readall-noskip", 3)
}

// ---------------------------------------------------------------------------
// the raft loop

func c16ServeChannels(e *c16Env) {
	c := e.c
	f := c.Fn(c16RS + ".serveChannels")
	if f == nil {
		return
	}
	g, info := f.Graph(), f.Info()
	name := f.Name()
	one := func(names ...string) *an.Site {
		s := g.CallsTo(names...)
		if len(s) != 1 {
			c.Undecide("persist-order", name+"|"+c16Short(names[0]), "expected exactly one call site, found "+itoa(len(s)))
			return nil
		}
		return &s[0]
	}
	save := one(c16WalDB + ".SaveEntry")
	app := one(c16Raftlib + ".(*MemoryStorage).Append")
	adv := one(c16Raftlib + ".(Node).Advance")
	pub := one(c16RS + ".publishEntries")
	if save == nil || app == nil || adv == nil || pub == nil {
		return
	}
	gate := g.ErrNilEdges(*save)
	okF, why := c16FailureReported(g, *save)
	c.Check("persist-order", name+"|save-failure", save.Call.Pos(), len(gate) > 0 && okF, "a failed SaveEntry stops the node (no path continues after a failed write) "+why)
	c.Check("persist-order", name+"|save<append", app.Call.Pos(), g.Dominated(app.Node, gate), "entries reach the in-memory raft log only after they were written to the wal")
	c.Check("persist-order", name+"|save<publish", pub.Call.Pos(), g.Dominated(pub.Node, gate), "committed entries are applied only after the batch was written to the wal")
	appGate := g.ErrNilEdges(*app)
	c.Check("persist-order", name+"|save<advance", adv.Call.Pos(), g.Dominated(adv.Node, gate) && len(appGate) > 0 && g.Dominated(adv.Node, appGate), "the library is told to advance only after the wal write and the append succeeded")
	// messages: a follower answers (acknowledges) only after the write
	leaderEdges := an.Set{}
	for _, s := range g.CallsTo(c16RS + ".IsLeader") {
		for ed := range g.BoolEdges(s, true) {
			leaderEdges[ed] = true
		}
	}
	pms := g.CallsTo(c16RS + ".processMessages")
	nAfter := 0
	for _, pm := range pms {
		after := g.Dominated(pm.Node, gate)
		leader := len(leaderEdges) > 0 && g.Dominated(pm.Node, leaderEdges)
		if after {
			nAfter++
		}
		c.Check("persist-order", name+"|save<send", pm.Call.Pos(), after || leader, "messages are sent after the wal write, except on the branch where the node is the leader (a leader may send in parallel with its own write; a follower's acknowledgement must follow it)")
	}
	c.Check("persist-order", name+"|follower-send", f.Pos(), nAfter >= 1, "there is a send site after the wal write for the non-leader case")
	// same batch
	rdOf := func(x ast.Expr, fld string) types.Object {
		if u, ok := ast.Unparen(x).(*ast.UnaryExpr); ok && u.Op == token.AND {
			x = u.X
		}
		base, fv := c16FieldSel(info, x, fld)
		if fv == nil {
			return nil
		}
		return an.ObjOf(info, base)
	}
	okB := len(save.Call.Args) == 2 && len(app.Call.Args) == 1
	if okB {
		rd := rdOf(save.Call.Args[1], "Entries")
		okB = rd != nil && rdOf(save.Call.Args[0], "HardState") == rd && rdOf(app.Call.Args[0], "Entries") == rd
		if okB && len(pub.Call.Args) == 1 {
			// publishEntries(rs.entriesToApply(rd.CommittedEntries))
			okC := false
			ast.Inspect(pub.Call.Args[0], func(n ast.Node) bool {
				if x, ok := n.(ast.Expr); ok && rdOf(x, "CommittedEntries") == rd {
					okC = true
				}
				return true
			})
			okB = okC
		}
	}
	c.Check("persist-order", name+"|same-ready", save.Call.Pos(), okB, "the entries written, the entries appended, the hard state written and the committed entries applied belong to the same Ready value")
	// snapshot: written before it is applied to the in-memory log and published
	ws := g.CallsTo("consensus.(ChainWAL).WriteSnapshot", "chain.(*ChainDB).WriteSnapshot")
	as := g.CallsTo(c16Raftlib + ".(*MemoryStorage).ApplySnapshot")
	ps := g.CallsTo(c16RS + ".publishSnapshot")
	if len(ws) != 1 || len(as) != 1 || len(ps) != 1 {
		c.Undecide("persist-order", name+"|snapshot", "expected one WriteSnapshot, ApplySnapshot and publishSnapshot site")
	} else {
		wg := g.ErrNilEdges(ws[0])
		ok := len(wg) > 0 && g.Dominated(as[0].Node, wg) && g.Dominated(ps[0].Node, wg) && g.Dominated(ps[0].Node, g.ErrNilEdges(as[0]))
		rd := rdOf(ws[0].Call.Args[0], "Snapshot")
		ok = ok && rd != nil && rdOf(as[0].Call.Args[0], "Snapshot") == rd && rdOf(ps[0].Call.Args[0], "Snapshot") == rd
		c.Check("persist-order", name+"|snapshot", ws[0].Call.Pos(), ok, "a received snapshot is written to the wal before it is applied to the in-memory log and published (the same snapshot value)")
	}
	c.Floor("persist-order", 8)
}

func c16Snapshot(e *c16Env) {
	c := e.c
	f := c.Fn(c16RS + ".triggerSnapshot")
	if f == nil {
		return
	}
	g, info := f.Graph(), f.Info()
	name := f.Name()
	cr := g.CallsTo(c16Raftlib + ".(*MemoryStorage).CreateSnapshot")
	ws := g.CallsTo("consensus.(ChainWAL).WriteSnapshot", "chain.(*ChainDB).WriteSnapshot")
	cp := g.CallsTo(c16Raftlib + ".(*MemoryStorage).Compact")
	if len(cr) != 1 || len(ws) != 1 || len(cp) != 1 {
		c.Undecide("snapshot-order", name, "expected one CreateSnapshot, WriteSnapshot and Compact site")
		return
	}
	wg := g.ErrNilEdges(ws[0])
	c.Check("snapshot-order", name+"|write<compact", cp[0].Call.Pos(), len(wg) > 0 && g.Dominated(cp[0].Node, wg), "the in-memory log is compacted only after the snapshot that replaces the compacted prefix was written to the wal")
	snap := g.ResultVarAt(cr[0], 0)
	ok := false
	if snap != nil && len(ws[0].Call.Args) == 1 {
		if u, isU := ast.Unparen(ws[0].Call.Args[0]).(*ast.UnaryExpr); isU && u.Op == token.AND && an.ObjOf(info, u.X) == snap {
			ok = g.Dominated(ws[0].Node, g.ErrNilEdges(cr[0]))
		}
	}
	c.Check("snapshot-order", name+"|same-snapshot", ws[0].Call.Pos(), ok, "the snapshot written is the one just created by the raft storage (after CreateSnapshot succeeded)")
	for _, s := range g.CallsTo(c16RS + ".setSnapshotIndex") {
		c.Check("snapshot-order", name+"|write<index", s.Call.Pos(), g.Dominated(s.Node, wg), "the snapshot index advances only after the snapshot was written")
	}
	c.Floor("snapshot-order", 2)
}

func c16Replay(e *c16Env) {
	c := e.c
	f := c.Fn(c16RS + ".replayWAL")
	if f == nil {
		return
	}
	g, info := f.Graph(), f.Info()
	name := f.Name()
	ra := g.CallsTo(c16WalDB + ".ReadAll")
	as := g.CallsTo(c16Raftlib + ".(*MemoryStorage).ApplySnapshot")
	hs := g.CallsTo(c16Raftlib + ".(*MemoryStorage).SetHardState")
	ap := g.CallsTo(c16Raftlib + ".(*MemoryStorage).Append")
	if len(ra) != 1 || len(as) != 1 || len(hs) != 1 || len(ap) != 1 {
		c.Undecide("replay", name, "expected one ReadAll, ApplySnapshot, SetHardState and Append site")
		return
	}
	gate := g.ErrNilEdges(ra[0])
	snap := c16Param(f, 0)
	st := g.ResultVarAt(ra[0], 1)
	ents := g.ResultVarAt(ra[0], 2)
	star := func(x ast.Expr) types.Object {
		if s, ok := ast.Unparen(x).(*ast.StarExpr); ok {
			x = s.X
		}
		return an.ObjOf(info, x)
	}
	okA := len(ra[0].Call.Args) == 1 && an.ObjOf(info, ra[0].Call.Args[0]) == snap && snap != nil && star(as[0].Call.Args[0]) == snap
	c.Check("replay", name+"|snapshot", as[0].Call.Pos(), okA && g.Dominated(as[0].Node, gate), "the snapshot applied on restart is the one the wal was read against")
	c.Check("replay", name+"|hardstate", hs[0].Call.Pos(), st != nil && star(hs[0].Call.Args[0]) == st && len(c16AssignNodes(g, st)) == 1 && g.Dominated(hs[0].Node, gate), "the hard state restored is the one read from the wal")
	c.Check("replay", name+"|entries", ap[0].Call.Pos(), ents != nil && an.ObjOf(info, ap[0].Call.Args[0]) == ents && len(c16AssignNodes(g, ents)) == 1 && g.Dominated(ap[0].Node, gate), "the entries restored are the ones read from the wal")
	c.Check("replay", name+"|snapshot<entries", ap[0].Call.Pos(), !g.Reachable(ap[0].Node, as[0].Node) && !g.Reachable(ap[0].Node, hs[0].Node), "snapshot and hard state are installed before the entries are appended (ApplySnapshot after Append would drop them)")
	okF, why := c16FailureReported(g, ra[0])
	c.Check("replay", name+"|read-failure", ra[0].Call.Pos(), okF, "a failed ReadAll does not start the node "+why)
	c.Floor("replay", 5)
}

// c16Identity: the identity is written only when none of its attributes is zero.
func c16Identity(e *c16Env) {
	c, p := e.c, e.p
	f := c.Fn(c16RS + ".SaveIdentity")
	if f == nil {
		return
	}
	g, info := f.Graph(), f.Info()
	name := f.Name()
	st := p.LookupStruct("consensus", "RaftIdentity")
	idField := p.LookupField(c16RaftPkg, "Cluster", "identity")
	if st == nil || idField == nil {
		c.Undecide("anchor", "consensus.RaftIdentity", "struct or Cluster.identity not found")
		return
	}
	// accessor method -> field of RaftIdentity it returns
	accessor := func(fn *types.Func) *types.Var {
		af := p.FuncOf(fn)
		if af == nil || af.Body == nil || len(af.Body.List) != 1 {
			return nil
		}
		rs, ok := af.Body.List[0].(*ast.ReturnStmt)
		if !ok || len(rs.Results) != 1 {
			return nil
		}
		sel, ok := ast.Unparen(rs.Results[0]).(*ast.SelectorExpr)
		if !ok {
			return nil
		}
		fv := an.FieldOf(af.Info(), sel)
		if fv == nil || an.FieldOf(af.Info(), sel.X) != idField {
			return nil
		}
		return fv
	}
	at := func(x ast.Expr) (string, bool, bool) {
		be, ok := ast.Unparen(x).(*ast.BinaryExpr)
		if !ok {
			return "", false, false
		}
		for _, pr := range [][2]ast.Expr{{be.X, be.Y}, {be.Y, be.X}} {
			v, ok := c16IntConst(info, pr[1])
			if !ok || v != 0 {
				continue
			}
			y := ast.Unparen(pr[0])
			if call, ok := y.(*ast.CallExpr); ok && an.IsBuiltin(info, call, "len") && len(call.Args) == 1 {
				y = ast.Unparen(call.Args[0])
			}
			call, ok := y.(*ast.CallExpr)
			if !ok {
				continue
			}
			fn := an.Callee(info, call)
			if fn == nil {
				continue
			}
			fv := accessor(fn)
			if fv == nil {
				continue
			}
			switch be.Op {
			case token.EQL:
				return "zero:" + fv.Name(), false, true
			case token.NEQ, token.GTR:
				if be.Op == token.GTR && pr[0] != be.X {
					continue
				}
				return "zero:" + fv.Name(), true, true
			}
		}
		return "", false, false
	}
	ws := g.CallsTo("consensus.(ChainWAL).WriteIdentity", "chain.(*ChainDB).WriteIdentity")
	if len(ws) != 1 || len(ws[0].Call.Args) != 1 {
		c.Undecide("identity-guard", name, "expected one WriteIdentity site")
		return
	}
	okArg := false
	if u, ok := ast.Unparen(ws[0].Call.Args[0]).(*ast.UnaryExpr); ok && u.Op == token.AND && an.FieldOf(info, u.X) == idField {
		okArg = true
	}
	c.Check("identity-guard", name+"|value", ws[0].Call.Pos(), okArg, "the identity written is the cluster's identity")
	for i := 0; i < st.NumFields(); i++ {
		fld := st.Field(i)
		okG, how := g.GuardedAt(ws[0].Node, at, map[string]bool{"zero:" + fld.Name(): false})
		c.Check("identity-guard", name+"|"+fld.Name(), ws[0].Call.Pos(), okG, "the identity is written only when its "+fld.Name()+" is known to be set ("+how+")")
	}
	okF, why := c16FailureReported(g, ws[0])
	c.Check("identity-guard", name+"|failure", ws[0].Call.Pos(), okF, "a failed identity write is not reported as success "+why)
	c.Floor("identity-guard", 5)
}
