package props

import (
	"go/ast"
	"go/types"
	"sort"

	"verif/checker/internal/an"
	"verif/checker/internal/rep"
)

// Rule derived-assert (syntactic, no facts): values reached from an element of
// Args through further steps — the result of asserting an element to a map or
// slice type, values looked up in such a map, the same values passed to module
// functions — are attacker-controlled JSON as well.  Every type assertion on
// them must be of the comma-ok form (or a type switch) and slices among them
// must not be indexed: there is no length/type knowledge for these values.

func c14Taintable(t types.Type, depth int) bool {
	if t == nil || depth > 4 {
		return false
	}
	switch u := t.Underlying().(type) {
	case *types.Interface:
		return true
	case *types.Map:
		return c14Taintable(u.Elem(), depth+1)
	case *types.Slice:
		return c14Taintable(u.Elem(), depth+1)
	case *types.Array:
		return c14Taintable(u.Elem(), depth+1)
	case *types.Pointer:
		return c14Taintable(u.Elem(), depth+1)
	}
	return false
}

type c14Taint struct {
	e    *c14Eng
	vars map[*an.Func]map[*types.Var]bool
	work []*an.Func
}

func (t *c14Taint) mark(f *an.Func, v *types.Var) {
	if f == nil || v == nil || f.Body == nil {
		return
	}
	if t.vars[f] == nil {
		t.vars[f] = map[*types.Var]bool{}
	}
	if !t.vars[f][v] {
		t.vars[f][v] = true
		t.work = append(t.work, f)
	}
}

func c14Derived(c *rep.Ctx, e *c14Eng) {
	t := &c14Taint{e: e, vars: map[*an.Func]map[*types.Var]bool{}}
	// tainted: expression evaluates to attacker-controlled JSON (not a plain element of Args: those are the engine's)
	var tainted func(a *c14Fn, x ast.Expr, depth int) bool
	tainted = func(a *c14Fn, x ast.Expr, depth int) bool {
		if depth > 6 || x == nil {
			return false
		}
		x = ast.Unparen(x)
		xt := a.info.TypeOf(x)
		if ta, isTA := x.(*ast.TypeAssertExpr); isTA && ta.Type != nil {
			xt = a.info.TypeOf(ta.Type) // in a comma-ok context the expression has a tuple type
		}
		if tup, isTup := xt.(*types.Tuple); isTup && tup.Len() > 0 {
			xt = tup.At(0).Type() // comma-ok map index
		}
		if !c14Taintable(xt, 0) {
			return false
		}
		if _, _, ok := a.elem(x, 0); ok {
			return true
		}
		if k, _, _, ok := a.slice(x, 0); ok && k == "Args" {
			return true
		}
		switch s := x.(type) {
		case *ast.Ident:
			if v := a.varOf(s); v != nil {
				return t.vars[a.f][v]
			}
		case *ast.IndexExpr:
			return tainted(a, s.X, depth+1)
		case *ast.SliceExpr:
			return tainted(a, s.X, depth+1)
		case *ast.TypeAssertExpr:
			return tainted(a, s.X, depth+1)
		case *ast.StarExpr:
			return tainted(a, s.X, depth+1)
		case *ast.CallExpr:
			if tv, ok := a.info.Types[s.Fun]; ok && tv.IsType() && len(s.Args) == 1 {
				return tainted(a, s.Args[0], depth+1)
			}
		}
		return false
	}
	scan := func(f *an.Func) {
		a := e.newFn(f)
		if a == nil {
			return
		}
		for again := true; again; {
			again = false
			markLocal := func(v *types.Var) {
				if v != nil && c14Taintable(v.Type(), 0) && !(t.vars[f] != nil && t.vars[f][v]) {
					t.mark(f, v)
					again = true
				}
			}
			an.InspectShallow(f.Body, func(n ast.Node) bool {
				switch s := n.(type) {
				case *ast.AssignStmt:
					if len(s.Lhs) == len(s.Rhs) {
						for i, l := range s.Lhs {
							if tainted(a, s.Rhs[i], 0) {
								// plain element aliases stay with the engine
								if _, _, isElem := a.elem(s.Rhs[i], 0); isElem {
									if _, isTA := ast.Unparen(s.Rhs[i]).(*ast.TypeAssertExpr); !isTA {
										continue
									}
								}
								markLocal(a.varOf(l))
							}
						}
					} else if len(s.Rhs) == 1 && tainted(a, s.Rhs[0], 0) {
						markLocal(a.varOf(s.Lhs[0]))
					}
				case *ast.ValueSpec:
					if len(s.Names) == len(s.Values) {
						for i, nm := range s.Names {
							if tainted(a, s.Values[i], 0) {
								if _, _, isElem := a.elem(s.Values[i], 0); isElem {
									continue
								}
								v, _ := a.info.Defs[nm].(*types.Var)
								markLocal(v)
							}
						}
					}
				case *ast.RangeStmt:
					if tainted(a, s.X, 0) {
						if k, _, _, ok := a.slice(s.X, 0); ok && k == "Args" {
							return true // range values over Args are the engine's
						}
						markLocal(a.varOf(s.Key))
						markLocal(a.varOf(s.Value))
					}
				case *ast.CallExpr:
					fs := e.callees[s]
					if len(fs) == 0 {
						return true
					}
					for _, cf := range fs {
						if cf.Type == nil {
							continue
						}
						// receiver
						if sel, ok := ast.Unparen(s.Fun).(*ast.SelectorExpr); ok && cf.Decl != nil && cf.Decl.Recv != nil {
							if sl := a.info.Selections[sel]; sl != nil && sl.Kind() == types.MethodVal && tainted(a, sel.X, 0) {
								for _, fld := range cf.Decl.Recv.List {
									for _, nm := range fld.Names {
										v, _ := cf.Info().Defs[nm].(*types.Var)
										t.mark(cf, v)
									}
								}
							}
						}
						for i, arg := range s.Args {
							if !tainted(a, arg, 0) {
								continue
							}
							if po, ok := cf.ParamObj(i).(*types.Var); ok {
								t.mark(cf, po)
							}
						}
					}
				}
				return true
			})
		}
	}
	for _, a := range e.order {
		t.work = append(t.work, a.f)
	}
	done := 0
	for len(t.work) > 0 && done < 5000 {
		f := t.work[0]
		t.work = t.work[1:]
		done++
		scan(f)
	}
	var fs []*an.Func
	for f := range t.vars {
		fs = append(fs, f)
	}
	sort.Slice(fs, func(i, j int) bool { return fs[i].Pos() < fs[j].Pos() })
	for _, f := range fs {
		a := e.newFn(f)
		if a == nil {
			continue
		}
		an.InspectShallow(f.Body, func(n ast.Node) bool {
			switch s := n.(type) {
			case *ast.TypeAssertExpr:
				if s.Type == nil || !tainted(a, s.X, 0) {
					return true
				}
				if _, _, isElem := a.elem(s.X, 0); isElem {
					return true // decided by rule riskop
				}
				c.Check("derived-assert", f.Name()+"|"+types.ExprString(s), s.Pos(), a.commaOk[s], "type assertion on a value reached from the arguments of the payload must be of the comma-ok form")
			case *ast.IndexExpr:
				if !tainted(a, s.X, 0) {
					return true
				}
				if _, isSlice := a.info.TypeOf(s.X).Underlying().(*types.Slice); !isSlice {
					return true
				}
				if k, _, _, ok := a.slice(s.X, 0); ok && k == "Args" {
					return true // decided by rule riskop
				}
				c.Check("derived-assert", f.Name()+"|"+types.ExprString(s), s.Pos(), false, "index into a slice reached from the arguments of the payload: no length is known for it")
			}
			return true
		})
	}
	c.Floor("derived-assert", 1)
}
