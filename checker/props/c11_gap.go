package props

import (
	"go/ast"
	"go/token"
	"go/types"
	"sort"

	"verif/checker/internal/an"
	"verif/checker/internal/rep"
)

// C11 gap rules (found by applying realistic breaking patches that no rule
// decided).  The base rules decide the inside of the trie's prove / verify
// functions and the field-by-field assembly in statedb; they do not decide
// WHICH key, root and encoding a proof is generated for, nor what the proof
// handed to the client is labelled with.
//
//	arg-role        the key / root / encoding of a proof request are roles of
//	                parameters, fixed at the bottom by use (merkleProof walks the
//	                bits of the key and loads the children of the root; TrieQuery
//	                chooses the generator by the encoding flag) and propagated
//	                upwards through every call: inside pkg/trie and state/statedb
//	                each function passes its own parameter of the same role down
//	                (or the trie's own Root); no parameter carries two roles
//	encoding-arm    TrieQuery calls a compressed (7-result) generator exactly
//	                when its flag is true
//	proof-label     where a proof leaves the function that requested it, its Key
//	                field is the value the trie key was derived from: the
//	                argument of types.ToAccountID for an account proof, the trie
//	                key itself for a contract variable proof
//	proof-delivered whether a proof is handed on does not depend on its content
//	                (a proof of absence is delivered like a proof of presence)
//	root-source     the root an account proof is generated against is the Root
//	                field of the request being answered
//	var-root        the root a contract variable proof is generated against is
//	                the StorageRoot of the state proven by an account proof, used
//	                only when that proof shows inclusion; the response pairs the
//	                variable proofs with that account proof
//	enc-source      the encoding flag is the request's Compressed field, the same
//	                for the account proof and the variable proofs of one response
//	rpc-forward     the RPC layer copies every field of the request into the
//	                message for the chain service
//	sibling-guard   merkleProof appends the other child's hash exactly when that
//	                child is non-empty, DefaultLeaf exactly when it is empty
//	descent-slot    merkleProof descends with the batch index of the slot
//	                loadChildren returned the child from
//	generator-start every proof starts at height TrieHeight, batch index 0
//	sibling-index   the verifiers read the audit path / bitmap at
//	                len-1-level (the generator appends the root-level sibling
//	                last), decided on linear forms
func init() { extend("C11", c11GapRun) }

// c11GapHashers: functions that derive a trie key from an account address.
var c11GapHashers = map[string]bool{
	"types.ToAccountID": true,
}

// c11GapInternal: functions that request proofs only to read the proven value
// themselves (the proof never leaves the node); they choose root and encoding
// on their own.
var c11GapInternal = map[string]string{
	"contract.luaGetDB": "historical read of a contract variable by a running contract: the root is the state root of the block asked for, the encoding is irrelevant (only Inclusion/Value are read)",
}

type c11GapSource struct {
	fn     *an.Func
	call   *ast.CallExpr
	callee *an.Func
	idx    int
	role   string
}

type c11GapState struct {
	roles   map[*an.Func]map[int]string
	sources []c11GapSource
}

func c11GapRun(c *rep.Ctx) {
	p := c.Prog
	if p.Pkg(c10TriePkg) == nil || p.Pkg(c10StatePkg) == nil {
		return // the base rules already report the lost anchor
	}
	st := &c11GapState{roles: map[*an.Func]map[int]string{}}
	c11GapEncodingArm(c, st)
	c11GapSeed(c, st)
	c11GapPropagate(c, st)
	c11GapSources(c, st)
	c11GapRPCForward(c)
	c11GapSiblingGuard(c)
	c11GapDescentSlot(c)
	c11GapGeneratorStart(c)
	c11GapSiblingIndex(c)
}

// ---------------------------------------------------------------------------
// helpers

// c11GapAssignCount counts the assignments of o in the body of f including
// nested literals (=, :=, op=, ++/--, &o, range variables).
func c11GapAssignCount(f *an.Func, o types.Object) int {
	if f == nil || f.Body == nil || o == nil {
		return 0
	}
	info := f.Info()
	is := func(e ast.Expr) bool {
		id, ok := ast.Unparen(e).(*ast.Ident)
		return ok && (info.Defs[id] == o || info.Uses[id] == o)
	}
	n := 0
	ast.Inspect(f.Body, func(x ast.Node) bool {
		switch s := x.(type) {
		case *ast.AssignStmt:
			for _, l := range s.Lhs {
				if is(l) {
					n++
				}
			}
		case *ast.IncDecStmt:
			if is(s.X) {
				n++
			}
		case *ast.UnaryExpr:
			if s.Op == token.AND && is(s.X) {
				n++
			}
		case *ast.RangeStmt:
			if s.Key != nil && is(s.Key) {
				n++
			}
			if s.Value != nil && is(s.Value) {
				n++
			}
		case *ast.ValueSpec:
			for _, nm := range s.Names {
				if info.Defs[nm] == o {
					n++
				}
			}
		}
		return true
	})
	return n
}

// c11GapParamOwner: o is a parameter of f or of a function enclosing f.
func c11GapParamOwner(f *an.Func, o types.Object) (*an.Func, int) {
	if o == nil {
		return nil, -1
	}
	for ff := f; ff != nil; ff = ff.Parent {
		for i := 0; c10ParamAt(ff, i) != nil; i++ {
			if c10ParamAt(ff, i) == o {
				return ff, i
			}
		}
	}
	return nil, -1
}

// c11GapPeel follows parentheses and locals of f that are defined exactly once
// by a one-to-one assignment (x := e).  Results of multi-valued calls and
// parameters are not followed.
func c11GapPeel(f *an.Func, e ast.Expr) ast.Expr {
	g := f.Graph()
	info := f.Info()
	for d := 0; d < 8 && e != nil; d++ {
		e = ast.Unparen(e)
		id, ok := e.(*ast.Ident)
		if !ok || g == nil {
			return e
		}
		o := an.ObjOf(info, id)
		if o == nil {
			return e
		}
		if ow, _ := c11GapParamOwner(f, o); ow != nil {
			return e
		}
		rhs, idx := g.SingleDef(o)
		if rhs == nil || idx != 0 {
			return e
		}
		if tv, has := info.Types[rhs]; has {
			if _, isTuple := tv.Type.(*types.Tuple); isTuple {
				return e
			}
		}
		if c11GapAssignCount(f, o) != 1 {
			return e
		}
		e = rhs
	}
	return e
}

// c11GapCanon: the variable an expression denotes after peeling, and whether
// its value is stable in f (assigned at most once: parameter, once-defined
// local, range variable, captured variable not assigned here).
func c11GapCanon(f *an.Func, e ast.Expr) (types.Object, bool) {
	e = c11GapPeel(f, e)
	id, ok := e.(*ast.Ident)
	if !ok {
		return nil, false
	}
	o := an.ObjOf(f.Info(), id)
	if o == nil {
		return nil, false
	}
	if _, isVar := o.(*types.Var); !isVar {
		return nil, false
	}
	n := c11GapAssignCount(f, o)
	if ow, _ := c11GapParamOwner(f, o); ow != nil {
		return o, c11GapAssignCount(ow, o) == 0
	}
	return o, n <= 1
}

// c11GapChain decodes  b.F1.F2  /  b.GetF1().GetF2()  (any mixture) into the
// base variable and the field names; getters are the generated nil-safe
// accessors named Get<Field>.
func c11GapChain(f *an.Func, e ast.Expr) (types.Object, []string) {
	info := f.Info()
	var names []string
	e = c11GapPeel(f, e)
	for d := 0; d < 8; d++ {
		e = ast.Unparen(e)
		switch x := e.(type) {
		case *ast.SelectorExpr:
			if s := info.Selections[x]; s == nil || s.Kind() != types.FieldVal {
				return nil, nil
			}
			names = append([]string{x.Sel.Name}, names...)
			e = x.X
			continue
		case *ast.CallExpr:
			sel, ok := ast.Unparen(x.Fun).(*ast.SelectorExpr)
			if !ok || len(x.Args) != 0 || len(sel.Sel.Name) < 4 || sel.Sel.Name[:3] != "Get" {
				return nil, nil
			}
			if s := info.Selections[sel]; s == nil || s.Kind() != types.MethodVal {
				return nil, nil
			}
			names = append([]string{sel.Sel.Name[3:]}, names...)
			e = sel.X
			continue
		case *ast.Ident:
			o := an.ObjOf(info, x)
			if _, isVar := o.(*types.Var); !isVar {
				return nil, nil
			}
			// a once-defined local holding an intermediate link of the chain
			if pe := c11GapPeel(f, x); pe != ast.Expr(x) {
				e = pe
				continue
			}
			return o, names
		}
		return nil, nil
	}
	return nil, nil
}

// c11GapNamed: the named type behind t (through one pointer) and its package
// path relative to the module.
func c11GapNamed(t types.Type) (pkg, name string) {
	if t == nil {
		return "", ""
	}
	if pt, ok := t.(*types.Pointer); ok {
		t = pt.Elem()
	}
	nt, ok := t.(*types.Named)
	if !ok || nt.Obj().Pkg() == nil {
		return "", ""
	}
	return an.Rel(nt.Obj().Pkg().Path()), nt.Obj().Name()
}

// c11GapProofKind: the call yields (*types.AccountProof | *types.ContractVarProof, error).
func c11GapProofKind(info *types.Info, call *ast.CallExpr) string {
	tv, ok := info.Types[call]
	if !ok {
		return ""
	}
	t := tv.Type
	if tup, isTup := t.(*types.Tuple); isTup {
		if tup.Len() == 0 {
			return ""
		}
		t = tup.At(0).Type()
	}
	pkg, name := c11GapNamed(t)
	if pkg == "types" && (name == "AccountProof" || name == "ContractVarProof") {
		return name
	}
	return ""
}

func c11GapInPkgs(f *an.Func) bool {
	r := an.Rel(f.Pkg.PkgPath)
	return r == c10TriePkg || r == c10StatePkg
}

// c11GapBoundVar: the local a function literal is bound to (f := func ...).
func c11GapBoundVar(lit *an.Func) types.Object {
	par := lit.Parent
	if par == nil || lit.Lit == nil {
		return nil
	}
	var bound types.Object
	ast.Inspect(par.Body, func(n ast.Node) bool {
		switch s := n.(type) {
		case *ast.AssignStmt:
			if len(s.Lhs) == len(s.Rhs) {
				for i, r := range s.Rhs {
					if ast.Unparen(r) == ast.Expr(lit.Lit) {
						bound = an.ObjOf(par.Info(), s.Lhs[i])
					}
				}
			}
		case *ast.ValueSpec:
			if len(s.Names) == len(s.Values) {
				for i, r := range s.Values {
					if ast.Unparen(r) == ast.Expr(lit.Lit) {
						bound = par.Info().Defs[s.Names[i]]
					}
				}
			}
		}
		return true
	})
	return bound
}

// c11GapCallSites: every call of G in the module (a literal: every call of the
// local it is bound to, in its parent and the parent's other literals).
func c11GapCallSites(p *an.Prog, G *an.Func) ([]an.CallSite, bool) {
	if G.Obj != nil {
		return p.CallSitesOf(map[string]bool{G.Name(): true}), true
	}
	bound := c11GapBoundVar(G)
	if bound == nil {
		return nil, false
	}
	if c11GapAssignCount(G.Parent, bound) != 1 {
		return nil, false
	}
	var out []an.CallSite
	var walk func(ff *an.Func)
	walk = func(ff *an.Func) {
		an.InspectShallow(ff.Body, func(n ast.Node) bool {
			if call, ok := n.(*ast.CallExpr); ok && an.ObjOf(ff.Info(), call.Fun) == bound {
				out = append(out, an.CallSite{Fn: ff, Call: call})
			}
			return true
		})
		for _, l := range ff.Lits {
			walk(l)
		}
	}
	walk(G.Parent)
	// the function value must not escape otherwise (passed on, stored)
	escaped := false
	var chk func(ff *an.Func)
	chk = func(ff *an.Func) {
		info := ff.Info()
		calls := map[*ast.Ident]bool{}
		an.InspectShallow(ff.Body, func(n ast.Node) bool {
			if call, ok := n.(*ast.CallExpr); ok {
				if id, isID := ast.Unparen(call.Fun).(*ast.Ident); isID {
					calls[id] = true
				}
			}
			return true
		})
		an.InspectShallow(ff.Body, func(n ast.Node) bool {
			if id, ok := n.(*ast.Ident); ok && info.Uses[id] == bound && !calls[id] {
				escaped = true
			}
			return true
		})
		for _, l := range ff.Lits {
			chk(l)
		}
	}
	chk(G.Parent)
	return out, !escaped
}

// ---------------------------------------------------------------------------
// encoding-arm

func c11GapEncodingArm(c *rep.Ctx, st *c11GapState) {
	f := c.Fn("state/statedb.(*StateDB).TrieQuery")
	if f == nil {
		return
	}
	g := f.Graph()
	info := f.Info()
	var enc types.Object
	encIdx, nb := -1, 0
	for i := 0; c10ParamAt(f, i) != nil; i++ {
		o := c10ParamAt(f, i)
		if b, ok := o.Type().Underlying().(*types.Basic); ok && b.Kind() == types.Bool {
			enc, encIdx = o, i
			nb++
		}
	}
	if nb != 1 {
		c.Undecide("encoding-arm", f.Name(), "expected exactly one bool parameter (the encoding flag)")
		return
	}
	stable := c11GapAssignCount(f, enc) == 0
	atom := func(e ast.Expr) (string, bool, bool) {
		if an.ObjOf(info, e) == enc {
			return "C", false, true
		}
		return "", false, false
	}
	for _, s := range g.Calls(func(fn *types.Func, _ *ast.CallExpr) bool {
		return fn != nil && fn.Pkg() != nil && an.Rel(fn.Pkg().Path()) == c10TriePkg
	}) {
		sig, _ := s.Fn.Type().(*types.Signature)
		if sig == nil || (sig.Results().Len() != 7 && sig.Results().Len() != 5) {
			continue
		}
		compressed := sig.Results().Len() == 7
		ok, _ := g.GuardedAt(s.Node, atom, map[string]bool{"C": compressed})
		c.Check("encoding-arm", f.Name()+"|"+an.FuncName(s.Fn), s.Call.Pos(), ok && stable, "the compressed generator (bitmap, kept nodes, height) is called exactly when the encoding flag is true, the plain generator exactly when it is false: a client that asked for one encoding cannot verify the other (VerifyInclusionC needs bitmap and height, VerifyInclusion the full audit path)")
	}
	c.Floor("encoding-arm", 4)
	st.roles[f] = map[int]string{encIdx: "enc"}
}

// ---------------------------------------------------------------------------
// arg-role

func c11GapSeed(c *rep.Ctx, st *c11GapState) {
	f := c.Fn("pkg/trie.(*Trie).merkleProof")
	if f == nil {
		return
	}
	info := f.Info()
	g := f.Graph()
	keyIdx, rootIdx := -1, -1
	ok := true
	nbits := 0
	an.InspectShallow(f.Body, func(n ast.Node) bool {
		call, isCall := n.(*ast.CallExpr)
		if !isCall || an.CalleeName(info, call) != "pkg/trie.bitIsSet" || len(call.Args) != 2 {
			return true
		}
		nbits++
		ow, i := c11GapParamOwner(f, an.ObjOf(info, call.Args[0]))
		if ow != f || (keyIdx >= 0 && keyIdx != i) {
			ok = false
			return true
		}
		keyIdx = i
		return true
	})
	loads := g.CallsTo("pkg/trie.(*Trie).loadChildren")
	if len(loads) == 1 && len(loads[0].Call.Args) > 0 {
		if ow, i := c11GapParamOwner(f, an.ObjOf(info, loads[0].Call.Args[0])); ow == f {
			rootIdx = i
		}
	}
	if !ok || nbits == 0 || keyIdx < 0 || rootIdx < 0 || keyIdx == rootIdx {
		c.Undecide("arg-role", f.Name(), "cannot tell the key parameter (walked by bitIsSet) from the root parameter (handed to loadChildren)")
		return
	}
	for _, i := range []int{keyIdx, rootIdx} {
		if c11GapAssignCount(f, c10ParamAt(f, i)) != 0 {
			c.Check("arg-role", f.Name()+"|seed", f.Pos(), false, "merkleProof reassigns its key or root parameter")
			return
		}
	}
	// the stored key is compared with the same parameter
	eq := c10KeyEqualEdges(f, g, loads[0], c10ParamAt(f, keyIdx))
	c.Check("arg-role", f.Name()+"|seed", f.Pos(), len(eq) > 0, "merkleProof walks the bits of one parameter (the key, also compared with the stored leaf key) and loads the children of another (the root)")
	st.roles[f] = map[int]string{keyIdx: "key", rootIdx: "root"}
}

func c11GapPropagate(c *rep.Ctx, st *c11GapState) {
	p := c.Prog
	rootF := p.LookupField(c10TriePkg, "Trie", "Root")
	var work []*an.Func
	for f := range st.roles {
		work = append(work, f)
	}
	sort.Slice(work, func(i, j int) bool { return work[i].Name() < work[j].Name() })
	type doneKey struct {
		call *ast.CallExpr
		idx  int
	}
	done := map[doneKey]bool{}
	for len(work) > 0 {
		G := work[0]
		work = work[1:]
		sites, closed := c11GapCallSites(p, G)
		if !closed {
			c.Undecide("arg-role", G.Name(), "a function literal that requests proofs is not bound to a single local that is only called")
			continue
		}
		idxs := []int{}
		for i := range st.roles[G] {
			idxs = append(idxs, i)
		}
		sort.Ints(idxs)
		for _, cs := range sites {
			F := cs.Fn
			if F == nil || F == G {
				continue // recursion: decided by proof-sibling
			}
			info := F.Info()
			for _, j := range idxs {
				role := st.roles[G][j]
				if done[doneKey{cs.Call, j}] || j >= len(cs.Call.Args) || cs.Call.Ellipsis.IsValid() {
					continue
				}
				done[doneKey{cs.Call, j}] = true
				construct := F.Name() + "|" + G.Name() + "|" + role
				arg := c11GapPeel(F, cs.Call.Args[j])
				o := an.ObjOf(info, arg)
				if ow, i := c11GapParamOwner(F, o); ow != nil {
					if c11GapAssignCount(ow, o) != 0 {
						c.Check("arg-role", construct, cs.Call.Pos(), false, "the "+role+" handed down is a parameter that is reassigned on the way")
						continue
					}
					if st.roles[ow] == nil {
						st.roles[ow] = map[int]string{}
					}
					prev, had := st.roles[ow][i]
					if had && prev != role {
						c.Check("arg-role", construct, cs.Call.Pos(), false, "parameter "+o.Name()+" of "+ow.Name()+" is handed down as the "+role+" here and as the "+prev+" elsewhere: key and root are both []byte and must not be exchanged")
						continue
					}
					// no second parameter of the same function in the same role
					dup := false
					for k, r := range st.roles[ow] {
						if r == role && k != i {
							dup = true
						}
					}
					if dup {
						c.Check("arg-role", construct, cs.Call.Pos(), false, "two parameters of "+ow.Name()+" are handed down as the "+role)
						continue
					}
					if !had {
						st.roles[ow][i] = role
						work = append(work, ow)
					}
					c.Check("arg-role", construct, cs.Call.Pos(), true, "the "+role+" handed to "+shortName(G.Name())+" is the caller's own "+role+" parameter ("+o.Name()+")")
					continue
				}
				if role == "root" && c11GapInPkgs(F) && rootF != nil && an.FieldOf(info, arg) == rootF {
					if sel, isSel := ast.Unparen(arg).(*ast.SelectorExpr); isSel && an.ObjOf(info, sel.X) == c11RecvObj(F) && c11RecvObj(F) != nil {
						c.Check("arg-role", construct, cs.Call.Pos(), true, "no root was given: the proof is generated against the receiver's own current Root")
						continue
					}
				}
				if c11GapInPkgs(F) {
					c.Check("arg-role", construct, cs.Call.Pos(), false, "inside the trie / statedb the "+role+" of a proof request must be handed down unchanged (the function's own "+role+" parameter); found "+an.ExprString(cs.Call.Args[j]))
					continue
				}
				st.sources = append(st.sources, c11GapSource{F, cs.Call, G, j, role})
			}
		}
	}
	c.Floor("arg-role", 20)
}

// ---------------------------------------------------------------------------
// sources: proof-label, proof-delivered, root-source, var-root, enc-source

type c11GapEscape struct {
	node *an.Node
	pos  token.Pos
	into types.Object // x = append(x, res): x
}

// c11GapEscapes: uses of res as a value (returned, appended, stored, passed),
// i.e. everything but res.f, res.m() and comparisons with nil.
func c11GapEscapes(f *an.Func, res types.Object) []c11GapEscape {
	info := f.Info()
	g := f.Graph()
	var out []c11GapEscape
	var stack []ast.Node
	ast.Inspect(f.Body, func(n ast.Node) bool {
		if n == nil {
			stack = stack[:len(stack)-1]
			return true
		}
		stack = append(stack, n)
		id, ok := n.(*ast.Ident)
		if !ok || info.Uses[id] != res {
			return true
		}
		var par ast.Node
		for i := len(stack) - 2; i >= 0; i-- {
			if _, isParen := stack[i].(*ast.ParenExpr); !isParen {
				par = stack[i]
				break
			}
		}
		switch x := par.(type) {
		case *ast.SelectorExpr:
			if ast.Unparen(x.X) == ast.Expr(id) {
				return true
			}
		case *ast.BinaryExpr:
			if x.Op == token.EQL || x.Op == token.NEQ {
				return true
			}
		case *ast.AssignStmt:
			for _, l := range x.Lhs {
				if ast.Unparen(l) == ast.Expr(id) {
					return true
				}
			}
		}
		e := c11GapEscape{node: g.NodeContaining(id.Pos()), pos: id.Pos()}
		// x = append(x, res)
		for i := len(stack) - 2; i >= 0; i-- {
			if as, isAs := stack[i].(*ast.AssignStmt); isAs && len(as.Lhs) == 1 && len(as.Rhs) == 1 {
				if ap, isCall := ast.Unparen(as.Rhs[0]).(*ast.CallExpr); isCall && an.IsBuiltin(info, ap, "append") {
					e.into = an.ObjOf(info, as.Lhs[0])
				}
			}
		}
		out = append(out, e)
		return true
	})
	return out
}

// c11GapContentTest: cond reads res other than comparing it with nil.
func c11GapContentTest(info *types.Info, cond ast.Expr, res types.Object) bool {
	found := false
	var stack []ast.Node
	ast.Inspect(cond, func(n ast.Node) bool {
		if n == nil {
			stack = stack[:len(stack)-1]
			return true
		}
		stack = append(stack, n)
		id, ok := n.(*ast.Ident)
		if !ok || info.Uses[id] != res {
			return true
		}
		for i := len(stack) - 2; i >= 0; i-- {
			if _, isParen := stack[i].(*ast.ParenExpr); isParen {
				continue
			}
			if be, isBin := stack[i].(*ast.BinaryExpr); isBin && (be.Op == token.EQL || be.Op == token.NEQ) {
				tx, hx := info.Types[be.X]
				ty, hy := info.Types[be.Y]
				if (hx && tx.IsNil()) || (hy && ty.IsNil()) {
					return true
				}
			}
			break
		}
		found = true
		return true
	})
	return found
}

func c11GapSiteOf(f *an.Func, call *ast.CallExpr) (an.Site, bool) {
	g := f.Graph()
	if g == nil {
		return an.Site{}, false
	}
	n := g.NodeContaining(call.Pos())
	if n == nil {
		return an.Site{}, false
	}
	return an.Site{Node: n, Call: call, Fn: an.Callee(f.Info(), call)}, true
}

func c11GapSources(c *rep.Ctx, st *c11GapState) {
	p := c.Prog
	type group struct {
		fn     *an.Func
		call   *ast.CallExpr
		callee *an.Func
		by     map[string]int // role -> arg index
	}
	groups := map[*ast.CallExpr]*group{}
	var order []*group
	for _, s := range st.sources {
		gr := groups[s.call]
		if gr == nil {
			gr = &group{s.fn, s.call, s.callee, map[string]int{}}
			groups[s.call] = gr
			order = append(order, gr)
		}
		gr.by[s.role] = s.idx
	}
	sort.Slice(order, func(i, j int) bool { return order[i].call.Pos() < order[j].call.Pos() })

	// msgField: e is <request>.<field> where the request is a message of
	// types/message; returns the base variable.
	msgField := func(f *an.Func, e ast.Expr, field string) (types.Object, bool) {
		base, names := c11GapChain(f, e)
		if base == nil || len(names) != 1 || names[0] != field {
			return nil, false
		}
		pkg, _ := c11GapNamed(base.Type())
		return base, pkg == "types/message"
	}

	for _, gr := range order {
		F := gr.fn
		info := F.Info()
		g := F.Graph()
		kind := c11GapProofKind(info, gr.call)
		construct := F.Name() + "|" + gr.callee.Name()
		if kind == "" || g == nil {
			c.Undecide("proof-label", construct, "a call that requests a proof does not yield *types.AccountProof / *types.ContractVarProof")
			continue
		}
		site, okSite := c11GapSiteOf(F, gr.call)
		if !okSite {
			c.Undecide("proof-label", construct, "call not found in the control-flow graph")
			continue
		}
		internalWhy, internal := c11GapInternal[F.TopDecl().Name()]
		res := g.ResultVarAt(site, 0)
		var escapes []c11GapEscape
		if res != nil {
			escapes = c11GapEscapes(F, res)
		}

		// ---- key
		if j, has := gr.by["key"]; has {
			switch {
			case res == nil:
				c.Undecide("proof-label", construct, "the proof is not bound to a variable")
			case len(escapes) == 0:
				c.CheckTrivial("proof-label", construct, gr.call.Pos(), true, "the proof does not leave "+F.Name()+" (only its fields are read): no label needed")
			default:
				c11GapLabel(c, F, gr.call, site, kind, j, res, escapes, construct)
			}
		}
		// ---- delivery
		if res != nil && len(escapes) > 0 {
			bad := token.NoPos
			for _, e := range escapes {
				if e.node == nil {
					continue
				}
				for _, ft := range g.FactsAt(e.node) {
					if c11GapContentTest(info, ft.Cond, res) {
						bad = ft.Cond.Pos()
					}
				}
			}
			msg := "the proof is handed on (" + itoa(len(escapes)) + " places) independently of its content: a proof of absence is delivered like a proof of presence"
			if bad.IsValid() {
				msg = "handing the proof on depends on a test of the proof itself (" + p.Pos(bad) + "): the node must deliver proofs of absence as well as proofs of presence"
			}
			c.Check("proof-delivered", construct, gr.call.Pos(), !bad.IsValid(), msg)
		}
		// ---- root
		var rootBase types.Object
		if j, has := gr.by["root"]; has {
			arg := gr.call.Args[j]
			if kind == "AccountProof" {
				base, isMsg := msgField(F, arg, "Root")
				rootBase = base
				switch {
				case isMsg:
					c.Check("root-source", construct, arg.Pos(), true, "the account proof is generated against the Root field of the request being answered ("+base.Name()+".Root; empty = latest)")
				case internal:
					_, names := c11GapChain(F, arg)
					ok := len(names) > 0 && names[len(names)-1] == "BlocksRootHash"
					c.Check("root-source", construct, arg.Pos(), ok, "internal consumer ("+internalWhy+"): the root is a block header's BlocksRootHash")
				default:
					c.Check("root-source", construct, arg.Pos(), false, "the root an account proof for a client is generated against must be the Root field of the request; found "+an.ExprString(arg)+": the client verifies against the root it asked for")
				}
			} else {
				c11GapVarRoot(c, st, F, gr.call, site, arg, res, escapes, construct)
			}
		}
		// ---- encoding
		if j, has := gr.by["enc"]; has {
			arg := gr.call.Args[j]
			base, isMsg := msgField(F, arg, "Compressed")
			tv, hasT := info.Types[arg]
			switch {
			case isMsg:
				same := rootBase == nil || rootBase == base
				c.Check("enc-source", construct, arg.Pos(), same, "the encoding of the proof is the Compressed field of the request being answered (the same request the root is taken from)")
			case internal && hasT && tv.Value != nil:
				c.CheckTrivial("enc-source", construct, arg.Pos(), true, "internal consumer ("+internalWhy+")")
			default:
				c.Check("enc-source", construct, arg.Pos(), false, "the encoding of a proof for a client must be the Compressed field of the request; found "+an.ExprString(arg))
			}
		}
	}
	c.Floor("proof-label", 3)
	c.Floor("proof-delivered", 2)
	c.Floor("root-source", 3)
	c.Floor("var-root", 2)
	c.Floor("enc-source", 4)
}

// c11GapLabel: res.Key = <the value the trie key was derived from>.
func c11GapLabel(c *rep.Ctx, F *an.Func, call *ast.CallExpr, site an.Site, kind string, j int, res types.Object, escapes []c11GapEscape, construct string) {
	p := c.Prog
	info := F.Info()
	g := F.Graph()
	keyF := p.LookupField("types", kind, "Key")
	if keyF == nil {
		c.Undecide("proof-label", construct, "types."+kind+".Key not found")
		return
	}
	// the value the trie key is derived from
	keyArg := c11GapPeel(F, call.Args[j])
	var pre ast.Expr
	hashed := false
	if se, ok := keyArg.(*ast.SliceExpr); ok && se.Low == nil && se.High == nil && !se.Slice3 {
		inner := c11GapPeel(F, se.X)
		if hc, isCall := inner.(*ast.CallExpr); isCall && c11GapHashers[an.CalleeName(info, hc)] && len(hc.Args) == 1 {
			pre, hashed = hc.Args[0], true
		}
	}
	if !hashed {
		pre = keyArg
	}
	if kind == "AccountProof" && !hashed {
		c.Undecide("proof-label", construct, "the trie key of an account proof is not the whole of types.ToAccountID(x): derivation not recognised ("+an.ExprString(call.Args[j])+")")
		return
	}
	if kind == "ContractVarProof" && hashed {
		c.Check("proof-label", construct, call.Pos(), false, "the trie key of a contract variable proof is derived with the account hash")
		return
	}
	kObj, kStable := c11GapCanon(F, pre)
	if kObj == nil {
		c.Undecide("proof-label", construct, "the value the trie key is derived from is not a variable: "+an.ExprString(pre))
		return
	}
	// the labels
	type lab struct {
		node *an.Node
		rhs  ast.Expr
	}
	var labs []lab
	for _, n := range g.Nodes {
		as, ok := n.Ast.(*ast.AssignStmt)
		if n.Kind != an.KStmt || !ok || len(as.Lhs) != len(as.Rhs) {
			continue
		}
		for i, l := range as.Lhs {
			sel, isSel := ast.Unparen(l).(*ast.SelectorExpr)
			if isSel && an.FieldOf(info, sel) == keyF && an.ObjOf(info, sel.X) == res {
				labs = append(labs, lab{n, as.Rhs[i]})
			}
		}
	}
	what := map[string]string{
		"AccountProof":     "the address the account id was hashed from (the argument of types.ToAccountID): a light client recomputes the trie key as the hash of proof.Key",
		"ContractVarProof": "the trie key the proof was requested for (storage keys arrive already hashed)",
	}[kind]
	if len(labs) == 0 {
		// moved into the assembler?
		moved := false
		for _, fn := range []string{"state/statedb.(*StateDB).GetAccountAndProof", "state/statedb.(*StateDB).GetVarAndProof"} {
			if sf := p.Func(fn); sf != nil {
				an.InspectShallow(sf.Body, func(n ast.Node) bool {
					if kv, ok := n.(*ast.KeyValueExpr); ok {
						if id, isID := kv.Key.(*ast.Ident); isID && sf.Info().Uses[id] == keyF {
							moved = true
						}
					}
					return true
				})
			}
		}
		if moved {
			c.Undecide("proof-label", construct, "the Key field is now filled by the statedb assembler: idiom not recognised")
			return
		}
		c.Check("proof-label", construct, call.Pos(), false, "the proof leaves "+F.Name()+" without a Key: the client cannot tell which key the audit path proves; it must be "+what)
		return
	}
	ok := kStable
	why := ""
	if !kStable {
		why = "the hashed value is reassigned"
	}
	set := an.Set{}
	for _, l := range labs {
		set[l.node] = true
		o, stable := c11GapCanon(F, l.rhs)
		if o != kObj || !stable {
			ok = false
			why = "Key is set to " + an.ExprString(l.rhs) + " but the trie key was derived from " + kObj.Name()
		}
		if !g.Reachable(site.Node, l.node) {
			ok = false
			why = "Key is set before the proof is requested"
		}
	}
	// the proof is a pointer: a label set after the hand-over on every path
	// (before the function returns / the loop goes on) labels it as well
	for _, e := range escapes {
		if e.node == nil || !(g.Dominated(e.node, set) || g.PostDominated(e.node, set)) {
			ok = false
			if why == "" {
				why = "the proof can be handed on (" + p.Pos(e.pos) + ") without passing the Key assignment"
			}
		}
	}
	msg := "the proof handed on is labelled with " + what
	if !ok {
		msg += " — NOT established: " + why
	}
	c.Check("proof-label", construct, call.Pos(), ok, msg)
}

// c11GapVarRoot: the root of a contract variable proof.
func c11GapVarRoot(c *rep.Ctx, st *c11GapState, F *an.Func, call *ast.CallExpr, site an.Site, arg ast.Expr, res types.Object, escapes []c11GapEscape, construct string) {
	info := F.Info()
	g := F.Graph()
	P, names := c11GapChain(F, arg)
	if P == nil || len(names) != 2 || names[0] != "State" || names[1] != "StorageRoot" {
		c.Check("var-root", construct, arg.Pos(), false, "a contract variable proof must be generated against <account proof>.State.StorageRoot (the storage root authenticated by the contract's account proof); found "+an.ExprString(c11GapPeel(F, arg)))
		return
	}
	pkg, name := c11GapNamed(P.Type())
	if pkg != "types" || name != "AccountProof" {
		c.Check("var-root", construct, arg.Pos(), false, "the storage root is not taken from a types.AccountProof")
		return
	}
	// P is the result of a proof request in this function
	rhs, idx := g.SingleDef(P)
	pcall, isCall := ast.Unparen(rhs).(*ast.CallExpr)
	if rhs == nil || idx != 0 || !isCall || c11GapProofKind(info, pcall) != "AccountProof" || c11GapAssignCount(F, P) != 1 {
		c.Check("var-root", construct, arg.Pos(), false, "the account proof the storage root is read from is not the single result of an account proof request in this function")
		return
	}
	// used only when the account proof shows inclusion
	atom := func(e ast.Expr) (string, bool, bool) {
		b, ns := c11GapChain(F, e)
		if b == P && len(ns) == 1 && ns[0] == "Inclusion" {
			return "I", false, true
		}
		return "", false, false
	}
	inc, _ := g.GuardedAt(site.Node, atom, map[string]bool{"I": true})
	c.Check("var-root", construct, arg.Pos(), inc, "the variable proof is generated against the StorageRoot of the state proven by the account proof "+P.Name()+", and only when that proof shows inclusion (an absent contract has no state: an empty root would make TrieQuery answer from the ACCOUNT trie)")

	// same encoding as the account proof
	if rs := st.roles; rs != nil {
		var pf *an.Func
		if fn := an.Callee(info, pcall); fn != nil {
			pf = c.Prog.FuncOf(fn)
		} else if v := an.ObjOf(info, pcall.Fun); v != nil {
			for lit, r := range rs {
				if lit.Lit != nil && r != nil && c11GapBoundVar(lit) == v {
					pf = lit
				}
			}
		}
		var callee *an.Func
		if fn := an.Callee(info, call); fn != nil {
			callee = c.Prog.FuncOf(fn)
		}
		if pf != nil && callee != nil {
			pe, ve := -1, -1
			for i, r := range rs[pf] {
				if r == "enc" {
					pe = i
				}
			}
			for i, r := range rs[callee] {
				if r == "enc" {
					ve = i
				}
			}
			if pe >= 0 && ve >= 0 && pe < len(pcall.Args) && ve < len(call.Args) {
				b1, n1 := c11GapChain(F, pcall.Args[pe])
				b2, n2 := c11GapChain(F, call.Args[ve])
				tv1, h1 := info.Types[pcall.Args[pe]]
				tv2, h2 := info.Types[call.Args[ve]]
				same := b1 != nil && b1 == b2 && len(n1) == len(n2) && len(n1) == 1 && n1[0] == n2[0]
				if !same && h1 && h2 && tv1.Value != nil && tv2.Value != nil && tv1.Value.ExactString() == tv2.Value.ExactString() {
					same = true
				}
				c.Check("enc-source", construct+"|agrees", call.Pos(), same, "the variable proofs use the same encoding flag as the account proof of the same response")
			}
		}
	}
	// the response pairs the variable proofs with that account proof
	if res == nil {
		return
	}
	var list types.Object
	for _, e := range escapes {
		if e.into != nil {
			list = e.into
		}
	}
	an.InspectShallow(F.Body, func(n ast.Node) bool {
		cl, ok := n.(*ast.CompositeLit)
		if !ok {
			return true
		}
		tv, has := info.Types[cl]
		if !has {
			return true
		}
		if pk, nm := c11GapNamed(tv.Type); pk != "types" || nm != "StateQueryProof" {
			return true
		}
		var cp, vp ast.Expr
		for _, el := range cl.Elts {
			if kv, isKV := el.(*ast.KeyValueExpr); isKV {
				if id, isID := kv.Key.(*ast.Ident); isID {
					switch id.Name {
					case "ContractProof":
						cp = kv.Value
					case "VarProofs":
						vp = kv.Value
					}
				}
			}
		}
		ok = cp != nil && vp != nil
		if ok {
			o1, _ := c11GapCanon(F, cp)
			o2, _ := c11GapCanon(F, vp)
			ok = o1 == P && list != nil && o2 == list
		}
		c.Check("var-root", construct+"|response", cl.Pos(), ok, "the StateQueryProof carries the account proof whose StorageRoot the variable proofs were generated against, and the list those proofs were appended to: the client chains variable proof -> storage root -> account proof -> state root")
		return true
	})
}

// ---------------------------------------------------------------------------
// rpc-forward

func c11GapRPCForward(c *rep.Ctx) {
	p := c.Prog
	for _, T := range []string{"GetStateAndProof", "GetStateQuery"} {
		stt := p.LookupStruct("types/message", T)
		if stt == nil {
			c.Undecide("rpc-forward", "types/message."+T, "message struct not found")
			continue
		}
		n := 0
		for _, f := range c10AllFuncs(p) {
			info := f.Info()
			an.InspectShallow(f.Body, func(x ast.Node) bool {
				cl, ok := x.(*ast.CompositeLit)
				if !ok {
					return true
				}
				tv, has := info.Types[cl]
				if !has {
					return true
				}
				if pk, nm := c11GapNamed(tv.Type); pk != "types/message" || nm != T {
					return true
				}
				n++
				set := map[string]ast.Expr{}
				keyed := true
				for _, el := range cl.Elts {
					kv, isKV := el.(*ast.KeyValueExpr)
					if !isKV {
						keyed = false
						continue
					}
					if id, isID := kv.Key.(*ast.Ident); isID {
						set[id.Name] = kv.Value
					}
				}
				if !keyed {
					c.Undecide("rpc-forward", f.Name()+"|"+T, "unkeyed literal of the request message")
					return true
				}
				var base0 types.Object
				for i := 0; i < stt.NumFields(); i++ {
					fld := stt.Field(i)
					construct := f.Name() + "|" + T + "." + fld.Name()
					v := set[fld.Name()]
					if v == nil {
						c.Check("rpc-forward", construct, cl.Pos(), false, "the request field "+fld.Name()+" is not copied into the message for the chain service: the proof is generated for the zero value (latest root / plain encoding / no key) instead of what the client asked for")
						continue
					}
					base, names := c11GapChain(f, v)
					ok := base != nil && len(names) == 1 && names[0] == fld.Name()
					if ok {
						if ow, _ := c11GapParamOwner(f, base); ow == nil || c11GapAssignCount(ow, base) != 0 {
							ok = false
						}
						if base0 == nil {
							base0 = base
						} else if base0 != base {
							ok = false
						}
					}
					c.Check("rpc-forward", construct, v.Pos(), ok, "the message field "+fld.Name()+" is the same-named field of the RPC request parameter")
				}
				return true
			})
		}
		if n == 0 {
			c.Undecide("rpc-forward", "types/message."+T, "no literal of the request message found")
		}
	}
	c.Floor("rpc-forward", 7)
}

// ---------------------------------------------------------------------------
// sibling-guard, descent-slot, generator-start

// c11GapLenAtom: len(o) != 0 (and equivalent spellings) as atom "N".
func c11GapLenAtom(info *types.Info, o types.Object) func(ast.Expr) (string, bool, bool) {
	return func(e ast.Expr) (string, bool, bool) {
		be, ok := ast.Unparen(e).(*ast.BinaryExpr)
		if !ok {
			return "", false, false
		}
		x, y, op := be.X, be.Y, be.Op
		if _, isC := c10ConstInt(info, x); isC {
			x, y, op = y, x, flipOpTok(op)
		}
		lc, isCall := ast.Unparen(x).(*ast.CallExpr)
		cv, isC := c10ConstInt(info, y)
		if !isCall || !isC || !an.IsBuiltin(info, lc, "len") || len(lc.Args) != 1 || an.ObjOf(info, lc.Args[0]) != o || o == nil {
			return "", false, false
		}
		switch {
		case cv == 0 && (op == token.NEQ || op == token.GTR), cv == 1 && op == token.GEQ:
			return "N", false, true
		case cv == 0 && (op == token.EQL || op == token.LEQ), cv == 1 && op == token.LSS:
			return "N", true, true
		}
		return "", false, false
	}
}

func c11GapSiblingGuard(c *rep.Ctx) {
	p := c.Prog
	f := c.Fn("pkg/trie.(*Trie).merkleProof")
	defLeaf := p.LookupObj(c10TriePkg, "DefaultLeaf")
	if f == nil || defLeaf == nil {
		return
	}
	g := f.Graph()
	info := f.Info()
	loads := g.CallsTo("pkg/trie.(*Trie).loadChildren")
	if len(loads) != 1 {
		c.Undecide("sibling-guard", f.Name(), "loadChildren call not found")
		return
	}
	lnode, rnode := g.ResultVarAt(loads[0], 2), g.ResultVarAt(loads[0], 3)
	if lnode == nil || rnode == nil {
		c.Undecide("sibling-guard", f.Name(), "child variables not found")
		return
	}
	for i, s := range g.CallsTo("pkg/trie.(*Trie).merkleProof") {
		var other types.Object
		switch an.ObjOf(info, s.Call.Args[0]) {
		case rnode:
			other = lnode
		case lnode:
			other = rnode
		default:
			continue // reported by proof-sibling
		}
		atom := c11GapLenAtom(info, other)
		for _, r := range g.Returns() {
			rs := r.Ast.(*ast.ReturnStmt)
			if len(rs.Results) != 5 || !g.Dominated(r, an.SetOf(s.Node)) {
				continue
			}
			ap, isApp := ast.Unparen(rs.Results[0]).(*ast.CallExpr)
			if !isApp || !an.IsBuiltin(info, ap, "append") || len(ap.Args) != 2 {
				continue
			}
			sib := c10RootObj(info, ap.Args[1])
			kind, want := "", false
			switch sib {
			case other:
				kind, want = "hash", true
			case defLeaf:
				kind, want = "default", false
			default:
				continue // reported by proof-sibling
			}
			ok, _ := g.GuardedAt(r, atom, map[string]bool{"N": want})
			c.Check("sibling-guard", f.Name()+"|descend#"+itoa(i+1)+"|"+kind, rs.Pos(), ok, "the audit path gets the other child's hash exactly when that child is non-empty (len(other) != 0) and DefaultLeaf exactly when it is empty: the verifier hashes exactly these values")
		}
	}
	c.Floor("sibling-guard", 4)
}

// c11GapTwoIK decodes 2*i+k.
func c11GapTwoIK(info *types.Info, e ast.Expr) (types.Object, int64, bool) {
	be, ok := ast.Unparen(e).(*ast.BinaryExpr)
	if !ok || be.Op != token.ADD {
		return nil, 0, false
	}
	x, y := be.X, be.Y
	if _, isC := c10ConstInt(info, x); isC {
		x, y = y, x
	}
	k, isC := c10ConstInt(info, y)
	mul, isMul := ast.Unparen(x).(*ast.BinaryExpr)
	if !isC || !isMul || mul.Op != token.MUL {
		return nil, 0, false
	}
	var iv ast.Expr
	if two, is2 := c10ConstInt(info, mul.X); is2 && two == 2 {
		iv = mul.Y
	} else if two, is2 := c10ConstInt(info, mul.Y); is2 && two == 2 {
		iv = mul.X
	} else {
		return nil, 0, false
	}
	o := an.ObjOf(info, iv)
	return o, k, o != nil
}

func c11GapDescentSlot(c *rep.Ctx) {
	f := c.Fn("pkg/trie.(*Trie).merkleProof")
	lc := c.Fn("pkg/trie.(*Trie).loadChildren")
	if f == nil || lc == nil {
		return
	}
	// the slots loadChildren returns the children from
	linfo := lc.Info()
	var kL, kR int64 = -1, -1
	slotsOK := true
	nret := 0
	for _, r := range lc.Graph().Returns() {
		rs := r.Ast.(*ast.ReturnStmt)
		if len(rs.Results) != 6 {
			continue
		}
		if tv, has := linfo.Types[rs.Results[5]]; !has || !tv.IsNil() {
			continue
		}
		nret++
		b1, i1, k1, ok1 := c10BatchSlot(linfo, rs.Results[2])
		b2, i2, k2, ok2 := c10BatchSlot(linfo, rs.Results[3])
		if !ok1 || !ok2 || b1 != b2 || i1 != i2 || b1 != an.ObjOf(linfo, rs.Results[0]) || i1 != an.ObjOf(linfo, rs.Results[1]) {
			slotsOK = false
			continue
		}
		if (kL >= 0 && kL != k1) || (kR >= 0 && kR != k2) {
			slotsOK = false
		}
		kL, kR = k1, k2
	}
	if !slotsOK || nret == 0 || kL == kR {
		c.Undecide("descent-slot", lc.Name(), "loadChildren does not return (batch, i, batch[2*i+a], batch[2*i+b], ...) in a recognised form")
		return
	}
	g := f.Graph()
	info := f.Info()
	loads := g.CallsTo("pkg/trie.(*Trie).loadChildren")
	if len(loads) != 1 {
		c.Undecide("descent-slot", f.Name(), "loadChildren call not found")
		return
	}
	batch, ib := g.ResultVarAt(loads[0], 0), g.ResultVarAt(loads[0], 1)
	lnode, rnode := g.ResultVarAt(loads[0], 2), g.ResultVarAt(loads[0], 3)
	for i, s := range g.CallsTo("pkg/trie.(*Trie).merkleProof") {
		if len(s.Call.Args) != 5 {
			continue
		}
		var want int64
		switch an.ObjOf(info, s.Call.Args[0]) {
		case lnode:
			want = kL
		case rnode:
			want = kR
		default:
			continue
		}
		io, k, ok := c11GapTwoIK(info, s.Call.Args[4])
		ok = ok && io == ib && ib != nil && k == want && an.ObjOf(info, s.Call.Args[2]) == batch && batch != nil
		// batch / index not reassigned between the load and the descent
		for m := range g.Between(loads[0].Node, s.Node) {
			if m.Kind == an.KStmt && m != loads[0].Node && (an.Assigns(info, m.Ast, ib) || an.Assigns(info, m.Ast, batch)) {
				ok = false
			}
		}
		c.Check("descent-slot", f.Name()+"|descend#"+itoa(i+1), s.Call.Pos(), ok, "merkleProof descends into a child with the batch loadChildren returned and the index 2*i+"+itoa64(want)+" of the slot that child was read from (loadChildren returns batch[2*i+"+itoa64(kL)+"], batch[2*i+"+itoa64(kR)+"]): inside a batch the child's own children are found by this index")
	}
	c.Floor("descent-slot", 2)
}

func c11GapGeneratorStart(c *rep.Ctx) {
	p := c.Prog
	G := c.Fn("pkg/trie.(*Trie).merkleProof")
	heightF := p.LookupField(c10TriePkg, "Trie", "TrieHeight")
	if G == nil || heightF == nil {
		return
	}
	// which parameter is the height: TrieHeight - <param> is the bit walked
	ginfo := G.Info()
	hIdx := -1
	an.InspectShallow(G.Body, func(n ast.Node) bool {
		call, ok := n.(*ast.CallExpr)
		if !ok || an.CalleeName(ginfo, call) != "pkg/trie.bitIsSet" || len(call.Args) != 2 {
			return true
		}
		if be, isBin := ast.Unparen(call.Args[1]).(*ast.BinaryExpr); isBin && be.Op == token.SUB && an.FieldOf(ginfo, be.X) == heightF {
			if ow, i := c11GapParamOwner(G, an.ObjOf(ginfo, be.Y)); ow == G {
				hIdx = i
			}
		}
		return true
	})
	if hIdx < 0 || hIdx+1 >= 5 || hIdx < 1 {
		c.Undecide("generator-start", G.Name(), "height parameter (bitIsSet(key, TrieHeight-height)) not found")
		return
	}
	sites, _ := c11GapCallSites(p, G)
	for _, cs := range sites {
		if cs.Fn == nil || cs.Fn == G || len(cs.Call.Args) != 5 {
			continue
		}
		F := cs.Fn
		info := F.Info()
		h := c11GapPeel(F, cs.Call.Args[hIdx])
		ok := an.FieldOf(info, h) == heightF
		if sel, isSel := ast.Unparen(h).(*ast.SelectorExpr); !isSel || an.ObjOf(info, sel.X) != c11RecvObj(F) || c11RecvObj(F) == nil {
			ok = false
		}
		if v, isC := c10ConstInt(info, cs.Call.Args[hIdx+1]); !isC || v != 0 {
			ok = false
		}
		if tv, has := info.Types[cs.Call.Args[hIdx-1]]; !has || !tv.IsNil() {
			ok = false
		}
		c.Check("generator-start", F.Name(), cs.Call.Pos(), ok, "a proof starts at the root level: height = the receiver's TrieHeight (bit TrieHeight-height = 0 of the key, a batch boundary), batch index 0, no batch loaded")
	}
	c.Floor("generator-start", 3)
}

// ---------------------------------------------------------------------------
// sibling-index

func c11GapLinEq(a, b linForm) bool {
	if len(a) != len(b) {
		return false
	}
	for k, v := range a {
		if b[k] != v {
			return false
		}
	}
	return true
}

func c11GapSiblingIndex(c *rep.Ctx) {
	for _, spec := range []struct {
		fn                     string
		ap, level, cursor, len int // parameter indexes: audit path, keyIndex, cursor into ap, explicit length (-1: len(ap))
		bitmap                 int
	}{
		{"pkg/trie.(*Trie).verifyInclusion", 0, 1, 1, -1, -1},
		{"pkg/trie.(*Trie).verifyInclusionC", 3, 5, 6, 4, 0},
	} {
		f := c.Fn(spec.fn)
		if f == nil {
			continue
		}
		info := f.Info()
		ap, level, cursor := c10ParamAt(f, spec.ap), c10ParamAt(f, spec.level), c10ParamAt(f, spec.cursor)
		if ap == nil || level == nil || cursor == nil {
			c.Undecide("sibling-index", spec.fn, "parameters not found")
			continue
		}
		wantAP := linForm{"len(" + ap.Name() + ")": 1, cursor.Name(): -1, "1": -1}
		n, nb := 0, 0
		an.InspectShallow(f.Body, func(x ast.Node) bool {
			switch e := x.(type) {
			case *ast.IndexExpr:
				if an.ObjOf(info, e.X) != ap {
					return true
				}
				n++
				lf, ok := linOf(info, e.Index)
				c.Check("sibling-index", spec.fn+"|ap#"+itoa(n), e.Pos(), ok && c11GapLinEq(lf, wantAP), "the sibling for cursor "+cursor.Name()+" (0 = root level) is read at "+wantAP.String()+": merkleProof appends the sibling after the recursive call, so the root-level sibling is the last element")
			case *ast.CallExpr:
				if spec.bitmap < 0 || an.CalleeName(info, e) != "pkg/trie.bitIsSet" || len(e.Args) != 2 || an.ObjOf(info, e.Args[0]) != c10ParamAt(f, spec.bitmap) {
					return true
				}
				nb++
				ln := c10ParamAt(f, spec.len)
				want := linForm{ln.Name(): 1, level.Name(): -1, "1": -1}
				lf, ok := linOf(info, e.Args[1])
				c.Check("sibling-index", spec.fn+"|bitmap#"+itoa(nb), e.Pos(), ok && c11GapLinEq(lf, want), "the bitmap bit of level "+level.Name()+" is "+want.String()+": merkleProofCompressed sets bit i for element i of the full audit path, whose last element is the root-level sibling")
			}
			return true
		})
	}
	c.Floor("sibling-index", 6)
}
