package props

import (
	"go/ast"
	"go/token"
	"go/types"
	"strings"

	"verif/checker/internal/an"
	"verif/checker/internal/rep"
)

// C08 — DPoS finality: the irreversible block is never undone.
//
// Decided clauses: the two veto gates (blocks numbered at or below the LIB are
// refused before anything else happens; a reorganisation whose fork point is
// below the LIB is refused) with the exact, complementary operators; the
// closed writer set of the LIB; the confirmation threshold and LIB index
// expressions; the consensus status rides in the transaction that moves the
// tip and is rebuilt from blocks on load.

func init() { register("C08", runC08) }

func runC08(c *rep.Ctx) {
	c.Explain = "Decides the structural guards of finality on all control-flow paths: ChainService.addBlockInternal consults VerifyTimestamp before it touches the chain DB, the bad-block cache or the orphan pool; DPoS.VerifyTimestamp refuses exactly the blocks with number <= LIB number (ordering abstraction of the comparison, diagnostic nil-status atom at its production value) and Status.NeedReorganization allows exactly fork points >= LIB number - the two operators partition consistently; the LIB field is written only by updateLIB (called only with the non-nil result of libStatus.update under the status lock), the constructor and the boot loader's forced reset; the confirmation threshold is the expression 2n/3+1 and the LIB is element (len-1)/3 of the proposals sorted ascending by block number; the consensus status is saved through the writer of the transaction that moves the tip and reloaded from the stored blocks. It does not decide the quorum arithmetic over histories, monotonicity of the LIB value or agreement between nodes."
	c.NotDecided = []string{"monotonicity of the LIB value over histories", "that the LIB lies on the main chain (needs block histories)", "agreement between correct nodes under < 1/3 faults", "equality of the restored status with a recomputation"}
	c.Assume = []string{"`dpos.Status != nil` holds in production (the nil case exists for tests)"}
	c08BlockGate(c)
	c08ReorgGate(c)
	c08LibWriters(c)
	c08Formulas(c)
	c08Persistence(c)
}

func c08BlockGate(c *rep.Ctx) {
	// addBlockInternal: VerifyTimestamp first
	if f := c.Fn("chain.(*ChainService).addBlockInternal"); f != nil {
		g := f.Graph()
		vt := boolGate(c, f, true, "consensus.(ChainConsensus).VerifyTimestamp")
		var targets []an.Site
		for _, s := range g.Calls(nil) {
			if s.Fn == nil {
				continue
			}
			n := an.FuncName(s.Fn)
			if strings.HasPrefix(n, "chain.") || strings.HasPrefix(n, "consensus.") {
				if n == "consensus.(ChainConsensus).VerifyTimestamp" {
					continue
				}
				targets = append(targets, s)
			}
		}
		if len(targets) < 6 {
			c.Undecide("block-gate", "chain.(*ChainService).addBlockInternal", "fewer chain/consensus calls than on the reference tree")
		}
		mustPrecede(c, "block-gate", f, vt, targets, nil, "a block is looked at (best block, fork check, signature, orphan pool, chain processing) only after the consensus accepted its timestamp and number (not at or below the irreversible block)")
		// the argument is the block being added
		for _, s := range vt.sites {
			c.Check("block-gate", "chain.(*ChainService).addBlockInternal|VerifyTimestamp(arg)", s.Call.Pos(), argIs(f.Info(), s.Call, 0, f.ParamObj(0)), "the gate examines the block that is being added")
		}
		c.Floor("block-gate", 7)
	}
	// DPoS.VerifyTimestamp: blockNo <= libNo -> false
	if f := c.Fn("consensus/impl/dpos.(*DPoS).VerifyTimestamp"); f != nil {
		g := f.Graph()
		info := f.Info()
		blk := f.ParamObj(0)
		roleNo := func(e ast.Expr) bool {
			call, ok := ast.Unparen(e).(*ast.CallExpr)
			return ok && an.CalleeName(info, call) == "types.(*Block).BlockNo" && recvObj(info, call) == blk
		}
		roleLib := func(e ast.Expr) bool {
			call, ok := ast.Unparen(e).(*ast.CallExpr)
			return ok && (an.CalleeName(info, call) == "consensus/impl/dpos.(*Status).libNo")
		}
		cmps, und := g.OrdCmps(roleNo, roleLib, 0)
		status := func(e ast.Expr) (string, bool, bool) {
			// dpos.Status != nil
			be, ok := e.(*ast.BinaryExpr)
			if !ok || (be.Op != token.NEQ && be.Op != token.EQL) {
				return "", false, false
			}
			if tv, has := info.Types[be.Y]; has && tv.IsNil() {
				if f := an.FieldOf(info, be.X); f != nil && f.Name() == "Status" {
					return "hasStatus", be.Op == token.EQL, true
				}
			}
			return "", false, false
		}
		ok := len(cmps) == 1 && len(und) == 0
		var pos token.Pos
		if ok {
			pos = cmps[0].Expr.Pos()
			trues, falses := g.BoolReturns(true), g.BoolReturns(false)
			for _, sign := range []int{-1, 0} { // blockNo < lib, blockNo == lib : refused
				e := g.EdgeUnder(cmps[0].Node, cmps[0].Expr, cmps[0].Holds(sign), status, map[string]bool{"hasStatus": true})
				if e == nil || g.CanReachAny(e, trues) || !g.CanReachAny(e, falses) {
					ok = false
				}
			}
			e := g.EdgeUnder(cmps[0].Node, cmps[0].Expr, cmps[0].Holds(+1), status, map[string]bool{"hasStatus": true})
			if e == nil || !g.CanReachAny(e, trues) {
				ok = false
			}
			// every accepting return passes the comparison
			for _, r := range trues {
				if !g.Dominated(r, an.SetOf(cmps[0].Node)) {
					ok = false
				}
			}
		}
		c.Check("block-gate", "consensus/impl/dpos.(*DPoS).VerifyTimestamp|lib-guard", pos, ok, "a block whose number is lower than or equal to the LIB number is refused; a higher one is not refused by this guard (exact operator)")
	}
}

func c08ReorgGate(c *rep.Ctx) {
	f := c.Fn("consensus/impl/dpos.(*Status).NeedReorganization")
	if f == nil {
		return
	}
	g := f.Graph()
	info := f.Info()
	root := f.ParamObj(0)
	libF := c.Prog.LookupField("consensus/impl/dpos", "libStatus", "Lib")
	noF := c.Prog.LookupField("consensus/impl/dpos", "blockInfo", "BlockNo")
	roleRoot := func(e ast.Expr) bool { return an.ObjOf(info, e) == root && root != nil }
	roleLib := func(e ast.Expr) bool {
		if o := an.ObjOf(info, e); o != nil {
			if rhs, _ := g.SingleDef(o); rhs != nil {
				return readsField(info, rhs, libF) && readsField(info, rhs, noF)
			}
		}
		return libF != nil && noF != nil && readsField(info, e, libF) && readsField(info, e, noF)
	}
	cmps, und := f.ExprCmps(roleRoot, roleLib, 0)
	ok := len(cmps) == 1 && len(und) == 0 && cmps[0].Op == token.GEQ
	var pos token.Pos
	// branch form: `if rootNo >= libNo { return true } ... return false` (any spelling of the comparison):
	// decided on the ordering abstraction: true is returned exactly for d = root - LIB >= 0
	var branchCmp *an.OrdCmp
	if bc, bund := g.OrdCmps(roleRoot, roleLib, 0); len(bc) == 1 && len(bund) == 0 {
		trues, falses := g.BoolReturns(true), g.BoolReturns(false)
		good := len(trues) > 0 && len(falses) > 0
		for _, sign := range []int{0, +1} {
			e := g.EdgeFor(bc[0], sign)
			if e == nil || g.CanReachAny(e, falses) || !g.CanReachAny(e, trues) {
				good = false
			}
		}
		if e := g.EdgeFor(bc[0], -1); e == nil || g.CanReachAny(e, trues) || !g.CanReachAny(e, falses) {
			good = false
		}
		if good {
			branchCmp = &bc[0]
		}
	}
	if branchCmp != nil {
		ok = true
		pos = branchCmp.Expr.Pos()
	} else if len(cmps) > 0 {
		pos = cmps[0].Expr.Pos()
		// the comparison decides the result: it is returned (directly or through one local) on the path where a LIB exists
		ret := false
		for _, r := range g.Returns() {
			rs := r.Ast.(*ast.ReturnStmt)
			if len(rs.Results) != 1 {
				continue
			}
			if ast.Unparen(rs.Results[0]) == cmps[0].Expr {
				ret = true
			}
			if o := an.ObjOf(info, rs.Results[0]); o != nil {
				if rhs, _ := g.SingleDef(o); rhs != nil && ast.Unparen(rhs) == cmps[0].Expr {
					ret = true
				}
			}
		}
		ok = ok && ret
	}
	c.Check("reorg-gate", "consensus/impl/dpos.(*Status).NeedReorganization|operator", pos, ok, "a reorganisation is allowed exactly when the fork point's number is >= the LIB number (a fork below the irreversible block is refused; together with `number <= LIB refused` for blocks the two guards partition consistently)")
	// `return true` without a comparison only when no LIB exists
	nUncond := 0
	for _, r := range g.BoolReturns(true) {
		at := func(e ast.Expr) (string, bool, bool) {
			be, isB := e.(*ast.BinaryExpr)
			if !isB || (be.Op != token.EQL && be.Op != token.NEQ) {
				return "", false, false
			}
			if tv, has := info.Types[be.Y]; has && tv.IsNil() && an.FieldOf(info, be.X) == libF {
				return "nolib", be.Op == token.NEQ, true
			}
			// a LIB numbered 0 is the genesis placeholder: every fork point is >= 0, so it is the same case
			if tv, has := info.Types[be.Y]; has && tv.Value != nil && tv.Value.ExactString() == "0" && an.FieldOf(info, be.X) == noF && readsField(info, be.X, libF) {
				return "nolib", be.Op == token.NEQ, true
			}
			return "", false, false
		}
		okT, how := g.GuardedAt(r, at, map[string]bool{"nolib": true})
		if !okT && branchCmp != nil {
			// the `return true` of the branch form: reached only on the root >= LIB edges (checked above)
			if e := g.EdgeFor(*branchCmp, -1); e != nil && !g.CanReachAny(e, []*an.Node{r}) && g.Dominated(r, an.SetOf(branchCmp.Node)) {
				continue
			}
		}
		nUncond++
		c.Check("reorg-gate", "consensus/impl/dpos.(*Status).NeedReorganization|unconditional-true", r.Ast.Pos(), okT, "the veto is skipped only while no LIB exists: "+how)
	}
	if nUncond == 0 {
		c.Undecide("reorg-gate", "consensus/impl/dpos.(*Status).NeedReorganization", "no `return true` for the no-LIB case found: the shape of the veto changed")
	}
}

func c08LibWriters(c *rep.Ctx) {
	p := c.Prog
	libF := p.LookupField("consensus/impl/dpos", "libStatus", "Lib")
	if libF == nil {
		c.Undecide("lib-writers", "dpos.libStatus.Lib", "field not found")
		return
	}
	allowed := map[string]string{
		"consensus/impl/dpos.(*Status).updateLIB":    "the only run-time writer",
		"consensus/impl/dpos.newLibStatus":           "constructor (empty LIB)",
		"consensus/impl/dpos.(*bootLoader).load":     "operator-requested reset (ForceResetHeight) at boot",
	}
	n := 0
	for _, w := range p.FieldWrites(map[*types.Var]bool{libF: true}) {
		fn := "<package level>"
		if w.Fn != nil {
			fn = w.Fn.TopDecl().Name()
		}
		n++
		_, ok := allowed[fn]
		c.Check("lib-writers", fn+"|"+w.How, w.Pos, ok, "the LIB may be written only by updateLIB, the constructor and the boot-time reset")
	}
	c.Floor("lib-writers", 3)
	// updateLIB is called only from Status.Update with the non-nil result of libState.update()
	sites := p.CallSitesOf(map[string]bool{"consensus/impl/dpos.(*Status).updateLIB": true})
	for _, s := range sites {
		fn := s.Fn.TopDecl().Name()
		ok := fn == "consensus/impl/dpos.(*Status).Update"
		if ok {
			g := s.Fn.Graph()
			info := s.Fn.Info()
			arg := an.ObjOf(info, s.Call.Args[0])
			rhs, _ := g.SingleDefInLoop(arg)
			ok = rhs != nil && containsCallTo(info, rhs, "consensus/impl/dpos.(*libStatus).update")
			if ok {
				node := g.NodeContaining(s.Call.Pos())
				okN, _ := g.GuardedAt(node, an.NilAtom(info, arg), map[string]bool{"nil": false})
				ok = okN
				// under the status lock
				locks := g.CallsTo("sync.(*RWMutex).Lock")
				ok = ok && len(locks) >= 1 && g.Dominated(node, nodesOf(locks))
			}
		}
		c.Check("lib-writers", fn+"|updateLIB-call", s.Call.Pos(), ok, "updateLIB receives the non-nil LIB just computed by libStatus.update, under the status lock")
	}
	if len(sites) != 1 {
		c.Check("lib-writers", "updateLIB|single-caller", token.NoPos, false, "updateLIB must have exactly one caller")
	}
	// update(): the LIB is computed only after the pre-LIB of the newest block was recorded
	if f := c.Fn("consensus/impl/dpos.(*libStatus).update"); f != nil {
		g := f.Graph()
		calc := g.CallsTo("consensus/impl/dpos.(*libStatus).calcLIB")
		upd := g.CallsTo("consensus/impl/dpos.(*libStatus).updatePreLIB")
		ok := len(calc) == 1 && len(upd) == 1 && g.Dominated(calc[0].Node, nodesOf(upd))
		c.Check("lib-writers", "consensus/impl/dpos.(*libStatus).update|order", f.Pos(), ok, "the LIB is recomputed after the newest pre-LIB proposal was recorded")
	}
}

// c08IsExpr2n3p1:  n*2/3 + 1   (commutative variants)
func c08IsExpr2n3p1(info *types.Info, e ast.Expr, n types.Object) bool {
	isConst := func(x ast.Expr, v string) bool {
		tv, ok := info.Types[x]
		return ok && tv.Value != nil && tv.Value.ExactString() == v
	}
	add, ok := ast.Unparen(e).(*ast.BinaryExpr)
	if !ok || add.Op != token.ADD {
		return false
	}
	q, one := add.X, add.Y
	if isConst(q, "1") {
		q, one = one, q
	}
	if !isConst(one, "1") {
		return false
	}
	quo, ok := ast.Unparen(q).(*ast.BinaryExpr)
	if !ok || quo.Op != token.QUO || !isConst(quo.Y, "3") {
		return false
	}
	mul, ok := ast.Unparen(quo.X).(*ast.BinaryExpr)
	if !ok || mul.Op != token.MUL {
		return false
	}
	return (an.ObjOf(info, mul.X) == n && isConst(mul.Y, "2")) || (an.ObjOf(info, mul.Y) == n && isConst(mul.X, "2"))
}

func c08Formulas(c *rep.Ctx) {
	// confirmations required = 2n/3 + 1
	if f := c.Fn("consensus/impl/dpos.(*libStatus).setConfirmsRequired"); f != nil {
		ok := false
		var pos token.Pos
		check := func(fn *an.Func) {
			for _, r := range fn.Graph().Returns() {
				rs := r.Ast.(*ast.ReturnStmt)
				if len(rs.Results) == 1 && c08IsExpr2n3p1(fn.Info(), rs.Results[0], fn.ParamObj(0)) {
					ok, pos = true, rs.Pos()
				}
			}
		}
		for _, l := range f.Lits {
			check(l)
		}
		// the field receives that value of the bp count parameter
		crF := c.Prog.LookupField("consensus/impl/dpos", "libStatus", "confirmsRequired")
		wOK := false
		for _, w := range c.Prog.FieldWrites(map[*types.Var]bool{crF: true}) {
			if w.Fn == f {
				n := f.Graph().NodeContaining(w.Pos)
				if as, isAs := n.Ast.(*ast.AssignStmt); isAs && len(as.Rhs) == 1 && mentions(f.Info(), as.Rhs[0], f.ParamObj(0)) {
					wOK = true
				}
			}
		}
		c.Check("threshold", "consensus/impl/dpos.(*libStatus).setConfirmsRequired|2n/3+1", pos, ok && wOK, "a block becomes a pre-LIB after confirmations by 2n/3+1 distinct producers' blocks (expression shape n*2/3+1 applied to the producer count)")
	}
	// status.Update re-derives the threshold from the current producer set
	if f := c.Fn("consensus/impl/dpos.(*Status).Update"); f != nil {
		s := f.Graph().CallsTo("consensus/impl/dpos.(*libStatus).setConfirmsRequired")
		ok := len(s) == 1
		if ok {
			arg := ast.Unparen(s[0].Call.Args[0])
			if o := an.ObjOf(f.Info(), arg); o != nil {
				if rhs, _ := f.Graph().SingleDef(o); rhs != nil {
					arg = rhs
				}
			}
			ok = containsCallTo(f.Info(), arg, "consensus/impl/dpos/bp.(*Snapshots).Size")
		}
		c.Check("threshold", "consensus/impl/dpos.(*Status).Update|producer-count", posOf(s), ok, "the threshold is recomputed from the size of the current producer set on every status update")
	}
	// calcLIB: sorted ascending by Plib.BlockNo, element (len-1)/3
	if f := c.Fn("consensus/impl/dpos.(*libStatus).calcLIB"); f != nil {
		g := f.Graph()
		info := f.Info()
		noF := c.Prog.LookupField("consensus/impl/dpos", "blockInfo", "BlockNo")
		sorts := g.CallsTo("sort.Slice", "sort.SliceStable")
		okSort := false
		var sorted types.Object
		if len(sorts) == 1 {
			sorted = an.ObjOf(info, sorts[0].Call.Args[0])
			if lit, isLit := ast.Unparen(sorts[0].Call.Args[1]).(*ast.FuncLit); isLit {
				lf := c.Prog.LitFunc(lit)
				for _, r := range lf.Graph().Returns() {
					rs := r.Ast.(*ast.ReturnStmt)
					if be, isB := ast.Unparen(rs.Results[0]).(*ast.BinaryExpr); isB && be.Op == token.LSS && readsField(info, be.X, noF) && readsField(info, be.Y, noF) {
						// a[i] < a[j]
						xi, yi := "", ""
						ast.Inspect(be.X, func(n ast.Node) bool {
							if ix, ok := n.(*ast.IndexExpr); ok {
								xi = an.ExprString(ix.Index)
							}
							return true
						})
						ast.Inspect(be.Y, func(n ast.Node) bool {
							if ix, ok := n.(*ast.IndexExpr); ok {
								yi = an.ExprString(ix.Index)
							}
							return true
						})
						p0, p1 := lf.ParamObj(0), lf.ParamObj(1)
						okSort = p0 != nil && p1 != nil && xi == p0.Name() && yi == p1.Name()
					}
				}
			}
		}
		c.Check("threshold", "consensus/impl/dpos.(*libStatus).calcLIB|ascending", posOf(sorts), okSort, "the producers' proposals are sorted ascending by proposed block number")
		okIdx := false
		var ipos token.Pos
		ast.Inspect(f.Body, func(n ast.Node) bool {
			ix, ok := n.(*ast.IndexExpr)
			if !ok || an.ObjOf(info, ix.X) != sorted || sorted == nil {
				return true
			}
			quo, ok := ast.Unparen(ix.Index).(*ast.BinaryExpr)
			if !ok || quo.Op != token.QUO {
				return true
			}
			tv, has := info.Types[quo.Y]
			if !has || tv.Value == nil || tv.Value.ExactString() != "3" {
				return true
			}
			sub, ok := ast.Unparen(quo.X).(*ast.BinaryExpr)
			if !ok || sub.Op != token.SUB {
				return true
			}
			call, ok := ast.Unparen(sub.X).(*ast.CallExpr)
			tv1, has1 := info.Types[sub.Y]
			if ok && an.IsBuiltin(info, call, "len") && an.ObjOf(info, call.Args[0]) == sorted && has1 && tv1.Value != nil && tv1.Value.ExactString() == "1" {
				okIdx, ipos = true, ix.Pos()
			}
			return true
		})
		c.Check("threshold", "consensus/impl/dpos.(*libStatus).calcLIB|index", ipos, okIdx, "the LIB is the proposal at index (len-1)/3 of the ascending list: at least two thirds of the producers have proposed it or a later block")
		// the index is applied after the sort
		if okIdx && len(sorts) == 1 {
			n := g.NodeContaining(ipos)
			c.Check("threshold", "consensus/impl/dpos.(*libStatus).calcLIB|sorted-before-index", ipos, n != nil && g.Dominated(n, nodesOf(sorts)), "the index is taken from the sorted list")
		}
	}
}

func c08Persistence(c *rep.Ctx) {
	p := c.Prog
	// the status is saved through the writer of the tip-moving transaction
	if f := c.Fn("chain.(*ChainDB).connectToChain"); f != nil {
		info := f.Info()
		s := f.Graph().CallsTo("consensus.(ChainConsensus).Save")
		ok := len(s) == 1 && argIs(info, s[0].Call, 0, f.ParamObj(0))
		c.Check("persistence", "chain.(*ChainDB).connectToChain|Save(tx)", posOf(s), ok, "the consensus status is written through the same DB transaction that records the new tip")
	}
	if f := c.Fn("chain.(*ChainDB).swapChainMapping"); f != nil {
		g := f.Graph()
		info := f.Info()
		s := g.CallsTo("consensus.(ChainConsensus).Save")
		bulk := g.CallsTo("github.com/aergoio/aergo-lib/db.(DB).NewBulk")
		flush := g.CallsTo("github.com/aergoio/aergo-lib/db.(Bulk).Flush")
		ok := len(s) == 1 && len(bulk) == 1 && len(flush) == 1
		if ok {
			b := g.ResultVarAt(bulk[0], 0)
			ok = argIs(info, s[0].Call, 0, b) && recvObj(info, flush[0].Call) == b && g.Dominated(flush[0].Node, nodesOf(s))
		}
		c.Check("persistence", "chain.(*ChainDB).swapChainMapping|Save(bulk)", posOf(s), ok, "after a reorganisation the consensus status is written in the same bulk as the height mapping, before it is flushed")
	}
	if f := c.Fn("consensus/impl/dpos.(*libStatus).save"); f != nil {
		g := f.Graph()
		info := f.Info()
		sets := g.Calls(func(fn *types.Func, call *ast.CallExpr) bool { return fn != nil && fn.Name() == "Set" })
		ok := len(sets) == 1 && recvObj(info, sets[0].Call) == f.ParamObj(0) && containsCallTo(info, sets[0].Call.Args[0], "types/dbkey.DposLibStatus")
		if ok {
			enc := g.CallsTo("internal/enc/gob.Encode")
			ok = len(enc) == 1 && g.Dominated(sets[0].Node, g.ErrNilEdges(enc[0]))
		}
		c.Check("persistence", "consensus/impl/dpos.(*libStatus).save|writer", f.Pos(), ok, "the status is written only through the transaction writer it was handed, under the DposLibStatus key, after it was encoded successfully")
	}
	if f := c.Fn("consensus/impl/dpos.(*Status).Save"); f != nil {
		s := f.Graph().CallsTo("consensus/impl/dpos.(*libStatus).save")
		ok := len(s) == 1 && argIs(f.Info(), s[0].Call, 0, f.ParamObj(0))
		c.Check("persistence", "consensus/impl/dpos.(*Status).Save|delegates", f.Pos(), ok, "Status.Save forwards the caller's transaction writer")
	}
	// reload: decode, then rebuild the confirmations from the stored blocks up to the best block
	if f := c.Fn("consensus/impl/dpos.(*bootLoader).loadLibStatus"); f != nil {
		g := f.Graph()
		dec := errGate(c, f, "consensus/impl/dpos.(*bootLoader).decodeStatus")
		ld := sitesOf(f, "consensus/impl/dpos.(*libStatus).load")
		mustPrecede(c, "persistence", f, dec, ld, nil, "the stored status is decoded and then completed from the stored blocks")
		ok := len(ld) == 1 && containsCallTo(f.Info(), ld[0].Call.Args[0], "types.(*Block).BlockNo")
		for _, r := range g.Returns() {
			rs := r.Ast.(*ast.ReturnStmt)
			if tv, has := f.Info().Types[rs.Results[0]]; has && tv.IsNil() {
				continue
			}
			ok = ok && g.Dominated(r, nodesOf(ld))
		}
		c.Check("persistence", "consensus/impl/dpos.(*bootLoader).loadLibStatus|rebuild", f.Pos(), ok, "a loaded status is returned only after it was rebuilt up to the best block")
	}
	_ = p
}
