package props

import (
	"go/ast"
	"go/token"
	"go/types"

	"verif/checker/internal/an"
	"verif/checker/internal/rep"
)

// C09 — block producer legitimacy: one producer per slot, valid signature,
// not from the future.
//
// Decided clauses: the block signature covers every header field except the
// signature (field coverage, shared with C19); the acceptance gates in the
// chain service run in order (timestamp/LIB, signature, then chain
// processing; consensus validity before execution); DPoS validity is the
// slot-ownership test on the producer index derived from the header's own key;
// slot ownership is an equality against one function of the slot; the
// future-slot test has the exact threshold of two slots.

func init() { register("C09", runC09) }

func runC09(c *rep.Ctx) {
	c.Explain = "Decides the structural conditions of producer legitimacy on all paths: the digest that is signed and verified is produced by the writer that feeds every BlockHeader field except Sign, and the verifying key is the header's own PubKey (a covered field); ChainService.addBlockInternal reaches signature verification only after the timestamp gate and reaches orphan handling / chain processing only after VerifySign returned nil; executeBlock and executeBlockReco run (or adopt) a block only after IsBlockValid returned nil; DPoS.IsBlockValid accepts only if Slot.IsFor holds for the index that the producer cluster assigns to the identity derived from the header key and the slot derived from the header timestamp, with the cluster size as modulus; an identity outside the cluster maps to a sentinel index larger than any producer count; IsFor is an equality with nextIndex % count (one owner per slot); VerifyTimestamp refuses future slots and IsFuture is exactly 'at least two slot indexes ahead of now'. It does not decide the slot arithmetic at millisecond boundaries."
	c.NotDecided = []string{"slot index arithmetic around millisecond boundaries and round wrap-arounds", "producer-set membership over time (snapshots)", "raft and sbp variants beyond the gate order (raft checks the leader through the WAL; sbp accepts any block)"}
	c.Assume = []string{"libp2p's key unmarshalling and Verify are correct"}
	// 1. signature coverage (rules recorded by the C19 engine under this property)
	c19HeaderDigestCoverage(c)
	c19HeaderSignFlow(c)
	c09Gates(c)
	c09DposValidity(c)
	c09Slot(c)
}

func c09Gates(c *rep.Ctx) {
	if f := c.Fn("chain.(*ChainService).addBlockInternal"); f != nil {
		vt := boolGate(c, f, true, "consensus.(ChainConsensus).VerifyTimestamp")
		vs := errGate(c, f, "consensus.(ChainConsensus).VerifySign")
		mustPrecede(c, "accept-gates", f, vt, vs.sites, nil, "the signature is examined only for a block that passed the timestamp / irreversibility gate")
		after := sitesOf(f, "chain.(*ChainService).isOrphan", "chain.(*ChainService).handleOrphan", "chain.newChainProcessor", "chain.(*chainProcessor).reorganize")
		run := funcValueCalls(f, c.Prog.LookupField("chain", "chainProcessor", "run"))
		after = append(after, run...)
		if len(after) < 5 {
			c.Undecide("accept-gates", "chain.(*ChainService).addBlockInternal", "orphan handling / chain processing calls not found")
		}
		mustPrecede(c, "accept-gates", f, vs, after, nil, "a block is parked as an orphan, stored, executed or used for a reorganisation only after its signature verified")
		for _, s := range vs.sites {
			c.Check("accept-gates", "chain.(*ChainService).addBlockInternal|VerifySign(arg)", s.Call.Pos(), argIs(f.Info(), s.Call, 0, f.ParamObj(0)), "the signature check examines the block that is being added")
		}
	}
	for _, name := range []string{"chain.(*ChainService).executeBlock", "chain.(*ChainService).executeBlockReco"} {
		f := c.Fn(name)
		if f == nil {
			continue
		}
		info := f.Info()
		valid := errGate(c, f, "consensus.(ChainConsensus).IsBlockValid")
		targets := sitesOf(f, "chain.newBlockExecutor", "state.(*ChainStateDB).SetRoot", "consensus.(ChainConsensus).Update", "chain.(*ChainDB).writeReceiptsAndOperations")
		// the Update(bestBlock) on the failure arm of execution is a restore, not an adoption: only targets taking the block matter
		var t2 []an.Site
		for _, t := range targets {
			if an.FuncName(t.Fn) == "consensus.(ChainConsensus).Update" && !argIs(info, t.Call, 0, f.ParamObj(1)) {
				continue
			}
			t2 = append(t2, t)
		}
		if len(t2) < 2 {
			c.Undecide("accept-gates", name, "execution / adoption calls not found")
		}
		mustPrecede(c, "accept-gates", f, valid, t2, nil, "a block is executed or adopted only after the consensus accepted its producer for its slot")
		for _, s := range valid.sites {
			c.Check("accept-gates", name+"|IsBlockValid(arg)", s.Call.Pos(), argIs(info, s.Call, 0, f.ParamObj(1)), "the consensus check examines the block that is being executed")
		}
	}
	// DPoS.VerifySign: nil only if valid && err == nil
	if f := c.Fn("consensus/impl/dpos.(*DPoS).VerifySign"); f != nil {
		g := f.Graph()
		info := f.Info()
		vs := g.CallsTo("types.(*Block).VerifySign")
		ok := len(vs) == 1 && recvObj(info, vs[0].Call) == f.ParamObj(0)
		if ok {
			valid := g.BoolEdges(vs[0], true)
			noErr := g.ErrNilEdges(vs[0])
			ok = len(valid) > 0 && len(noErr) > 0
			for _, r := range g.NilReturns() {
				ok = ok && g.Dominated(r, valid) && g.Dominated(r, noErr)
			}
		}
		c.Check("accept-gates", "consensus/impl/dpos.(*DPoS).VerifySign|accept", f.Pos(), ok, "the consensus reports a good signature only if Block.VerifySign returned (true, nil)")
	}
}

func c09DposValidity(c *rep.Ctx) {
	f := c.Fn("consensus/impl/dpos.(*DPoS).IsBlockValid")
	if f == nil {
		return
	}
	g := f.Graph()
	info := f.Info()
	blk := f.ParamObj(0)
	isFor := g.CallsTo("consensus/impl/dpos/slot.(*Slot).IsFor")
	if len(isFor) != 1 {
		c.Check("slot-owner", "consensus/impl/dpos.(*DPoS).IsBlockValid|IsFor", f.Pos(), false, "expected exactly one slot-ownership test")
		return
	}
	owner := g.BoolEdges(isFor[0], true)
	ok := len(owner) > 0
	for _, r := range g.NilReturns() {
		ok = ok && g.Dominated(r, owner)
	}
	c.Check("slot-owner", "consensus/impl/dpos.(*DPoS).IsBlockValid|accept", isFor[0].Call.Pos(), ok, "a block is valid for the consensus only if its producer's index owns the slot of its timestamp")
	// provenance of the three operands
	call := isFor[0].Call
	okIdx, okSize, okSlot := false, false, false
	if len(call.Args) == 2 {
		if rhs, _ := g.SingleDef(an.ObjOf(info, call.Args[0])); rhs != nil {
			if ic, isCall := ast.Unparen(rhs).(*ast.CallExpr); isCall && an.CalleeName(info, ic) == "consensus/impl/dpos/bp.(*Cluster).BpID2Index" {
				// the id comes from block.BPID() whose error is handled
				for _, s := range g.CallsTo("types.(*Block).BPID") {
					if recvObj(info, s.Call) == blk && argIs(info, ic, 0, g.ResultVarAt(s, 0)) && g.Dominated(isFor[0].Node, g.ErrNilEdges(s)) {
						okIdx = true
					}
				}
			}
		}
		okSize = containsCallTo(info, call.Args[1], "consensus/impl/dpos/bp.(*Cluster).Size")
	}
	if rhs, _ := g.SingleDef(recvObj(info, call)); rhs != nil {
		if sc, isCall := ast.Unparen(rhs).(*ast.CallExpr); isCall && an.CalleeName(info, sc) == "consensus/impl/dpos/slot.NewFromUnixNano" {
			arg := sc.Args[0]
			src := ast.Expr(arg)
			if r2, _ := g.SingleDef(an.ObjOf(info, arg)); r2 != nil {
				src = r2
			}
			okSlot = containsCallTo(info, src, "types.(*BlockHeader).GetTimestamp") && mentions(info, src, blk)
		}
	}
	c.Check("slot-owner", "consensus/impl/dpos.(*DPoS).IsBlockValid|index", call.Pos(), okIdx, "the producer index is the cluster's index of the identity derived from the block's own public key (derivation failure is an error)")
	c.Check("slot-owner", "consensus/impl/dpos.(*DPoS).IsBlockValid|size", call.Pos(), okSize, "the modulus is the size of the current producer cluster")
	c.Check("slot-owner", "consensus/impl/dpos.(*DPoS).IsBlockValid|slot", call.Pos(), okSlot, "the slot is derived from the block's own timestamp")
	// BPID derives the identity from the header's public key
	if bf := c.Fn("types.(*BlockHeader).BPID"); bf != nil {
		pub := c.Prog.LookupField("types", "BlockHeader", "PubKey")
		c.Check("slot-owner", "types.(*BlockHeader).BPID|from-pubkey", bf.Pos(), pub != nil && readsField(bf.Info(), bf.Body, pub), "the producer identity is derived from the PubKey header field, which the signature covers")
	}
	// an identity outside the cluster gets the sentinel index, which is the maximum of the index type
	if bf := c.Fn("consensus/impl/dpos/bp.(*Cluster).BpID2Index"); bf != nil {
		bg := bf.Graph()
		nilIdx, _ := c.Prog.LookupObj("consensus/impl/dpos/bp", "indexNil").(*types.Const)
		ok := nilIdx != nil && nilIdx.Val().ExactString() == "65535"
		// every return is either the looked-up index on the exist edge, or indexNil
		for _, r := range bg.Returns() {
			rs := r.Ast.(*ast.ReturnStmt)
			if len(rs.Results) != 1 {
				ok = false
				continue
			}
			if o, isC := bf.Info().Uses[identOf(rs.Results[0])].(*types.Const); isC && o == nilIdx {
				continue
			}
			// the value of the map lookup, under its ok flag
			facts := bg.FactsAt(r)
			under := false
			for _, ft := range facts {
				if ft.Val {
					if id, isID := ast.Unparen(ft.Cond).(*ast.Ident); isID && id.Name != "_" {
						under = true
					}
				}
			}
			ok = ok && under
		}
		c.Check("slot-owner", "consensus/impl/dpos/bp.(*Cluster).BpID2Index|non-member", bf.Pos(), ok, "an identity that is not in the producer cluster maps to the sentinel index 65535 (the maximum of the 16-bit index type, never equal to nextIndex % count)")
	}
}

func identOf(e ast.Expr) *ast.Ident {
	id, _ := ast.Unparen(e).(*ast.Ident)
	return id
}

func c09Slot(c *rep.Ctx) {
	p := c.Prog
	next := p.LookupField("consensus/impl/dpos/slot", "Slot", "nextIndex")
	// IsFor: equality with NextBpIndex(count)
	if f := c.Fn("consensus/impl/dpos/slot.(*Slot).IsFor"); f != nil {
		info := f.Info()
		ok := false
		g := f.Graph()
		// once-defined locals are looked through (operands are decided exactly by owner-operand in c09_gap.go)
		var resolve func(e ast.Expr, depth int) ast.Expr
		resolve = func(e ast.Expr, depth int) ast.Expr {
			e = ast.Unparen(e)
			if o := an.ObjOf(info, e); o != nil && depth < 5 {
				if rhs, _ := g.SingleDef(o); rhs != nil && rhs != e {
					return resolve(rhs, depth+1)
				}
			}
			return e
		}
		nRet := 0
		for _, r := range g.Returns() {
			rs := r.Ast.(*ast.ReturnStmt)
			if len(rs.Results) != 1 {
				continue
			}
			nRet++
			be, isB := resolve(rs.Results[0], 0).(*ast.BinaryExpr)
			if !isB || be.Op != token.EQL {
				ok = false
				break
			}
			l, rr := resolve(be.X, 0), resolve(be.Y, 0)
			if !containsCallTo(info, l, "consensus/impl/dpos/slot.(*Slot).NextBpIndex") {
				l, rr = rr, l
			}
			ok = containsCallTo(info, l, "consensus/impl/dpos/slot.(*Slot).NextBpIndex") && !containsCallTo(info, rr, "consensus/impl/dpos/slot.(*Slot).NextBpIndex")
			if !ok {
				break
			}
		}
		ok = ok && nRet > 0
		c.Check("slot-function", "consensus/impl/dpos/slot.(*Slot).IsFor|equality", f.Pos(), ok, "a slot belongs to index i exactly when NextBpIndex(count) == i: one function value, hence at most one owner per slot")
	}
	if f := c.Fn("consensus/impl/dpos/slot.(*Slot).NextBpIndex"); f != nil {
		info := f.Info()
		ok := false
		for _, r := range f.Graph().Returns() {
			rs := r.Ast.(*ast.ReturnStmt)
			res := ast.Unparen(rs.Results[0])
			if o := an.ObjOf(info, res); o != nil {
				if rhs, _ := f.Graph().SingleDef(o); rhs != nil {
					res = ast.Unparen(rhs)
				}
			}
			// the modulus operand is decided exactly by owner-operand (c09_gap.go); here: the result is nextIndex % something
			if be, isB := res.(*ast.BinaryExpr); isB && be.Op == token.REM && next != nil && readsField(info, be.X, next) {
				ok = true
			}
		}
		c.Check("slot-function", "consensus/impl/dpos/slot.(*Slot).NextBpIndex|modulo", f.Pos(), ok, "the owner index of a slot is its index modulo the producer count")
	}
	// IsFuture: s.nextIndex >= Now().nextIndex + 2
	if f := c.Fn("consensus/impl/dpos/slot.(*Slot).IsFuture"); f != nil {
		g := f.Graph()
		info := f.Info()
		roleS := func(e ast.Expr) bool {
			sel, ok := ast.Unparen(e).(*ast.SelectorExpr)
			return ok && an.FieldOf(info, e) == next && an.ObjOf(info, sel.X) == recvParam(f)
		}
		roleNow := func(e ast.Expr) bool {
			return an.FieldOf(info, e) == next && containsCallTo(info, e, "consensus/impl/dpos/slot.Now")
		}
		// d = (s.next - 2) - now.next ; future iff d >= 0
		cmps, und := g.OrdCmps(roleS, roleNow, -2)
		ok := len(cmps) == 1 && len(und) == 0
		var pos token.Pos
		if len(cmps) == 0 && len(und) == 0 {
			// no index comparison in a branch condition (e.g. `return a >= b+2`, or the difference in a local):
			// the form is decided by future-index in c09_gap.go (linear form, either return or branch form)
			c.Note("future-slot two-slots: no branch comparison in IsFuture; decided by future-index")
			ok = true
			pos = f.Pos()
		} else if ok {
			pos = cmps[0].Expr.Pos()
			trues, falses := g.BoolReturns(true), g.BoolReturns(false)
			for _, sign := range []int{0, +1} {
				e := g.EdgeFor(cmps[0], sign)
				if e == nil || g.CanReachAny(e, falses) || !g.CanReachAny(e, trues) {
					ok = false
				}
			}
			e := g.EdgeFor(cmps[0], -1)
			if e == nil || g.CanReachAny(e, trues) {
				ok = false
			}
		}
		c.Check("future-slot", "consensus/impl/dpos/slot.(*Slot).IsFuture|two-slots", pos, ok, "a slot is 'future' exactly when its index is at least two ahead of the current slot index")
	}
	if f := c.Fn("consensus/impl/dpos.(*DPoS).VerifyTimestamp"); f != nil {
		g := f.Graph()
		info := f.Info()
		fut := g.CallsTo("consensus/impl/dpos/slot.(*Slot).IsFuture")
		ok := len(fut) == 1
		if ok {
			notFuture := g.BoolEdges(fut[0], false)
			ok = len(notFuture) > 0
			for _, r := range g.BoolReturns(true) {
				ok = ok && g.Dominated(r, notFuture)
			}
			// the slot examined comes from the block's timestamp
			src := ast.Node(fut[0].Call)
			okTs := containsCallTo(info, src, "types.(*BlockHeader).GetTimestamp")
			var follow func(n ast.Node, depth int)
			follow = func(n ast.Node, depth int) {
				if depth > 5 {
					return
				}
				ast.Inspect(n, func(n ast.Node) bool {
					if id, isID := n.(*ast.Ident); isID {
						if o := info.Uses[id]; o != nil {
							if rhs, _ := g.SingleDef(o); rhs != nil {
								if containsCallTo(info, rhs, "types.(*BlockHeader).GetTimestamp") && mentions(info, rhs, f.ParamObj(0)) {
									okTs = true
								} else {
									follow(rhs, depth+1)
								}
							}
						}
					}
					return true
				})
			}
			follow(fut[0].Call, 0)
			ok = ok && okTs
		}
		c.Check("future-slot", "consensus/impl/dpos.(*DPoS).VerifyTimestamp|future-guard", posOf(fut), ok, "a block is accepted only if the slot of its own timestamp is not a future slot")
	}
}

func recvParam(f *an.Func) types.Object {
	if f.Decl == nil || f.Decl.Recv == nil || len(f.Decl.Recv.List) == 0 || len(f.Decl.Recv.List[0].Names) == 0 {
		return nil
	}
	return f.Info().Defs[f.Decl.Recv.List[0].Names[0]]
}
